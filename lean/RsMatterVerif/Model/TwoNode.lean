import RsMatterVerif.Model.Transport
/-!
# Two-node model of reliable messaging (C09)

Two nodes on one exchange of one session, composed from the transliterated pieces of
`Model/Transport.lean` exactly as `Session::pre_send` / `Session::post_recv` /
`TransportRunner::handle_rx_packet` compose them:

* node **A** (sender): its application sends messages number 0, 1, 2, … one after the other with
  `Exchange::send_with` (stop-and-wait: the next call starts when the previous one returned, the
  application stops at the first failed call; any number of messages, on either session kind);
  `send`  = first `pre_send` of a new reliable message (`Session::pre_send` takes a new counter,
            `ReliableMessage::pre_send` creates the retransmission entry),
  `retx`  = `pre_send` again after the back-off (`RetransEntry::pre_send` counts the attempt),
  `giveup`= the `pre_send` that finds the attempt counter at the limit: `TxTimeout`;
* node **B** (receiver): `post_recv` = receive window (`Dedup.postRecvPlain`) then
  `ReliableMessage::post_recv`, the application logs the message; `ackB` = the application's
  `Exchange::acknowledge` (`pre_send` of a stand-alone acknowledgement on the exchange, which takes
  its counter at that moment); a message the window rejects is answered by `handle_rx_packet` at
  once with a *fresh* stand-alone acknowledgement (`Session::pre_send(None, …)`: a new counter);
* the **network** is a multiset of datagrams in flight; the adversary may drop one, duplicate one, or
  deliver one (any one: delaying beyond later datagrams = reordering).

`acceptsTrace` replays a log of observed system-level events (what each stack handed to / took from
the network, what the applications saw) on this model: every observed event must be an enabled
transition and produce exactly the observed datagrams / application events.
Import-free apart from `Model/Transport`.
-/
namespace TwoNode
open Transport Dedup

/-- a datagram in flight -/
inductive Dg
  /-- A → B: reliable application message number `idx` (no acknowledgement field) -/
  | data (ctr idx : Nat)
  /-- B → A: stand-alone acknowledgement with B's own counter `ctr` for A's counter `acked` -/
  | ack (ctr acked : Nat)
deriving DecidableEq, Repr, Inhabited

structure Sys where
  /-- receive windows behave as on a secure session (`true`) or an unsecured one -/
  enc : Bool := true
  /-- the peer-advertised active interval used for the back-off base (`None` = default) -/
  sai : Option Nat := none
  -- node A
  aCtr : Nat
  aMrp : Mrp := {}
  aRx : RxState := RxState.unsynced
  /-- number of the message whose send call is in progress -/
  cur : Option Nat := none
  /-- number of the next message the application sends -/
  next : Nat := 0
  /-- finished send calls (message number, success), newest first -/
  res : List (Nat × Bool) := []
  -- node B
  bCtr : Nat
  bMrp : Mrp := {}
  bRx : RxState := RxState.unsynced
  /-- B's application log, newest first -/
  app : List Nat := []
  -- network
  net : List Dg := []
  /-- GHOST (history variable, not part of the implementation's state): some copy of a data message
  was handed to B's stack although B's window had already moved more than `L` counters past it.
  On a secure session such a copy is rejected; on an unsecured one it *is* the restart rule of the
  receive window (`Dedup.PSpec.isRestart`): the copy is taken for a restarted peer and accepted. -/
  late : Bool := false
deriving Repr, Inhabited

def init (a0 b0 : Nat) (enc : Bool := true) (sai : Option Nat := none) : Sys :=
  { enc := enc, sai := sai, aCtr := a0, bCtr := b0 }

inductive Ev
  | send | retx | giveup
  /-- B's application acknowledges the message it received last -/
  | ackB
  | drop (d : Dg) | dup (d : Dg) | deliver (d : Dg)
deriving DecidableEq, Repr, Inhabited

/-- the application of A has not seen a failed call (it stops at the first failure) -/
def Sys.allOk (s : Sys) : Bool := s.res.all (·.2)

/-- `Dedup.postRecv … with_rollover = false` -/
def window (rx : RxState) (c : Nat) (enc : Bool) : RxState × Bool := Dedup.postRecvPlain rx c enc

/-- A's `Session::pre_send(Some(exchange), reliable)` for a *new* message: the counter it takes -/
def Sys.sendStep (s : Sys) : Option Sys :=
  if s.cur.isSome || !s.allOk || s.aMrp.retrans.isSome then none else
  let c := s.aCtr
  let r := s.aMrp.preSend c true none s.sai
  match r.2.2 with
  | some _ => none
  | none =>
    some { s with aCtr := s.aCtr + 1, aMrp := r.1, cur := some s.next, next := s.next + 1,
                  net := Dg.data c s.next :: s.net }

/-- A's `pre_send` of the pending message again (retransmission or give-up) -/
def Sys.resendStep (s : Sys) (wantGiveup : Bool) : Option Sys :=
  match s.cur, s.aMrp.retrans with
  | some i, some r =>
    let p := s.aMrp.preSend r.ctr true none s.sai
    match p.2.2 with
    | none => if wantGiveup then none else some { s with aMrp := p.1, net := Dg.data r.ctr i :: s.net }
    | some .txTimeout =>
      if wantGiveup then some { s with aMrp := p.1, cur := none, res := (i, false) :: s.res } else none
    | some _ => none
  | _, _ => none

/-- the copy `c` is *timely* for the window `rx`: not more than `L` counters behind the newest one
accepted (the two window kinds decide alike exactly on timely counters) -/
def timelyFor (rx : RxState) (c : Nat) : Bool := !rx.synced || decide (rx.max ≤ c + Dedup.L)

/-- B's stack takes `data c i` from the network -/
def Sys.recvData (s : Sys) (c i : Nat) : Sys :=
  let w := window s.bRx c s.enc
  let late := s.late || !(s.enc || timelyFor s.bRx c)
  if !w.2 then
    -- `handle_rx_packet`: Duplicate ⇒ fresh stand-alone acknowledgement outside any exchange
    { s with bRx := w.1, bCtr := s.bCtr + 1, net := Dg.ack s.bCtr c :: s.net, late := late }
  else
    -- `ReliableMessage::post_recv` (no acknowledgement field: cannot fail); the application logs it
    { s with bRx := w.1, bMrp := (s.bMrp.postRecv c none true 0).1, app := i :: s.app, late := late }

/-- B's application calls `acknowledge()`: a stand-alone acknowledgement if one is owed -/
def Sys.ackStep (s : Sys) : Option Sys :=
  if !s.bMrp.isAckPending then none else
  let p := s.bMrp.preSend s.bCtr false none none
  match p.2.1 with
  | some a => some { s with bMrp := p.1, bCtr := s.bCtr + 1, net := Dg.ack s.bCtr a :: s.net }
  | none => none

/-- A's exchange has processed an acknowledgement (`p` = result of `ReliableMessage::post_recv`):
what it means for the send call in progress -/
def Sys.afterAck (s : Sys) (rx : RxState) (p : Mrp × Option Err) : Sys :=
  match p.2 with
  | some _ => { s with aRx := rx, aMrp := p.1 }
  | none =>
    match s.cur with
    | some i =>
      -- `wait_tx` answers `Done` once nothing is pending any more
      if p.1.retrans.isNone then { s with aRx := rx, aMrp := p.1, cur := none, res := (i, true) :: s.res }
      else { s with aRx := rx, aMrp := p.1 }
    | none => { s with aRx := rx, aMrp := p.1 }

/-- A's stack takes `ack bc k` from the network -/
def Sys.recvAck (s : Sys) (bc k : Nat) : Sys :=
  let w := window s.aRx bc s.enc
  if !w.2 then { s with aRx := w.1 } else s.afterAck w.1 (s.aMrp.postRecv bc (some k) false 0)

def step (s : Sys) : Ev → Option Sys
  | .send => s.sendStep
  | .retx => s.resendStep false
  | .giveup => s.resendStep true
  | .ackB => s.ackStep
  | .drop d => if s.net.contains d then some { s with net := s.net.erase d } else none
  | .dup d => if s.net.contains d then some { s with net := d :: s.net } else none
  | .deliver d =>
    if s.net.contains d then
      let s' := { s with net := s.net.erase d }
      match d with
      | .data c i => some (s'.recvData c i)
      | .ack bc k => some (s'.recvAck bc k)
    else none

def run : Sys → List Ev → Option Sys
  | s, [] => some s
  | s, e :: es =>
    match step s e with
    | some s' => run s' es
    | none => none

/-! ## Observed traces -/

/-- what the network did to a datagram handed to it -/
inductive Fate | pass | lost | twice
deriving DecidableEq, Repr, Inhabited

/-- one observed system-level event, in execution order -/
inductive Obs
  /-- A's stack handed `data ctr idx` to the network at virtual time `t` (ms) -/
  | txA (t ctr idx : Nat) (f : Fate)
  /-- B's stack took `data ctr idx` from the network -/
  | rxB (ctr idx : Nat)
  /-- B's application received message `idx` -/
  | appB (idx : Nat)
  /-- B's stack handed `ack ctr acked` to the network -/
  | txB (ctr acked : Nat) (f : Fate)
  /-- A's stack took `ack ctr acked` from the network -/
  | rxA (ctr acked : Nat)
  /-- the send call for message `idx` returned -/
  | endA (idx : Nat) (ok : Bool)
deriving DecidableEq, Repr, Inhabited

/-- monitor state: the model state plus what the model says must still be observed -/
structure Mon where
  s : Sys
  /-- what A's application must report next -/
  expectA : List Obs := []
  /-- outputs of B the model produced and that have not been observed yet (any order: the
  application's acknowledgement travels through the transmit slot, the duplicate's does not) -/
  expectB : List Obs := []
  /-- time of the last transmission of the pending message -/
  lastTx : Nat := 0
deriving Inhabited

def applyFate (s : Sys) (d : Dg) : Fate → Option Sys
  | .pass => some s
  | .lost => step s (.drop d)
  | .twice => step s (.dup d)

/-- the jitter byte the sender loop uses (`exchange.rs`) -/
def jitter : Nat := Consts.mrpJitterFixed

/-- an expected output matches an observed one (the network's fate is the adversary's free choice) -/
def matchesOut : Obs → Obs → Bool
  | .txB c k _, .txB c' k' _ => c == c' && k == k'
  | a, b => a == b

def removeFirst (p : Obs → Bool) : List Obs → Option (List Obs)
  | [] => none
  | x :: xs => if p x then some xs else (removeFirst p xs).map (x :: ·)

/-- back-off: a retransmission at time `t` comes earlier than the pending entry's own delay
(`RetransEntry::delay_ms` with the sender loop's jitter byte) after the previous transmission -/
def Mon.tooEarly (m : Mon) (t : Nat) : Bool :=
  match m.s.cur, m.s.aMrp.retrans with
  | some _, some r => decide (t < m.lastTx + r.delayMs jitter)
  | _, _ => false

/-- replay one observed event; `Except` carries the reason why it is not a transition of the model -/
def Mon.obs (m : Mon) (o : Obs) : Except String Mon :=
  match o with
  | .txA t c i f =>
    if !m.expectA.isEmpty then .error "A transmits although its previous call has not returned" else
    let e : Ev := if m.s.cur.isNone then .send else .retx
    match step m.s e with
    | none => .error (if m.s.cur.isNone then "a new message was sent although the model's sender may not send"
                      else "retransmission although the model's sender gives up or has nothing pending")
    | some s' =>
      if s'.net.head? != some (Dg.data c i) then
        .error s!"the model transmits {repr s'.net.head?}, observed data {c} {i}"
      else if m.tooEarly t then
        .error s!"retransmission at {t} ms, earlier than the back-off after {m.lastTx} ms allows"
      else
        match applyFate s' (.data c i) f with
        | some s'' => .ok { m with s := s'', lastTx := t }
        | none => .error "datagram not in the model's network"
  | .rxB c i =>
    match step m.s (.deliver (.data c i)) with
    | none => .error s!"B received data {c} {i} which is not in flight in the model"
    | some s' =>
      let out : List Obs :=
        if s'.app.length != m.s.app.length then [Obs.appB i]
        else match s'.net.head? with
          | some (.ack bc k) => if s'.bCtr != m.s.bCtr then [Obs.txB bc k .pass] else []
          | _ => []
      .ok { m with s := s', expectB := m.expectB ++ out }
  | .appB i =>
    match removeFirst (matchesOut · (.appB i)) m.expectB with
    | none => .error s!"B's application received {i} without a delivery in the model"
    | some rest =>
      -- the application acknowledges at once: the acknowledgement takes its counter now, it reaches
      -- the wire (through the transmit slot) possibly after a duplicate's direct acknowledgement
      match step m.s .ackB with
      | none => .error "B's application acknowledges although the model owes no acknowledgement"
      | some s' =>
        match s'.net.head? with
        | some (.ack bc k) => .ok { m with s := s', expectB := rest ++ [Obs.txB bc k .pass] }
        | _ => .error "the model's acknowledgement step produced no acknowledgement"
  | .txB c k f =>
    match removeFirst (matchesOut · (.txB c k f)) m.expectB with
    | some rest =>
      match applyFate m.s (.ack c k) f with
      | some s' => .ok { m with s := s', expectB := rest }
      | none => .error "acknowledgement not in the model's network"
    | none => .error s!"B sent ack {c} {k} which the model does not produce (expected {repr m.expectB})"
  | .rxA bc k =>
    match step m.s (.deliver (.ack bc k)) with
    | none => .error s!"A received ack {bc} {k} which is not in flight in the model"
    | some s' =>
      let done : List Obs := match m.s.cur, s'.cur with
        | some i, none => [Obs.endA i true]
        | _, _ => []
      .ok { m with s := s', expectA := m.expectA ++ done }
  | .endA i ok =>
    if ok then
      match m.expectA with
      | e :: rest => if e == .endA i true then .ok { m with expectA := rest }
                     else .error s!"send {i} returned success, the model expects {repr e}"
      | [] => .error s!"send {i} returned success without a matching acknowledgement in the model"
    else if !m.expectA.isEmpty then .error s!"send {i} failed although the model's call succeeded"
    else
      match step m.s .giveup with
      | some s' => if m.s.cur == some i then .ok { m with s := s' } else .error "give-up of a message that is not in progress"
      | none => .error s!"send {i} failed although the model's budget is not used up (or nothing is pending)"

def Mon.runObs : Mon → List Obs → Except String Mon
  | m, [] => .ok m
  | m, o :: os =>
    match m.obs o with
    | .ok m' => m'.runObs os
    | .error e => .error e

/-- the observed trace is a trace of the model (and nothing the model announced is missing) -/
def acceptsTrace (s0 : Sys) (os : List Obs) : Except String Sys :=
  match ({ s := s0 } : Mon).runObs os with
  | .ok m =>
    if !m.expectA.isEmpty then .error s!"the run ended while the model still expects {repr m.expectA.head?}"
    else match m.expectB.head? with
      | some o => .error s!"the run ended while the model still expects {repr o} (a received message was not handed on / not acknowledged)"
      | none =>
        if m.s.bMrp.isAckPending then .error "the run ended while the receiver still owes an acknowledgement"
        else .ok m.s
  | .error e => .error e

end TwoNode
