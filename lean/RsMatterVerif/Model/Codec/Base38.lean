import RsMatterVerif.Generated.Consts
import RsMatterVerif.Model.Codec.Buf
/-!
# Model of `utils/codec/base38.rs`

Strings are lists of byte values (`str::as_bytes`). `encode`: 3 bytes → 5 chars, 2 → 4, 1 → 2,
least significant digit first. `decode`: the iterator of `Result<u8, Error>` is modelled by the
pair (bytes yielded before the first error, the first error if any) — after the `fix:` commit the
iterator yields the first error and then ends (before it, `take_while(Result::is_ok)` swallowed it).
-/
namespace Codec.Base38

/-- `BASE38_CHARS` -/
def alphabet : List Nat :=
  [48, 49, 50, 51, 52, 53, 54, 55, 56, 57,
   65, 66, 67, 68, 69, 70, 71, 72, 73, 74, 75, 76, 77, 78, 79, 80, 81, 82, 83, 84, 85, 86, 87, 88, 89, 90,
   45, 46]

def UNUSED : Nat := Consts.c17Base38Unused

/-- `DECODE_BASE38` (index = char − 45) -/
def decodeTable : List Nat :=
  [36, 37, UNUSED, 0, 1, 2, 3, 4, 5, 6, 7, 8, 9,
   UNUSED, UNUSED, UNUSED, UNUSED, UNUSED, UNUSED, UNUSED,
   10, 11, 12, 13, 14, 15, 16, 17, 18, 19, 20, 21, 22, 23, 24, 25, 26, 27, 28, 29, 30, 31, 32, 33, 34, 35]

def RADIX : Nat := 38

/-- `encode_base38(value, repeat)`; `BASE38_CHARS[remainder]` is a checked index. -/
def encChunk : Nat → Nat → Except Err (List Nat)
  | _, 0 => .ok []
  | v, n + 1 =>
    match alphabet[v % RADIX]? with
    | none => .error .panic
    | some c => do
      let r ← encChunk ((v - v % RADIX) / RADIX) n
      pure (c :: r)

/-- `encode(bytes)`; bytes are `u8`, so `(b2 << 16) | (b1 << 8) | b0` is `b0 + 256 b1 + 65536 b2`. -/
def encode : List Nat → Except Err (List Nat)
  | a :: b :: c :: r => do
    let h ← encChunk (a + 256 * b + 65536 * c) 5
    let t ← encode r
    pure (h ++ t)
  | [a, b] => encChunk (a + 256 * b) 4
  | [a] => encChunk a 2
  | [] => .ok []

/-- `encode_bits(bits, bits_count)`: `assert!(bits_count <= 24)`, then 3→5, 2→4, 1→2 chars, else `unreachable!()`. -/
def encodeBits (bits count : Nat) : Except Err (List Nat) :=
  if count > 24 then .error .panic
  else match count / 8 with
    | 3 => encChunk bits 5
    | 2 => encChunk bits 4
    | 1 => encChunk bits 2
    | _ => .error .panic

/-- `decode_char` -/
def decChar (c : Nat) : Except Err Nat :=
  if c < 45 ∨ c > 90 then .error .invalidData
  else match decodeTable[c - 45]? with
    | none => .error .panic
    | some v => if v = UNUSED then .error .invalidData else .ok v

/-- value of a chunk: `for c in chars.iter().rev() { value = value * RADIX + v }` (first char is the
least significant digit). Every failure is `InvalidData`, so the order of detection is not observable. -/
def decValue : List Nat → Except Err Nat
  | [] => .ok 0
  | c :: r => do
    let v ← decChar c
    let hi ← decValue r
    pure (v + RADIX * hi)

/-- `byte = value & 0xff; value >>= 8`, `n` times -/
def leBytes : Nat → Nat → List Nat
  | _, 0 => []
  | v, n + 1 => v % 256 :: leBytes (v / 256) n

/-- number of bytes a chunk of `n` characters stands for (`match chars.len() { 5 => 3, 4 => 2, 2 => 1, 0 => 0, _ => -1 }`) -/
def repOf (n : Nat) : Option Nat :=
  if n = 5 then some 3 else if n = 4 then some 2 else if n = 2 then some 1 else if n = 0 then some 0 else none

/-- `decode_base38(chars)`: the bytes of one chunk, or its (single) error -/
def decChunk (cs : List Nat) : Except Err (List Nat) :=
  match repOf cs.length with
  | none => .error .invalidData
  | some k =>
    match decValue cs with
    | .ok v => .ok (leBytes v k)
    | .error e => .error e

/-- `decode(str)`: (bytes yielded before the first error, first error). Chunks of 5, then the rest. -/
def decode : List Nat → List Nat × Option Err
  | a :: b :: c :: d :: e :: r =>
    match decChunk [a, b, c, d, e] with
    | .ok bs => let t := decode r; (bs ++ t.1, t.2)
    | .error err => ([], some err)
  | rest =>
    match decChunk rest with
    | .ok bs => (bs, none)
    | .error err => ([], some err)

/-- `decode_vec::<N>` with `N` large enough -/
def decodeVec (s : List Nat) : Except Err (List Nat) :=
  match decode s with
  | (bs, none) => .ok bs
  | (_, some e) => .error e

/-- Canonical strings: what `encode` can produce. Valid characters, a legal length class, and every
chunk's value fits the bytes it stands for. -/
def chunkCanon (cs : List Nat) : Bool :=
  match decValue cs with
  | .ok v =>
    (cs.length = 5 && v < 16777216) || (cs.length = 4 && v < 65536) || (cs.length = 2 && v < 256) || cs.length = 0
  | .error _ => false

def canonical : List Nat → Bool
  | a :: b :: c :: d :: e :: r => chunkCanon [a, b, c, d, e] && canonical r
  | rest => chunkCanon rest

end Codec.Base38
