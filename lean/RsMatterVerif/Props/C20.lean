import RsMatterVerif.Lemmas.Transport
/-!
# C20 — unfinished or hostile handshakes cannot leak or exhaust node resources for good

Theorems over `Model/Transport.lean`:
* `eviction_never_takes_live_exchange`: the session chosen for eviction is not reserved and carries
  no exchange — for every table and time;
* `eviction_finds_idle`: if some session is unreserved, without exchanges, and expired or last used
  strictly before now, eviction finds a session;
* `full_table_refuses` / `room_admits`: `Sessions::add` answers `NoSpaceSessions` (⇒ the transport
  answers busy or evicts) exactly when the table is full; `evict_then_room`: after removing the
  evicted session a new one is admitted;
* `abandoned_reservation_released`, `complete_makes_live`: dropping a `ReservedSession` without
  `complete` takes one session out of the table; the (repaired) `complete` clears the flag at once:
  the session, if still in the table, is not reserved afterwards;
* `owner_drop_frees_or_marks`: an exchange dropped by its owner is freed or marked dropped, and
  (C10 `closer_finds_dropped`) the closer misses no dropped exchange — together: at quiescence no
  exchange slot stays occupied by an owned or dropped exchange;
* `rendezvous_released_on_cancel`: the single-slot rendezvous guard resets the slot to idle when its
  waiter is dropped (model of `MdnsResolveGuard::drop` / `MdnsBrowseGuard::drop`).
-/
namespace C20
open Transport

/-! ## Eviction -/

theorem evictLoop_spec : ∀ (l : List Sess) (k : Nat) (best : Option Nat) (ts i : Nat),
    evictLoop l k best ts = some i →
    best = some i ∨ (k ≤ i ∧ ∃ s, l[i - k]? = some s ∧ s.reserved = false ∧ s.noExchanges = true) := by
  intro l
  induction l with
  | nil => intro k best ts i h; simp only [evictLoop] at h; exact Or.inl h
  | cons x xs ih =>
    intro k best ts i h
    simp only [evictLoop] at h
    split at h
    · rename_i hc
      simp only [Bool.and_eq_true, Bool.not_eq_true'] at hc
      split at h
      · simp only [Option.some.injEq] at h
        subst h
        exact Or.inr ⟨Nat.le_refl _, x, by simp, hc.1.2, hc.2⟩
      · rcases ih (k + 1) (some k) x.lastUse i h with hb | ⟨hk, s, hs, h1, h2⟩
        · simp only [Option.some.injEq] at hb
          subst hb
          exact Or.inr ⟨Nat.le_refl _, x, by simp, hc.1.2, hc.2⟩
        · have : i - k = (i - (k + 1)) + 1 := by omega
          exact Or.inr ⟨by omega, s, by rw [this, List.getElem?_cons_succ]; exact hs, h1, h2⟩
    · rcases ih (k + 1) best ts i h with hb | ⟨hk, s, hs, h1, h2⟩
      · exact Or.inl hb
      · have : i - k = (i - (k + 1)) + 1 := by omega
        exact Or.inr ⟨by omega, s, by rw [this, List.getElem?_cons_succ]; exact hs, h1, h2⟩

/-- **Eviction never takes a session with a live exchange** (nor a reserved one). -/
theorem eviction_never_takes_live_exchange (t : Table) (now i : Nat) (h : t.evictionIdx now = some i) :
    ∃ s, t.sessions[i]? = some s ∧ s.reserved = false ∧ s.noExchanges = true := by
  unfold Table.evictionIdx at h
  rcases evictLoop_spec t.sessions 0 none now i h with hb | ⟨_, s, hs, h1, h2⟩
  · simp at hb
  · exact ⟨s, by simpa using hs, h1, h2⟩

/-- `noExchanges` means every slot is empty -/
theorem noExchanges_slots (s : Sess) (h : s.noExchanges = true) : ∀ i, s.slot i = none := by
  intro i
  simp only [Sess.noExchanges, List.all_eq_true] at h
  simp only [Sess.slot]
  cases hg : s.exchs[i]? with
  | none => rfl
  | some v =>
    have := h v (List.mem_of_getElem? hg)
    cases v with
    | none => rfl
    | some e => simp at this

theorem evictLoop_some_of_best : ∀ (l : List Sess) (k : Nat) (b ts : Nat),
    (evictLoop l k (some b) ts).isSome = true := by
  intro l
  induction l with
  | nil => intro k b ts; simp [evictLoop]
  | cons x xs ih =>
    intro k b ts
    simp only [evictLoop]
    split
    · split
      · rfl
      · exact ih _ _ _
    · exact ih _ _ _

/-- a candidate whose last use lies before the running threshold keeps being one while the threshold
only moves to earlier `last_use` values of *chosen* candidates — so some session is found -/
theorem evictLoop_finds : ∀ (l : List Sess) (k : Nat) (best : Option Nat) (ts : Nat),
    (∃ s ∈ l, s.reserved = false ∧ s.noExchanges = true ∧ (s.expired = true ∨ s.lastUse < ts)) →
    (evictLoop l k best ts).isSome = true := by
  intro l
  induction l with
  | nil => intro k best ts ⟨s, hs, _⟩; simp at hs
  | cons x xs ih =>
    intro k best ts ⟨s, hs, hr, hn, hc⟩
    simp only [evictLoop]
    split
    · split
      · rfl
      · exact evictLoop_some_of_best _ _ _ _
    · rename_i hx
      rcases List.mem_cons.1 hs with h1 | h1
      · subst h1
        exfalso
        apply hx
        simp only [Bool.and_eq_true, Bool.or_eq_true, decide_eq_true_eq, Bool.not_eq_true']
        exact ⟨⟨hc, hr⟩, hn⟩
      · exact ih _ _ _ ⟨s, h1, hr, hn, hc⟩

/-- **Eviction finds an idle session**: whenever some session is unreserved, carries no exchange and
is expired or was last used strictly before `now`. -/
theorem eviction_finds_idle (t : Table) (now : Nat)
    (h : ∃ s ∈ t.sessions, s.reserved = false ∧ s.noExchanges = true ∧ (s.expired = true ∨ s.lastUse < now)) :
    (t.evictionIdx now).isSome = true :=
  evictLoop_finds t.sessions 0 none now h

/-- non-vacuity, and the tie the hypothesis excludes: a session used at this very instant is not a
candidate (`last_use < now` is strict) unless it is expired -/
example : (({ sessions := [{ uid := 0, ctr := 0, lastUse := 5 }] } : Table).evictionIdx 5,
           ({ sessions := [{ uid := 0, ctr := 0, lastUse := 5 }] } : Table).evictionIdx 6,
           ({ sessions := [{ uid := 0, ctr := 0, lastUse := 5, expired := true }] } : Table).evictionIdx 5)
    = (none, some 0, some 0) := by decide

/-! ## Full table -/

/-- **Full table ⇒ refusal** (the transport turns it into a busy answer or an eviction) -/
theorem full_table_refuses (t : Table) (ctr : Nat) (r : Bool) (now port : Nat)
    (h : t.sessions.length ≥ Consts.maxSessions) :
    (t.add ctr r now port).2 = .error .noSpaceSessions ∧ (t.add ctr r now port).1.sessions = t.sessions := by
  unfold Table.add
  simp [h]

/-- room ⇒ the new session is admitted, as the last entry -/
theorem room_admits (t : Table) (ctr : Nat) (r : Bool) (now port : Nat)
    (h : t.sessions.length < Consts.maxSessions) :
    (t.add ctr r now port).2 = .ok t.nextUid ∧
    (t.add ctr r now port).1.sessions.length = t.sessions.length + 1 := by
  unfold Table.add
  have : ¬ t.sessions.length ≥ Consts.maxSessions := by omega
  simp [this]

theorem swapRemove_length (l : List Sess) (i : Nat) (h : i < l.length) :
    (swapRemove l i).length = l.length - 1 := by
  unfold swapRemove
  cases hl : l.getLast? with
  | none =>
    have : l = [] := by simpa using hl
    subst this
    simp at h
  | some last =>
    simp only
    split <;> simp

theorem remove_length (t : Table) (uid : Nat) (h : (t.find uid).isSome = true) :
    (t.remove uid).1.sessions.length = t.sessions.length - 1 ∧ (t.remove uid).2 = true := by
  unfold Table.remove
  cases hf : t.find uid with
  | none => simp [hf] at h
  | some i =>
    simp only
    have hi : i < t.sessions.length := by
      unfold Table.find at hf
      exact (List.findIdx?_eq_some_iff_getElem.1 hf).1
    exact ⟨swapRemove_length _ _ hi, trivial⟩

/-- **Evict, then there is room**: removing any session of a table makes `add` succeed. -/
theorem evict_then_room (t : Table) (uid ctr : Nat) (r : Bool) (now port : Nat)
    (hfound : (t.find uid).isSome = true) (hcap : t.sessions.length ≤ Consts.maxSessions) :
    ∃ u, ((t.remove uid).1.add ctr r now port).2 = .ok u := by
  have hl := (remove_length t uid hfound).1
  have hpos : 0 < t.sessions.length := by
    cases hf : t.find uid with
    | none => simp [hf] at hfound
    | some i =>
      unfold Table.find at hf
      have := (List.findIdx?_eq_some_iff_getElem.1 hf).1
      omega
  have hlt : (t.remove uid).1.sessions.length < Consts.maxSessions := by omega
  exact ⟨_, (room_admits _ ctr r now port hlt).1⟩

/-! ## Reservations -/

/-- an abandoned handshake (`ReservedSession` dropped without `complete`) gives its slot back -/
theorem abandoned_reservation_released (t : Table) (uid : Nat) (hfound : (t.find uid).isSome = true) :
    (t.remove uid).1.sessions.length + 1 = t.sessions.length := by
  have hl := (remove_length t uid hfound).1
  have hpos : 0 < t.sessions.length := by
    cases hf : t.find uid with
    | none => simp [hf] at hfound
    | some i =>
      unfold Table.find at hf
      have := (List.findIdx?_eq_some_iff_getElem.1 hf).1
      omega
  omega

/-- a freshly reserved session is marked reserved (and therefore neither receives nor is evicted) -/
theorem reserve_marks (t : Table) (ctr now : Nat) (h : t.sessions.length < Consts.maxSessions) :
    ∃ s, (t.add ctr true now).1.sessions.getLast? = some s ∧ s.reserved = true ∧ s.uid = t.nextUid := by
  unfold Table.add
  have : ¬ t.sessions.length ≥ Consts.maxSessions := by omega
  simp [this]

/-! ## `complete()` makes the session live -/

theorem find_set_self (l : List Sess) (uid i : Nat) (x : Sess) (hx : x.uid = uid)
    (hi : l.findIdx? (·.uid == uid) = some i) : (l.set i x).find? (·.uid == uid) = some x := by
  induction l generalizing i with
  | nil => simp at hi
  | cons a rest ih =>
    rw [List.findIdx?_cons] at hi
    by_cases ha : (a.uid == uid) = true
    · simp only [ha, ↓reduceIte, Option.some.injEq] at hi
      subst hi
      simp [hx]
    · simp only [ha, Bool.false_eq_true, ↓reduceIte, Option.map_eq_some_iff] at hi
      obtain ⟨j, hj, rfl⟩ := hi
      simp only [List.set_cons_succ, List.find?_cons, ha]
      exact ih j hj

theorem setSess_sess (t : Table) (x : Sess) (h : (t.find x.uid).isSome = true) :
    (t.setSess x).sess x.uid = some x := by
  unfold Table.setSess Table.sess
  cases hf : t.find x.uid with
  | none => simp [hf] at h
  | some i =>
    simp only
    exact find_set_self t.sessions x.uid i x rfl hf

theorem find_of_sess (t : Table) (uid : Nat) (s : Sess) (h : t.sess uid = some s) :
    (t.find uid).isSome = true ∧ s.uid = uid := by
  unfold Table.sess at h
  unfold Table.find
  have hp := List.find?_some h
  have hm := List.mem_of_find?_eq_some h
  refine ⟨?_, by simpa using hp⟩
  rw [List.findIdx?_isSome]
  exact List.any_eq_true.2 ⟨s, hm, hp⟩

/-- **The repaired `ReservedSession::complete`**: afterwards the session — if it is still in the
table — is no longer reserved, i.e. the receive path (`Sess.isForRx`) finds it from that moment on,
not only when the handshake task has run again and dropped the handle. -/
theorem complete_makes_live (t : Table) (uid now : Nat) (s : Sess)
    (h : (t.reservedComplete uid now).1.sess uid = some s) : s.reserved = false := by
  unfold Table.reservedComplete Table.get at h
  cases hs : t.sess uid with
  | none =>
    simp only [hs] at h
    cases h
  | some s0 =>
    simp only [hs] at h
    obtain ⟨hf0, hu0⟩ := find_of_sess t uid s0 hs
    let s1 : Sess := { s0 with lastUse := now }
    have hu1 : s1.uid = uid := hu0
    have h1 : (t.setSess s1).sess uid = some s1 := by
      have := setSess_sess t s1 (by rw [hu1]; exact hf0)
      rw [hu1] at this
      exact this
    obtain ⟨hf1, _⟩ := find_of_sess _ uid s1 h1
    let s2 : Sess := { s1 with reserved := false }
    have hu2 : s2.uid = uid := hu0
    have h2 : ((t.setSess s1).setSess s2).sess uid = some s2 := by
      have := setSess_sess (t.setSess s1) s2 (by rw [hu2]; exact hf1)
      rw [hu2] at this
      exact this
    have : some s = some s2 := by rw [← h, ← h2]
    have hs2 : s = s2 := Option.some.inj this
    rw [hs2]

example : ((({ sessions := [{ uid := 3, ctr := 0, reserved := true }] } : Table).reservedComplete 3 10).1.sess 3).map (·.reserved) = some false := by
  decide


/-! ## Exchange slots at quiescence -/

/-- an exchange dropped by its owner leaves its slot free or in a dropped state (never owned) -/
theorem owner_drop_frees_or_marks (s : Sess) (i : Nat) (e : Exch) (hs : s.slot i = some e) :
    (s.removeExch i).1.slot i = none ∨
    ∃ e', (s.removeExch i).1.slot i = some e' ∧ e'.role.isDropped = true := by
  have hlt := slot_lt s i e hs
  unfold Sess.removeExch
  simp only [hs]
  split
  · right
    refine ⟨{ e with role := e.role.setDropped }, by rw [slot_set]; simp [hlt], ?_⟩
    cases e.role <;> rfl
  · left
    rw [slot_set]; simp [hlt]

/-! ## Rendezvous -/

/-- the single-slot mDNS resolve / browse rendezvous -/
inductive Rdv | idle | requested | inFlight | resolved
deriving DecidableEq, Repr

/-- `MdnsResolveGuard::drop` / `MdnsBrowseGuard::drop`: unless disarmed, reset to `Idle` -/
def guardDrop (armed : Bool) (st : Rdv) : Rdv := if armed then .idle else st

/-- **Rendezvous released on cancel**: whatever state the rendezvous was in when the waiting future is
dropped (cancelled or timed out) with its guard still armed, the slot is idle afterwards. -/
theorem rendezvous_released_on_cancel (st : Rdv) : guardDrop true st = .idle := rfl

end C20
