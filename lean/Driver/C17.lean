import RsMatterVerif.Model.Codec.Buf
import RsMatterVerif.Model.Codec.Base38
import RsMatterVerif.Model.Codec.ManualCode
import RsMatterVerif.Model.Codec.PlainHdr
import RsMatterVerif.Model.Codec.ProtoHdr
import RsMatterVerif.Model.Codec.StatusReport
import Driver.C17More
import Driver.C17X509 -- D16d
import Driver.C17Der
import Driver.C17Discovery
import Driver.Util
/-!
Driver for C17. One case = one codec (`case <id> <codec>`); every op line is self-contained:
`rt <fields>` (encode then decode with the real code) or `dec <hex>` (real decoder on a string).
For every line the driver
* recomputes the answer with the Lean model (`DIS` on a difference), and
* evaluates the property's specification on the implementation's answer (`ORA`): a round trip
  returns the fields that were encoded, a decoder never panics, and strings the specification
  calls invalid (wrong check digit, out-of-range field, invalid base-38 character / length class)
  are refused. The oracle functions below are written from the property text / the Matter
  specification and do not call the model decoders (except Verhoeff's check-digit definition).
-/
namespace Driver.C17
open Codec Driver.C17U

/-! ### base38 -/

def b38SpecMustReject (s : List Nat) : Bool :=
  s.any (fun c => !(Base38.alphabet.contains c)) || s.length % 5 == 1 || s.length % 5 == 3

def b38Dec (s : List Nat) : String :=
  match Base38.decode s with
  | (bs, none) => s!"ok {hex bs}"
  | (bs, some e) => s!"err {e.name} {hex bs}"

def stepBase38 (op : List String) (out : String) : String :=
  match op with
  | ["rt", h] =>
    match unhex h with
    | none => "BAD hex"
    | some bs =>
      let model := match Base38.encode bs with
        | .ok cs => s!"{hex cs} {b38Dec cs}"
        | .error e => exErr e
      let ora : Option String := match words out with
        | [_, "ok", d] => if d = h then none else some s!"round trip returned {d} for {h}"
        | _ => some s!"round trip of {h} did not succeed: {out}"
      verdict model out ora
  | ["dec", h] =>
    match unhex h with
    | none => "BAD hex"
    | some s =>
      let model := b38Dec s
      let ora : Option String :=
        if isPanic out then some "decoder panicked"
        else if b38SpecMustReject s && !(out.startsWith "err ") then some "invalid base-38 string accepted"
        else none
      verdict model out ora
  | _ => "BAD op"

/-! ### manual pairing code -/

def manualShow (r : Except Err ManualCode.Manual) : String :=
  match r with
  | .ok m => s!"ok {m.short} {m.pass} {m.vid} {m.pid} {if m.long then 1 else 0}"
  | .error e => exErr e

/-- Specification of a valid v1 manual pairing code (Matter Core spec 5.1.4.1), on code points. -/
def manualSpecValid (code : List Nat) : Bool :=
  let ds := code.filter (fun c => c != 45 && c != 32)
  let val := fun (off len : Nat) => ((ds.drop off).take len).foldl (fun a c => 10 * a + (c - 48)) 0
  ds.all Verhoeff.isDigit && (ds.length == 11 || ds.length == 21) && Verhoeff.validate ds &&
  val 0 1 ≤ 7 && ((val 0 1 ≥ 4) == (ds.length == 21)) && val 1 5 ≤ 65535 && val 6 4 ≤ 8191 &&
  (ds.length == 11 || (val 10 5 ≤ 65535 && val 15 5 ≤ 65535))

def stepManual (op : List String) (out : String) : String :=
  match op with
  | ["rt", d, p] =>
    match d.toNat?, p.toNat? with
    | some disc, some pw =>
      let model := match ManualCode.encode disc pw with
        | .ok cs => s!"{hex cs} {manualShow (ManualCode.parse cs)}"
        | .error e => exErr e
      let ora : Option String :=
        if disc < 4096 ∧ pw < 134217728 then
          match words out with
          | [c, "ok", s, q, v, w, l] =>
            if c.length ≠ 22 then some "code is not 11 characters"
            else if s = toString (disc / 256) ∧ q = toString pw ∧ v = "0" ∧ w = "0" ∧ l = "0" then none
            else some s!"round trip returned short={s} pass={q} vid={v} pid={w} long={l}"
          | _ => some s!"round trip of a legal (discriminator, passcode) did not succeed: {out}"
        else none
      verdict model out ora
    | _, _ => "BAD nums"
  | ["dec", h] =>
    match unhexStr h with
    | none => "BAD utf8"
    | some cps =>
      let model := manualShow (ManualCode.parse cps)
      let ora : Option String :=
        if isPanic out then some "decoder panicked"
        else if !(manualSpecValid cps) && !(out.startsWith "err ") then
          some "code with a wrong check digit / out-of-range field accepted"
        else none
      verdict model out ora
  | _ => "BAD op"

/-! ### plain header -/

def plainShow (r : Except Err (PlainHdr.Hdr × List Nat)) : String :=
  match r with
  | .ok (h, rest) =>
    let v := PlainHdr.view h
    s!"ok {v.flags} {v.sessId} {v.secFlags} {v.ctr} {optS v.src} {optS v.dstU} {optS v.dstG} {hex rest}"
  | .error e => exErr e

/-- specification view of a header given by its raw fields (written from the Matter message format) -/
def plainSpecView (f sid sf ctr src dst : Nat) (rest : String) : String :=
  let s := if f / 4 % 2 = 1 then toString src else "-"
  let u := if f % 4 = 1 then toString dst else "-"
  let g := if f % 4 = 2 then toString (dst % 65536) else "-"
  s!"ok {f} {sid} {sf} {ctr} {s} {u} {g} {rest}"

def plainEnc (h : PlainHdr.Hdr) (cap : Nat) (extra : List Nat) : String :=
  let bytes := PlainHdr.encodeBytes h
  if bytes.length > cap then "err NoSpace"
  else s!"{hex bytes} {plainShow (PlainHdr.decode {} (bytes ++ extra))}"

def stepPlain (op : List String) (out : String) : String :=
  match op with
  | "rt" :: f :: sid :: sf :: ctr :: src :: dst :: ex :: capw =>
    match nats [f, sid, sf, ctr, src, dst], unhex ex with
    | some [f, sid, sf, ctr, src, dst], some extra =>
      let cap := match capw with | [c] => c.toNat?.getD 64 | _ => 64
      let h : PlainHdr.Hdr := { flags := f, sessId := sid, secFlags := sf, ctr := ctr, src := src, dst := dst }
      let model := plainEnc h cap extra
      let ora : Option String :=
        if isPanic out then some "panic"
        else if cap < 26 then none
        else
          let want := plainSpecView f sid sf ctr src dst ex
          match splitFirst out with
          | (_, got) => if got = want then none else some s!"round trip: want [{want}] got [{got}]"
      verdict model out ora
    | _, _ => "BAD args"
  | ["set", src, kind, dst] =>
    match dst.toNat? with
    | none => "BAD dst"
    | some d =>
      let h0 : PlainHdr.Hdr := {}
      let h1 := PlainHdr.setDstU (PlainHdr.setSrc h0 (some 0xdeadbeef)) (some 0x123456789abc)
      let h2 := PlainHdr.setSrc h1 src.toNat?
      let h3 := if kind = "u" then PlainHdr.setDstU h2 (some d)
        else if kind = "g" then PlainHdr.setDstG h2 (some (d % 65536))
        else PlainHdr.setDstU h2 none
      let model := s!"{h3.flags} {h3.sessId} {h3.secFlags} {h3.ctr} {h3.src} {h3.dst} {plainEnc h3 64 []}"
      -- oracle: what was set is what is decoded
      let wantSrc := match src.toNat? with | some s => toString s | none => "-"
      let wantU := if kind = "u" then toString d else "-"
      let wantG := if kind = "g" then toString (d % 65536) else "-"
      let ora : Option String := match words out with
        | [_, _, _, _, _, _, _, "ok", _, _, _, _, s, u, g, _] =>
          if s = wantSrc ∧ u = wantU ∧ g = wantG then none else some s!"setters round trip: src={s} dstu={u} dstg={g}"
        | _ => some s!"setters round trip failed: {out}"
      verdict model out ora
  | ["dec", h] =>
    match unhex h with
    | none => "BAD hex"
    | some bs =>
      verdict (plainShow (PlainHdr.decode {} bs)) out (if isPanic out then some "decoder panicked" else none)
  | _ => "BAD op"

/-! ### proto header -/

def protoShow (r : Except Err (ProtoHdr.Hdr × List Nat)) : String :=
  match r with
  | .ok (h, rest) =>
    let v := ProtoHdr.view h
    s!"ok {v.exchId} {v.flags} {v.protoId} {v.opcode} {optS v.vendor} {optS v.ack} {hex rest}"
  | .error e => exErr e

def stepProto (op : List String) (out : String) : String :=
  match op with
  | "rt" :: eid :: f :: pid :: opc :: ven :: ack :: ex :: capw =>
    match nats [eid, f, pid, opc, ven, ack], unhex ex with
    | some [eid, f, pid, opc, ven, ack], some extra =>
      let cap := match capw with | [c] => c.toNat?.getD 64 | _ => 64
      let h : ProtoHdr.Hdr := { exchId := eid, flags := f, protoId := pid, opcode := opc, vendorId := ven, ackCtr := ack }
      let bytes := ProtoHdr.encodeBytes h
      let model := if bytes.length > cap then "err NoSpace"
        else s!"{hex bytes} {protoShow (ProtoHdr.decode {} (bytes ++ extra))}"
      let ora : Option String :=
        if isPanic out then some "panic"
        else if cap < 12 then none
        else
          let v := if f / 16 % 2 = 1 then toString ven else "-"
          let a := if f / 2 % 2 = 1 then toString ack else "-"
          let want := s!"ok {eid} {f} {pid} {opc} {v} {a} {ex}"
          let got := (splitFirst out).2
          if got = want then none else some s!"round trip: want [{want}] got [{got}]"
      verdict model out ora
    | _, _ => "BAD args"
  | ["dec", h] =>
    match unhex h with
    | none => "BAD hex"
    | some bs =>
      verdict (protoShow (ProtoHdr.decode {} bs)) out (if isPanic out then some "decoder panicked" else none)
  | _ => "BAD op"

/-! ### status report -/

def statusShow (r : Except Err StatusReport.Report) : String :=
  match r with
  | .ok r => s!"ok {r.general} {r.protoId} {r.protoCode} {hex r.data}"
  | .error e => exErr e

def stepStatus (op : List String) (out : String) : String :=
  match op with
  | "rt" :: g :: pid :: code :: d :: capw =>
    match nats [g, pid, code], unhex d with
    | some [g, pid, code], some data =>
      let cap := match capw with | [c] => c.toNat?.getD (data.length + 16) | _ => data.length + 16
      let r : StatusReport.Report := { general := g, protoId := pid, protoCode := code, data := data }
      let bytes := StatusReport.writeBytes r
      let model := if bytes.length > cap then "err NoSpace" else s!"{hex bytes} {statusShow (StatusReport.read bytes)}"
      let ora : Option String :=
        if isPanic out then some "panic"
        else if cap < data.length + 8 then none
        else
          let want := s!"ok {g} {pid} {code} {d}"
          let got := (splitFirst out).2
          if got = want then none else some s!"round trip: want [{want}] got [{got}]"
      verdict model out ora
    | _, _ => "BAD args"
  | ["dec", h] =>
    match unhex h with
    | none => "BAD hex"
    | some bs =>
      verdict (statusShow (StatusReport.read bs)) out (if isPanic out then some "decoder panicked" else none)
  | _ => "BAD op"

/-! ### ParseBuf / WriteBuf (level-0 model, stateful inside a case) -/

structure St where
  kind : String := ""
  rb : RBuf := RBuf.new []
  wb : WBuf := WBuf.new 0

def showNat (r : Except Err (Nat × RBuf)) (st : St) : St × String :=
  match r with
  | .ok (x, b) => ({ st with rb := b }, s!"ok {x}")
  | .error e => (st, exErr e)

def stepRbuf (st : St) (op : List String) (out : String) : St × String :=
  let fin := fun (p : St × String) => (p.1, verdict p.2 out (if isPanic out then some "ParseBuf panicked" else none))
  match op with
  | ["new", h] =>
    match unhex h with
    | none => (st, "BAD hex")
    | some bs => fin ({ st with rb := RBuf.new bs }, "ok")
  | ["u8"] => fin (showNat st.rb.leU8 st)
  | ["u16"] => fin (showNat st.rb.leU16 st)
  | ["u32"] => fin (showNat st.rb.leU32 st)
  | ["u64"] => fin (showNat st.rb.leU64 st)
  | ["tail", n] =>
    match st.rb.tail (n.toNat?.getD 0) with
    | .ok (t, b) => fin ({ st with rb := b }, s!"ok {hex t}")
    | .error e => fin (st, exErr e)
  | ["slice"] =>
    match st.rb.asSlice with
    | .ok s => fin (st, s!"ok {hex s}")
    | .error e => fin (st, exErr e)
  | _ => (st, "BAD op")

def stepWbuf (st : St) (op : List String) (out : String) : St × String :=
  let fin := fun (r : Except Err WBuf) =>
    match r with
    | .ok w => ({ st with wb := w }, verdict "ok" out none)
    | .error e => (st, verdict (exErr e) out none)
  match op with
  | ["new", n] => ({ st with wb := WBuf.new (min (n.toNat?.getD 0) 4096) }, verdict "ok" out none)
  | ["reserve", k] => fin (st.wb.reserve (k.toNat?.getD 0))
  | ["u8", x] => fin (st.wb.leU8 (x.toNat?.getD 0))
  | ["u16", x] => fin (st.wb.leU16 (x.toNat?.getD 0))
  | ["u32", x] => fin (st.wb.leU32 (x.toNat?.getD 0))
  | ["u64", x] => fin (st.wb.leU64 (x.toNat?.getD 0))
  | ["append", h] => fin (st.wb.append ((unhex h).getD []))
  | ["prepend", h] => fin (st.wb.prepend ((unhex h).getD []))
  | ["slice"] =>
    match st.wb.asSlice with
    | .ok s => (st, verdict s!"ok {hex s}" out none)
    | .error e => (st, verdict (exErr e) out none)
  | _ => (st, "BAD op")

def step (st : St) (line : String) : St × String :=
  let (op, out) := Driver.splitArrow line
  match Driver.words op with
  | "case" :: _ :: k :: _ => ({ kind := k }, "case")
  | ws =>
    match st.kind with
    | "base38" => (st, stepBase38 ws out)
    | "manual" => (st, stepManual ws out)
    | "plainhdr" => (st, stepPlain ws out)
    | "protohdr" => (st, stepProto ws out)
    | "status" => (st, stepStatus ws out)
    | "rbuf" => stepRbuf st ws out
    | "wbuf" => stepWbuf st ws out
    | "derw" => (st, Driver.C17Der.step ws out)  -- D16c: ASN1Writer + CertRef::as_asn1
    | "adv" => (st, Driver.C17Discovery.stepAdv ws out)   -- D16b: AdvData + RecoveryAdvData, both modelled
    | "mdns2" => (st, Driver.C17Discovery.stepMdns ws out)  -- D16b: mDNS wire format, modelled
    | k =>
      match Driver.C17More.step k ws out with
      | some r => (st, r)
      | none =>
        match Driver.C17X509.step k ws out with -- D16d: der / dersig / cd / x509 / csr
        | some r => (st, r)
        | none => (st, "BAD kind")

def run : IO UInt32 := Driver.runLoop ({} : St) step

end Driver.C17
