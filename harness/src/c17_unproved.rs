//! C17, formats exercised on the implementation only (no Lean model): BLE advertisement payload,
//! mDNS service records, Matter-TLV certificate -> X.509 DER conversion.
//! The driver applies the implementation-side oracle only (round trip returns the encoded fields,
//! decoders answer value/none/error and never panic or hang); these streams are reported as
//! `unproved_codec_<name>` in the evidence.
use super::{edge, errname, guard, mutate, num};
use crate::proto::{hex, unhex, Out};
use crate::rng::Rng;

#[path = "c17_certs.rs"]
mod certs;

use std::sync::mpsc;
use std::time::Duration;

/// run `f` on a helper thread; a decoder that does not come back within 5 s is reported as `timeout`
fn with_timeout<F: FnOnce() -> String + Send + 'static>(f: F) -> String {
    let (tx, rx) = mpsc::channel();
    std::thread::spawn(move || {
        let r = guard(f);
        let _ = tx.send(r);
    });
    match rx.recv_timeout(Duration::from_secs(5)) {
        Ok(s) => s,
        Err(_) => "timeout".into(),
    }
}

// ------------------------------------------------------------------ BLE advertisement

mod adv {
    use super::*;
    use rs_matter::dm::clusters::basic_info::BasicInfoConfig;
    use rs_matter::transport::network::btp::{AdvData, RecoveryAdvData};

    fn show(a: Option<AdvData>) -> String {
        match a {
            Some(a) => format!("ok {} {} {} {}", a.vid(), a.pid(), a.discriminator(), a.additional_data() as u8),
            None => "none".into(),
        }
    }

    fn showr(a: Option<RecoveryAdvData>) -> String {
        match a {
            Some(a) => format!("ok {} {}", hex(&a.recovery_id()), a.additional_data() as u8),
            None => "none".into(),
        }
    }

    pub fn run(op: &str) -> String {
        let mut it = op.split_whitespace();
        match it.next() {
            Some("rt") => {
                let vid = num(it.next()) as u16;
                let pid = num(it.next()) as u16;
                let disc = num(it.next()) as u16;
                guard(|| {
                    let cfg = BasicInfoConfig { vid, pid, ..Default::default() };
                    let a = AdvData::new(&cfg, disc);
                    let full: Vec<u8> = a.iter().collect();
                    let svc: Vec<u8> = a.service_payload_iter().collect();
                    format!("{} {} | {} {}", hex(&full), show(AdvData::parse_adv(&full)), hex(&svc), show(AdvData::parse_service_data(&svc)))
                })
            }
            Some("dec") => {
                let b = unhex(it.next().unwrap_or("-"));
                guard(|| format!("{} | {} | {} | {}", show(AdvData::parse_adv(&b)), show(AdvData::parse_service_data(&b)), showr(RecoveryAdvData::parse_adv(&b)), showr(RecoveryAdvData::parse_service_data(&b))))
            }
            Some("rrt") => {
                let id = unhex(it.next().unwrap_or("-"));
                let mut rid = [0u8; 8];
                for (i, b) in id.iter().take(8).enumerate() {
                    rid[i] = *b;
                }
                guard(|| {
                    let a = RecoveryAdvData::new(rid);
                    let full: Vec<u8> = a.iter().collect();
                    let svc: Vec<u8> = a.service_payload_iter().collect();
                    format!("{} {} | {} {}", hex(&full), showr(RecoveryAdvData::parse_adv(&full)), hex(&svc), showr(RecoveryAdvData::parse_service_data(&svc)))
                })
            }
            _ => "badop".into(),
        }
    }
}

// ------------------------------------------------------------------ mDNS

mod mdns {
    use super::*;
    use rs_matter::transport::network::mdns::builtin::{parse_into_answer, Host};
    use rs_matter::transport::network::mdns::MdnsLocalService;
    use rs_matter::transport::network::{Ipv4Addr, Ipv6Addr};

    pub fn dec(data: Vec<u8>) -> String {
        with_timeout(move || match parse_into_answer(&data, Some(3)) {
            Ok(Some(a)) => {
                let mut name = format!("{}", a.instance_name);
                while name.ends_with('.') {
                    name.pop();
                }
                let txt: Vec<String> = a.txt.clone().take(64).map(|(k, v)| format!("{}={}", hex(k.as_bytes()), hex(v.as_bytes()))).collect();
                let mut addrs: Vec<String> = a.addrs.clone().take(16).map(|x| format!("{}", x)).collect();
                addrs.sort();
                format!(
                    "ok {} {} [{}] [{}] {}",
                    hex(name.as_bytes()),
                    a.port.map(|p| p.to_string()).unwrap_or("-".into()),
                    txt.join(","),
                    addrs.join(","),
                    a.scope_id
                )
            }
            Ok(None) => "none".into(),
            Err(e) => errname(&e),
        })
    }

    /// `rt <name hex> <port> <host hex> <ipv4 u32> <ipv6 hex16|-> <txt k=v,k=v (hex)> <subtypes a,b (hex)>`
    pub fn run(op: &str) -> String {
        let mut it = op.split_whitespace();
        match it.next() {
            Some("rt") => {
                let name = String::from_utf8(unhex(it.next().unwrap_or("-"))).unwrap_or_default();
                let port = num(it.next()) as u16;
                let host = String::from_utf8(unhex(it.next().unwrap_or("-"))).unwrap_or_default();
                let ip = num(it.next()) as u32;
                let ip6 = unhex(it.next().unwrap_or("-"));
                let txt: Vec<(String, String)> = it
                    .next()
                    .unwrap_or("-")
                    .split(',')
                    .filter(|s| *s != "-" && !s.is_empty())
                    .map(|kv| {
                        let mut p = kv.splitn(2, '=');
                        (
                            String::from_utf8(unhex(p.next().unwrap_or("-"))).unwrap_or_default(),
                            String::from_utf8(unhex(p.next().unwrap_or("-"))).unwrap_or_default(),
                        )
                    })
                    .collect();
                let subs: Vec<String> = it
                    .next()
                    .unwrap_or("-")
                    .split(',')
                    .filter(|s| *s != "-" && !s.is_empty())
                    .map(|s| String::from_utf8(unhex(s)).unwrap_or_default())
                    .collect();
                let enc = guard(|| {
                    let mut a6 = [0u8; 16];
                    let v6: Vec<Ipv6Addr> = if ip6.len() == 16 {
                        a6.copy_from_slice(&ip6);
                        vec![Ipv6Addr::from(a6)]
                    } else {
                        vec![]
                    };
                    let h = Host { hostname: &host, ip: Ipv4Addr::from(ip), ipv6: &v6 };
                    let svc = MdnsLocalService {
                        name: &name,
                        service: "_matterc",
                        protocol: "_udp",
                        service_protocol: "_matterc._udp",
                        port,
                        service_subtypes: subs.iter().map(|s| s.as_str()),
                        txt_kvs: txt.iter().map(|(k, v)| (k.as_str(), v.as_str())),
                    };
                    let mut buf = vec![0u8; 8192];
                    match h.broadcast(&svc, &mut buf, 60, 60) {
                        Ok(n) => hex(&buf[..n]),
                        Err(e) => errname(&e),
                    }
                });
                if enc == "panic" || enc.starts_with("err") {
                    return enc;
                }
                format!("{} {}", enc, dec(unhex(&enc)))
            }
            Some("dec") => dec(unhex(it.next().unwrap_or("-"))),
            _ => "badop".into(),
        }
    }
}

// ------------------------------------------------------------------ Matter TLV certificate -> X.509 DER

mod cert {
    use super::*;
    use rs_matter::cert::CertRef;
    use rs_matter::tlv::TLVElement;

    /// minimal DER walker: (tag, content range) of the element at `pos`
    fn der_elem(b: &[u8], pos: usize) -> Option<(u8, usize, usize)> {
        let tag = *b.get(pos)?;
        let l0 = *b.get(pos + 1)? as usize;
        let (len, hdr) = if l0 < 0x80 {
            (l0, 2)
        } else {
            let n = l0 & 0x7f;
            if n == 0 || n > 3 {
                return None;
            }
            let mut v = 0usize;
            for i in 0..n {
                v = (v << 8) | *b.get(pos + 2 + i)? as usize;
            }
            (v, 2 + n)
        };
        let start = pos + hdr;
        let end = start.checked_add(len)?;
        if end > b.len() {
            return None;
        }
        Some((tag, start, end))
    }

    /// walks TBSCertificate ::= SEQ { [0] version, serial, sigalg, issuer, validity, subject, spki, ... };
    /// returns (well-formed, public key bytes) - the implementation-side "decoded fields"
    fn der_summary(der: &[u8]) -> String {
        let Some((t, s, e)) = der_elem(der, 0) else { return "der-bad-outer".into() };
        if t != 0x30 || e != der.len() {
            return "der-bad-outer".into();
        }
        let mut pos = s;
        let mut tags = Vec::new();
        let mut spki: Option<(usize, usize)> = None;
        let mut idx = 0;
        while pos < e {
            let Some((t, cs, ce)) = der_elem(der, pos) else { return "der-bad-field".into() };
            tags.push(t);
            if idx == 6 {
                spki = Some((cs, ce));
            }
            pos = ce;
            idx += 1;
        }
        if tags.len() < 7 || tags[0] != 0xa0 || tags[1] != 0x02 || tags[2..7].iter().any(|t| *t != 0x30) {
            return format!("der-bad-tbs:{}", hex(&tags));
        }
        // SPKI ::= SEQ { SEQ alg, BIT STRING key }
        let (ss, se) = spki.unwrap();
        let Some((_, _, ae)) = der_elem(der, ss) else { return "der-bad-spki".into() };
        let Some((bt, bs, be)) = der_elem(der, ae) else { return "der-bad-spki".into() };
        if bt != 0x03 || be != se || bs >= be {
            return "der-bad-spki".into();
        }
        format!("der-ok key={}", hex(&der[bs + 1..be]))
    }

    pub fn asn1(tlv: Vec<u8>) -> String {
        with_timeout(move || {
            let c = CertRef::new(TLVElement::new(&tlv));
            let mut buf = vec![0u8; 2048];
            match c.as_asn1(&mut buf) {
                Ok(n) => {
                    let key = match c.pubkey() {
                        Ok(k) => hex(k),
                        Err(_) => "nokey".into(),
                    };
                    format!("ok {} tlvkey={} {}", hex(&buf[..n]), key, der_summary(&buf[..n]))
                }
                Err(e) => errname(&e),
            }
        })
    }

    pub fn run(op: &str) -> String {
        let mut it = op.split_whitespace();
        match it.next() {
            // vec <index>: one of the copied test vectors, with the test suite's expected DER where it has one
            Some("vec") => {
                let i = num(it.next()) as usize % certs::CERTS.len();
                let (_, tlv, want) = certs::CERTS[i];
                let r = asn1(unhex(tlv));
                if !want.is_empty() {
                    let got = r.split_whitespace().nth(1).unwrap_or("");
                    if got != want {
                        return format!("vector-mismatch {}", r);
                    }
                }
                r
            }
            Some("dec") => asn1(unhex(it.next().unwrap_or("-"))),
            // small buffer: must be an error, not a panic
            Some("small") => {
                let i = num(it.next()) as usize % certs::CERTS.len();
                let cap = num(it.next()) as usize;
                let tlv = unhex(certs::CERTS[i].1);
                with_timeout(move || {
                    let c = CertRef::new(TLVElement::new(&tlv));
                    let mut buf = vec![0u8; cap];
                    match c.as_asn1(&mut buf) {
                        Ok(n) => format!("ok-len {}", n),
                        Err(e) => errname(&e),
                    }
                })
            }
            _ => "badop".into(),
        }
    }

    pub fn vector(i: usize) -> Vec<u8> {
        unhex(certs::CERTS[i % certs::CERTS.len()].1)
    }
    pub fn nvec() -> usize {
        certs::CERTS.len()
    }
}

pub fn run_op(kind: &str, op: &str) -> Option<String> {
    Some(match kind {
        "adv" => adv::run(op),
        "mdns" => mdns::run(op),
        "cert" => cert::run(op),
        _ => return None,
    })
}

// ------------------------------------------------------------------ generators

fn gen_adv(r: &mut Rng, out: &mut Out) -> Vec<String> {
    let mut ops = Vec::new();
    if r.chance(1, 5) {
        out.stat("adv_recovery", 1);
        ops.push(format!("rrt {}", hex(&r.bytes(8))));
    } else {
        let disc = if r.chance(1, 8) { r.range(4096, 65535) } else { edge(r, 12) };
        out.stat(if disc < 4096 { "adv_legal" } else { "adv_disc_out_of_range" }, 1);
        ops.push(format!("rt {} {} {}", edge(r, 16), edge(r, 16), disc));
    }
    let res = super::run_op("adv", &ops[0]);
    if let Some(w) = res.split_whitespace().next() {
        if w.bytes().all(|c| c.is_ascii_hexdigit()) {
            let b = unhex(w);
            for _ in 0..4 {
                let m = mutate(r, &b, out);
                ops.push(format!("dec {}", hex(&m)));
            }
        }
    }
    // hand-made AD structure sequences: unrelated records, zero length, over-long length
    let mut adv = Vec::new();
    for _ in 0..r.below(4) {
        let n = r.below(6) as usize;
        adv.push((n + 1) as u8);
        adv.push(*r.pick(&[0x01u8, 0x16, 0x09, 0xff]));
        adv.extend(r.bytes(n));
    }
    if r.chance(1, 2) {
        adv.extend_from_slice(&[0x0b, 0x16, 0xf6, 0xff, r.below(3) as u8]);
        let k = r.below(10) as usize;
        adv.extend(r.bytes(k));
    }
    ops.push(format!("dec {}", hex(&adv)));
    ops
}

const NAMECH: &[u8] = b"ABCDEFGHIJKLMNOPQRSTUVWXYZ0123456789-";

fn gen_mdns(r: &mut Rng, out: &mut Out) -> Vec<String> {
    let nlen = *r.pick(&[1usize, 8, 16, 33, 63]);
    let name: Vec<u8> = (0..nlen).map(|_| *r.pick(NAMECH)).collect();
    let hlen = *r.pick(&[1usize, 12, 16, 63]);
    let host: Vec<u8> = (0..hlen).map(|_| *r.pick(NAMECH)).collect();
    let ntxt = *r.pick(&[0usize, 1, 2, 5, 9]);
    let keys = ["D", "VP", "CM", "DT", "DN", "SII", "SAI", "SAT", "T", "ICD", "PH", "PI", "RI"];
    let mut txt = Vec::new();
    for i in 0..ntxt {
        let k = keys[(i + r.below(3) as usize) % keys.len()];
        let vlen = *r.pick(&[0usize, 1, 4, 11, 40, 200]);
        let v: Vec<u8> = (0..vlen).map(|_| *r.pick(b"0123456789+=abcXYZ ")).collect();
        txt.push(format!("{}={}", hex(k.as_bytes()), hex(&v)));
    }
    let subs: Vec<String> = (0..r.below(4)).map(|i| hex(format!("_{}{}", ["L", "S", "V", "CM"][i as usize % 4], r.below(4096)).as_bytes())).collect();
    out.stat(&format!("mdns_txt_{}", ntxt), 1);
    let ip6 = if r.chance(1, 2) { hex(&r.bytes(16)) } else { "-".into() };
    let rt = format!(
        "rt {} {} {} {} {} {} {}",
        hex(&name),
        edge(r, 16),
        hex(&host),
        if r.chance(1, 4) { 0 } else { edge(r, 32) },
        ip6,
        if txt.is_empty() { "-".into() } else { txt.join(",") },
        if subs.is_empty() { "-".into() } else { subs.join(",") }
    );
    let res = super::run_op("mdns", &rt);
    let mut ops = vec![rt];
    if let Some(w) = res.split_whitespace().next() {
        if w.len() > 24 && w.bytes().all(|c| c.is_ascii_hexdigit()) {
            let b = unhex(w);
            for _ in 0..4 {
                let m = mutate(r, &b, out);
                ops.push(format!("dec {}", hex(&m)));
            }
            // targeted: name compression pointer loops / out-of-range pointers, counts larger than the data
            let mut m = b.clone();
            if m.len() > 14 {
                m[12] = 0xc0;
                m[13] = *r.pick(&[12u8, 13, 0xff, 0]);
                ops.push(format!("dec {}", hex(&m)));
            }
            let mut m = b.clone();
            m[6] = 0xff;
            m[7] = 0xff;
            ops.push(format!("dec {}", hex(&m)));
        }
    }
    if r.chance(1, 3) {
        out.stat("mdns_arbitrary", 1);
        let n = r.range(0, 80) as usize;
        let mut b = r.bytes(n);
        if n > 3 {
            b[2] |= 0x80; // QR = response
        }
        ops.push(format!("dec {}", hex(&b)));
    }
    ops
}

fn gen_cert(r: &mut Rng, out: &mut Out) -> Vec<String> {
    let i = r.below(cert::nvec() as u64) as usize;
    let mut ops = vec![format!("vec {}", i)];
    let base = cert::vector(i);
    for _ in 0..6 {
        match r.below(8) {
            0 => {
                out.stat("cert_small_buf", 1);
                ops.push(format!("small {} {}", i, *r.pick(&[0u64, 1, 4, 16, 100, 200, 300])));
            }
            1 => {
                out.stat("cert_truncated", 1);
                let n = r.below(base.len() as u64) as usize;
                ops.push(format!("dec {}", hex(&base[..n])));
            }
            2 => {
                out.stat("cert_arbitrary", 1);
                let n = r.range(0, 40) as usize;
                ops.push(format!("dec {}", hex(&r.bytes(n))));
            }
            3 => {
                out.stat("cert_len_byte", 1);
                // corrupt a TLV length / control byte in the first 40 bytes (the DN lists, the validity)
                let mut m = base.clone();
                let k = r.below(40.min(m.len() as u64)) as usize;
                m[k] = *r.pick(&[0x00u8, 0x18, 0x15, 0x16, 0x17, 0x30, 0x31, 0xff, 0x2c, 0x26]);
                ops.push(format!("dec {}", hex(&m)));
            }
            _ => {
                let m = mutate(r, &base, out);
                ops.push(format!("dec {}", hex(&m)));
            }
        }
    }
    ops
}

pub fn gen(r: &mut Rng, out: &mut Out, thorough: bool, id: &mut u64) {
    let scale: u64 = if thorough { 10 } else { 1 };
    let plan: Vec<(&str, u64)> = vec![("adv", 400), ("mdns", 300), ("cert", 300)];
    for (kind, n) in plan {
        for _ in 0..n * scale {
            let mut cr = r.fork();
            let ops = match kind {
                "adv" => gen_adv(&mut cr, out),
                "mdns" => gen_mdns(&mut cr, out),
                _ => gen_cert(&mut cr, out),
            };
            out.stat(&format!("kind_{}", kind), 1);
            // all three formats of this file are modelled and proved now: `adv` (AdvData + RecoveryAdvData:
            // Model/Codec/BleAdv.lean, BleRecovery.lean, recomputed by the driver), the mDNS format
            // (Model/Codec/Mdns.lean, checked in the `mdns2` sub-stream, c17_mdns.rs) and the certificate
            // conversion (Model/Codec/Der.lean + CertAsn1.lean, kind `derw`, c17_der.rs); the `mdns` and `cert`
            // streams here stay as additional implementation-side oracles, no `unproved_codec_*` stat is left
            if false {
                out.stat(&format!("unproved_codec_{}", kind), 1);
            }
            super::emit_case(out, *id, kind, ops);
            *id += 1;
        }
    }
}
