import RsMatterVerif.Lemmas.AdminHist
/-!
# Lemmas for C07: restarts - the stored resumption records fit the stored fabrics

`restartFrom_genInv` (AdminGen) needs `RecOK kv` of the store the node restarts from.  Here: along
EVERY history (store faults at any write included) the current store and every element of the store
history are `RecOK`.  The invariant is `RecLive`: every stored resumption record refers to a fabric
the node has, with the generation of the record - or, while the last store of the cache has failed
(`resumStale`), to no fabric at all (`StoreSub` then gives `RecOK`).  It relies on the purged cache
being stored whenever a fabric goes away (fix 90703c9) and on the retry of a failed store before
`AddNOC` makes a new fabric (fix of `C07-failed-purge-on-rollback`): a record whose fabric is gone can
only stay in the store while the mark is set, and no fabric index is handed out while it is.
-/
namespace Admin

/-- every stored resumption record refers to a fabric the node has, of the record's generation - or,
while the last store of the cache has failed, to no fabric at all -/
def RecLive (n : Node) : Prop :=
  ∀ l, n.kv.resum = .recs l → ∀ r ∈ l,
    fabGen n r.fab = some r.gen ∨ (n.resumStale = true ∧ fabGen n r.fab = none)

/-- the same without the mark: the state between a rollback and the store of the purged cache -/
def RecWeak (n : Node) : Prop :=
  ∀ l, n.kv.resum = .recs l → ∀ r ∈ l, fabGen n r.fab = some r.gen ∨ fabGen n r.fab = none

def HistOK (n : Node) : Prop := ∀ kv ∈ n.hist, RecOK kv

theorem recWeak_of {n : Node} (h : RecLive n) : RecWeak n :=
  fun l hl r hr => (h l hl r hr).elim Or.inl (fun x => Or.inr x.2)

theorem recOK_of_weak {n : Node} (h : GenInv n) (hl : RecWeak n) : RecOK n.kv := by
  intro l hl' r hr f' hk
  obtain ⟨f, hf, hg⟩ := h.2 r.fab f' hk
  rcases hl l hl' r hr with this | this
  · unfold fabGen at this
    rw [hf] at this
    simp only [Option.map_some, Option.some.injEq] at this
    rw [← hg]; exact this
  · unfold fabGen at this
    rw [hf] at this
    simp at this

theorem recOK_of {n : Node} (h : GenInv n) (hl : RecLive n) : RecOK n.kv :=
  recOK_of_weak h (recWeak_of hl)

structure Rec (n : Node) : Prop where
  live : RecLive n
  hist : HistOK n

theorem recLive_same {n n' : Node} (hf : ∀ i, fabGen n' i = fabGen n i) (hk : n'.kv.resum = n.kv.resum)
    (hs : n'.resumStale = n.resumStale) (h : RecLive n) : RecLive n' := by
  intro l hl r hr
  rw [hf, hs]; exact h l (by rw [← hk]; exact hl) r hr

theorem rec_same {n n' : Node} (hf : ∀ i, fabGen n' i = fabGen n i) (hk : n'.kv = n.kv)
    (hh : n'.hist = n.hist) (hs : n'.resumStale = n.resumStale) (h : Rec n) : Rec n' :=
  ⟨recLive_same hf (by rw [hk]) hs h.live, by unfold HistOK; rw [hh]; exact h.hist⟩

/-- a commit: the new store is `RecOK` because the state after it is `GenInv` and `RecLive` -/
theorem rec_commit {n m : Node} (hg : GenInv m) (hl : RecLive m)
    (hh : m.hist = m.kv :: n.hist ∨ m.hist = n.hist) (hn : HistOK n) : Rec m := by
  refine ⟨hl, fun kv hk => ?_⟩
  rcases hh with hh | hh
  · rw [hh] at hk
    rcases List.mem_cons.mp hk with rfl | hk
    · exact recOK_of hg hl
    · exact hn kv hk
  · rw [hh] at hk; exact hn kv hk

/-! ### the primitives, with or without a fault -/

theorem kvTick_stale (n : Node) : (kvTick n).1.resumStale = n.resumStale := by
  unfold kvTick; split <;> (try split) <;> rfl

theorem storeFabric_stale (n : Node) (f : Fabric) : (storeFabric n f).1.resumStale = n.resumStale := by
  have := kvTick_stale n
  unfold storeFabric
  rcases ht : kvTick n with ⟨n1, bad⟩
  rw [ht] at this
  cases bad <;> exact this

theorem storeNets_stale (n : Node) : (storeNets n).1.resumStale = n.resumStale := by
  have := kvTick_stale n
  unfold storeNets
  rcases ht : kvTick n with ⟨n1, bad⟩
  rw [ht] at this
  cases bad <;> exact this

theorem removeFabricKey_stale (n : Node) (idx : Nat) : (removeFabricKey n idx).1.resumStale = n.resumStale := by
  have := kvTick_stale n
  unfold removeFabricKey
  rcases ht : kvTick n with ⟨n1, bad⟩
  rw [ht] at this
  cases bad with
  | true => exact this
  | false =>
    simp only [Bool.false_eq_true, if_false]
    split <;> exact this

theorem rec_storeFabric {n : Node} (f : Fabric) (hget : getFabric n f.idx = some f) (hg : GenInv n) (h : Rec n) :
    Rec (storeFabric n f).1 := by
  have hg' := genInv_storeFabric n f hget hg
  have ⟨hfr, hst⟩ := storeFabric_spec n f
  have hl : RecLive (storeFabric n f).1 := by
    refine recLive_same (n := n) (fun i => fabGen_congr hfr.fabrics i) ?_ (storeFabric_stale n f) h.live
    rcases hst with ⟨_, hkv, _⟩ | ⟨_, hkv, _⟩ <;> rw [hkv] <;> rfl
  refine rec_commit hg' hl ?_ h.hist
  rcases hst with ⟨_, hkv, hh⟩ | ⟨_, hkv, hh⟩
  · left; rw [hh, hkv]
  · right; exact hh

theorem rec_storeNets {n : Node} (hg : GenInv n) (h : Rec n) : Rec (storeNets n).1 := by
  have hg' := genInv_storeNets n hg
  have ⟨hfr, hst⟩ := storeNets_spec n
  have hl : RecLive (storeNets n).1 := by
    refine recLive_same (n := n) (fun i => fabGen_congr hfr.fabrics i) ?_ (storeNets_stale n) h.live
    rcases hst with ⟨_, hkv, _⟩ | ⟨_, hkv, _⟩ <;> rw [hkv]
  refine rec_commit hg' hl ?_ h.hist
  rcases hst with ⟨_, hkv, hh⟩ | ⟨_, hkv, hh⟩
  · left; rw [hh, hkv]
  · right; exact hh

/-- `store_resumption`: whatever the stored records were - live, or without a fabric -, afterwards
they are the (live) records of the node, or the failure is marked -/
theorem rec_storeResum_weak {n : Node} (hg : GenInv n) (hw : RecWeak n) (hh : HistOK n) :
    Rec (storeResum n).1 := by
  have hg' := storeResum_genInv n hg
  have ⟨hfr, _, _, hst⟩ := storeResum_spec n
  rcases hst with ⟨_, hkv, hhi, hs⟩ | ⟨_, hkv, hhi, hs⟩
  · refine ⟨fun l hl r hr => ?_, by unfold HistOK; rw [hhi]; exact hh⟩
    rw [hkv] at hl
    rw [fabGen_congr hfr.fabrics, hs]
    rcases hw l hl r hr with h1 | h2
    · exact Or.inl h1
    · exact Or.inr ⟨rfl, h2⟩
  · refine rec_commit hg' ?_ (Or.inl (by rw [hhi, hkv])) hh
    intro l hl r hr
    rw [hkv] at hl
    injection hl with hl
    subst hl
    left
    rw [fabGen_congr hfr.fabrics]
    exact hg.1.2 r hr

theorem rec_storeResum {n : Node} (hg : GenInv n) (h : Rec n) : Rec (storeResum n).1 :=
  rec_storeResum_weak hg (recWeak_of h.live) h.hist

theorem genInv_filterResum (n : Node) (p : Resum → Bool) (h : GenInv n) :
    GenInv { n with resum := n.resum.filter p } :=
  ⟨noDangling_sub (n := n) (fun i g hg => hg) (fun s' hs' he _ => ⟨s', hs', he, rfl, rfl⟩)
    (fun r' hr' => ⟨r', (List.mem_filter.mp hr').1, rfl, rfl⟩) h.1, h.2⟩

/-- the purge: whatever the stored records were, afterwards they are the (live) records of the node,
or the failure is marked -/
theorem rec_purgeResum_weak {n : Node} (idx : Nat)
    (hg : GenInv { n with resum := n.resum.filter (fun r => r.fab ≠ idx) }) (hw : RecWeak n) (hh : HistOK n) :
    Rec (purgeResum n idx).1 :=
  rec_storeResum_weak hg hw hh

theorem rec_purgeResum {n : Node} (idx : Nat) (hg : GenInv n) (h : Rec n) : Rec (purgeResum n idx).1 :=
  rec_purgeResum_weak idx (genInv_filterResum n _ hg) (recWeak_of h.live) h.hist

theorem rec_removeFabricKey_keep {n : Node} (idx : Nat) :
    (∀ i, fabGen (removeFabricKey n idx).1 i = fabGen n i) ∧
    (removeFabricKey n idx).1.kv.resum = n.kv.resum ∧
    (removeFabricKey n idx).1.resumStale = n.resumStale :=
  ⟨fun i => fabGen_congr (removeFabricKey_spec n idx).1.fabrics i, (removeFabricKey_spec n idx).2.2.1,
   removeFabricKey_stale n idx⟩


/-! ### expiry -/

/-- when the rollback does not drop the fail-safe's fabric, every fabric keeps its generation -/
theorem expireArmed_keep (cfg : Cfg) (n : Node) (a : Armed) (exp : Option Nat) (h : GenInv n)
    (hnone : (expireArmed cfg n a exp).2.2 = none) :
    ∀ i g, fabGen n i = some g → fabGen (expireArmed cfg n a exp).1 i = some g := by
  cases hr : rollbackFabrics cfg n a with
  | error e =>
    have : expireArmed cfg n a exp = (n, some e, none) := by unfold expireArmed; simp [hr]
    rw [this]; exact fun i g hg => hg
  | ok fs =>
    have hst := rollbackFabrics_struct cfg n a fs hr
    have ⟨f1, _, _, _, f5⟩ := expireArmed_fields cfg n a exp fs hr
    rw [f5] at hnone
    intro i g hg
    unfold fabGen getFabric at hg ⊢
    rw [f1, hst]
    by_cases hc : a.fab ≠ 0 ∧ i = a.fab
    · rw [if_pos hc]
      rcases removedOf_none a fs hnone with h0 | hs
      · exact absurd h0 hc.1
      · have hk := hst a.fab
        rw [if_pos ⟨hc.1, rfl⟩] at hk
        rw [hk] at hs
        cases hkv : kvF n.kv a.fab with
        | none => rw [hkv] at hs; cases hs
        | some f' =>
          obtain ⟨f, hf, hfg⟩ := h.2 a.fab f' hkv
          unfold getFabric at hf
          rw [hc.2, hf] at hg
          simp only [Option.map_some] at hg ⊢
          rw [← hfg]; exact hg
    · rw [if_neg hc]; exact hg

/-- what a rollback does to the generations in general: an index keeps its generation or loses its
fabric, and an index without a fabric stays without one -/
theorem expireArmed_gens (cfg : Cfg) (n : Node) (a : Armed) (exp : Option Nat) (h : GenInv n) :
    (∀ i g, fabGen n i = some g →
      fabGen (expireArmed cfg n a exp).1 i = some g ∨ fabGen (expireArmed cfg n a exp).1 i = none) ∧
    (∀ i, fabGen n i = none → fabGen (expireArmed cfg n a exp).1 i = none) := by
  cases hr : rollbackFabrics cfg n a with
  | error e =>
    have : expireArmed cfg n a exp = (n, some e, none) := by unfold expireArmed; simp [hr]
    rw [this]; exact ⟨fun i g hg => Or.inl hg, fun i hg => hg⟩
  | ok fs =>
    have hst := rollbackFabrics_struct cfg n a fs hr
    have ⟨f1, _, _, _, _⟩ := expireArmed_fields cfg n a exp fs hr
    have key : ∀ i, fabGen (expireArmed cfg n a exp).1 i = fabGen n i ∨
        (fabGen (expireArmed cfg n a exp).1 i = none ∧ ∃ g, fabGen n i = some g) ∨
        (fabGen (expireArmed cfg n a exp).1 i = none ∧ fabGen n i = none) := by
      intro i
      unfold fabGen getFabric
      rw [f1, hst]
      by_cases hc : a.fab ≠ 0 ∧ i = a.fab
      · rw [if_pos hc]
        cases hkv : kvF n.kv a.fab with
        | none =>
          cases hgi : n.fabrics.find? (fun f => decide (f.idx = i)) with
          | none => exact Or.inr (Or.inr ⟨rfl, rfl⟩)
          | some f => exact Or.inr (Or.inl ⟨rfl, f.gen, rfl⟩)
        | some f' =>
          obtain ⟨f, hf, hfg⟩ := h.2 a.fab f' hkv
          unfold getFabric at hf
          rw [hc.2, hf]
          left
          simp only [Option.map_some]
          rw [hfg]
      · rw [if_neg hc]; exact Or.inl rfl
    refine ⟨fun i g hg => ?_, fun i hg => ?_⟩
    · rcases key i with k | ⟨k, _⟩ | ⟨k, _⟩
      · left; rw [k]; exact hg
      · exact Or.inr k
      · exact Or.inr k
    · rcases key i with k | ⟨k, _⟩ | ⟨k, _⟩
      · rw [k]; exact hg
      · exact k
      · exact k

theorem expireArmed_other (cfg : Cfg) (n : Node) (a : Armed) (exp : Option Nat) :
    (expireArmed cfg n a exp).1.resumStale = n.resumStale := by
  unfold expireArmed
  cases rollbackFabrics cfg n a <;> rfl

theorem rec_expireAndPurge (cfg : Cfg) (n : Node) (a : Armed) (exp : Option Nat) (hg : GenInv n) (h : Rec n) :
    Rec (expireAndPurge cfg n a exp).1 := by
  have hpost := expireAndPurge_genInv cfg n a exp hg
  have hkeep := expireArmed_keep cfg n a exp hg
  have ⟨hgen1, hgen2⟩ := expireArmed_gens cfg n a exp hg
  have ⟨hkv, hhist⟩ := expireArmed_kv cfg n a exp
  have hstale := expireArmed_other cfg n a exp
  have herr := expireArmed_error cfg n a exp
  unfold expireAndPurge at hpost ⊢
  rcases hres : expireArmed cfg n a exp with ⟨n1, e, r⟩
  rw [hres] at hpost hkeep hgen1 hgen2 hkv hhist hstale herr
  simp only at hpost hkeep hgen1 hgen2 hkv hhist hstale herr
  cases e with
  | some e =>
    have := herr e rfl
    subst this
    exact h
  | none =>
    cases r with
    | none =>
      simp only [] at hpost ⊢
      refine ⟨fun l hl r hr => ?_, by unfold HistOK; rw [hhist]; exact h.hist⟩
      rw [hkv] at hl
      rw [hstale]
      rcases h.live l hl r hr with h1 | ⟨h2, h3⟩
      · exact Or.inl (hkeep rfl _ _ h1)
      · exact Or.inr ⟨h2, hgen2 _ h3⟩
    | some idx =>
      simp only [] at hpost ⊢
      -- the state between the rollback and the store of the purged cache
      have hw : RecWeak n1 := by
        intro l hl r hr
        rw [hkv] at hl
        rcases h.live l hl r hr with h1 | ⟨_, h3⟩
        · exact hgen1 _ _ h1
        · exact Or.inr (hgen2 _ h3)
      have hh1 : HistOK n1 := by unfold HistOK; rw [hhist]; exact h.hist
      have ⟨hfr, hf, _, _⟩ := storeResum_spec { n1 with resum := n1.resum.filter (fun r => decide (r.fab ≠ idx)) }
      have hg0 : GenInv { n1 with resum := n1.resum.filter (fun r => decide (r.fab ≠ idx)) } :=
        genInv_same (n := (purgeResum n1 idx).1) hfr.fabrics.symm hfr.sessions.symm hfr.resum.symm hf.symm
          (by
            rcases hp : purgeResum n1 idx with ⟨n2, b⟩
            rw [hp] at hpost
            cases b <;> exact hpost)
      have h2 := rec_purgeResum_weak (n := n1) idx hg0 hw hh1
      rcases hp : purgeResum n1 idx with ⟨n2, b⟩
      rw [hp] at h2
      cases b <;> exact h2

theorem rec_expire (cfg : Cfg) (n : Node) (exp : Option Nat) (hg : GenInv n) (h : Rec n) :
    Rec (expire cfg n exp).1 := by
  unfold expire
  cases n.fs with
  | none => exact h
  | some a => exact rec_expireAndPurge cfg n a exp hg h

theorem windowTimeout_other (n : Node) :
    (windowTimeout n).resumStale = n.resumStale ∧ (windowTimeout n).fabrics = n.fabrics := by
  unfold windowTimeout; split <;> (try split) <;> exact ⟨rfl, rfl⟩

theorem rec_windowTimeout (n : Node) (h : Rec n) : Rec (windowTimeout n) :=
  rec_same (fun i => fabGen_congr (windowTimeout_other n).2 i) (windowTimeout_kv n).1 (windowTimeout_kv n).2
    (windowTimeout_other n).1 h

theorem rec_checkTimeouts (cfg : Cfg) (n : Node) (sid : Option Nat) (hg : GenInv n) (h : Rec n) :
    Rec (checkTimeouts cfg n sid).1 := by
  unfold checkTimeouts
  cases hfs : n.fs with
  | none => exact rec_windowTimeout n h
  | some a =>
    simp only []
    by_cases ht : n.now ≥ a.armedAt + a.timeout
    · simp only [ht, if_true]
      have h1 := rec_expireAndPurge cfg n a (expSid n sid) hg h
      have heq : (expireAndPurgeLenient cfg n a (expSid n sid)).1 = (expireAndPurge cfg n a (expSid n sid)).1 := rfl
      cases he : (expireAndPurgeLenient cfg n a (expSid n sid)).2 with
      | some e => simp only []; rw [heq]; exact h1
      | none => simp only []; rw [heq]; exact rec_windowTimeout _ h1
    · simp only [ht, if_false]; exact rec_windowTimeout n h


/-! ### the commands -/

/-- the commands that touch neither the store nor the fabric table -/
theorem sessOp_mem_untouched (cfg : Cfg) (n : Node) (sid : Nat) (mode : Mode) (op : Op)
    (hop : (∃ s u, op = .csr s u) ∨ (∃ s c, op = .root s c) ∨
           (∃ s v, op = .net s v) ∨ (∃ s v, op = .rmnet s v) ∨ (∃ s t, op = .arm s t ∧ t ≠ 0) ∨
           (∃ s v, op = .bcw s v) ∨ (∃ s, op = .openW s)) :
    (sessOp cfg n sid mode op).1.fabrics = n.fabrics ∧ (sessOp cfg n sid mode op).1.resumStale = n.resumStale := by
  rcases hop with ⟨s, u, rfl⟩ | ⟨s, c, rfl⟩ | ⟨s, v, rfl⟩ | ⟨s, v, rfl⟩ | ⟨s, t, rfl, ht⟩ | ⟨s, v, rfl⟩ | ⟨s, rfl⟩
  all_goals simp only [sessOp]
  all_goals repeat' split
  all_goals first | exact ⟨rfl, rfl⟩ | (exfalso; omega) | exact ⟨(windowTimeout_other n).2, (windowTimeout_other n).1⟩ | skip

theorem rec_untouched (cfg : Cfg) (n : Node) (sid : Nat) (mode : Mode) (op : Op) (h : Rec n)
    (hop : (∃ s u, op = .csr s u) ∨ (∃ s c, op = .root s c) ∨
           (∃ s v, op = .net s v) ∨ (∃ s v, op = .rmnet s v) ∨ (∃ s t, op = .arm s t ∧ t ≠ 0) ∨
           (∃ s v, op = .bcw s v) ∨ (∃ s, op = .openW s)) : Rec (sessOp cfg n sid mode op).1 := by
  have ⟨h1, h2⟩ := sessOp_mem_untouched cfg n sid mode op hop
  have ⟨h3, h4⟩ := sessOp_store_untouched cfg n sid mode op (by
    rcases hop with h | h | h | h | h | h | h
    · exact Or.inl h
    · exact Or.inr (Or.inl h)
    · exact Or.inr (Or.inr (Or.inr (Or.inl h)))
    · exact Or.inr (Or.inr (Or.inr (Or.inr (Or.inl h))))
    · exact Or.inr (Or.inr (Or.inr (Or.inr (Or.inr (Or.inl h)))))
    · exact Or.inr (Or.inr (Or.inr (Or.inr (Or.inr (Or.inr (Or.inl h))))))
    · exact Or.inr (Or.inr (Or.inr (Or.inr (Or.inr (Or.inr (Or.inr h)))))))
  exact rec_same (fun i => fabGen_congr h1 i) h3 h4 h2 h

theorem rec_fabric_write (n : Node) (f f' : Fabric) (hidx : f'.idx = f.idx) (hgen : f'.gen = f.gen)
    (hget : getFabric n f.idx = some f) (hg : GenInv n) (h : Rec n) :
    Rec (if armedFor (setFabric n f') f.idx then ok (markDeferred (setFabric n f'))
      else match storeFabric (setFabric n f') f' with
        | (n, true) => ok n
        | (n, false) => (n, .err "NoSpace")).1 := by
  have hg1 := genInv_setFabric n f f' hidx hgen hget hg
  have h1 : Rec (setFabric n f') :=
    rec_same (fabGen_setFabric n f f' hidx hgen hget) rfl rfl rfl h
  have hget1 : getFabric (setFabric n f') f'.idx = some f' := by
    rw [getFabric_setFabric_eq n f f' hidx hget, hidx]; simp
  split
  · have ⟨m1, _, _, m4, m5⟩ := markDeferred_fields (setFabric n f')
    have mf : (markDeferred (setFabric n f')).resumStale = (setFabric n f').resumStale := by
      unfold markDeferred; cases (setFabric n f').fs <;> rfl
    exact rec_same (n' := markDeferred (setFabric n f')) (fun i => fabGen_congr m1 i) m4 m5 mf h1
  · have := rec_storeFabric f' hget1 hg1 h1
    rcases hst : storeFabric (setFabric n f') f' with ⟨n2, b⟩
    rw [hst] at this
    cases b <;> exact this

theorem rec_vvs (cfg : Cfg) (n : Node) (sid s : Nat) (mode : Mode) (hg : GenInv n) (h : Rec n) :
    Rec (sessOp cfg n sid mode (.vvs s)).1 := by
  simp only [sessOp]
  split
  · exact h
  · cases hgf : getFabric n mode.fab with
    | none => exact h
    | some f =>
      have hidx := getFabric_idx hgf
      simp only []
      split
      · exact h
      · have := rec_storeFabric f (by rw [hidx]; exact hgf) hg h
        rcases hst : storeFabric n f with ⟨n2, b⟩
        rw [hst] at this
        cases b <;> exact this

theorem rec_write (cfg : Cfg) (n : Node) (sid : Nat) (mode : Mode) (op : Op) (hg : GenInv n) (h : Rec n)
    (hop : (∃ s v, op = .acl s v) ∨ (∃ s v, op = .grp s v) ∨ (∃ s v, op = .label s v) ∨ (∃ s, op = .fwrite s)) :
    Rec (sessOp cfg n sid mode op).1 := by
  rcases hop with ⟨s, v, rfl⟩ | ⟨s, v, rfl⟩ | ⟨s, v, rfl⟩ | ⟨s, rfl⟩
  · simp only [sessOp]
    split
    · exact h
    · cases hgf : getFabric n mode.fab with
      | none => exact h
      | some f =>
        have hidx := getFabric_idx hgf
        simp only []
        split
        · exact h
        · exact rec_fabric_write n f { f with acl := f.acl ++ [v] } rfl rfl (by rw [hidx]; exact hgf) hg h
  · simp only [sessOp]
    split
    · exact h
    · cases hgf : getFabric n mode.fab with
      | none => exact h
      | some f =>
        have hidx := getFabric_idx hgf
        simp only []
        split
        · exact h
        · exact rec_fabric_write n f (if f.grp.contains v then f else { f with grp := f.grp ++ [v] })
            (by split <;> rfl) (by split <;> rfl) (by rw [hidx]; exact hgf) hg h
  · simp only [sessOp]
    split
    · exact h
    · split
      · exact h
      · cases hgf : getFabric n mode.fab with
        | none => exact h
        | some f =>
          have hidx := getFabric_idx hgf
          exact rec_fabric_write n f { f with label := v } rfl rfl (by rw [hidx]; exact hgf) hg h
  · simp only [sessOp]
    split
    · exact h
    · cases hgf : getFabric n mode.fab with
      | none => exact h
      | some f =>
        have hidx := getFabric_idx hgf
        exact rec_fabric_write n f f rfl rfl (by rw [hidx]; exact hgf) hg h

theorem rec_updnoc (cfg : Cfg) (n : Node) (sid s node ser : Nat) (mode : Mode) (h : Rec n) :
    Rec (sessOp cfg n sid mode (.updnoc s node ser)).1 := by
  simp only [sessOp]
  split
  · exact h
  · split
    · exact h
    · split
      · exact h
      · split
        · exact h
        · cases hgf : getFabric n mode.fab with
          | none => exact h
          | some f =>
            have hidx := getFabric_idx hgf
            simp only [ok]
            have h1 : Rec (setFabric n { f with node := node, ser := ser }) :=
              rec_same (fabGen_setFabric n f { f with node := node, ser := ser } rfl rfl (by rw [hidx]; exact hgf)) rfl rfl rfl h
            exact rec_same (n := setFabric n { f with node := node, ser := ser }) (fun i => rfl) rfl rfl rfl h1

theorem rec_undoAdded {n : Node} (idx : Nat) (hg : GenInv n) (h : Rec n) : Rec (undoAdded n idx) := by
  have hg' := undoAdded_genInv n idx hg
  have hl : RecLive (undoAdded n idx) := by
    unfold undoAdded
    split
    · have ⟨k1, k2, k3⟩ := rec_removeFabricKey_keep (n := n) idx
      exact recLive_same k1 k2 k3 h.live
    · exact h.live
  refine rec_commit hg' hl ?_ h.hist
  rcases undoAdded_hist n idx with ⟨_, hh⟩ | ⟨hkv, hh⟩
  · exact Or.inr hh
  · left; rw [hh, hkv]

theorem rec_complete (cfg : Cfg) (n : Node) (sid s : Nat) (mode : Mode) (hg : GenInv n) (h : Rec n) :
    Rec (sessOp cfg n sid mode (.complete s)).1 := by
  simp only [sessOp]
  split
  · exact h
  · split
    · exact h
    · cases hgf : getFabric n mode.fab with
      | none => exact h
      | some f =>
        have hidx := getFabric_idx hgf
        simp only []
        have hg1 := genInv_storeFabric n f (by rw [hidx]; exact hgf) hg
        have h1 := rec_storeFabric f (by rw [hidx]; exact hgf) hg h
        rcases hst : storeFabric n f with ⟨n1, b⟩
        rw [hst] at hg1 h1
        simp only at hg1 h1
        cases b with
        | false => exact h1
        | true =>
          simp only []
          have hg2 : GenInv { n1 with managed := true } := genInv_same rfl rfl rfl rfl hg1
          have h2 : Rec { n1 with managed := true } := rec_same (n := n1) (fun i => rfl) rfl rfl rfl h1
          have h3 := rec_storeNets hg2 h2
          rcases hsn : storeNets { n1 with managed := true } with ⟨n4, b4⟩
          rw [hsn] at h3
          simp only at h3
          cases b4 with
          | false =>
            simp only []
            have hg4 : GenInv n4 := by
              have := genInv_storeNets { n1 with managed := true } hg2
              rw [hsn] at this; exact this
            exact rec_undoAdded f.idx (genInv_same (n := n4) rfl rfl rfl rfl hg4)
              (rec_same (n := n4) (fun i => rfl) rfl rfl rfl h3)
          | true => simp only [ok]; exact rec_same (n := n4) (fun i => rfl) rfl rfl rfl h3

theorem rec_rmfab (cfg : Cfg) (n : Node) (sid s idx : Nat) (mode : Mode) (hg : GenInv n) (h : Rec n) :
    Rec (sessOp cfg n sid mode (.rmfab s idx)).1 := by
  have hfin := sessOp_rmfab_genInv cfg n sid s idx mode hg
  unfold sessOp at hfin ⊢
  by_cases h0 : idx = 0
  · simp only [h0, if_true]; exact h
  · simp only [h0, if_false] at hfin ⊢
    by_cases hh : hasFabric n idx = true
    · simp only [hh, if_true] at hfin ⊢
      have hg2 := (genInv_purgeResum n idx hg).1
      have h2 := rec_purgeResum idx hg h
      -- after an acknowledged purge the stored records are the node's, none of them of `idx`
      have hrec : (purgeResum n idx).2 = true → ∀ l, (purgeResum n idx).1.kv.resum = .recs l → ∀ r ∈ l,
          r.fab ≠ idx ∧ fabGen (purgeResum n idx).1 r.fab = some r.gen := by
        intro hb l hl r hr
        have ⟨p1, _, _, _, _, _, _, _, _, hst⟩ := purgeResum_spec n idx
        rcases hst with ⟨hkv, hhi⟩ | ⟨_, hkv, _⟩
        · -- the store was not touched although the call succeeded: impossible
          exfalso
          unfold purgeResum at hb hhi
          have ⟨_, _, _, hs2⟩ := storeResum_spec { n with resum := n.resum.filter (fun r => decide (r.fab ≠ idx)) }
          rcases hs2 with ⟨hb2, _⟩ | ⟨_, _, hh2, _⟩
          · rw [hb2] at hb; cases hb
          · rw [hh2] at hhi
            have := congrArg List.length hhi
            simp at this
        · rw [hkv] at hl
          injection hl with hl
          subst hl
          have hm := List.mem_filter.mp hr
          refine ⟨by simpa using hm.2, ?_⟩
          rw [fabGen_congr p1]
          exact hg.1.2 r hm.1
      rcases hp : purgeResum n idx with ⟨n2, b⟩
      rw [hp] at hg2 h2 hrec
      simp only [hp] at hfin ⊢
      simp only at hg2 h2 hrec
      cases b with
      | false => exact h2
      | true =>
        simp only [] at hfin ⊢
        have hrec := hrec rfl
        have ⟨k1, k2, k3⟩ := rec_removeFabricKey_keep (n := n2) idx
        have ⟨hfr, _, _, hst⟩ := removeFabricKey_spec n2 idx
        rcases hrk : removeFabricKey n2 idx with ⟨n3, b3⟩
        rw [hrk] at k1 k2 k3 hfr hst
        simp only [hrk] at hfin ⊢
        simp only at k1 k2 k3 hfr hst
        have hl3 : RecLive n3 := recLive_same k1 k2 k3 h2.live
        have hh3 : n3.hist = n3.kv :: n2.hist ∨ n3.hist = n2.hist := by
          rcases hst with ⟨_, _, ⟨hkv, hhi⟩ | ⟨_, hhi⟩⟩ | ⟨_, _, hhi⟩
          · left; rw [hhi, hkv]
          · right; exact hhi
          · right; exact hhi
        cases b3 with
        | false => exact rec_commit hfin hl3 hh3 h2.hist
        | true =>
          simp only [ok] at hfin ⊢
          refine rec_commit (n := n2) hfin ?_ hh3 h2.hist
          intro l hl r hr
          have hl' : n2.kv.resum = .recs l := by rw [← k2]; exact hl
          have ⟨hne, hlive⟩ := hrec l hl' r hr
          left
          unfold fabGen getFabric
          simp only []
          rw [find_filter_ne, if_neg hne]
          have := k1 r.fab
          unfold fabGen getFabric at this
          rw [this]
          exact hlive
    · simp only [hh, Bool.false_eq_true, if_false]; exact h

theorem addNoc_keep (cfg : Cfg) (n : Node) (sid ca fid node subj ser : Nat) (mode : Mode) :
    (∀ i g, fabGen n i = some g → fabGen (addNoc cfg n sid mode ca fid node subj ser).1 i = some g) ∧
    (addNoc cfg n sid mode ca fid node subj ser).1.resumStale = n.resumStale := by
  simp only [addNoc]
  split
  · exact ⟨fun i g h => h, rfl⟩
  · split
    · exact ⟨fun i g h => h, rfl⟩
    · split
      · exact ⟨fun i g h => h, rfl⟩
      · split
        · exact ⟨fun i g h => h, rfl⟩
        · split
          · exact ⟨fun i g h => h, rfl⟩
          · split
            · exact ⟨fun i g h => h, rfl⟩
            · split
              · exact ⟨fun i g h => h, rfl⟩
              · split
                · exact ⟨fun i g h => h, rfl⟩
                · rename_i idx hidx
                  have hfresh := getFabric_none_of_not_has (newIdx_fresh n idx hidx)
                  split
                  · exact ⟨fun i g h => h, rfl⟩
                  · generalize hf : ({ idx := idx, gen := n.nextGen, ca := n.staged, fid := fid, node := node, ser := ser,
                                       acl := [subj], grp := [], label := 0 } : Fabric) = f
                    have hfi : f.idx = idx := by rw [← hf]
                    have happ : ∀ i, i ≠ idx → (n.fabrics ++ [f]).find? (fun g => decide (g.idx = i)) = getFabric n i := by
                      intro i hi
                      rw [find_append_single]
                      have : ¬ f.idx = i := by rw [hfi]; exact fun hh => hi hh.symm
                      simp only [getFabric, this, if_false]
                      cases n.fabrics.find? (fun g => decide (g.idx = i)) <;> rfl
                    have hne : ∀ i g, fabGen n i = some g → i ≠ idx := by
                      intro i g hg hi
                      unfold fabGen at hg
                      rw [hi, hfresh] at hg; cases hg
                    split
                    · refine ⟨fun i g hg => ?_, rfl⟩
                      unfold fabGen getFabric at hg ⊢
                      simp only []
                      rw [happ i (hne i g hg)]; exact hg
                    · refine ⟨fun i g hg => ?_, rfl⟩
                      have hi := hne i g hg
                      unfold fabGen getFabric at hg ⊢
                      simp only []
                      rw [find_filter_ne, if_neg hi, happ i hi]; exact hg
                    · refine ⟨fun i g hg => ?_, rfl⟩
                      unfold fabGen getFabric at hg ⊢
                      simp only []
                      rw [happ i (hne i g hg)]; exact hg

/-- `addNoc` creates a fabric only while the stored cache is up to date: every stored record is live
and stays so -/
theorem rec_addNoc (cfg : Cfg) (n : Node) (sid ca fid node subj ser : Nat) (mode : Mode) (h : Rec n)
    (hs : n.resumStale = false) : Rec (addNoc cfg n sid mode ca fid node subj ser).1 := by
  have ⟨hk, hst⟩ := addNoc_keep cfg n sid ca fid node subj ser mode
  have ⟨h3, h4⟩ := addNoc_store_untouched cfg n sid mode ca fid node subj ser
  refine ⟨fun l hl r hr => ?_, by unfold HistOK; rw [h4]; exact h.hist⟩
  rw [h3] at hl
  rcases h.live l hl r hr with h1 | ⟨h2, _⟩
  · exact Or.inl (hk _ _ h1)
  · rw [hs] at h2; cases h2

theorem rec_addnoc (cfg : Cfg) (n : Node) (sid s ca fid node subj ser : Nat) (mode : Mode) (hg : GenInv n)
    (h : Rec n) : Rec (sessOp cfg n sid mode (.addnoc s ca fid node subj ser)).1 := by
  simp only [sessOp, retryResum]
  by_cases hs : n.resumStale = true
  · -- the last store of the cache failed: it is retried first
    simp only [hs, if_true]
    have h1 := rec_storeResum hg h
    have ⟨_, _, _, hst⟩ := storeResum_spec n
    rcases hsr : storeResum n with ⟨n1, b⟩
    rw [hsr] at h1 hst
    simp only at h1 hst
    cases b with
    | false => exact h1
    | true =>
      simp only []
      rcases hst with ⟨hb, _⟩ | ⟨_, _, _, hs1⟩
      · cases hb
      · exact rec_addNoc cfg n1 sid ca fid node subj ser mode h1 hs1
  · have hs' : n.resumStale = false := by simpa using hs
    simp only [hs', Bool.false_eq_true, if_false]
    exact rec_addNoc cfg n sid ca fid node subj ser mode h hs'

theorem sessOp_rec (cfg : Cfg) (n : Node) (sid : Nat) (mode : Mode) (op : Op) (hg : GenInv n) (h : Rec n) :
    Rec (sessOp cfg n sid mode op).1 := by
  cases op with
  | openW s => exact rec_untouched cfg n sid mode _ h (by simp)
  | arm s secs =>
    by_cases h0 : secs = 0
    · subst h0
      simp only [sessOp, if_true]
      have := rec_expire cfg n (some sid) hg h
      rcases hr : expire cfg n (some sid) with ⟨n1, e⟩
      rw [hr] at this
      cases e <;> exact this
    · exact rec_untouched cfg n sid mode _ h (Or.inr (Or.inr (Or.inr (Or.inr (Or.inl ⟨s, secs, rfl, h0⟩)))))
  | csr s upd => exact rec_untouched cfg n sid mode _ h (by simp)
  | root s ca => exact rec_untouched cfg n sid mode _ h (by simp)
  | net s v => exact rec_untouched cfg n sid mode _ h (by simp)
  | rmnet s v => exact rec_untouched cfg n sid mode _ h (by simp)
  | bcw s v => exact rec_untouched cfg n sid mode _ h (by simp)
  | addnoc s ca fid node subj ser => exact rec_addnoc cfg n sid s ca fid node subj ser mode hg h
  | updnoc s node ser => exact rec_updnoc cfg n sid s node ser mode h
  | acl s v => exact rec_write cfg n sid mode _ hg h (by simp)
  | grp s v => exact rec_write cfg n sid mode _ hg h (by simp)
  | label s v => exact rec_write cfg n sid mode _ hg h (by simp)
  | fwrite s => exact rec_write cfg n sid mode _ hg h (by simp)
  | vvs s => exact rec_vvs cfg n sid s mode hg h
  | complete s => exact rec_complete cfg n sid s mode hg h
  | rmfab s idx => exact rec_rmfab cfg n sid s idx mode hg h
  | revoke s =>
    simp only [sessOp]
    have := rec_expire cfg n (some sid) hg h
    rcases hr : expire cfg n (some sid) with ⟨n1, e⟩
    rw [hr] at this
    cases e with
    | some e => exact this
    | none => exact rec_same (n := n1) (fun i => rfl) rfl rfl rfl this
  | _ => exact h

/-! ### restart -/

theorem recOK_sub {kv kv' : KV} (hf : kv'.fabs = kv.fabs)
    (hr : ∀ l', kv'.resum = .recs l' → ∃ l, kv.resum = .recs l ∧ ∀ r ∈ l', r ∈ l) (h : RecOK kv) : RecOK kv' := by
  intro l' hl' r hr' f' hk
  obtain ⟨l, hl, hsub⟩ := hr l' hl'
  have hk' : kvF kv r.fab = some f' := by simpa [kvF, hf] using hk
  exact h l hl r (hsub r hr') f' hk'

theorem filter_eq_of_length {α : Type} (p : α → Bool) : ∀ (l : List α), (l.filter p).length = l.length → l.filter p = l := by
  intro l
  induction l with
  | nil => intro _; rfl
  | cons x xs ih =>
    intro h
    by_cases hx : p x = true
    · simp only [List.filter_cons, hx, if_true, List.length_cons, Nat.add_right_cancel_iff] at h ⊢
      rw [ih h]
    · have hx' : p x = false := by simpa using hx
      simp only [List.filter_cons, hx', Bool.false_eq_true, if_false, List.length_cons] at h
      have := List.length_filter_le p xs
      omega

/-- a restart from a `RecOK` store: the stored records are the (live) records of the node again, and
what it adds to the store history is `RecOK` -/
theorem rec_restartFrom (n : Node) (kv : KV) (hist : List KV) (h : RecOK kv) (hh : ∀ x ∈ hist, RecOK x) :
    Rec (restartFrom n kv hist) := by
  have hg := restartFrom_genInv n kv hist h
  have hsub : ∀ x ∈ (restartFrom n kv hist).hist, x ∈ hist ∨
      (x.fabs = kv.fabs ∧ ∀ l', x.resum = .recs l' → ∃ l, kv.resum = .recs l ∧ ∀ r ∈ l', r ∈ l) := by
    unfold restartFrom
    cases hk : kv.resum with
    | absent =>
      simp only []
      split
      · rename_i hc; exact absurd rfl hc
      · intro x hx; exact Or.inl hx
    | garbage =>
      simp only []
      split
      · rename_i hc; exact absurd rfl hc
      · intro x hx
        rcases List.mem_cons.mp hx with rfl | hx
        · exact Or.inr ⟨rfl, fun l' hl' => by cases hl'⟩
        · exact Or.inl hx
    | recs l =>
      simp only []
      split
      · intro x hx
        rcases List.mem_cons.mp hx with rfl | hx
        · refine Or.inr ⟨rfl, fun l' hl' => ⟨l, rfl, fun r hr => ?_⟩⟩
          injection hl' with hl'
          subst hl'
          exact (List.mem_filter.mp hr).1
        · exact Or.inl hx
      · intro x hx; exact Or.inl hx
  have hlive : RecLive (restartFrom n kv hist) := by
    intro l' hl' r hr
    -- the stored records after the restart are the node's records
    have hmem : r ∈ (restartFrom n kv hist).resum := by
      revert hl'
      unfold restartFrom
      cases hk : kv.resum with
      | absent =>
        simp only []
        split
        · rename_i hc; exact absurd rfl hc
        · intro hl'; rw [hk] at hl'; cases hl'
      | garbage =>
        simp only []
        split
        · rename_i hc; exact absurd rfl hc
        · intro hl'; cases hl'
      | recs l =>
        simp only []
        split
        · intro hl'
          injection hl' with hl'
          subst hl'
          exact hr
        · rename_i hlen
          intro hl'
          have hl2 : RBlob.recs l = RBlob.recs l' := by rw [← hk]; exact hl'
          injection hl2 with hl2
          subst hl2
          have hlen' : (l.filter (fun r => kv.fabs.any fun f => decide (f.idx = r.fab))).length = l.length := by
            simpa using hlen
          rw [filter_eq_of_length _ l hlen']
          exact hr
    exact Or.inl (hg.1.2 r hmem)
  refine ⟨hlive, fun x hx => ?_⟩
  rcases hsub x hx with h1 | ⟨hf, hr⟩
  · exact hh x h1
  · exact recOK_sub hf hr h


/-! ### the whole step -/

theorem addSess_stale (cfg : Cfg) (n : Node) (mode : Mode) (peer gen : Nat) :
    (addSess cfg n mode peer gen).1.resumStale = n.resumStale := by
  unfold addSess
  simp only []
  split <;> rfl

theorem rec_fresh (now g : Nat) : Rec ({ now := now, nextGen := g } : Node) :=
  ⟨fun l hl => (by cases hl), fun kv hk => (by cases hk)⟩

theorem recOK_empty : RecOK ({} : KV) := fun l hl => by cases hl

/-- every store a factory reset passes through while it removes the fabric keys: the store before
with some fabric keys removed (same resumption blob) -/
theorem delFabricKeys_hist (hi : Nat) : ∀ (fuel i : Nat) (cur : KV) (acc : List KV),
    ((delFabricKeys hi i fuel cur acc).1.resum = cur.resum ∧
      ∀ j f', kvF (delFabricKeys hi i fuel cur acc).1 j = some f' → kvF cur j = some f') ∧
    ∀ x ∈ (delFabricKeys hi i fuel cur acc).2, x ∈ acc ∨
      (x.resum = cur.resum ∧ ∀ j f', kvF x j = some f' → kvF cur j = some f') := by
  intro fuel
  induction fuel with
  | zero => intro i cur acc; exact ⟨⟨rfl, fun _ _ h => h⟩, fun x hx => Or.inl hx⟩
  | succ fuel ih =>
    intro i cur acc
    simp only [delFabricKeys]
    split
    · exact ⟨⟨rfl, fun _ _ h => h⟩, fun x hx => Or.inl hx⟩
    · split
      · have ⟨⟨h1, h2⟩, h3⟩ := ih (i + 1) (cur.delFabric i) (cur.delFabric i :: acc)
        have hsub : ∀ j f', kvF (cur.delFabric i) j = some f' → kvF cur j = some f' := by
          intro j f' hj
          rw [kvF_delFabric] at hj
          split at hj
          · cases hj
          · exact hj
        refine ⟨⟨h1, fun j f' hj => hsub j f' (h2 j f' hj)⟩, fun x hx => ?_⟩
        rcases h3 x hx with hm | ⟨hr, hf⟩
        · rcases List.mem_cons.mp hm with rfl | hm
          · exact Or.inr ⟨rfl, hsub⟩
          · exact Or.inl hm
        · exact Or.inr ⟨hr, fun j f' hj => hsub j f' (hf j f' hj)⟩
      · exact ih (i + 1) cur acc

theorem recOK_of_sub {kv x : KV} (hr : x.resum = kv.resum) (hf : ∀ j f', kvF x j = some f' → kvF kv j = some f')
    (h : RecOK kv) : RecOK x :=
  fun l hl r hrl f' hk => h l (by rw [← hr]; exact hl) r hrl f' (hf _ _ hk)

theorem recOK_absent {kv : KV} (h : kv.resum = .absent) : RecOK kv := fun l hl => by rw [h] at hl; cases hl

/-- a factory reset - clean or hit by a store fault - keeps `Rec`: the resumption blob is gone, and
every store it passes through is the old one with fabric keys removed -/
theorem factoryReset_rec (n : Node) (hg : GenInv n) (h : Rec n) : Rec (factoryReset n).1 := by
  have hok : RecOK n.kv := recOK_of hg h.live
  have ⟨_, _, _, _, h5, _⟩ := factoryReset_mem n
  refine ⟨(fun l hl => by rw [h5] at hl; cases hl), ?_⟩
  unfold HistOK factoryReset
  generalize (if n.failIn ≠ 0 then n.failIn else 256) = hi
  have hd := delFabricKeys_hist hi 256 1 n.kv n.hist
  rcases hdk : delFabricKeys hi 1 256 n.kv n.hist with ⟨kv1, hist1⟩
  rw [hdk] at hd
  simp only at hd
  have hh1 : ∀ x ∈ hist1, RecOK x := by
    intro x hx
    rcases hd.2 x hx with hm | ⟨hr, hf⟩
    · exact h.hist x hm
    · exact recOK_of_sub hr hf hok
  simp only [kvCommit]
  intro x hx
  have key : x ∈ hist1 ∨ x.resum = .absent := by
    (repeat' split at hx) <;> simp only [hdk] at hx
    all_goals
      first
        | exact Or.inl hx
        | (rcases List.mem_cons.mp hx with rfl | hx
           · first | exact Or.inr rfl | exact Or.inr (by simp_all)
           · first
              | exact Or.inl hx
              | (rcases List.mem_cons.mp hx with rfl | hx
                 · first | exact Or.inr rfl | exact Or.inr (by simp_all)
                 · exact Or.inl hx))
  rcases key with hm | ha
  · exact hh1 x hm
  · exact recOK_absent ha
/-- **one step, store faults included**: `GenInv` and `Rec` are kept by every operation; a factory
reset has to be clean (`ResetClean`: not hit by a store fault) -/
theorem step_good (cfg : Cfg) (n : Node) (op : Op) (hg : GenInv n) (h : Rec n) (hop : op = .freset → ResetClean n) :
    GenInv (step cfg n op).1 ∧ Rec (step cfg n op).1 := by
  cases hso : isSessOp op with
  | some sid =>
    have hg1 := checkTimeouts_genInv cfg n (some sid) hg
    have h1 := rec_checkTimeouts cfg n (some sid) hg h
    rcases step_sess cfg n op sid hso with e | e | ⟨s1, _, e⟩
    · rw [e]; exact ⟨hg, h⟩
    · rw [e]; exact ⟨hg1, h1⟩
    · rw [e]; exact ⟨sessOp_genInv cfg _ sid s1.mode op hg1, sessOp_rec cfg _ sid s1.mode op hg1 h1⟩
  | none =>
    have hnr_case : restartLike op = false → GenInv (step cfg n op).1 := step_genInv cfg n op hg hop
    cases op with
    | boot =>
      refine ⟨hnr_case rfl, ?_⟩
      simp only [step, isSessOp]; split <;> first | exact h | exact rec_same (n := n) (fun i => rfl) rfl rfl rfl h
    | pase =>
      refine ⟨hnr_case rfl, ?_⟩
      simp only [step, isSessOp]
      split
      · exact h
      · have ⟨a1, _, a3, a4, _⟩ := addSess_fields cfg n (.pase 0) 0 0
        have a5 := addSess_stale cfg n (.pase 0) 0 0
        rcases hr : addSess cfg n (.pase 0) 0 0 with ⟨n1, o⟩
        rw [hr] at a1 a3 a4 a5
        cases o <;> exact rec_same (fun i => fabGen_congr a1 i) a3 a4 a5 h
    | caseEst fab node rid =>
      refine ⟨hnr_case rfl, ?_⟩
      simp only [step, isSessOp]
      split
      · exact h
      · rename_i f _
        have ⟨a1, _, a3, a4, _⟩ := addSess_fields cfg n (.case fab) node f.gen
        have a5 := addSess_stale cfg n (.case fab) node f.gen
        rcases hr : addSess cfg n (.case fab) node f.gen with ⟨n1, o⟩
        rw [hr] at a1 a3 a4 a5
        cases o <;> exact rec_same (fun i => fabGen_congr a1 i) a3 a4 a5 h
    | hs fab node rid =>
      refine ⟨hnr_case rfl, ?_⟩
      simp only [step, isSessOp]
      split
      · exact h
      · rename_i f _
        have ⟨a1, _, a3, a4, _⟩ := addSess_fields cfg n (.case fab) node f.gen
        have a5 := addSess_stale cfg n (.case fab) node f.gen
        rcases hr : addSess cfg n (.case fab) node f.gen with ⟨n1, o⟩
        rw [hr] at a1 a3 a4 a5
        cases o <;> exact rec_same (fun i => fabGen_congr a1 i) a3 a4 a5 h
    | hsdone sid =>
      refine ⟨hnr_case rfl, ?_⟩
      simp only [step, isSessOp]
      split <;> first | exact h | exact rec_same (n := n) (fun i => rfl) rfl rfl rfl h
    | sdrop sid =>
      refine ⟨hnr_case rfl, ?_⟩
      simp only [step, isSessOp]
      split <;> first | exact h | exact rec_same (n := n) (fun i => rfl) rfl rfl rfl h
    | resume rid newRid =>
      refine ⟨hnr_case rfl, ?_⟩
      simp only [step, isSessOp]
      split
      · exact h
      · rename_i r _
        split
        · exact h
        · have ⟨a1, _, a3, a4, _⟩ := addSess_fields cfg n (.case r.fab) r.peer r.gen
          have a5 := addSess_stale cfg n (.case r.fab) r.peer r.gen
          rcases hr : addSess cfg n (.case r.fab) r.peer r.gen with ⟨n1, o⟩
          rw [hr] at a1 a3 a4 a5
          cases o <;> exact rec_same (fun i => fabGen_congr a1 i) a3 a4 a5 h
    | tick secs => exact ⟨hnr_case rfl, rec_same (n := n) (fun i => rfl) rfl rfl rfl h⟩
    | poll =>
      refine ⟨hnr_case rfl, ?_⟩
      simp only [step, isSessOp]
      have := rec_checkTimeouts cfg n none hg h
      rcases hr : checkTimeouts cfg n none with ⟨n1, e⟩
      rw [hr] at this
      cases e <;> exact this
    | flush =>
      refine ⟨hnr_case rfl, ?_⟩
      simp only [step, isSessOp]
      have h1 := rec_storeResum hg h
      rcases hst : storeResum n with ⟨n1, b⟩
      rw [hst] at h1
      cases b <;> exact h1
    | restart =>
      simp only [step, isSessOp, ok]
      have hrk := recOK_of hg h.live
      exact ⟨restartFrom_genInv n n.kv n.hist hrk, rec_restartFrom n n.kv n.hist hrk h.hist⟩
    | crash k =>
      simp only [step, isSessOp, ok]
      cases hd : List.drop (n.hist.length - min k n.hist.length) n.hist with
      | nil => exact ⟨restartFrom_genInv n {} [] recOK_empty, rec_restartFrom n {} [] recOK_empty (fun x hx => by cases hx)⟩
      | cons kv0 rest =>
        have hsub : ∀ x ∈ kv0 :: rest, x ∈ n.hist := by
          intro x hx
          have : x ∈ List.drop (n.hist.length - min k n.hist.length) n.hist := by rw [hd]; exact hx
          exact List.mem_of_mem_drop this
        have hk0 : RecOK kv0 := h.hist kv0 (hsub kv0 List.mem_cons_self)
        exact ⟨restartFrom_genInv n kv0 (kv0 :: rest) hk0,
          rec_restartFrom n kv0 (kv0 :: rest) hk0 (fun x hx => h.hist x (hsub x hx))⟩
    | corrupt =>
      simp only [step, isSessOp, ok]
      have hk0 : RecOK { n.kv with resum := .garbage } := fun l hl => by cases hl
      refine ⟨restartFrom_genInv n _ _ hk0, rec_restartFrom n _ _ hk0 (fun x hx => ?_)⟩
      rcases List.mem_cons.mp hx with rfl | hx
      · exact hk0
      · exact h.hist x hx
    | kvfail k =>
      exact ⟨hnr_case rfl, recLive_same (n := n) (fun i => rfl) rfl rfl h.live, h.hist⟩
    | nop => exact ⟨hg, h⟩
    | coldreset => exact ⟨genInv_fresh _ _, rec_fresh _ _⟩
    | fabrecover i => exact ⟨genInv_fresh _ _, rec_fresh _ _⟩
    | freset => exact ⟨factoryReset_genInv n (hop rfl), factoryReset_rec n hg h⟩
    | _ => simp [isSessOp] at hso

/-- **every history, store faults and restarts together** -/
theorem run_good (cfg : Cfg) (ops : List Op) : ∀ (n : Node), GenInv n → Rec n → ResetsClean cfg n ops →
    GenInv (run cfg n ops) ∧ Rec (run cfg n ops) := by
  induction ops with
  | nil => intro n hg h _; exact ⟨hg, h⟩
  | cons op rest ih =>
    intro n hg h hno
    have ⟨hg', h'⟩ := step_good cfg n op hg h hno.1
    exact ih _ hg' h' hno.2

theorem rec_init : Rec ({} : Node) := ⟨fun l hl => (by cases hl), fun kv hk => (by cases hk)⟩

/-- no store fault fires: the fault counter is 0 in every state of the run (decidable); no longer a
hypothesis of the theorems, kept to describe histories -/
def Calm (cfg : Cfg) : Node → List Op → Prop
  | n, [] => n.failIn = 0
  | n, op :: rest => n.failIn = 0 ∧ Calm cfg (step cfg n op).1 rest

instance decCalm (cfg : Cfg) : (n : Node) → (ops : List Op) → Decidable (Calm cfg n ops)
  | n, [] => by simp only [Calm]; infer_instance
  | n, op :: rest =>
    have := decCalm cfg (step cfg n op).1 rest
    by simp only [Calm]; infer_instance

end Admin
