import RsMatterVerif.Lemmas.TlvRound
import RsMatterVerif.Model.TlvSchema
/-! # Lemmas for the schema-directed (derived structure) round trip -/
namespace Tlv


theorem tryCtx_leaf (tg : Nat) (p : Prim) (X : Bytes) (h : tg < 256) :
    tryCtx (encode (.leaf (.ctx tg) p) ++ X) = .ok (some tg) := by
  rw [encode_leaf_append]
  simp only [tryCtx, control_header, Res.ok_bind, Tag.type, if_true, tagSlice]
  simp only [header, Tag.bytes, List.cons_append, tagStart_cons, Res.ok_bind, leBytes, TagType.size]
  simp [getTo, okOr, UInt8.toNat_ofNat']; omega

theorem u8_uint (t : Tag) (n : Nat) (more : Bytes) (h : (Prim.uint .w1 n).wf) :
    u8 (encode (.leaf t (.uint .w1 n)) ++ more) = .ok n := by
  have hv : leVal (Prim.uint .w1 n).data = n := by
    simp only [Prim.data]; exact leVal_leBytes_of_lt (by rw [pow256]; exact h)
  have hf := fixedVal_leafE t (.uint .w1 n) more h 1 (by simp [Prim.data, Width.bytes])
  rw [hv] at hf
  simp only [u8, control_leafE, Res.ok_bind, Prim.vt, if_true] at hf ⊢; exact hf

theorem u16_uint (t : Tag) (w : Width) (n : Nat) (more : Bytes) (hw : w = .w1 ∨ w = .w2) (h : (Prim.uint w n).wf) :
    u16 (encode (.leaf t (.uint w n)) ++ more) = .ok n := by
  have hv : leVal (Prim.uint w n).data = n := by
    simp only [Prim.data]; exact leVal_leBytes_of_lt (by rw [pow256]; exact h)
  have hf := fixedVal_leafE t (.uint w n) more h w.bytes (by simp [Prim.data])
  rw [hv] at hf
  rcases hw with rfl | rfl <;>
    simp only [u16, u8, control_leafE, Res.ok_bind, Prim.vt, Width.bytes, reduceCtorEq,
      ValueType.uint.injEq, if_false, if_true] at hf ⊢ <;> exact hf

theorem u32_uint (t : Tag) (w : Width) (n : Nat) (more : Bytes) (hw : w ≠ .w8) (h : (Prim.uint w n).wf) :
    u32 (encode (.leaf t (.uint w n)) ++ more) = .ok n := by
  have hv : leVal (Prim.uint w n).data = n := by
    simp only [Prim.data]; exact leVal_leBytes_of_lt (by rw [pow256]; exact h)
  have hf := fixedVal_leafE t (.uint w n) more h w.bytes (by simp [Prim.data])
  rw [hv] at hf
  cases w <;> first | exact absurd rfl hw | skip
  all_goals
    simp only [u32, u16, u8, control_leafE, Res.ok_bind, Prim.vt, Width.bytes, reduceCtorEq,
      ValueType.uint.injEq, if_false, if_true] at hf ⊢ <;> exact hf

theorem mkUint_width (n : Nat) :
    (n ≤ 0xff → Prim.mkUint n = .uint .w1 n) ∧
    (n ≤ 0xffff → Prim.mkUint n = .uint .w1 n ∨ Prim.mkUint n = .uint .w2 n) ∧
    (n ≤ 0xffffffff → ∃ w, w ≠ Width.w8 ∧ Prim.mkUint n = .uint w n) := by
  unfold Prim.mkUint
  refine ⟨fun h => by simp [h], fun h => ?_, fun h => ?_⟩
  · by_cases h1 : n ≤ 0xff
    · left; simp [h1]
    · right; simp [h1, h]
  · by_cases h1 : n ≤ 0xff
    · exact ⟨.w1, by decide, by simp [h1]⟩
    · by_cases h2 : n ≤ 0xffff
      · exact ⟨.w2, by decide, by simp [h1, h2]⟩
      · exact ⟨.w4, by decide, by simp [h1, h2, h]⟩


/-- a context-tagged primitive (what a derived field writes) -/
def CtxLeaf (v : Value) : Prop := ∃ tg p, v = .leaf (.ctx tg) p ∧ tg < 256 ∧ p.wf

def ctxTagOf : Value → Option Nat
  | .leaf (.ctx n) _ => some n
  | _ => none

/-- the slice `find_ctx(tag)` returns on the written fields `vals` (followed by the end marker) -/
def suffixAt : List Value → Nat → Bytes → Bytes
  | [], _, _ => []
  | v :: rest, tag, more =>
    if ctxTagOf v = some tag then encode v ++ (encodes (Values.ofList rest) ++ endByte :: more)
    else suffixAt rest tag more

theorem CtxLeaf.wf {v : Value} (h : CtxLeaf v) : v.wf := by
  obtain ⟨tg, p, rfl, h1, h2⟩ := h
  exact ⟨by simp [Tag.wf]; omega, h2⟩
theorem CtxLeaf.depth {v : Value} (h : CtxLeaf v) : v.depth = 1 := by
  obtain ⟨tg, p, rfl, _, _⟩ := h; rfl

theorem ofList_wf : ∀ vals : List Value, (∀ v ∈ vals, CtxLeaf v) → (Values.ofList vals).wf
  | [], _ => trivial
  | v :: rest, h => ⟨(h v (by simp)).wf, ofList_wf rest fun v' hv' => h v' (by simp [hv'])⟩
theorem ofList_depth : ∀ vals : List Value, (∀ v ∈ vals, CtxLeaf v) → (Values.ofList vals).depth ≤ 1
  | [], _ => by simp [Values.ofList, Values.depth]
  | v :: rest, h => by
    have := (h v (by simp)).depth
    have := ofList_depth rest fun v' hv' => h v' (by simp [hv'])
    simp [Values.ofList, Values.depth]; omega

theorem findCtxGo_suffixes (tag : Nat) (more : Bytes) : ∀ vals : List Value, (∀ v ∈ vals, CtxLeaf v) →
    findCtxGo tag ((childSuffixes (Values.ofList vals) more).map .ok) = .ok (suffixAt vals tag more)
  | [], _ => rfl
  | v :: rest, h => by
    obtain ⟨tg, p, rfl, h1, h2⟩ := h v (by simp)
    simp only [Values.ofList, childSuffixes, List.map_cons, findCtxGo, Res.ok_bind, tryCtx_leaf tg p _ h1,
      suffixAt, ctxTagOf, Option.some.injEq]
    by_cases e : tg = tag
    · simp [e]
    · simp only [e, if_false]
      exact findCtxGo_suffixes tag more rest fun v' hv' => h v' (by simp [hv'])

/-- `find_ctx` on the written fields -/
theorem findCtx_fields (vals : List Value) (tag : Nat) (more : Bytes) (h : ∀ v ∈ vals, CtxLeaf v) :
    findCtx (encodes (Values.ofList vals) ++ endByte :: more) tag = .ok (suffixAt vals tag more) := by
  unfold findCtx
  rw [elements_encodes _ more (ofList_wf vals h) (by have := ofList_depth vals h; simp [USIZE]; omega)]
  exact findCtxGo_suffixes tag more vals h

theorem suffixAt_skip (pre L : List Value) (tag : Nat) (more : Bytes)
    (h : ∀ v ∈ pre, ctxTagOf v ≠ some tag) : suffixAt (pre ++ L) tag more = suffixAt L tag more := by
  induction pre with
  | nil => rfl
  | cons v rest ih =>
    simp only [List.cons_append, suffixAt, h v (by simp), if_false]
    exact ih fun v' hv' => h v' (by simp [hv'])

theorem suffixAt_none (L : List Value) (tag : Nat) (more : Bytes)
    (h : ∀ v ∈ L, ctxTagOf v ≠ some tag) : suffixAt L tag more = [] := by
  have := suffixAt_skip L [] tag more h
  simpa [suffixAt] using this


open TlvSchema

/-- the part of the derived field decoder after `find_ctx` -/
def decodeAt (f : Field) (e : Bytes) : Res Slot :=
  if f.opt && e.isEmpty then pure .absent
  else if f.nullable then do
    let c ← control e
    if c.vt = .null then pure .null else do
      let s ← numOf f.ty e
      match s with
      | .num n => if n = f.ty.max then .err .invalid else pure s
      | _ => pure s
  else numOf f.ty e

theorem decodeField_eq (seq : Bytes) (f : Field) : decodeField seq f = (findCtx seq f.tag >>= decodeAt f) := rfl

theorem decodeAt_absent (f : Field) (h : f.opt = true) : decodeAt f [] = .ok .absent := by
  simp [decodeAt, h]

/-- the primitive a numeric field writes reads back through the field type's accessor -/
theorem numOf_written (t : Tag) (ty : FTy) (n : Nat) (X : Bytes) (hty : ty ≠ .bool) (hn : n ≤ ty.max) :
    numOf ty (encode (.leaf t (if ty == .u8 then .uint .w1 n else Prim.mkUint n)) ++ X) = .ok (.num n) := by
  cases ty with
  | bool => exact absurd rfl hty
  | u8 =>
    simp only [FTy.max] at hn
    simp only [numOf, beq_self_eq_true, if_true]
    rw [u8_uint t n X (by simp [Prim.wf, Width.bytes]; omega)]; rfl
  | u16 =>
    simp only [FTy.max] at hn
    have hw := (mkUint_width n).2.1 hn
    have hwf := mkUint_wf n (by omega)
    have : (FTy.u16 == FTy.u8) = false := by decide
    simp only [numOf, this, Bool.false_eq_true, if_false]
    rcases hw with hw | hw <;> rw [hw] at hwf ⊢
    · rw [u16_uint t _ n X (Or.inl rfl) hwf]; rfl
    · rw [u16_uint t _ n X (Or.inr rfl) hwf]; rfl
  | u32 =>
    simp only [FTy.max] at hn
    obtain ⟨w, hw8, hw⟩ := (mkUint_width n).2.2 hn
    have hwf := mkUint_wf n (by omega)
    have : (FTy.u32 == FTy.u8) = false := by decide
    simp only [numOf, this, Bool.false_eq_true, if_false]
    rw [hw] at hwf ⊢
    rw [u32_uint t w n X hw8 hwf]; rfl
  | u64 =>
    simp only [FTy.max] at hn
    obtain ⟨w, hw⟩ := mkUint_eq n
    have hwf := mkUint_wf n (by omega)
    have : (FTy.u64 == FTy.u8) = false := by decide
    simp only [numOf, this, Bool.false_eq_true, if_false]
    rw [hw] at hwf ⊢
    rw [u64_uint t w n X hwf]; rfl

theorem written_prim_vt (ty : FTy) (n : Nat) :
    ∃ w, (if ty == .u8 then Prim.uint .w1 n else Prim.mkUint n) = .uint w n := by
  by_cases h : (ty == .u8) = true
  · exact ⟨.w1, by simp [h]⟩
  · obtain ⟨w, hw⟩ := mkUint_eq n
    exact ⟨w, by simp [h, hw]⟩

/-- a present field decodes to the slot it was written from -/
theorem decodeAt_written (f : Field) (s : Slot) (p : Prim) (X : Bytes)
    (h : encodeField f s = some [.leaf (.ctx f.tag) p]) :
    decodeAt f (encode (.leaf (.ctx f.tag) p) ++ X) = .ok s := by
  have hne : (encode (.leaf (.ctx f.tag) p) ++ X).isEmpty = false := encode_ne_nil _ _
  cases s with
  | absent => simp only [encodeField] at h; split at h <;> simp at h
  | null =>
    simp only [encodeField] at h
    split at h
    · rename_i hnl
      simp only [Option.some.injEq, List.cons.injEq, Value.leaf.injEq, and_true, true_and] at h
      subst h
      simp only [decodeAt, hne, Bool.and_false, Bool.false_eq_true, if_false, hnl, if_true, control_leafE, Res.ok_bind,
        Prim.vt, Res.pure_eq]
    · simp at h
  | num n =>
    simp only [encodeField] at h
    split at h
    · rename_i hc
      simp only [Bool.and_eq_true, bne_iff_ne, ne_eq, decide_eq_true_eq, Bool.or_eq_true, Bool.not_eq_true'] at hc
      obtain ⟨⟨hty, hmax⟩, hnul⟩ := hc
      simp only [Option.some.injEq, List.cons.injEq, Value.leaf.injEq, and_true, true_and] at h
      subst h
      have hnum := numOf_written (.ctx f.tag) f.ty n X hty hmax
      simp only [decodeAt, hne, Bool.and_false, Bool.false_eq_true, if_false]
      by_cases hnl : f.nullable = true
      · obtain ⟨w, hw⟩ := written_prim_vt f.ty n
        have hneq : n ≠ f.ty.max := by
          rcases hnul with h1 | h1
          · simp [hnl] at h1
          · exact h1
        simp only [hnl, if_true, control_leafE, Res.ok_bind, hnum]
        rw [hw]
        simp only [Prim.vt, reduceCtorEq, if_false, hneq, Res.pure_eq]
      · simp only [hnl, Bool.false_eq_true, if_false, hnum]
    · simp at h
  | bool b =>
    simp only [encodeField] at h
    split at h
    · rename_i hty
      have hty' : f.ty = .bool := by simpa using hty
      simp only [Option.some.injEq, List.cons.injEq, Value.leaf.injEq, and_true, true_and] at h
      subst h
      have hb : boolOf (encode (.leaf (.ctx f.tag) (.bool b)) ++ X) = .ok b := (bool_null_roundtrip _ b X).1
      simp only [decodeAt, hne, Bool.and_false, Bool.false_eq_true, if_false, hty', numOf, hb, Res.ok_bind, Res.pure_eq]
      by_cases hnl : f.nullable = true
      · simp only [hnl, if_true, control_leafE, Res.ok_bind]
        cases b <;> simp [Prim.vt]
      · simp only [hnl, Bool.false_eq_true, if_false]
    · simp at h



theorem encodeField_shape (f : Field) (s : Slot) (v : List Value) (ht : f.tag < 256) (h : encodeField f s = some v) :
    (v = [] ∧ s = .absent ∧ f.opt = true) ∨ (∃ p, v = [.leaf (.ctx f.tag) p] ∧ CtxLeaf (.leaf (.ctx f.tag) p)) := by
  cases s with
  | absent =>
    simp only [encodeField] at h
    split at h
    · rename_i ho; simp at h; exact Or.inl ⟨h, rfl, ho⟩
    · simp at h
  | null =>
    simp only [encodeField] at h
    split at h
    · simp at h; exact Or.inr ⟨.null, h.symm, _, _, rfl, ht, trivial⟩
    · simp at h
  | num n =>
    simp only [encodeField] at h
    split at h
    · rename_i hc
      simp only [Bool.and_eq_true, bne_iff_ne, ne_eq, decide_eq_true_eq, Bool.or_eq_true, Bool.not_eq_true'] at hc
      obtain ⟨⟨hty, hmax⟩, _⟩ := hc
      simp at h
      refine Or.inr ⟨_, h.symm, _, _, rfl, ht, ?_⟩
      by_cases h8 : f.ty = .u8
      · have hn : n ≤ 255 := by rw [h8] at hmax; simpa [FTy.max] using hmax
        rw [if_pos h8]
        simp only [Prim.wf, Width.bytes]; omega
      · rw [if_neg h8]
        apply mkUint_wf
        cases hft : f.ty <;> simp only [hft, FTy.max] at hmax <;> omega
    · simp at h
  | bool b =>
    simp only [encodeField] at h
    split at h
    · simp at h; exact Or.inr ⟨.bool b, h.symm, _, _, rfl, ht, trivial⟩
    · simp at h

/-- the fields written are context leaves tagged with (some of) the schema's tags -/
theorem encodeFields_tags : ∀ (fs : List Field) (slots : List Slot) (vals : List Value) (rest : List Slot),
    (∀ f ∈ fs, f.tag < 256) → encodeFields fs slots = some (vals, rest) →
    ∀ v ∈ vals, CtxLeaf v ∧ ∃ f ∈ fs, ctxTagOf v = some f.tag
  | [], slots, vals, rest, _, h => by
    simp [encodeFields] at h; obtain ⟨rfl, rfl⟩ := h; intro v hv; simp at hv
  | f :: fs, [], vals, rest, _, h => by simp [encodeFields] at h
  | f :: fs, s :: ss, vals, rest, ht, h => by
    simp only [encodeFields] at h
    cases hf : encodeField f s with
    | none => simp [hf] at h
    | some vf =>
      cases hr : encodeFields fs ss with
      | none => simp [hf, hr] at h
      | some pr =>
        obtain ⟨vs, r⟩ := pr
        simp [hf, hr] at h
        obtain ⟨rfl, rfl⟩ := h
        intro v hv
        rcases List.mem_append.mp hv with hv | hv
        · rcases encodeField_shape f s vf (ht f (by simp)) hf with ⟨rfl, _, _⟩ | ⟨p, rfl, hp⟩
          · simp at hv
          · simp at hv; subst hv; exact ⟨hp, f, by simp, rfl⟩
        · obtain ⟨h1, f', hf', h2⟩ := encodeFields_tags fs ss vs r (fun f' hf' => ht f' (by simp [hf'])) hr v hv
          exact ⟨h1, f', by simp [hf'], h2⟩

theorem decodeFields_roundtrip (more : Bytes) : ∀ (fs : List Field) (slots : List Slot) (pre vals : List Value),
    encodeFields fs slots = some (vals, []) →
    (∀ f ∈ fs, f.tag < 256) → (fs.map (·.tag)).Nodup →
    (∀ v ∈ pre, CtxLeaf v) → (∀ v ∈ pre, ∀ f ∈ fs, ctxTagOf v ≠ some f.tag) →
    decodeFields (encodes (Values.ofList (pre ++ vals)) ++ endByte :: more) fs = .ok slots
  | [], slots, pre, vals, h, _, _, _, _ => by
    simp [encodeFields] at h; obtain ⟨_, rfl⟩ := h; rfl
  | f :: fs, [], pre, vals, h, _, _, _, _ => by simp [encodeFields] at h
  | f :: fs, s :: ss, pre, vals, h, ht, hnd, hpre, hdis => by
    simp only [encodeFields] at h
    cases hf : encodeField f s with
    | none => simp [hf] at h
    | some vf =>
      cases hr : encodeFields fs ss with
      | none => simp [hf, hr] at h
      | some pr =>
        obtain ⟨vs, r⟩ := pr
        simp [hf, hr] at h
        obtain ⟨rfl, rfl⟩ := h
        have htf := ht f (by simp)
        have hts : ∀ f' ∈ fs, f'.tag < 256 := fun f' hf' => ht f' (by simp [hf'])
        simp only [List.map_cons, List.nodup_cons] at hnd
        obtain ⟨hnotin, hnd'⟩ := hnd
        have hvs := encodeFields_tags fs ss vs [] hts hr
        have hvs_ne : ∀ v ∈ vs, ctxTagOf v ≠ some f.tag := by
          intro v hv heq
          obtain ⟨_, f', hf', h2⟩ := hvs v hv
          rw [h2] at heq; simp at heq
          exact hnotin (List.mem_map.mpr ⟨f', hf', heq⟩)
        have hshape := encodeField_shape f s vf htf hf
        have hall : ∀ v ∈ pre ++ (vf ++ vs), CtxLeaf v := by
          intro v hv
          rcases List.mem_append.mp hv with hv | hv
          · exact hpre v hv
          · rcases List.mem_append.mp hv with hv | hv
            · rcases hshape with ⟨rfl, _, _⟩ | ⟨p, rfl, hp⟩
              · simp at hv
              · simp at hv; subst hv; exact hp
            · exact (hvs v hv).1
        have hfind := findCtx_fields (pre ++ (vf ++ vs)) f.tag more hall
        rw [suffixAt_skip pre _ f.tag more (fun v hv => hdis v hv f (by simp))] at hfind
        -- the recursive call sees the same sequence with `vf` moved into the prefix
        have hrec := decodeFields_roundtrip more fs ss (pre ++ vf) vs hr hts hnd'
          (by
            intro v hv
            rcases List.mem_append.mp hv with hv | hv
            · exact hpre v hv
            · exact hall v (by simp [hv]))
          (by
            intro v hv f' hf'
            rcases List.mem_append.mp hv with hv | hv
            · exact hdis v hv f' (by simp [hf'])
            · rcases hshape with ⟨rfl, _, _⟩ | ⟨p, rfl, _⟩
              · simp at hv
              · simp at hv; subst hv
                simp only [ctxTagOf, ne_eq, Option.some.injEq]
                intro heq
                exact hnotin (List.mem_map.mpr ⟨f', hf', heq.symm⟩))
        rw [List.append_assoc] at hrec
        simp only [decodeFields, decodeField_eq, hfind, Res.ok_bind]
        rcases hshape with ⟨rfl, rfl, hopt⟩ | ⟨p, rfl, _⟩
        · simp only [List.nil_append] at hrec ⊢
          rw [suffixAt_none vs f.tag more hvs_ne, decodeAt_absent f hopt, Res.ok_bind, hrec]; rfl
        · simp only [List.cons_append, List.nil_append, suffixAt, ctxTagOf, if_true] at hrec ⊢
          rw [decodeAt_written f s p _ hf, Res.ok_bind, hrec]; rfl


theorem encodeFields_single (f : Field) (slots : List Slot) :
    encodeFields [f] slots = match slots with
      | [] => none
      | s :: ss => (encodeField f s).map fun v => (v ++ [], ss) := by
  cases slots with
  | nil => rfl
  | cons s ss =>
    simp only [encodeFields]
    cases encodeField f s <;> rfl

theorem encodeItems_fields : ∀ (fs : List Field) (slots : List Slot),
    encodeItems (fs.map .field) slots = encodeFields fs slots
  | [], slots => rfl
  | f :: fs, [] => by simp [encodeItems, encodeFields]
  | f :: fs, s :: ss => by
    have ih := encodeItems_fields fs ss
    simp only [List.map_cons, encodeItems]
    rw [encodeFields_single]
    cases hf : encodeField f s with
    | none => simp [encodeFields, hf]
    | some v =>
      cases he : encodeFields fs ss with
      | none => simp [encodeFields, hf, ih, he]
      | some pr => obtain ⟨vs, r⟩ := pr; simp [encodeFields, hf, ih, he]

theorem decodeItems_fields (seq : Bytes) : ∀ fs : List Field,
    decodeItems seq (fs.map .field) = decodeFields seq fs
  | [] => rfl
  | f :: fs => by simp only [List.map_cons, decodeItems, decodeFields, decodeItems_fields seq fs]

theorem enter_cont (k : Kind) (cs : Values) :
    enter k (encode (.cont .anon k cs)) = .ok (encodes cs ++ [endByte]) := by
  have h := encode_cont_append .anon k cs []
  simp only [List.append_nil] at h
  cases k <;>
    simp only [enter, structOf, arrayOf, listOf, h, control_header, Res.ok_bind, if_true, nextEnter_open]

/-- **Derived structures (flat schemas).**  For a structure whose fields are `u8/u16/u32/u64/bool`,
optional and/or nullable, with pairwise different context tags `< 256`: what the derived
`from_tlv` decodes from the bytes of the derived `to_tlv` is the value that was encoded. -/
theorem struct_roundtrip_flat (k : Kind) (fs : List Field) (slots : List Slot) (v : Value)
    (ht : ∀ f ∈ fs, f.tag < 256) (hnd : (fs.map (·.tag)).Nodup)
    (hv : toValue ⟨k, fs.map .field⟩ slots = some v) :
    decodeStruct ⟨k, fs.map .field⟩ (encode v) = .ok slots := by
  simp only [toValue, encodeItems_fields] at hv
  cases he : encodeFields fs slots with
  | none => simp [he] at hv
  | some pr =>
    obtain ⟨vals, rest⟩ := pr
    cases rest with
    | cons _ _ => simp [he] at hv
    | nil =>
      simp [he] at hv; subst hv
      simp only [decodeStruct, enter_cont, Res.ok_bind, decodeItems_fields]
      have := decodeFields_roundtrip [] fs slots [] vals he ht hnd (by simp) (by simp)
      simpa using this

end Tlv
