//! C16 stream `s`, derive shapes: harness-local structures and enums that derive `ToTLV` / `FromTLV`
//! with the proc-macro crate of the tree under test (`rs-matter-macros`, re-exported by
//! `rs_matter::tlv`). They cover the macro's layout features combinatorially — `start`, `tagval` on the
//! first / a middle / the last field, several tagvals, tagvals that collide with or skip implicit
//! numbers, plain / `Option` / `Nullable` / `Option<Nullable>` / `Skippable` fields in every relative
//! order, nested structures, arrays, octet strings with a lifetime, `datatype = "list"`, unit enums and
//! enums with payload with `enumval` — independently of which shapes today's wire structures use.
//!
//! The harness does **not** know the tag numbers: `shape!` hands the very same tokens (`start`,
//! `tagval(..)`, field order) to the derive and to the *declaration* text that goes into the case line
//! (`case <id> s @<Name> <declaration>`); the Lean model numbers the fields with `implicitTags`
//! (`Model/TlvSchema.lean`) and predicts the encoder's bytes and the decoder's answer. A change of the
//! numbering in the derived encoder only, in the derived decoder only, or in both is a disagreement
//! with the model (and, for the first two, a round-trip failure).
#![allow(dead_code)]

use super::{bad, boolean, bytes, enc_any, err, i16v, i32v, i8v, int, n16, n32, n8, num, obj, okv, raw, raw_v, vb, vi, vn, Dom, F, R, T, V};

use core::num::{NonZeroI16, NonZeroI32, NonZeroI64, NonZeroI8, NonZeroU8};

use rs_matter::bitflags_tlv;
use rs_matter::dm::clusters::decl::level_control::OptionsBitmap;
use rs_matter::dm::clusters::decl::on_off::{Feature as OnOffFeature, OnOffControlBitmap};
use rs_matter::reexport::bitflags::bitflags;

use rs_matter::tlv::{FromTLV, Nullable, Octets, OctetsOwned, Skippable, TLVElement, ToTLV};
use rs_matter::utils::storage::Vec as SVec;

/// a value type of the declaration language
pub trait Fv<'a>: Sized {
    /// generator-side schema (context tags are dummies: the harness does not number fields)
    fn ty() -> T;
    /// the type's text in the declaration language of `TlvSchema.parseTyF`
    fn desc() -> String;
    fn of(v: &'a V) -> R<Self>;
    fn v(&self) -> R<V>;
}

macro_rules! fv_uint {
    ($t:ty, $bytes:expr, $name:expr, $conv:ident) => {
        impl<'a> Fv<'a> for $t {
            fn ty() -> T {
                T::U($bytes, Dom::Any)
            }
            fn desc() -> String {
                $name.into()
            }
            fn of(v: &'a V) -> R<Self> {
                $conv(v)
            }
            fn v(&self) -> R<V> {
                Ok(vn(*self))
            }
        }
    };
}
fv_uint!(u8, 1, "u8", n8);
fv_uint!(u16, 2, "u16", n16);
fv_uint!(u32, 4, "u32", n32);
fv_uint!(u64, 8, "u64", num);

macro_rules! fv_sint {
    ($t:ty, $bytes:expr, $name:expr, $conv:ident) => {
        impl<'a> Fv<'a> for $t {
            fn ty() -> T {
                T::I($bytes, false)
            }
            fn desc() -> String {
                $name.into()
            }
            fn of(v: &'a V) -> R<Self> {
                $conv(v)
            }
            fn v(&self) -> R<V> {
                Ok(vi(*self))
            }
        }
    };
}
fv_sint!(i8, 1, "i8", i8v);
fv_sint!(i16, 2, "i16", i16v);
fv_sint!(i32, 4, "i32", i32v);
fv_sint!(i64, 8, "i64", int);

macro_rules! fv_nzsint {
    ($t:ty, $prim:ty, $bytes:expr, $name:expr) => {
        impl<'a> Fv<'a> for $t {
            fn ty() -> T {
                T::I($bytes, true)
            }
            fn desc() -> String {
                $name.into()
            }
            fn of(v: &'a V) -> R<Self> {
                <$t>::new(<$prim>::try_from(int(v)?).or(bad())?).ok_or("BADSLOT".to_string())
            }
            fn v(&self) -> R<V> {
                Ok(vi(self.get()))
            }
        }
    };
}
fv_nzsint!(NonZeroI8, i8, 1, "nzi8");
fv_nzsint!(NonZeroI16, i16, 2, "nzi16");
fv_nzsint!(NonZeroI32, i32, 4, "nzi32");
fv_nzsint!(NonZeroI64, i64, 8, "nzi64");

/// floats travel as bit patterns (NaN payloads, signed zeros and subnormals are values like any other)
impl<'a> Fv<'a> for f32 {
    fn ty() -> T {
        T::F32
    }
    fn desc() -> String {
        "f32".into()
    }
    fn of(v: &'a V) -> R<Self> {
        Ok(f32::from_bits(n32(v)?))
    }
    fn v(&self) -> R<V> {
        Ok(vn(self.to_bits()))
    }
}
impl<'a> Fv<'a> for f64 {
    fn ty() -> T {
        T::F64
    }
    fn desc() -> String {
        "f64".into()
    }
    fn of(v: &'a V) -> R<Self> {
        Ok(f64::from_bits(num(v)?))
    }
    fn v(&self) -> R<V> {
        Ok(vn(self.to_bits()))
    }
}

/// `[X; N]` (the Rust impl needs `X: Default` to decode; the model takes `X::default()` from the declaration)
impl<'a, X: Fv<'a> + 'a, const N: usize> Fv<'a> for [X; N] {
    fn ty() -> T {
        T::Fix(N, Box::new(X::ty()))
    }
    fn desc() -> String {
        format!("fa {} {}", N, X::desc())
    }
    fn of(v: &'a V) -> R<Self> {
        let V::Arr(xs) = v else { return bad() };
        let items = xs.iter().map(|x| X::of(x)).collect::<R<std::vec::Vec<X>>>()?;
        <[X; N]>::try_from(items).or(bad())
    }
    fn v(&self) -> R<V> {
        Ok(V::Arr(self.iter().map(|x| x.v()).collect::<R<std::vec::Vec<V>>>()?))
    }
}

/// `flags! { Name: uN (bytes, "bfN", conv) { FLAG = value, … } }`: a `bitflags!` type with `bitflags_tlv!`; the
/// declaration text carries the union of the declared flags, computed from the same tokens. Values are built
/// with `from_bits_retain` (a safe constructor): a value may hold undeclared bits.
macro_rules! flags {
    ($name:ident : $prim:ident ($bytes:expr, $tok:expr, $conv:ident) { $( $flag:ident = $val:expr ),* $(,)? }) => {
        bitflags! {
            #[repr(transparent)]
            #[derive(Default, Debug, Clone, Copy, PartialEq, Eq, Hash)]
            pub struct $name: $prim {
                $( const $flag = $val; )*
            }
        }
        bitflags_tlv!($name, $prim);
        impl<'a> Fv<'a> for $name {
            fn ty() -> T {
                T::U($bytes, Dom::Mask(0u64 $( | ($val as u64) )*))
            }
            fn desc() -> String {
                format!("{} {}", $tok, 0u64 $( | ($val as u64) )*)
            }
            fn of(v: &'a V) -> R<Self> {
                Ok(<$name>::from_bits_retain($conv(v)?))
            }
            fn v(&self) -> R<V> {
                Ok(vn(self.bits()))
            }
        }
    };
}
flags! { FA: u8 (1, "bf8", n8) { A = 0x01, B = 0x04, C = 0x80 } }
flags! { FB: u16 (2, "bf16", n16) { A = 0x0010, B = 0x0200, C = 0x4000 } }
flags! { FC: u32 (4, "bf32", n32) { A = 0x1, B = 0x8000_0000, C = 0x0001_0000 } }
flags! { FD: u64 (8, "bf64", num) { A = 0x1, B = 0x8000_0000_0000_0000, C = 0xff00 } }

/// real generated bitmaps (`rs-matter-codegen` adds `const _INTERNAL_ALL_BITS = !0`: every bit is a declared flag)
macro_rules! fv_real_flags {
    ($name:ident, $bytes:expr, $tok:expr, $conv:ident, $full:expr) => {
        impl<'a> Fv<'a> for $name {
            fn ty() -> T {
                T::U($bytes, Dom::Mask($full))
            }
            fn desc() -> String {
                format!("{} {}", $tok, $full as u64)
            }
            fn of(v: &'a V) -> R<Self> {
                Ok(<$name>::from_bits_retain($conv(v)?))
            }
            fn v(&self) -> R<V> {
                Ok(vn(self.bits()))
            }
        }
    };
}
fv_real_flags!(OnOffControlBitmap, 1, "bf8", n8, 0xffu64);
fv_real_flags!(OptionsBitmap, 1, "bf8", n8, 0xffu64);
fv_real_flags!(OnOffFeature, 4, "bf32", n32, 0xffff_ffffu64);

impl<'a> Fv<'a> for bool {
    fn ty() -> T {
        T::Bool
    }
    fn desc() -> String {
        "bool".into()
    }
    fn of(v: &'a V) -> R<Self> {
        boolean(v)
    }
    fn v(&self) -> R<V> {
        Ok(V::Bool(*self))
    }
}

impl<'a> Fv<'a> for NonZeroU8 {
    fn ty() -> T {
        T::U(1, Dom::NonZero)
    }
    fn desc() -> String {
        "nz8".into()
    }
    fn of(v: &'a V) -> R<Self> {
        NonZeroU8::new(n8(v)?).ok_or("BADSLOT".to_string())
    }
    fn v(&self) -> R<V> {
        Ok(vn(self.get()))
    }
}

impl<'a> Fv<'a> for Octets<'a> {
    fn ty() -> T {
        T::Oct(0, None)
    }
    fn desc() -> String {
        "oct 0 -".into()
    }
    fn of(v: &'a V) -> R<Self> {
        Ok(Octets(bytes(v)?))
    }
    fn v(&self) -> R<V> {
        Ok(vb(self.0))
    }
}

impl<'a, const N: usize> Fv<'a> for OctetsOwned<N> {
    fn ty() -> T {
        T::Oct(0, Some(N))
    }
    fn desc() -> String {
        format!("oct 0 {}", N)
    }
    fn of(v: &'a V) -> R<Self> {
        let mut o = OctetsOwned::<N>::new();
        o.vec.extend_from_slice(bytes(v)?).or(bad())?;
        Ok(o)
    }
    fn v(&self) -> R<V> {
        Ok(vb(&self.vec))
    }
}

impl<'a> Fv<'a> for &'a str {
    fn ty() -> T {
        T::Utf8(24)
    }
    fn desc() -> String {
        "utf8 -".into()
    }
    fn of(v: &'a V) -> R<Self> {
        core::str::from_utf8(bytes(v)?).or(bad())
    }
    fn v(&self) -> R<V> {
        Ok(vb(self.as_bytes()))
    }
}

impl<'a> Fv<'a> for TLVElement<'a> {
    fn ty() -> T {
        T::Any
    }
    fn desc() -> String {
        "any".into()
    }
    fn of(v: &'a V) -> R<Self> {
        Ok(TLVElement::new(raw(v)?))
    }
    fn v(&self) -> R<V> {
        raw_v(self)
    }
}

impl<'a, X: Fv<'a> + 'a, const N: usize> Fv<'a> for SVec<X, N> {
    fn ty() -> T {
        T::Arr(Some(N), Box::new(X::ty()))
    }
    fn desc() -> String {
        format!("arr {} {}", N, X::desc())
    }
    fn of(v: &'a V) -> R<Self> {
        let V::Arr(xs) = v else { return bad() };
        let mut out = SVec::<X, N>::new();
        for x in xs {
            out.push(X::of(x)?).or(bad())?;
        }
        Ok(out)
    }
    fn v(&self) -> R<V> {
        Ok(V::Arr(self.iter().map(|x| x.v()).collect::<R<std::vec::Vec<V>>>()?))
    }
}

// ---------------------------------------------------------------------------------- field wrappers

/// a field of a structure: a value type, plain or wrapped in `Option`, `Nullable`, `Option<Nullable>`,
/// `Skippable` (the derive sees the written-out type, so the wrapper cannot be produced by a macro)
pub trait Slot<'a>: Sized {
    /// (mode letter of the declaration language, optional, nullable)
    fn mode() -> (&'static str, bool, bool);
    fn sty() -> T;
    fn sdesc() -> String;
    fn sof(v: &'a V) -> R<Self>;
    fn sv(&self) -> R<V>;
}
impl<'a, X: Fv<'a>> Slot<'a> for X {
    fn mode() -> (&'static str, bool, bool) {
        ("r", false, false)
    }
    fn sty() -> T {
        X::ty()
    }
    fn sdesc() -> String {
        X::desc()
    }
    fn sof(v: &'a V) -> R<Self> {
        X::of(v)
    }
    fn sv(&self) -> R<V> {
        self.v()
    }
}
impl<'a, X: Fv<'a>> Slot<'a> for Option<X> {
    fn mode() -> (&'static str, bool, bool) {
        ("o", true, false)
    }
    fn sty() -> T {
        X::ty()
    }
    fn sdesc() -> String {
        X::desc()
    }
    fn sof(v: &'a V) -> R<Self> {
        Ok(match v {
            V::Absent => None,
            x => Some(X::of(x)?),
        })
    }
    fn sv(&self) -> R<V> {
        match self {
            None => Ok(V::Absent),
            Some(y) => y.v(),
        }
    }
}
impl<'a, X: Fv<'a>> Slot<'a> for Nullable<X> {
    fn mode() -> (&'static str, bool, bool) {
        ("n", false, true)
    }
    fn sty() -> T {
        X::ty()
    }
    fn sdesc() -> String {
        X::desc()
    }
    fn sof(v: &'a V) -> R<Self> {
        Ok(match v {
            V::Null => Nullable::none(),
            x => Nullable::some(X::of(x)?),
        })
    }
    fn sv(&self) -> R<V> {
        match self.as_opt_ref() {
            None => Ok(V::Null),
            Some(y) => y.v(),
        }
    }
}
impl<'a, X: Fv<'a>> Slot<'a> for Option<Nullable<X>> {
    fn mode() -> (&'static str, bool, bool) {
        ("x", true, true)
    }
    fn sty() -> T {
        X::ty()
    }
    fn sdesc() -> String {
        X::desc()
    }
    fn sof(v: &'a V) -> R<Self> {
        Ok(match v {
            V::Absent => None,
            V::Null => Some(Nullable::none()),
            x => Some(Nullable::some(X::of(x)?)),
        })
    }
    fn sv(&self) -> R<V> {
        match self {
            None => Ok(V::Absent),
            Some(n) => match n.as_opt_ref() {
                None => Ok(V::Null),
                Some(y) => y.v(),
            },
        }
    }
}
impl<'a, X: Fv<'a>> Slot<'a> for Skippable<X> {
    fn mode() -> (&'static str, bool, bool) {
        ("s", false, false)
    }
    fn sty() -> T {
        X::ty()
    }
    fn sdesc() -> String {
        X::desc()
    }
    fn sof(v: &'a V) -> R<Self> {
        Ok(Skippable::new(X::of(v)?))
    }
    fn sv(&self) -> R<V> {
        self.value().v()
    }
}
macro_rules! tvtext {
    () => {
        "-".to_string()
    };
    ($tv:tt) => {
        ($tv as u64).to_string()
    };
}

/// `shape! { Name [<'a>] ("struct" | "list", start) { [#[tagval(x)]] field: [Wrapper<Type>], … } }`
/// (the type is passed as raw tokens in brackets: the derive does not look through the invisible group
/// of a `$t:ty` fragment)
/// generates the structure with both derives, its conversion from / to the text value form, its
/// generator-side schema and its declaration text. `dflt` instead of `(datatype, start)`: no
/// `tlvargs` attribute at all (the macro's defaults: struct, start 0).
macro_rules! shape {
    (@body $name:ident [$($lt:lifetime)?] $kind:expr, $start:expr, { $( $(#[tagval($tv:tt)])? $f:ident : [$($t:tt)+] ),* }) => {
        impl<'a> Fv<'a> for $name $(<$lt>)? {
            fn ty() -> T {
                let fs = vec![$( { let (_, opt, nullable) = <$($t)+ as Slot>::mode(); F { tag: 0, opt, nullable, ty: <$($t)+ as Slot>::sty() } } ),*];
                if $kind == "list" { T::Ls(fs) } else { T::St(fs) }
            }
            fn desc() -> String {
                let mut s = format!("{} {} [ ", if $kind == "list" { "ls" } else { "st" }, $start);
                $( s.push_str(&format!("{} {} {} ", tvtext!($($tv)?), <$($t)+ as Slot>::mode().0, <$($t)+ as Slot>::sdesc())); )*
                s.push(']');
                s
            }
            fn of(v: &'a V) -> R<Self> {
                let names: &[&str] = &[$(stringify!($f)),*];
                let s = obj(v, names.len())?;
                let mut it = s.iter();
                Ok(Self { $( $f: <$($t)+ as Slot>::sof(it.next().ok_or("BADSLOT".to_string())?)?, )* })
            }
            fn v(&self) -> R<V> {
                Ok(V::Obj(vec![$( self.$f.sv()? ),*]))
            }
        }
    };
    ($name:ident (dflt) { $( $(#[tagval($tv:tt)])? $f:ident : [$($t:tt)+] ),* $(,)? }) => {
        #[derive(FromTLV, ToTLV)]
        pub struct $name { $( $(#[tagval($tv)])? pub $f: $($t)+, )* }
        shape!(@body $name [] "struct", 0, { $( $(#[tagval($tv)])? $f : [$($t)+] ),* });
    };
    ($name:ident ($kind:tt, $start:tt, default) { $( $(#[tagval($tv:tt)])? $f:ident : [$($t:tt)+] ),* $(,)? }) => {
        #[derive(FromTLV, ToTLV, Default)]
        #[tlvargs(start = $start, datatype = $kind)]
        pub struct $name { $( $(#[tagval($tv)])? pub $f: $($t)+, )* }
        shape!(@body $name [] $kind, $start, { $( $(#[tagval($tv)])? $f : [$($t)+] ),* });
    };
    ($name:ident ($kind:tt, $start:tt) { $( $(#[tagval($tv:tt)])? $f:ident : [$($t:tt)+] ),* $(,)? }) => {
        #[derive(FromTLV, ToTLV)]
        #[tlvargs(start = $start, datatype = $kind)]
        pub struct $name { $( $(#[tagval($tv)])? pub $f: $($t)+, )* }
        shape!(@body $name [] $kind, $start, { $( $(#[tagval($tv)])? $f : [$($t)+] ),* });
    };
    ($name:ident <'a> ($kind:tt, $start:tt) { $( $(#[tagval($tv:tt)])? $f:ident : [$($t:tt)+] ),* $(,)? }) => {
        #[derive(FromTLV, ToTLV)]
        #[tlvargs(start = $start, datatype = $kind, lifetime = "'a")]
        pub struct $name<'a> { $( $(#[tagval($tv)])? pub $f: $($t)+, )* }
        shape!(@body $name ['a] $kind, $start, { $( $(#[tagval($tv)])? $f : [$($t)+] ),* });
    };
}

/// `unit_enum! { Name ("u8" | "u16", repr, start) { [#[enumval(x)]] Variant = wire value, … } }`
/// (the discriminants are what the author expects the derive to put on the wire; the model computes
/// them again from `start` / `enumval` with `implicitTags`)
macro_rules! unit_enum {
    ($name:ident ($dt:tt, $repr:ident, $start:tt) { $( $(#[enumval($ev:tt)])? $var:ident = $val:tt ),* $(,)? }) => {
        #[derive(FromTLV, ToTLV, Debug, Clone, Copy, PartialEq)]
        #[tlvargs(datatype = $dt, start = $start)]
        #[repr($repr)]
        pub enum $name { $( $(#[enumval($ev)])? $var = $val, )* }
        impl<'a> Fv<'a> for $name {
            fn ty() -> T {
                T::U(core::mem::size_of::<$repr>(), Dom::OneOf(vec![$($val as u64),*]))
            }
            fn desc() -> String {
                let mut s = format!("{} {} [ ", if $dt == "u8" { "ue8" } else { "ue16" }, $start);
                $( s.push_str(&format!("{} ", tvtext!($($ev)?))); )*
                s.push(']');
                s
            }
            fn of(v: &'a V) -> R<Self> {
                let n = num(v)?;
                $( if n == $val as u64 { return Ok(Self::$var); } )*
                bad()
            }
            fn v(&self) -> R<V> {
                Ok(V::Num(*self as u64))
            }
        }
    };
}

/// `pay_enum! { Name (start) { [#[enumval(x)]] Variant(Type), … } }`
macro_rules! pay_enum {
    ($name:ident ($start:tt) { $( $(#[enumval($ev:tt)])? $var:ident($($t:tt)+) ),* $(,)? }) => {
        #[derive(FromTLV, ToTLV)]
        #[tlvargs(start = $start)]
        pub enum $name { $( $(#[enumval($ev)])? $var($($t)+), )* }
        impl<'a> Fv<'a> for $name {
            fn ty() -> T {
                T::Choice(vec![$( (0u8, <$($t)+ as Fv>::ty()) ),*])
            }
            fn desc() -> String {
                let mut s = format!("pe {} [ ", $start);
                $( s.push_str(&format!("{} {} ", tvtext!($($ev)?), <$($t)+ as Fv>::desc())); )*
                s.push(']');
                s
            }
            fn of(v: &'a V) -> R<Self> {
                let V::Variant(i, x) = v else { return bad() };
                let mut k = 0usize;
                $( if k == *i { return Ok(Self::$var(<$($t)+ as Fv>::of(x)?)); } k += 1; )*
                let _ = k;
                bad()
            }
            fn v(&self) -> R<V> {
                let names: &[&str] = &[$(stringify!($var)),*];
                match self {
                    $( Self::$var(y) => {
                        let i = names.iter().position(|n| *n == stringify!($var)).unwrap_or(usize::MAX);
                        Ok(V::Variant(i, Box::new(y.v()?)))
                    } )*
                }
            }
        }
    };
}

// ---------------------------------------------------------------------------------- the shapes

// plain numbering, the three starts, both datatypes, no attribute at all
shape! { D01 (dflt) { a: [u8], b: [u16], c: [Option<u32>] } }
shape! { D02 ("struct", 1) { a: [u16], b: [Option<u8>], c: [Nullable<u32>], d: [Option<Nullable<u16>>] } }
shape! { D03 ("list", 3) { a: [Option<u64>], b: [bool], c: [u8] } }
shape! { D04 ("list", 0) { a: [Option<Nullable<u8>>], b: [Nullable<u16>], c: [Option<u32>], d: [u64] } }
// tagval on the last field (the only shape today's wire structures use)
shape! { D05 ("struct", 0) { a: [u16], b: [u32], #[tagval(0xFE)] c: [Option<u8>] } }
// tagval on the FIRST field, implicit fields follow
shape! { D06 ("struct", 0) { #[tagval(7)] a: [u8], b: [u16], c: [u32] } }
shape! { D07 ("struct", 1) { #[tagval(9)] a: [Option<u16>], b: [u8], c: [Option<u32>] } }
shape! { D08 ("list", 3) { #[tagval(0)] a: [u8], b: [Nullable<u16>], c: [Option<Nullable<u8>>] } }
// tagval in the middle
shape! { D09 ("struct", 0) { a: [u8], #[tagval(20)] b: [u16], c: [u32], d: [Option<u8>] } }
shape! { D10 ("struct", 1) { a: [Option<u8>], #[tagval(200)] b: [Nullable<u32>], c: [Option<u16>] } }
shape! { D11 ("list", 0) { a: [bool], #[tagval(5)] b: [Option<u64>], c: [u8], d: [u16] } }
// several tagvals: adjacent, alternating, all explicit
shape! { D12 ("struct", 0) { #[tagval(10)] a: [u8], #[tagval(11)] b: [u8], c: [u16], d: [u16] } }
shape! { D13 ("struct", 1) { a: [u8], #[tagval(30)] b: [Option<u16>], c: [u8], #[tagval(31)] d: [Option<u32>], e: [u8] } }
shape! { D14 ("struct", 0) { #[tagval(3)] a: [u8], #[tagval(1)] b: [u16], #[tagval(2)] c: [Option<u32>] } }
shape! { D15 ("list", 3) { #[tagval(100)] a: [Option<Nullable<u16>>], b: [Option<u8>], #[tagval(101)] c: [Nullable<u8>], d: [bool], #[tagval(102)] e: [u64] } }
// tagvals that skip over / sit just outside the implicit range
shape! { D16 ("struct", 0) { a: [u8], #[tagval(3)] b: [u8], c: [u8], d: [u8] } }
shape! { D17 ("struct", 3) { #[tagval(2)] a: [u8], b: [u16], c: [Option<u16>], #[tagval(5)] d: [u8] } }
// tagvals that COLLIDE with an implicit number (ill-formed schema: no round-trip claim, the model
// still predicts the bytes and what `find_ctx` finds)
shape! { D18 ("struct", 0) { a: [u8], #[tagval(0)] b: [Option<u8>] } }
shape! { D19 ("struct", 1) { #[tagval(2)] a: [u16], b: [u8], c: [u8] } }
// wrappers in every relative order, implicit after Option / Nullable / tagval
shape! { D20 ("struct", 0) { a: [Option<u8>], b: [Option<u8>], c: [u8], d: [Nullable<u8>], e: [u8] } }
shape! { D21 ("struct", 1) { a: [Nullable<u16>], b: [Option<Nullable<u16>>], #[tagval(40)] c: [Option<Nullable<u16>>], d: [Nullable<u16>], e: [Option<u16>], f: [u16] } }
shape! { D22 ("struct", 0) { a: [Skippable<SVec<u16, 3>>], b: [u8], #[tagval(13)] c: [Skippable<SVec<u8, 4>>], d: [Option<u8>] } }
// nested structures, arrays, octet strings, lifetimes
shape! { D23 ("struct", 0) { inner: [D06], other: [Option<D03>], #[tagval(50)] third: [Nullable<D01>], tail: [u8] } }
shape! { D24<'a> ("struct", 1) { a: [Octets<'a>], #[tagval(8)] b: [Option<Octets<'a>>], c: [u16], s: [Option<&'a str>] } }
shape! { D25<'a> ("list", 0) { #[tagval(4)] k: [OctetsOwned<16>], inner: [D24<'a>], n: [Option<u8>] } }
shape! { D26 ("struct", 0) { xs: [SVec<u32, 4>], #[tagval(9)] ys: [Nullable<SVec<D07, 3>>], zs: [Option<SVec<u8, 5>>], k: [u8] } }
shape! { D27<'a> ("struct", 3) { #[tagval(1)] data: [TLVElement<'a>], a: [u8], raw2: [Option<TLVElement<'a>>] } }
shape! { D28 ("struct", 0) { id: [NonZeroU8], #[tagval(6)] id2: [Option<NonZeroU8>], v: [u64] } }
// unit enums (u8 / u16, start, enumval first / middle / last) and structures holding them
unit_enum! { E01 ("u8", u8, 0) { A = 0, B = 1, C = 2 } }
unit_enum! { E02 ("u8", u8, 3) { A = 3, #[enumval(9)] B = 9, C = 4, D = 5 } }
unit_enum! { E03 ("u16", u16, 1) { #[enumval(300)] A = 300, B = 1, #[enumval(2000)] C = 2000, D = 2 } }
unit_enum! { E04 ("u8", u8, 0) { A = 0, B = 1, #[enumval(200)] C = 200 } }
shape! { D29 ("struct", 0) { e: [E01], #[tagval(3)] f: [Option<E02>], g: [Nullable<E03>], h: [Option<Nullable<E04>>] } }
// enums with payload (numbered like fields), `enumval` on variants, nested payload structures
pay_enum! { P01 (0) { A(u8), B(u16), C(D01) } }
pay_enum! { P02 (1) { #[enumval(7)] A(u32), B(D06), #[enumval(9)] C(bool), D(u8) } }
pay_enum! { P03 (3) { A(D12), #[enumval(0)] B(E02) } }
shape! { D30 ("struct", 0) { p: [P01], #[tagval(5)] q: [Option<P02>], r: [P03], k: [u8] } }
shape! { D31 ("struct", 1) { ps: [SVec<P01, 3>], e: [Option<E03>] } }

// signed integers of every width: plain, optional, nullable (`iN::MIN` reserved), both; non-zero
shape! { D32 ("struct", 0) { a: [i8], b: [i16], c: [i32], d: [i64] } }
shape! { D33 ("struct", 1) { a: [Option<i8>], b: [Nullable<i16>], #[tagval(9)] c: [Option<Nullable<i32>>], d: [Nullable<i64>], e: [Option<i64>], f: [Nullable<i8>], g: [Option<i16>], h: [Nullable<i32>] } }
shape! { D34 ("list", 0) { a: [NonZeroI16], b: [Option<NonZeroI8>], #[tagval(20)] c: [Nullable<NonZeroI32>], d: [NonZeroI64], e: [i8], f: [u8] } }
// floats (bit patterns)
shape! { D35 ("struct", 0) { a: [f32], b: [f64], c: [Option<f32>], d: [Nullable<f64>], #[tagval(7)] e: [Option<Nullable<f32>>], f: [Option<f64>] } }
// fixed-size arrays. A bare `[T; N]` field makes the derive panic at compile time (`normalize_fromtlv_type` only
// takes a `Type::Path`), so bare arrays go through a type alias; inside `Option` / `Nullable` they are written out
pub type U8x4 = [u8; 4];
pub type U16x3 = [u16; 3];
pub type U8x0 = [u8; 0];
pub type U8x2x2 = [[u8; 2]; 2];
pub type F32x2 = [f32; 2];
pub type Boolx3 = [bool; 3];
pub type I64x2 = [i64; 2];
pub type FAx2 = [FA; 2];
shape! { D36 ("struct", 0, default) { a: [u8], b: [i16], c: [Option<u16>], d: [Nullable<u8>], e: [bool] } }
pub type D36x2 = [D36; 2];
shape! { D37 ("struct", 0) { xs: [U8x4], ys: [U16x3], #[tagval(5)] zs: [Option<[i32; 2]>], ws: [Nullable<[D36; 2]>], k: [u8] } }
shape! { D38 ("struct", 1) { e: [U8x0], m: [U8x2x2], f: [F32x2], s: [SVec<[i8; 2], 3>], b: [Boolx3], t: [D36x2], w: [Option<Nullable<I64x2>>] } }
// bit flags: harness-local `bitflags!` types with undeclared bits (u8 … u64) and real generated bitmaps
shape! { D39 ("struct", 0) { a: [FA], b: [Option<FB>], c: [Nullable<FC>], #[tagval(30)] d: [Option<Nullable<FD>>], e: [Nullable<FA>], f: [FD], h: [FAx2] } }
shape! { D40 ("struct", 0) { a: [OnOffControlBitmap], b: [Nullable<OptionsBitmap>], c: [Option<OnOffFeature>], d: [Nullable<OnOffFeature>], e: [SVec<FB, 3>] } }

macro_rules! registry {
    ($($name:ident),* $(,)?) => {
        pub const NAMES: &[&str] = &[$(concat!("@", stringify!($name))),*];
        /// (generator schema, declaration text)
        pub fn info(name: &str) -> Option<(T, String)> {
            match name {
                $( concat!("@", stringify!($name)) => Some((<$name as Fv>::ty(), <$name as Fv>::desc())), )*
                _ => None,
            }
        }
        pub fn enc(name: &str, v: &V) -> R<String> {
            Ok(match name {
                $( concat!("@", stringify!($name)) => enc_any(&<$name as Fv>::of(v)?), )*
                _ => "BADNAME".into(),
            })
        }
        pub fn dec(name: &str, data: &[u8]) -> String {
            let e = TLVElement::new(data);
            match name {
                $( concat!("@", stringify!($name)) => match <$name as FromTLV>::from_tlv(&e) {
                    Ok(x) => x.v().map(okv).unwrap_or_else(|e| e),
                    Err(e) => err(e),
                }, )*
                _ => "BADNAME".into(),
            }
        }
    };
}

registry!(
    D01, D02, D03, D04, D05, D06, D07, D08, D09, D10, D11, D12, D13, D14, D15, D16, D17, D18, D19, D20, D21, D22, D23, D24, D25, D26,
    D27, D28, D29, D30, D31, E02, E03, P01, P02, P03, D32, D33, D34, D35, D36, D37, D38, D39, D40
);

/// the two shapes whose `tagval` collides with an implicit number on purpose (no round-trip claim); every other
/// shape must be a well-formed declaration — the driver checks this expectation against `Ty.wfb` (op `wf`), so that
/// an accidental collision in a new shape cannot silently switch the oracle off
pub const ILL_FORMED: &[&str] = &["@D18", "@D19"];

/// names of the shapes using the constructs added in round 4 (signed, floats, `[T; N]`, flags): drawn more often
pub const NEW_NAMES: &[&str] = &["@D32", "@D33", "@D34", "@D35", "@D36", "@D37", "@D38", "@D39", "@D40"];

/// one array somewhere among the top-level fields with an item removed (`delta < 0`) or an item repeated
/// (`delta > 0`), assembled on the byte level from the real encoder's output: a `[T; N]` must pad with
/// `T::default()` / refuse the extra item, a `Vec<T, N>` take fewer items / refuse beyond its capacity
pub fn resized_array(r: &mut crate::rng::Rng, data: &[u8], delta: i32) -> Option<Vec<u8>> {
    fn chunks_of(seq: &rs_matter::tlv::TLVSequence, cap: usize) -> Option<Vec<Vec<u8>>> {
        let mut out = Vec::new();
        let mut n = 0;
        for c in seq.iter() {
            n += 1;
            if n > cap {
                return None;
            }
            let c = c.ok()?;
            let len = c.verif_container_len().ok()?;
            out.push(c.raw_data().get(..len)?.to_vec());
        }
        Some(out)
    }
    let e = TLVElement::new(data);
    let seq = e.container().ok()?;
    let head = data.len().checked_sub(seq.verif_raw().len())?;
    let fields = chunks_of(&seq, data.len() + 2)?;
    let used: usize = fields.iter().map(|c| c.len()).sum();
    let tail = data.get(head + used..)?.to_vec();
    // the fields that are TLV arrays (element type 0x16)
    let arrays: Vec<usize> = fields.iter().enumerate().filter(|(_, c)| c.first().map(|b| b & 0x1f == 0x16).unwrap_or(false)).map(|(i, _)| i).collect();
    if arrays.is_empty() {
        return None;
    }
    let at = *r.pick(&arrays);
    let f = &fields[at];
    let fe = TLVElement::new(f);
    let fseq = fe.container().ok()?;
    let fhead = f.len().checked_sub(fseq.verif_raw().len())?;
    let mut items = chunks_of(&fseq, f.len() + 2)?;
    let fused: usize = items.iter().map(|c| c.len()).sum();
    let ftail = f.get(fhead + fused..)?.to_vec();
    if delta < 0 {
        for _ in 0..(-delta) {
            if items.is_empty() {
                return None;
            }
            let i = r.below(items.len() as u64) as usize;
            items.remove(i);
        }
    } else {
        for _ in 0..delta {
            // an anonymous 8-bit zero when the array is empty, else a copy of one of its items
            let it = if items.is_empty() { vec![0x04, 0x00] } else { items[r.below(items.len() as u64) as usize].clone() };
            items.push(it);
        }
    }
    let mut nf = f[..fhead].to_vec();
    for c in items {
        nf.extend_from_slice(&c);
    }
    nf.extend_from_slice(&ftail);
    let mut out = data[..head].to_vec();
    for (i, c) in fields.iter().enumerate() {
        if i == at {
            out.extend_from_slice(&nf);
        } else {
            out.extend_from_slice(c);
        }
    }
    out.extend_from_slice(&tail);
    Some(out)
}

/// the same top-level fields in another order, optionally with unknown fields (context tags 240..=249,
/// used by no shape) added in front, in between and behind — assembled on the byte level from the
/// real encoder's output, so that no tag number is needed here
pub fn permuted(r: &mut crate::rng::Rng, data: &[u8], extra: bool) -> Option<Vec<u8>> {
    let e = TLVElement::new(data);
    let head = data.len().checked_sub(e.container().ok()?.verif_raw().len())?;
    let mut chunks: Vec<Vec<u8>> = Vec::new();
    let seq = e.container().ok()?;
    let mut n = 0;
    for c in seq.iter() {
        n += 1;
        if n > data.len() + 2 {
            return None;
        }
        let c = c.ok()?;
        let len = c.verif_container_len().ok()?;
        chunks.push(c.raw_data().get(..len)?.to_vec());
    }
    let used: usize = chunks.iter().map(|c| c.len()).sum();
    let tail = data.get(head + used..)?.to_vec();
    for i in (1..chunks.len()).rev() {
        let j = r.below(i as u64 + 1) as usize;
        chunks.swap(i, j);
    }
    if extra {
        let unknown: [&[u8]; 4] = [&[0x24, 0xf0, 0x07], &[0x35, 0xf1, 0x24, 0x00, 0x01, 0x18], &[0x30, 0xf2, 0x02, 0xaa, 0xbb], &[0x34, 0xf3]];
        for _ in 0..1 + r.below(3) {
            let at = r.below(chunks.len() as u64 + 1) as usize;
            chunks.insert(at, (*r.pick(&unknown)).to_vec());
        }
    }
    let mut out = data[..head].to_vec();
    for c in chunks {
        out.extend_from_slice(&c);
    }
    out.extend_from_slice(&tail);
    Some(out)
}
