/-! # C18 — property theorems (not built yet) -/
