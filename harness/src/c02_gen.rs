//! C02 generator: scripted scenarios with random parameters + systematic enumerations + the tamper stream.
use crate::proto::{Case, Out};
use crate::rng::Rng;
use crate::simnet::addr_of;
use crate::Args;

use rs_matter::transport::mrp::RetransEntry;
use rs_matter::transport::session::Session;

pub const N_SCENARIOS: u64 = 19;
const TABLE: u64 = rs_matter::transport::session::MAX_SESSIONS as u64;

/// every encoding of a prover share the script can put on the wire (`valid` excluded)
pub const POINTS: [&str; 15] = ["zero", "offcurve", "short", "inf1", "comp", "long", "comp65", "hybrid", "xgep", "pfield", "gen", "m", "n", "neg", "valid"];

/// `(receive timeout of the responder, longest time its own answer can stay unacknowledged)` for a peer that
/// advertised these session parameters (0 = not advertised), from the real code
pub fn timeouts(sai: u64, sii: u64, sat: u64) -> (u64, u64) {
    let pa = if sai > 0 { sai as u32 } else { 300 };
    let pi = if sii > 0 { sii as u32 } else { 5000 };
    let pt = if sat > 0 { sat as u16 } else { 4000 };
    let s = Session::new(1, 0, false, addr_of(1), None, pa, pi, pt);
    (s.verif_rx_timeout_ms(300), RetransEntry::retransmission_timeout_ms(pa, pa, 0, true))
}

fn handshake(ops: &mut Vec<String>, k: u64, pw: u64) {
    ops.push(format!("pbkdf i={}", k));
    ops.push(format!("pake1 i={} pw={}", k, pw));
    ops.push(format!("pake3 i={}", k));
}

fn gen_case(id: u64, r: &mut Rng, out: &mut Out) -> (String, Vec<String>) {
    let dev_pw = *r.pick(&[20202021u64, 12345679, 1, 99999998]);
    let mut ops: Vec<String> = Vec::new();
    let scenario = id % N_SCENARIOS;
    // index of this case among the cases of its scenario: drives the systematic enumerations
    let round = id / N_SCENARIOS;
    out.stat(&format!("scenario_{}", scenario), 1);
    let good_pw = dev_pw;
    let bad_pw = if dev_pw == 1 { 2 } else { dev_pw - 1 };
    let win = *r.pick(&[180u64, 181, 300, 900]);
    let (rx, ladder) = timeouts(0, 0, 0);
    match scenario {
        0 => {
            // the honest run, after an arbitrary part of the window's life
            ops.push(format!("open t={}", win));
            match r.below(4) {
                2 => {
                    // the responder's final status report (success or InvalidParameter) is never acknowledged:
                    // its send fails after `session.complete()` / after the refusal, `handle` sees `Err`
                    ops.push(format!("tick ms={}", r.below(win * 1000 - 40_000)));
                    let n = r.range(1, 3);
                    for k in 0..n {
                        ops.push(format!("pbkdf i={}", k + 1));
                        ops.push(format!("pake1 i={} pw={}", k + 1, if r.chance(1, 3) { bad_pw } else { good_pw }));
                        ops.push(format!("pake3 i={} noack=1", k + 1));
                        ops.push(format!("tick ms={}", r.range(7400, 9000)));
                    }
                    handshake(&mut ops, 9, if r.chance(1, 2) { bad_pw } else { good_pw });
                    out.stat("final_ack_lost", 1);
                }
                3 => {
                    // a handshake that stalls beyond the 60 s marker, its peer having advertised a slow SAI
                    // (receive timeout > 60 s): SessionNotFound, nothing charged, no session
                    let at = r.below(2);
                    ops.push(format!("pbkdf i=1 sai={}", r.range(1000, 1200)));
                    if at == 1 {
                        ops.push(format!("pake1 i=1 pw={}", if r.chance(1, 2) { bad_pw } else { good_pw }));
                    }
                    ops.push(format!("tick ms={}", r.range(60_200, 75_000)));
                    if at == 0 {
                        ops.push(format!("pake1 i=1 pw={}", good_pw));
                    } else {
                        ops.push("pake3 i=1".into());
                    }
                    handshake(&mut ops, 2, good_pw);
                    out.stat("stalled_beyond_marker", 1);
                }
                _ => {
                    ops.push(format!("tick ms={}", r.below(win * 1000 - 5000)));
                    handshake(&mut ops, 1, good_pw);
                }
            }
        }
        1 => {
            // wrong passcodes until the window is revoked, then the right one
            ops.push(format!("open t={}", win));
            let n = r.range(18, 22);
            for k in 0..n {
                handshake(&mut ops, k + 1, bad_pw);
            }
            handshake(&mut ops, 50, good_pw);
        }
        2 => {
            // the window is revoked between two steps of a valid handshake
            let at = r.below(3);
            ops.push(format!("open t={}", win));
            if at == 0 {
                ops.push("revoke".into());
            }
            ops.push("pbkdf i=1".into());
            if at == 1 {
                ops.push("revoke".into());
            }
            ops.push(format!("pake1 i=1 pw={}", good_pw));
            if at == 2 {
                ops.push("revoke".into());
            }
            ops.push("pake3 i=1".into());
            out.stat(&format!("revoke_at_{}", at), 1);
        }
        3 => {
            // the window expires between two steps (with / without the poll having run)
            let at = r.below(3);
            let poll = r.chance(1, 2);
            ops.push(format!("open t={}", win));
            let mut left = win * 1000;
            let wait = |ops: &mut Vec<String>, until_after: bool, left: &mut u64| {
                if until_after {
                    ops.push(format!("tick ms={}", *left + 500));
                    *left = 0;
                    if poll {
                        ops.push("poll".into());
                    }
                }
            };
            ops.push(format!("tick ms={}", win * 1000 - 20_000));
            left -= win * 1000 - 20_000;
            wait(&mut ops, at == 0, &mut left);
            ops.push("pbkdf i=1".into());
            wait(&mut ops, at == 1, &mut left);
            ops.push(format!("pake1 i=1 pw={}", good_pw));
            wait(&mut ops, at == 2, &mut left);
            ops.push("pake3 i=1".into());
            out.stat(&format!("expire_at_{}", at), 1);
        }
        4 => {
            // a second initiator while one is in progress; then the first one goes on
            ops.push(format!("open t={}", win));
            ops.push("pbkdf i=1".into());
            ops.push("pbkdf i=2".into());
            ops.push(format!("pake1 i=1 pw={}", good_pw));
            if r.chance(1, 2) {
                ops.push("pbkdf i=3".into());
            }
            ops.push("pake3 i=1".into());
            handshake(&mut ops, 4, good_pw);
        }
        5 => {
            // invalid prover shares
            ops.push(format!("open t={}", win));
            for (k, pt) in ["zero", "offcurve", "short"].iter().enumerate() {
                ops.push(format!("pbkdf i={}", k + 1));
                ops.push(format!("pake1 i={} pw={} pt={}", k + 1, good_pw, pt));
                ops.push(format!("pake3 i={}", k + 1));
            }
        }
        6 => {
            // mutated confirmation values
            ops.push(format!("open t={}", win));
            for (k, ca) in ["flip", "zero", "short"].iter().enumerate() {
                ops.push(format!("pbkdf i={}", k + 1));
                ops.push(format!("pake1 i={} pw={}", k + 1, good_pw));
                ops.push(format!("pake3 i={} ca={}", k + 1, ca));
            }
            handshake(&mut ops, 9, good_pw);
        }
        7 => {
            // a confirmation value replayed from an earlier (successful) handshake
            ops.push(format!("open t={}", win));
            handshake(&mut ops, 1, good_pw);
            ops.push("pbkdf i=2".into());
            ops.push(format!("pake1 i=2 pw={}", good_pw));
            ops.push("pake3 i=2 ca=replay:1".into());
        }
        8 => {
            // malformed first messages, aborts
            ops.push(format!("open t={}", win));
            ops.push(format!("pbkdf i=1 req={}", r.pick(&["malformed", "pid"])));
            ops.push("pbkdf i=2".into());
            ops.push("abort i=2".into());
            ops.push("pbkdf i=3".into());
            ops.push(format!("pake1 i=3 pw={}", good_pw));
            ops.push("abort i=3".into());
            handshake(&mut ops, 4, good_pw);
        }
        9 => {
            // no window at all; window opened twice; bad timeouts
            ops.push("pbkdf i=1".into());
            ops.push(format!("open t={}", r.pick(&[0u64, 179, 901, 65535])));
            ops.push(format!("open t={}", win));
            ops.push(format!("open t={}", win));
            ops.push("revoke".into());
            ops.push("revoke".into());
            ops.push("pbkdf i=2".into());
        }
        10 => {
            // the handshake idles beyond the 60 s of the in-progress marker (the receive timeout fires first)
            ops.push(format!("open t={}", win));
            ops.push("pbkdf i=1".into());
            ops.push(format!("tick ms={}", r.range(61_000, 70_000)));
            if r.chance(1, 2) {
                ops.push("pbkdf i=2".into());
            }
            ops.push(format!("pake1 i=1 pw={}", good_pw));
            ops.push("pake3 i=1".into());
        }
        11 => {
            // free mix
            ops.push(format!("open t={}", win));
            let mut k = 0;
            for _ in 0..r.range(2, 5) {
                k += 1;
                let pw = if r.chance(2, 3) { good_pw } else { bad_pw };
                ops.push(format!("pbkdf i={}{}", k, if r.chance(1, 6) { " dup=1" } else { "" }));
                if r.chance(1, 6) {
                    ops.push("revoke".into());
                }
                if r.chance(1, 6) {
                    ops.push(format!("open t={}", win));
                }
                ops.push(format!("pake1 i={} pw={}{}", k, pw, if r.chance(1, 6) { " dup=1" } else { "" }));
                if r.chance(1, 6) {
                    ops.push("revoke".into());
                }
                if r.chance(1, 6) {
                    // never inside the band in which the responder's own receive timeout may or may not have fired
                    ops.push(format!("tick ms={}", if r.chance(2, 3) { r.range(1000, rx - 600) } else { r.range(rx + ladder + 600, 70_000) }));
                }
                ops.push(format!("pake3 i={}{}{}", k, if r.chance(1, 5) { " ca=flip" } else { "" }, if r.chance(1, 6) { " dup=1" } else { "" }));
            }
        }
        12 => {
            // the enhanced window: a verifier for another passcode, with salt / iteration count of the caller
            let enh_pw = *r.pick(&[11111112u64, 20202021, 87654321, 3]);
            let enh_pw = if enh_pw == dev_pw { enh_pw + 1 } else { enh_pw };
            let sl = *r.pick(&[16u64, 17, 24, 31, 32]);
            let it = if r.chance(1, 12) { *r.pick(&[99_999u64, 100_000]) } else { *r.pick(&[1000u64, 1001, 1500, 2000, 5000]) };
            let disc = r.below(4096);
            out.stat(&format!("enh_salt_{}", sl), 1);
            out.stat(&format!("enh_iter_{}", it), 1);
            ops.push(format!("openenh pw={} t={} sl={} it={} disc={}", enh_pw, win, sl, it, disc));
            match r.below(4) {
                0 => {
                    handshake(&mut ops, 1, enh_pw);
                    handshake(&mut ops, 2, dev_pw);
                }
                1 => {
                    // the device's own passcode is not what this window admits
                    handshake(&mut ops, 1, dev_pw);
                    handshake(&mut ops, 2, enh_pw);
                }
                2 => {
                    // revoked / expired like any window
                    ops.push("pbkdf i=1".into());
                    ops.push(format!("pake1 i=1 pw={}", enh_pw));
                    if r.chance(1, 2) {
                        ops.push("revoke".into());
                    } else {
                        ops.push(format!("tick ms={}", win * 1000 + 500));
                        if r.chance(1, 2) {
                            ops.push("poll".into());
                        }
                    }
                    ops.push("pake3 i=1".into());
                    handshake(&mut ops, 2, enh_pw);
                }
                _ => {
                    // twenty failures revoke it as well
                    for k in 0..20 {
                        handshake(&mut ops, k + 1, dev_pw);
                    }
                    handshake(&mut ops, 40, enh_pw);
                }
            }
        }
        13 => {
            // one window at a time; PBKDF parameter bounds of `Pase::open_comm_window`
            let enh_pw = if dev_pw == 11111112 { 11111113 } else { 11111112 };
            let v = round % 12;
            out.stat(&format!("single_window_variant_{}", v), 1);
            match v {
                0 => {
                    ops.push(format!("open t={}", win));
                    ops.push(format!("openenh pw={} t={} sl=32 it=1000 disc=77", enh_pw, win));
                    handshake(&mut ops, 1, enh_pw);
                    handshake(&mut ops, 2, dev_pw);
                }
                1 => {
                    ops.push(format!("openenh pw={} t={} sl=16 it=1000 disc=78", enh_pw, win));
                    ops.push(format!("open t={}", win));
                    handshake(&mut ops, 1, dev_pw);
                    handshake(&mut ops, 2, enh_pw);
                }
                2 => {
                    ops.push(format!("openenh pw={} t={} sl=20 it=1000 disc=79", enh_pw, win));
                    ops.push(format!("openenh pw={} t={} sl=20 it=1000 disc=80", enh_pw + 1, win));
                    handshake(&mut ops, 1, enh_pw + 1);
                    handshake(&mut ops, 2, enh_pw);
                }
                3 => {
                    ops.push(format!("openenh pw={} t={} sl=20 it=1000 disc=81", enh_pw, win));
                    ops.push("revoke".into());
                    ops.push(format!("open t={}", win));
                    handshake(&mut ops, 1, enh_pw);
                    handshake(&mut ops, 2, dev_pw);
                }
                4 => {
                    // an expired window that nobody polled still blocks the next one; the poll frees the place
                    ops.push(format!("openenh pw={} t=180 sl=20 it=1000 disc=82", enh_pw));
                    ops.push("tick ms=180500".into());
                    ops.push(format!("open t={}", win));
                    ops.push(format!("openenh pw={} t={} sl=20 it=1000 disc=83", enh_pw, win));
                    ops.push("poll".into());
                    ops.push(format!("openenh pw={} t={} sl=20 it=1000 disc=84", enh_pw, win));
                    handshake(&mut ops, 1, enh_pw);
                }
                5 => {
                    // salt length bounds (16..=32) and commissioning timeout bounds
                    for sl in [0u64, 15, 33, 64] {
                        ops.push(format!("openenh pw={} t={} sl={} it=1000 disc=85", enh_pw, win, sl));
                    }
                    for t in [0u64, 179, 901] {
                        ops.push(format!("openenh pw={} t={} sl=16 it=1000 disc=85", enh_pw, t));
                    }
                    ops.push("pbkdf i=1".into());
                    ops.push(format!("openenh pw={} t={} sl={} it=1000 disc=86", enh_pw, win, r.pick(&[16u64, 32])));
                    handshake(&mut ops, 2, enh_pw);
                }
                6 => {
                    // iteration counts outside 1000..=100000 are the cluster handler's to refuse: `Pase` takes them
                    let it = *r.pick(&[1u64, 999, 100_001]);
                    out.stat(&format!("enh_iter_{}", it), 1);
                    ops.push(format!("openenh pw={} t={} sl=16 it={} disc=87", enh_pw, win, it));
                    handshake(&mut ops, 1, enh_pw);
                }
                7 => {
                    // an enhanced window for the device's own passcode: other salt, so other verifier
                    ops.push(format!("openenh pw={} t={} sl=32 it=2000 disc=88", dev_pw, win));
                    handshake(&mut ops, 1, dev_pw);
                    ops.push("revoke".into());
                    ops.push(format!("open t={}", win));
                    handshake(&mut ops, 2, dev_pw);
                }
                8 => {
                    // the command OpenCommissioningWindow through the real cluster handler, legal PBKDF parameters
                    let sl = r.range(16, 32);
                    let it = if r.chance(1, 8) { *r.pick(&[99_999u64, 100_000]) } else { *r.pick(&[1000u64, 1001, 2000, 7777]) };
                    out.stat(&format!("cmd_salt_{}", sl), 1);
                    out.stat(&format!("cmd_iter_{}", it), 1);
                    ops.push(format!("cmdopen pw={} t={} sl={} it={} disc={}", enh_pw, win, sl, it, r.below(4096)));
                    ops.push(format!("cmdbasic t={}", win));
                    ops.push(format!("cmdopen pw={} t={} sl=16 it=1000 disc=1", enh_pw + 1, win));
                    handshake(&mut ops, 1, enh_pw);
                    handshake(&mut ops, 2, dev_pw);
                }
                9 => {
                    // ... illegal ones: PAKEParameterError, no window
                    for it in [0u64, 999, 100_001, 4_000_000_000] {
                        ops.push(format!("cmdopen pw={} t={} sl=16 it={} disc=2", enh_pw, win, it));
                    }
                    for sl in [0u64, 15, 33, 64] {
                        ops.push(format!("cmdopen pw={} t={} sl={} it=1000 disc=2", enh_pw, win, sl));
                    }
                    for vl in [0u64, 96, 98, 130] {
                        ops.push(format!("cmdopen pw={} t={} sl=16 it=1000 disc=2 vl={}", enh_pw, win, vl));
                    }
                    ops.push("pbkdf i=1".into());
                    ops.push(format!("cmdopen pw={} t={} sl={} it={} disc=2", enh_pw, win, r.pick(&[16u64, 32]), r.pick(&[1000u64, 1001])));
                    handshake(&mut ops, 2, enh_pw);
                }
                10 => {
                    // an expired window nobody polled blocks the API but not the commands (they run the expiry check)
                    ops.push(format!("openenh pw={} t=180 sl=20 it=1000 disc=82", enh_pw));
                    ops.push("tick ms=180500".into());
                    ops.push(format!("open t={}", win));
                    if r.chance(1, 2) {
                        ops.push(format!("cmdbasic t={}", win));
                        handshake(&mut ops, 1, dev_pw);
                    } else {
                        ops.push(format!("cmdopen pw={} t={} sl=16 it=1000 disc=3", enh_pw + 1, win));
                        handshake(&mut ops, 1, enh_pw + 1);
                    }
                }
                _ => {
                    // commissioning timeout bounds and the single-window rule of the commands
                    ops.push("cmdbasic t=179".into());
                    ops.push("cmdbasic t=901".into());
                    ops.push(format!("cmdopen pw={} t=179 sl=16 it=1000 disc=4", enh_pw));
                    ops.push(format!("cmdbasic t={}", win));
                    ops.push(format!("cmdopen pw={} t={} sl=16 it=1000 disc=4", enh_pw, win));
                    ops.push(format!("cmdbasic t={}", win));
                    ops.push("revoke".into());
                    ops.push(format!("cmdopen pw={} t={} sl=16 it=1000 disc=4", enh_pw, win));
                    ops.push(format!("cmdbasic t={}", win));
                    handshake(&mut ops, 1, enh_pw);
                }
            }
        }
        14 => {
            // the session table is (nearly) full when the handshake needs its slots
            let v = round % 8;
            out.stat(&format!("table_variant_{}", v), 1);
            ops.push(format!("open t={}", win));
            match v {
                0 => {
                    // no slot for the unsecured session, nothing can be evicted
                    ops.push(format!("fill n={} pin=1", TABLE));
                    ops.push("pbkdf i=1".into());
                    ops.push("unfill".into());
                    handshake(&mut ops, 2, good_pw);
                }
                1 => {
                    // one slot: the unsecured session gets it, the reservation fails
                    ops.push(format!("fill n={} pin=1", TABLE - 1));
                    ops.push("pbkdf i=1".into());
                    ops.push("pbkdf i=2".into());
                    ops.push("unfill".into());
                    handshake(&mut ops, 3, good_pw);
                }
                2 => {
                    // one slot and something to evict
                    let idle = r.range(1, 3);
                    ops.push(format!("fill n={} pin=1", TABLE - 1 - idle));
                    ops.push(format!("fill n={} pin=0", idle));
                    handshake(&mut ops, 1, good_pw);
                    handshake(&mut ops, 2, bad_pw);
                }
                3 => {
                    // full, one session can go: `Busy` now, the retry gets the slot - and then fails to reserve
                    ops.push(format!("fill n={} pin=1", TABLE - 1));
                    ops.push("fill n=1 pin=0".into());
                    ops.push("pbkdf i=1".into());
                    ops.push("pbkdf i=2".into());
                    ops.push("pbkdf i=3".into());
                    ops.push("unfill".into());
                    handshake(&mut ops, 4, good_pw);
                }
                4 => {
                    // the table fills up while the handshake is under way: it already holds its slots
                    ops.push("pbkdf i=1".into());
                    ops.push(format!("fill n={} pin=1", TABLE));
                    ops.push(format!("pake1 i=1 pw={}", good_pw));
                    ops.push("pbkdf i=2".into());
                    ops.push("pake3 i=1".into());
                }
                5 => {
                    // a second initiator that cannot reserve takes the first one's marker with it
                    ops.push("pbkdf i=1".into());
                    ops.push(format!("fill n={} pin=1", TABLE - 3));
                    ops.push("pbkdf i=2".into());
                    ops.push(format!("pake1 i=1 pw={}", good_pw));
                    ops.push("unfill".into());
                    handshake(&mut ops, 3, good_pw);
                }
                6 => {
                    // failed reservations are charged like failed proofs: twenty of them close the window
                    ops.push(format!("fill n={} pin=1", TABLE - 1));
                    for k in 0..r.range(40, 44) {
                        ops.push(format!("pbkdf i={}", k + 1));
                    }
                    ops.push("unfill".into());
                    handshake(&mut ops, 60, good_pw);
                }
                _ => {
                    // established PASE sessions and finished unsecured sessions are what a later reservation evicts
                    handshake(&mut ops, 1, good_pw);
                    ops.push(format!("fill n={} pin=1", TABLE));
                    handshake(&mut ops, 2, good_pw);
                    handshake(&mut ops, 3, good_pw);
                    handshake(&mut ops, 4, good_pw);
                }
            }
        }
        15 => {
            // retransmitted / duplicated handshake messages
            let v = round % 8;
            out.stat(&format!("dup_variant_{}", v), 1);
            ops.push(format!("open t={}", win));
            match v {
                0 => {
                    ops.push("pbkdf i=1 dup=1".into());
                    ops.push(format!("pake1 i=1 pw={} dup=1", good_pw));
                    ops.push("pake3 i=1 dup=1".into());
                }
                1 => {
                    ops.push("pbkdf i=1 dup=1".into());
                    ops.push(format!("pake1 i=1 pw={} dup=1", bad_pw));
                    ops.push("pake3 i=1 dup=1".into());
                    handshake(&mut ops, 2, good_pw);
                }
                2 => {
                    // the identical datagram again, one step later each
                    ops.push("pbkdf i=1".into());
                    ops.push("resend i=1 m=0".into());
                    ops.push(format!("pake1 i=1 pw={}", good_pw));
                    ops.push("resend i=1 m=0".into());
                    ops.push("resend i=1 m=1".into());
                    ops.push("pake3 i=1".into());
                    ops.push("resend i=1 m=2".into());
                    ops.push("resend i=1 m=1".into());
                    ops.push("resend i=1 m=0".into());
                }
                3 => {
                    // a refused proof sent again is not refused again
                    ops.push("pbkdf i=1".into());
                    ops.push(format!("pake1 i=1 pw={}", bad_pw));
                    ops.push("pake3 i=1".into());
                    for _ in 0..r.range(1, 25) {
                        ops.push("resend i=1 m=2".into());
                    }
                    handshake(&mut ops, 2, good_pw);
                }
                4 => {
                    // an invalid share sent again
                    ops.push("pbkdf i=1".into());
                    ops.push(format!("pake1 i=1 pw={} pt={}", good_pw, r.pick(&["zero", "offcurve", "short", "xgep"])));
                    for _ in 0..r.range(1, 5) {
                        ops.push("resend i=1 m=1".into());
                    }
                    handshake(&mut ops, 2, good_pw);
                }
                5 => {
                    // the first message again while another initiator holds the marker / after the window closed
                    ops.push("pbkdf i=1".into());
                    ops.push("pbkdf i=2".into());
                    ops.push("resend i=2 m=0".into());
                    ops.push("resend i=1 m=0".into());
                    ops.push("revoke".into());
                    ops.push("resend i=1 m=0".into());
                    ops.push(format!("pake1 i=1 pw={}", good_pw));
                }
                6 => {
                    // a malformed first message again
                    ops.push(format!("pbkdf i=1 req={} dup=1", r.pick(&["malformed", "pid"])));
                    ops.push("resend i=1 m=0".into());
                    handshake(&mut ops, 2, good_pw);
                }
                _ => {
                    // duplicates of a successful handshake's messages long after it
                    handshake(&mut ops, 1, good_pw);
                    ops.push(format!("tick ms={}", r.range(1000, 100_000)));
                    ops.push("resend i=1 m=2".into());
                    ops.push("resend i=1 m=0".into());
                    handshake(&mut ops, 2, good_pw);
                    ops.push("resend i=1 m=2".into());
                }
            }
        }
        16 => {
            // a second initiator between EVERY pair of steps of the first one's handshake, in every way it can behave
            let pos = round % 5;
            let how = (round / 5) % 5;
            out.stat(&format!("second_at_{}_how_{}", pos, how), 1);
            let second = |ops: &mut Vec<String>| match how {
                0 => ops.push("pbkdf i=2".into()),
                1 => ops.push("pbkdf i=2 req=malformed".into()),
                2 => handshake(ops, 2, good_pw),
                3 => handshake(ops, 2, bad_pw),
                _ => {
                    ops.push("pbkdf i=2".into());
                    ops.push("abort i=2".into());
                }
            };
            ops.push(format!("open t={}", win));
            if pos == 0 {
                second(&mut ops);
            }
            ops.push("pbkdf i=1".into());
            if pos == 1 {
                second(&mut ops);
            }
            ops.push(format!("pake1 i=1 pw={}", good_pw));
            if pos == 2 {
                second(&mut ops);
            }
            ops.push("pake3 i=1".into());
            if pos == 3 {
                second(&mut ops);
            }
            if pos == 4 {
                // ... and in between every pair at once
                ops.clear();
                ops.push(format!("open t={}", win));
                ops.push("pbkdf i=5".into());
                ops.push("pbkdf i=1".into());
                ops.push("pbkdf i=6".into());
                ops.push(format!("pake1 i=1 pw={}", good_pw));
                ops.push("pbkdf i=7".into());
                ops.push("pake3 i=1".into());
                ops.push("pbkdf i=8".into());
            }
        }
        17 => {
            // every encoding of an invalid / identity / valid-but-foreign prover share
            let pt = POINTS[(round % POINTS.len() as u64) as usize];
            out.stat(&format!("point_{}", pt), 1);
            ops.push(format!("open t={}", win));
            ops.push("pbkdf i=1".into());
            ops.push(format!("pake1 i=1 pw={} pt={}", good_pw, pt));
            ops.push("pake3 i=1".into());
            if r.chance(1, 2) {
                // the same share after the window was revoked: dropped, not charged - unless it does not even parse
                ops.push("pbkdf i=2".into());
                ops.push("revoke".into());
                ops.push(format!("pake1 i=2 pw={} pt={}", good_pw, pt));
                ops.push(format!("open t={}", win));
            }
            handshake(&mut ops, 3, good_pw);
        }
        _ => {
            // the responder's receive timeout, also with session parameters advertised by the initiator
            let (sai, sii, sat) = match round % 6 {
                0 => (0u64, 0u64, 0u64),
                1 => (*r.pick(&[100u64, 500, 1000]), 0, 0),
                2 => (0, *r.pick(&[300u64, 1000, 20_000]), *r.pick(&[1u64, 500, 4000])),
                3 => (r.range(1, 2000), r.range(1, 30_000), r.range(1, 6000)),
                // zero values are ignored
                4 => (0, 0, 0),
                _ => (r.range(200, 400), r.range(4000, 6000), r.range(1, 65_535)),
            };
            let explicit_zero = round % 6 == 4;
            let (rxp, ladderp) = timeouts(sai, sii, sat);
            let mut p = String::new();
            for (key, v) in [("sai", sai), ("sii", sii), ("sat", sat)] {
                if v > 0 || explicit_zero {
                    p.push_str(&format!(" {}={}", key, v));
                }
            }
            ops.push("open t=900".into());
            ops.push(format!("rxto pa={} pi={} pt={} la={}", r.range(1, 5000), r.range(1, 100_000), r.below(65_536), r.range(1, 5000)));
            ops.push(format!("pbkdf i=1{}", p));
            let alive = r.chance(1, 2);
            let stage1 = r.chance(1, 2);
            let idle = if alive { rxp - r.range(200, 1500).min(rxp - 1) } else { rxp + ladderp + r.range(300, 3000) };
            out.stat(if alive { "idle_below_rx_timeout" } else { "idle_beyond_rx_timeout" }, 1);
            if stage1 && idle < 800_000 {
                ops.push(format!("tick ms={}", idle));
            }
            ops.push(format!("pake1 i=1 pw={}", good_pw));
            if !stage1 && idle < 800_000 {
                ops.push(format!("tick ms={}", idle));
            }
            ops.push("pake3 i=1".into());
            // whoever comes next is not told `Busy`: a timed-out handshake has given the marker back
            ops.push("pbkdf i=2".into());
            let _ = (rx, ladder);
        }
    }
    (format!("pw={}", dev_pw), ops)
}

/// what the network does to one handshake message and to its answer
const NETV: [&str; 6] = ["", " dup=1", " drop=1", " rdrop=1", " drop=1 rdrop=1", " dup=1 rdrop=1"];

/// ADVERSARY SCHEDULE: every handshake message (and the answer to it) is delivered, duplicated or lost once - all
/// 6 x 6 x 6 combinations are enumerated by `round` -, and copies of EARLIER messages arrive late, at any later
/// point of the handshake and after its end (reordering: the copy carries the counter of its original)
fn gen_adv(round: u64, r: &mut Rng, out: &mut Out) -> (String, Vec<String>) {
    let dev_pw = *r.pick(&[20202021u64, 12345679]);
    let (v0, v1, v2) = (NETV[(round % 6) as usize], NETV[((round / 6) % 6) as usize], NETV[((round / 36) % 6) as usize]);
    out.stat(&format!("adv_sched_{}{}{}", round % 6, (round / 6) % 6, (round / 36) % 6), 1);
    let wrong = r.chance(1, 4);
    let pw = if wrong { dev_pw - 1 } else { dev_pw };
    let mut ops: Vec<String> = vec![format!("open t={}", *r.pick(&[180u64, 300, 900]))];
    let late = |ops: &mut Vec<String>, r: &mut Rng, upto: u64, out: &mut Out| {
        for _ in 0..r.below(3) {
            let m = r.below(upto + 1);
            out.stat(&format!("adv_late_copy_of_msg_{}_after_msg_{}", m, upto), 1);
            ops.push(format!("resend i=1 m={}", m));
        }
    };
    ops.push(format!("pbkdf i=1{}", v0));
    late(&mut ops, r, 0, out);
    ops.push(format!("pake1 i=1 pw={}{}", pw, v1));
    late(&mut ops, r, 1, out);
    let variant = r.below(5);
    if variant == 0 {
        // the window goes away while the last step is under way
        ops.push("revoke".into());
    }
    ops.push(format!("pake3 i=1{}", v2));
    late(&mut ops, r, 2, out);
    if variant == 1 {
        ops.push(format!("tick ms={}", r.range(100, 20_000)));
        late(&mut ops, r, 2, out);
    }
    if wrong || variant == 0 {
        if variant == 0 {
            ops.push("open t=300".into());
        }
        // the honest initiator afterwards, under the same kind of network
        ops.push(format!("pbkdf i=2{}", v2));
        ops.push(format!("pake1 i=2 pw={}{}", dev_pw, v0));
        ops.push("resend i=1 m=1".into());
        ops.push(format!("pake3 i=2{}", v1));
        ops.push("resend i=1 m=2".into());
    }
    (format!("pw={}", dev_pw), ops)
}

/// FAIL-SAFE / RevokeCommissioning: a successful Pake3 arms the fail-safe (60 s, only if it is not armed);
/// `cmdrevoke` (the command through the real cluster handler) expires it - every PASE session goes - and closes the
/// window; the fail-safe's own expiry (`fspoll` = the 1 s timeout check) does the same to the sessions
fn gen_fs(round: u64, r: &mut Rng, out: &mut Out) -> (String, Vec<String>) {
    let dev_pw = *r.pick(&[20202021u64, 12345679]);
    let mut ops: Vec<String> = vec![format!("open t={}", *r.pick(&[300u64, 900]))];
    let variant = round % 8;
    out.stat(&format!("fs_variant_{}", variant), 1);
    handshake(&mut ops, 1, dev_pw);
    let second = r.chance(1, 2);
    if second {
        ops.push(format!("tick ms={}", r.range(100, 20_000)));
        handshake(&mut ops, 2, dev_pw);
    }
    match variant {
        0 | 1 => {
            // a third handshake waits for its Pake3 when the command comes
            ops.push("pbkdf i=3".into());
            ops.push(format!("pake1 i=3 pw={}", dev_pw));
            ops.push("cmdrevoke".into());
            ops.push("pake3 i=3".into());
            if variant == 1 {
                ops.push("cmdrevoke".into()); // no window: succeeds nevertheless (the code does not look at `Ok(false)`)
            }
            ops.push("open t=300".into());
            handshake(&mut ops, 4, dev_pw);
            ops.push("cmdrevoke".into());
        }
        2 => {
            // the API call closes the window only: the sessions stay until the fail-safe expires
            ops.push("revoke".into());
            ops.push("fspoll".into());
            ops.push("tick ms=61000".into());
            ops.push("fspoll".into());
            ops.push("cmdrevoke".into());
        }
        3 | 4 => {
            // the fail-safe's own expiry, just before / just after the 60 s (counted from the FIRST session)
            let used: u64 = if second { 25_000 } else { 0 };
            ops.push(format!("tick ms={}", 59_000 - used - r.range(0, 3000)));
            ops.push("fspoll".into());
            ops.push("tick ms=5000".into());
            ops.push("fspoll".into());
            if variant == 4 {
                // a new session arms it again
                handshake(&mut ops, 5, dev_pw);
                ops.push("fspoll".into());
                ops.push("cmdrevoke".into());
            }
        }
        5 => {
            // wrong passcodes do not arm anything; the window's own expiry leaves sessions and fail-safe alone
            handshake(&mut ops, 6, dev_pw - 1);
            ops.push("cmdrevoke".into());
            ops.push("open t=180".into());
            handshake(&mut ops, 7, dev_pw - 1);
            ops.push("fspoll".into());
            handshake(&mut ops, 8, dev_pw);
            ops.push("tick ms=30000".into());
            ops.push("fspoll".into());
        }
        6 => {
            // eviction takes a PASE session while the fail-safe is armed; then the command
            ops.push("fill n=16 pin=1".into());
            ops.push("pbkdf i=9".into());
            ops.push("unfill".into());
            ops.push("cmdrevoke".into());
            ops.push("open t=300".into());
            handshake(&mut ops, 10, dev_pw);
        }
        _ => {
            // duplicated / lost datagrams around the arming step, a late copy of the successful Pake3 after the command
            ops.push("pbkdf i=11 drop=1".into());
            ops.push(format!("pake1 i=11 pw={} rdrop=1", dev_pw));
            ops.push("pake3 i=11 dup=1 rdrop=1".into());
            ops.push("cmdrevoke".into());
            ops.push("resend i=11 m=2".into());
            ops.push("resend i=1 m=2".into());
            ops.push("open t=300".into());
            ops.push("resend i=11 m=2".into());
        }
    }
    (format!("pw={}", dev_pw), ops)
}

const RESP_HOWS: [&str; 13] = ["rnd", "rrand", "ssid", "iter", "salt", "salt15", "salt33", "salt0", "noparams", "status", "opcode", "last", "trail"];
const PAKE2_HOWS: [&str; 9] = ["pb", "cb", "cbzero", "short", "pbinf", "status", "opcode", "last", "trail"];
const STATUS_HOWS: [&str; 3] = ["fail", "parse", "opcode"];

/// THE INITIATOR: the real `PaseInitiator::perform` against the real responder while PBKDFParamResponse / Pake2 /
/// the final StatusReport are modified in flight (every structured modification enumerated by `round`, plus single-bit
/// flips), with the right and with a wrong passcode; every case ends with an untouched handshake that must succeed
fn gen_init(round: u64, r: &mut Rng, out: &mut Out) -> (String, Vec<String>) {
    let dev_pw = *r.pick(&[20202021u64, 12345679]);
    let mut ops: Vec<String> = vec!["open t=900".to_string()];
    let all: Vec<String> = RESP_HOWS
        .iter()
        .map(|h| format!("resp:{}", h))
        .chain(PAKE2_HOWS.iter().map(|h| format!("pake2:{}", h)))
        .chain(STATUS_HOWS.iter().map(|h| format!("status:{}", h)))
        .collect();
    for j in 0..4u64 {
        let pick = (round * 4 + j) as usize;
        let mutation = if r.chance(1, 4) {
            let target = *r.pick(&["resp", "resp", "pake2", "pake2", "status"]);
            format!("{}:bit{}", target, r.below(2048))
        } else {
            all[pick % all.len()].clone()
        };
        out.stat(&format!("init_mut_{}", mutation.split(':').next().unwrap_or("?")), 1);
        let ipw = if r.chance(1, 6) { dev_pw - 1 } else { dev_pw };
        ops.push(format!("hs ipw={} mut={}", ipw, mutation));
    }
    if r.chance(1, 2) {
        ops.push(format!("hs ipw={}", dev_pw - 1));
    }
    if r.chance(1, 5) {
        ops.push("revoke".into());
        ops.push(format!("hs ipw={}", dev_pw));
        ops.push("open t=300".into());
    }
    ops.push(format!("hs ipw={}", dev_pw));
    (format!("init pw={}", dev_pw), ops)
}

/// the honest handshake with one payload bit flipped in flight
fn gen_tamper(r: &mut Rng, out: &mut Out) -> (String, Vec<String>) {
    let dev_pw = *r.pick(&[20202021u64, 12345679]);
    // payload-carrying datagrams in order: 1 PBKDFParamRequest, 2 PBKDFParamResponse, 3 Pake1, 4 Pake3
    let k = r.range(1, 4);
    let bit = r.below(4096);
    out.stat(&format!("tamper_msg_{}", k), 1);
    let ops = vec!["open t=300".to_string(), "pbkdf i=1".into(), format!("pake1 i=1 pw={}", dev_pw), "pake3 i=1".into()];
    (format!("pw={} tamper={}:{}", dev_pw, k, bit), ops)
}

const RULE: &str = "a case = one device (real Matter + SecureChannel responder, passcode from {20202021,12345679,1,99999998}) and one controller on the simulated network with virtual time; the script plays 1-60 PASE initiators message by message with the real Spake2P prover; 19 scenarios in rotation: honest run at an arbitrary point of the window's life, 18-22 wrong passcodes then the right one, revoke / expiry (with and without the 1 s poll) before PBKDFParamRequest / before Pake1 / before Pake3, concurrent second initiator, invalid prover shares, mutated / short / replayed confirmation values, malformed first messages and aborts, no window / double open / illegal timeouts, idle handshake, free mixes (with duplicated datagrams), enhanced window (caller's verifier, salt 16-32 bytes, 1000-100000 iterations, discriminator), single-window rule basic/enhanced in both orders + PBKDF parameter bounds, session table full (no slot / one slot / evictable sessions / filled between steps / second initiator / 40+ failed reservations / PASE sessions as victims), duplicated and re-sent handshake datagrams, a second initiator at EVERY position x 5 behaviours (enumerated), 15 prover-share encodings (enumerated: all-zero, off-curve, short, 1-byte infinity, compressed, long, compressed tag on 65 bytes, hybrid tag, x >= p, x = p, generator, M, N, negated share, valid), receive timeout just below / beyond the modelled bound with advertised SAI / SII / SAT; non-trivial = the case contains at least one step that was refused or dropped and one that was answered; distinct = by operation list";

pub fn gen(a: &Args, run: &mut dyn FnMut(&mut Out, &Case)) -> String {
    let mut r = Rng::new(a.seed);
    let mut out = Out::default();
    out.buf.push_str(&format!("#rule {}\n", RULE));
    // 25 rounds = one full sweep of every enumeration (8 table / 8 duplicate / 8 single-window variants, 15 share
    // encodings, 5 positions x 5 behaviours of the second initiator)
    let rounds = if a.thorough { 150 } else { 25 };
    let offset = 0;
    let n_cases = rounds * N_SCENARIOS;
    for id in 0..n_cases {
        let mut cr = r.fork();
        let (kind, ops) = gen_case(id + offset, &mut cr, &mut out);
        run(&mut out, &Case { id, kind, ops });
    }
    // adversary schedules (loss / duplication / late copies per message) and the fail-safe / RevokeCommissioning paths
    let n_adv = if a.thorough { 648 } else { 216 };
    for id in 0..n_adv {
        let mut cr = r.fork();
        let (kind, ops) = gen_adv(id, &mut cr, &mut out);
        run(&mut out, &Case { id: 100_000 + id, kind, ops });
    }
    let n_fs = if a.thorough { 240 } else { 48 };
    for id in 0..n_fs {
        let mut cr = r.fork();
        let (kind, ops) = gen_fs(id, &mut cr, &mut out);
        run(&mut out, &Case { id: 110_000 + id, kind, ops });
    }
    let n_init = if a.thorough { 420 } else { 63 };
    for id in 0..n_init {
        let mut cr = r.fork();
        let (kind, ops) = gen_init(id, &mut cr, &mut out);
        run(&mut out, &Case { id: 120_000 + id, kind, ops });
    }
    // tamper stream: single-bit mutations of the handshake messages in flight (oracle only)
    let n_tamper = if a.thorough { 4000 } else { 300 };
    for id in 0..n_tamper {
        let mut cr = r.fork();
        let (kind, ops) = gen_tamper(&mut cr, &mut out);
        run(&mut out, &Case { id: n_cases + id, kind, ops });
    }
    out.finish()
}
