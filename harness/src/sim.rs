//! `vh SIM smoke`: self-test of the simulated network + virtual-time executor with two real
//! `Matter` nodes (unsecured exchange: PBKDFParamRequest -> PBKDFParamResponse) under loss.
use embassy_futures::select::{select, select3, Either};
use embassy_time::{Duration, Timer};

use rs_matter::crypto::test_only_crypto;
use rs_matter::dm::devices::test::{TEST_DEV_ATT, TEST_DEV_COMM, TEST_DEV_DET};
use rs_matter::error::Error;
use rs_matter::respond::Responder;
use rs_matter::sc::pase::MAX_COMM_WINDOW_TIMEOUT_SECS;
use rs_matter::sc::{OpCode, SecureChannel, PROTO_ID_SECURE_CHANNEL};
use rs_matter::tlv::{OctetStr, TLVTag, TLVWrite, ToTLV};
use rs_matter::transport::exchange::{Exchange, MessageMeta};
use rs_matter::transport::network::NoNetwork;
use rs_matter::Matter;

use crate::rng::Rng;
use crate::simnet::{addr_of, now_ms, run_sim, RandomPolicy, SimEnd, SimNet};
use crate::Args;

pub fn gen(a: &Args) -> String {
    let mut out = String::new();
    for i in 0..(if a.thorough { 50 } else { 5 }) {
        let net = SimNet::new(
            2,
            Box::new(RandomPolicy { rng: Rng::new(a.seed + i), drop_pm: 300, dup_pm: 100, delay_pm: 100, max_delay_ms: 800 }),
        );
        let device = Matter::new(&TEST_DEV_DET, TEST_DEV_COMM, &TEST_DEV_ATT, 0);
        let controller = Matter::new(&TEST_DEV_DET, TEST_DEV_COMM, &TEST_DEV_ATT, 0);
        let crypto = test_only_crypto();
        device.open_basic_comm_window(MAX_COMM_WINDOW_TIMEOUT_SECS, &crypto, &()).unwrap();
        let ds = net.socket(0);
        let cs = net.socket(1);
        let sc = SecureChannel::new(&crypto, &());
        let responder = Responder::new("device", sc, &device, 0);
        let t0 = now_ms();
        let flow = async {
            let mut ex = Exchange::initiate_plaintext(&controller, &crypto, addr_of(0)).await?;
            ex.send_with(|_, wb| {
                wb.start_struct(&TLVTag::Anonymous)?;
                OctetStr::new(&[0x42u8; 32]).to_tlv(&TLVTag::Context(1), &mut *wb)?;
                1234u16.to_tlv(&TLVTag::Context(2), &mut *wb)?;
                0u16.to_tlv(&TLVTag::Context(3), &mut *wb)?;
                false.to_tlv(&TLVTag::Context(4), &mut *wb)?;
                wb.end_container()?;
                Ok(Some(MessageMeta::new(PROTO_ID_SECURE_CHANNEL, OpCode::PBKDFParamRequest as u8, true)))
            })
            .await?;
            let rx = match select(core::pin::pin!(ex.recv()), core::pin::pin!(Timer::after(Duration::from_secs(60)))).await {
                Either::First(r) => r?,
                Either::Second(_) => return Ok::<_, Error>(0xffu8),
            };
            let op = rx.meta().proto_opcode;
            drop(rx);
            ex.acknowledge().await?;
            Ok(op)
        };
        let all = async {
            match select3(
                device.run(&crypto, &ds, &ds, NoNetwork),
                select(responder.run::<4>(), controller.run(&crypto, &cs, &cs, NoNetwork)),
                flow,
            )
            .await
            {
                embassy_futures::select::Either3::Third(r) => r,
                _ => Err(rs_matter::error::ErrorCode::Invalid.into()),
            }
        };
        let res = match run_sim(&net, all, 120_000) {
            SimEnd::Done(Ok(op)) => format!("ok opcode=0x{:02x}", op),
            SimEnd::Done(Err(e)) => format!("err {:?}", e.code()),
            SimEnd::Timeout => "sim-timeout".to_string(),
        };
        out.push_str(&format!("smoke {} => {} datagrams={} virtual_ms={}\n", i, res, net.log_len(), now_ms() - t0));
    }
    out
}

pub fn replay(a: &Args) -> String {
    gen(a)
}
