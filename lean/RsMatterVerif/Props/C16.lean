/-! # C16 — property theorems (not built yet) -/
