//! System-level world for the transport properties (C20 stream `sys`, reused by the C15 wire tap):
//! a REAL device `Matter` (transport + `SecureChannel` responder handlers + the busy responder) and
//! real controller `Matter`s on the simulated network (`simnet`) under virtual time.
//!
//! One case = a static script; every line is one op, its result is known when the run is over:
//!
//!   `pin <k>`            k established CASE sessions *in use* (each carries a live exchange held by the
//!                        harness) are put into the device's table before traffic starts; 16-k slots stay
//!   `idl <k>`            k established CASE sessions without exchange (idle, evictable)
//!   `ini <kind> at=<ms> c=<ctl> [pw=good|bad] [stop=<k>] [garble=<k>:<mode>:<n>] [cancel=<ms>] [sec=<n>]`
//!                        one initiator: the real `PaseInitiator::perform` / `CaseInitiator::perform` on
//!                        controller `c` (1 or 2), started at virtual time `at`;
//!                        `stop=k`   after its k-th distinct payload message reached the wire once, every
//!                                   later datagram of this initiator is lost (it stopped after message k);
//!                        `garble=k:<f|t|r>:<n>` its k-th payload message is damaged in flight (bit flip n /
//!                                   truncated to n mod len / payload replaced by n pseudo-random bytes);
//!                        `cancel=ms` the initiator task is dropped `ms` after its start (its node then closes
//!                                   the exchange as its own transport sees fit);
//!                        `sec=n`    after success, n reliable messages on a new exchange of the new session
//!                                   (nobody accepts them on the device: unclaimed traffic)
//!   `junk at=<ms> c=<ctl> hex=<bytes>`   a raw datagram appears at the device
//!   `race <pase|case> at=<ms> c=<ctl>`   a real handshake whose acknowledgement of the final status report
//!                        and first secure message reach the device in the same instant (held back by the
//!                        network and released together, acknowledgement first)
//!   `rdv <resolve|browse> at=<ms> [cancel=<ms>]`   the device itself waits on its single-slot mDNS
//!                        rendezvous (operational resolve: 5 s time-out / commissionable browse: 3 s) and is
//!                        cancelled after `cancel` ms or times out; case flag `mdnsr=1` runs a responder
//!                        task that picks requests up (-> in flight) and never answers
//!   `quiesce <ms>`       all tasks run for <ms> of virtual time; then the REAL tables are read
//!   `probe <pase|case>`  a fresh legitimate initiator on the probe controller (node 3), up to 3 attempts 1 s
//!                        apart (a `Busy` answer asks for a retry)
//!
//! Case kind: `sys H=<handlers 1..4> hc=<ms,ms,..|-> busy=<0|1>`; `hc` = the i-th accepted exchange's
//! handler is dropped by the executor that many ms after it accepted (0 = never), cyclic.
use std::cell::{Cell, RefCell};
use std::collections::VecDeque;
use std::future::Future;
use std::pin::Pin;
use std::rc::Rc;
use std::task::{Context, Poll};

use embassy_futures::select::{select, Either};
use embassy_time::{Duration, MockDriver, Timer};

use rs_matter::crypto::{test_only_crypto, CanonAeadKeyRef, CanonPkcSecretKeyRef, Crypto};
use rs_matter::dm::devices::test::{TEST_DEV_ATT, TEST_DEV_COMM, TEST_DEV_DET};
use rs_matter::error::{Error, ErrorCode};
use rs_matter::respond::{ExchangeHandler, Responder};
use rs_matter::sc::case::CaseInitiator;
use rs_matter::sc::pase::PaseInitiator;
use rs_matter::sc::{OpCode, SecureChannel, PROTO_ID_SECURE_CHANNEL};
use rs_matter::transport::exchange::{Exchange, MessageMeta};
use rs_matter::transport::network::NoNetwork;
use rs_matter::transport::session::SessionMode;
use rs_matter::Matter;

use crate::c19::{gen_records, mint, GenP, Keys, IPK};
use crate::proto::Out;
use crate::simnet::{addr_of, now_ms, run_sim, Policy, SimNet, Verdict, WireLog};

pub const DEV_PW: u32 = 20202021;
const FAB: u64 = 7;
pub const DEV_NODE: u64 = 200;
/// datagram storm guard
const CAP: u64 = 4000;

// ------------------------------------------------------------------------------------------ wire

/// The cleartext part of a datagram.
#[derive(Clone, Debug, Default)]
pub struct Dg {
    pub sess: u16,
    pub ctr: u32,
    pub src: Option<u64>,
    pub dst: Option<u64>,
    /// the fields below only for unsecured datagrams (session id 0)
    pub xflags: u8,
    pub opcode: u8,
    pub exch: u16,
    pub proto: u16,
    pub ack: Option<u32>,
    pub payload_off: usize,
}

impl Dg {
    pub fn parse(b: &[u8]) -> Option<Dg> {
        if b.len() < 8 {
            return None;
        }
        let flags = b[0];
        let mut d = Dg { sess: u16::from_le_bytes([b[1], b[2]]), ctr: u32::from_le_bytes([b[4], b[5], b[6], b[7]]), ..Default::default() };
        let mut o = 8;
        if flags & 0x04 != 0 {
            d.src = Some(u64::from_le_bytes(b.get(o..o + 8)?.try_into().ok()?));
            o += 8;
        }
        match flags & 0x03 {
            1 => {
                d.dst = Some(u64::from_le_bytes(b.get(o..o + 8)?.try_into().ok()?));
                o += 8;
            }
            2 => o += 2,
            _ => {}
        }
        d.payload_off = o;
        if d.sess != 0 || (b[3] & 0x03) != 0 {
            return Some(d);
        }
        if b.len() < o + 6 {
            return None;
        }
        d.xflags = b[o];
        d.opcode = b[o + 1];
        d.exch = u16::from_le_bytes([b[o + 2], b[o + 3]]);
        d.proto = u16::from_le_bytes([b[o + 4], b[o + 5]]);
        let mut p = o + 6;
        if d.xflags & 0x10 != 0 {
            p += 2;
        }
        if d.xflags & 0x02 != 0 {
            d.ack = Some(u32::from_le_bytes(b.get(p..p + 4)?.try_into().ok()?));
            p += 4;
        }
        d.payload_off = p;
        Some(d)
    }
    pub fn is_plain(&self) -> bool {
        self.sess == 0
    }
    pub fn is_standalone_ack(&self) -> bool {
        self.is_plain() && self.proto == PROTO_ID_SECURE_CHANNEL && self.opcode == OpCode::MRPStandAloneAck as u8
    }
    /// secure-channel status report: the protocol code
    pub fn status(&self, b: &[u8]) -> Option<u16> {
        if self.is_plain() && self.proto == PROTO_ID_SECURE_CHANNEL && self.opcode == OpCode::StatusReport as u8 {
            let p = b.get(self.payload_off..)?;
            if p.len() >= 8 {
                return Some(u16::from_le_bytes([p[6], p[7]]));
            }
        }
        None
    }
}

/// What the network does to the datagrams of one initiator (identified by the ephemeral source
/// node id of its unsecured session).
#[derive(Clone, Debug, Default)]
struct Rule {
    node: u64,
    stop: Option<u32>,
    garble: Option<(u32, char, u64)>,
    /// after this many distinct payload messages every later datagram of the controller is held back
    hold_after: Option<u32>,
    /// distinct payload message counters seen so far
    seen: Vec<u32>,
    stopped: bool,
    garbled: bool,
}

#[derive(Default)]
struct NetCtl {
    rules: Vec<Rule>,
    /// hold datagrams from this controller node to the device (race op)
    hold_from: Option<usize>,
    held: Vec<Vec<u8>>,
    /// one-way latency of every delivered datagram (virtual ms)
    latency: u64,
}

struct Adversary(Rc<RefCell<NetCtl>>);

impl Policy for Adversary {
    fn decide(&mut self, from: usize, to: usize, bytes: &[u8], seq: u64) -> Verdict {
        if seq >= CAP {
            return Verdict::Drop;
        }
        let mut g = self.0.borrow_mut();
        if to == 0 && g.hold_from == Some(from) {
            g.held.push(bytes.to_vec());
            return Verdict::Drop;
        }
        let lat = g.latency;
        let pass = if lat == 0 { Verdict::Deliver } else { Verdict::Delay(lat) };
        if to != 0 {
            return pass;
        }
        let Some(d) = Dg::parse(bytes) else { return pass };
        let Some(src) = d.src else { return pass };
        let Some(r) = g.rules.iter_mut().find(|r| r.node == src) else { return pass };
        if r.stopped {
            return Verdict::Drop;
        }
        let mut hold = false;
        if d.is_plain() && !d.is_standalone_ack() && !r.seen.contains(&d.ctr) {
            r.seen.push(d.ctr);
            if let Some(k) = r.stop {
                if r.seen.len() as u32 > k {
                    r.stopped = true;
                    return Verdict::Drop;
                }
            }
            hold = r.hold_after == Some(r.seen.len() as u32);
        }
        if hold {
            g.hold_from = Some(from);
        }
        pass
    }
}

fn tamper(ctl: &Rc<RefCell<NetCtl>>, to: usize, bytes: &[u8]) -> Option<Vec<u8>> {
    if to != 0 {
        return None;
    }
    let d = Dg::parse(bytes)?;
    let src = d.src?;
    let mut g = ctl.borrow_mut();
    let r = g.rules.iter_mut().find(|r| r.node == src)?;
    let (k, mode, n) = r.garble?;
    if r.garbled || !d.is_plain() || d.is_standalone_ack() {
        return None;
    }
    // the k-th distinct payload message (this one is not yet in `seen`: tamper runs before the policy)
    let idx = if r.seen.contains(&d.ctr) { return None } else { r.seen.len() as u32 + 1 };
    if idx != k {
        return None;
    }
    r.garbled = true;
    let off = d.payload_off.min(bytes.len());
    let plen = bytes.len() - off;
    let mut out = bytes.to_vec();
    match mode {
        'f' if plen > 0 => {
            let bit = (n as usize) % (plen * 8);
            out[off + bit / 8] ^= 1 << (bit % 8);
        }
        't' if plen > 0 => out.truncate(off + (n as usize) % plen),
        _ => {
            out.truncate(off);
            let mut x = n.wrapping_mul(0x9E37_79B9_7F4A_7C15) | 1;
            for _ in 0..(n % 70) {
                x ^= x << 13;
                x ^= x >> 7;
                x ^= x << 17;
                out.push(x as u8);
            }
        }
    }
    Some(out)
}

// ------------------------------------------------------------------------------------------ executor

/// Run `fut` for `ms` of virtual time (or until it completes): poll until nothing is runnable, let
/// due datagrams arrive, advance the clock - in 5 ms steps while datagrams are in flight or were
/// seen during the last 300 ms, in 25 ms steps otherwise.
pub fn drive<T>(net: &SimNet, mut fut: Pin<&mut (impl Future<Output = T> + ?Sized)>, ms: u64) -> Option<T> {
    let start = now_ms();
    let mut last_len = net.log_len();
    let mut last_act = start;
    loop {
        if let crate::simnet::SimEnd::Done(v) = run_sim(net, fut.as_mut(), 0) {
            return Some(v);
        }
        let now = now_ms();
        if now - start >= ms {
            return None;
        }
        if net.log_len() != last_len {
            last_len = net.log_len();
            last_act = now;
        }
        let step = if net.in_flight() > 0 { 1 } else if now - last_act < 300 { 5 } else { 25 };
        MockDriver::get().advance(Duration::from_millis(step.min(ms - (now - start)).max(1)));
    }
}

/// Poll a set of boxed tasks; ready ones are removed. Never completes.
pub struct Tasks<'a>(pub Vec<Option<Pin<Box<dyn Future<Output = ()> + 'a>>>>);

impl Future for Tasks<'_> {
    type Output = ();
    fn poll(mut self: Pin<&mut Self>, cx: &mut Context<'_>) -> Poll<()> {
        for t in self.0.iter_mut() {
            if let Some(f) = t {
                if f.as_mut().poll(cx).is_ready() {
                    *t = None;
                }
            }
        }
        Poll::Pending
    }
}

// ------------------------------------------------------------------------------------------ device handler

/// The device's exchange handler: the real `SecureChannel`, dropped by the executor at a scripted
/// instant (cancellation at an await point).
struct Cancelling<'a, H> {
    inner: H,
    plan: &'a RefCell<VecDeque<u64>>,
    cancelled: &'a Cell<u32>,
    accepted: &'a Cell<u32>,
}

impl<H: ExchangeHandler> ExchangeHandler for Cancelling<'_, H> {
    async fn handle(&self, exchange: Exchange<'_>) -> Result<(), Error> {
        self.accepted.set(self.accepted.get() + 1);
        let t = {
            let mut p = self.plan.borrow_mut();
            match p.pop_front() {
                Some(t) => {
                    p.push_back(t);
                    t
                }
                None => 0,
            }
        };
        if t == 0 {
            self.inner.handle(exchange).await
        } else {
            let h = core::pin::pin!(self.inner.handle(exchange));
            let timer = core::pin::pin!(Timer::after(Duration::from_millis(t)));
            match select(h, timer).await {
                Either::First(r) => r,
                Either::Second(_) => {
                    self.cancelled.set(self.cancelled.get() + 1);
                    Err(ErrorCode::Invalid.into())
                }
            }
        }
    }
}

// ------------------------------------------------------------------------------------------ helpers

pub fn kvs(op: &str) -> std::collections::HashMap<String, String> {
    let mut m = std::collections::HashMap::new();
    for w in op.split_whitespace() {
        if let Some((k, v)) = w.split_once('=') {
            m.insert(k.to_string(), v.to_string());
        }
    }
    m
}

pub fn num(m: &std::collections::HashMap<String, String>, k: &str) -> Option<u64> {
    m.get(k).and_then(|v| v.parse().ok())
}

pub fn install_fabric<C: Crypto>(crypto: &C, keys: &Keys, m: &Matter, node: u64) -> Option<core::num::NonZeroU8> {
    let p = GenP { fab: FAB, node, cats: vec![], rca: 3, ica: None, nb: 1, na: 0, kr: 0, ki: 1, kn: if node == DEV_NODE { 4 } else { 2 } };
    let (root, _icac, noc) = gen_records(&p);
    let rb = mint(crypto, keys, &root).ok()?;
    let nb = mint(crypto, keys, &noc).ok()?;
    let sk = keys.key(noc.pk).sk;
    m.with_state(|st| st.fabrics.add(crypto, CanonPkcSecretKeyRef::new(&sk), &rb, &nb, &[], Some(CanonAeadKeyRef::new(&IPK)), 0xFFF1, 112233).map(|f| f.fab_idx()).ok())
}

pub fn err_code(e: &Error) -> String {
    format!("{:?}", e.code())
}

/// the ephemeral node id of the unsecured session an exchange runs on
fn local_node_of(m: &Matter, ex: &Exchange<'_>) -> u64 {
    let (sid, _) = ex.verif_ids();
    m.with_state(|st| st.verif_sessions().iter().find(|s| s.id() == sid).map(|s| s.verif_view().1).unwrap_or(0))
}

/// Canonical description of the device's tables.
#[derive(Default, Debug, Clone)]
pub struct TableView {
    pub sessions: usize,
    pub reserved: usize,
    pub plain: usize,
    pub pase: usize,
    pub case: usize,
    /// pinned sessions still present
    pub pinned_alive: usize,
    /// exchange slots in use on sessions that are not pinned: (owned, dropped, accept-pending)
    pub exch_owned: usize,
    pub exch_dropped: usize,
    pub exch_pending: usize,
    /// slots of pinned sessions other than the one exchange the harness holds
    pub pinned_extra: usize,
}

pub fn view(dev: &Matter, pinned: &[u32]) -> TableView {
    dev.with_state(|st| {
        let mut v = TableView::default();
        for s in st.verif_sessions().iter() {
            v.sessions += 1;
            let (_, reserved) = s.verif_flags();
            if reserved {
                v.reserved += 1;
            }
            match s.get_session_mode() {
                SessionMode::PlainText => v.plain += 1,
                SessionMode::Pase { .. } => v.pase += 1,
                SessionMode::Case { .. } => v.case += 1,
                _ => {}
            }
            let is_pinned = pinned.contains(&s.id());
            if is_pinned {
                v.pinned_alive += 1;
            }
            let mut n = 0;
            for e in s.verif_exchanges().iter().flatten() {
                n += 1;
                if !is_pinned {
                    match e.1 {
                        "RP" => v.exch_pending += 1,
                        "ID" | "RD" => v.exch_dropped += 1,
                        _ => v.exch_owned += 1,
                    }
                }
            }
            if is_pinned && n > 1 {
                v.pinned_extra += n - 1;
            }
        }
        v
    })
}

fn new_sessions(dev: &Matter, before: &[u32], want_case: bool) -> usize {
    dev.with_state(|st| {
        st.verif_sessions()
            .iter()
            .filter(|s| !before.contains(&s.id()) && !s.verif_flags().1)
            .filter(|s| match s.get_session_mode() {
                SessionMode::Case { .. } => want_case,
                SessionMode::Pase { .. } => !want_case,
                _ => false,
            })
            .count()
    })
}

pub fn session_ids(m: &Matter) -> Vec<u32> {
    m.with_state(|st| st.verif_sessions().iter().map(|s| s.id()).collect())
}

// ------------------------------------------------------------------------------------------ the run

pub struct SysResult {
    /// one result per op line
    pub results: Vec<String>,
    pub wire: Vec<WireLog>,
}

/// kinds of handshake an initiator performs
pub async fn perform<'a, C: Crypto>(kind: &str, _ctl: &'a Matter<'a>, crypto: &'a C, fab: Option<core::num::NonZeroU8>, pw: u32, ex: Exchange<'a>) -> Result<(), Error> {
    if kind == "case" {
        CaseInitiator::perform(ex, crypto, fab.ok_or(ErrorCode::NotFound)?, DEV_NODE).await
    } else {
        PaseInitiator::perform(ex, crypto, pw).await
    }
}

/// after a successful handshake: the session it created on the initiator's side
pub fn newest_secure_session(ctl: &Matter, before: &[u32]) -> Option<u32> {
    ctl.with_state(|st| {
        st.verif_sessions()
            .iter()
            .filter(|s| !before.contains(&s.id()) && !matches!(s.get_session_mode(), SessionMode::PlainText))
            .map(|s| s.id())
            .last()
    })
}

pub fn run_case(kind: &str, ops: &[String]) -> SysResult {
    MockDriver::get().reset();
    MockDriver::get().advance(Duration::from_millis(1000));
    let km = kvs(kind);
    let n_handlers = num(&km, "H").unwrap_or(2).clamp(1, 4) as usize;
    let busy_on = num(&km, "busy").unwrap_or(1) != 0;
    let plan: RefCell<VecDeque<u64>> = RefCell::new(km.get("hc").map(|s| s.split(',').filter_map(|t| t.parse().ok()).collect()).unwrap_or_default());
    let cancelled = Cell::new(0u32);
    let accepted = Cell::new(0u32);

    let ctlnet = Rc::new(RefCell::new(NetCtl { latency: num(&km, "lat").unwrap_or(0).min(200), ..Default::default() }));
    let net = SimNet::new(4, Box::new(Adversary(ctlnet.clone())));
    {
        let c = ctlnet.clone();
        net.set_tamper(Box::new(move |_seq, _from, to, data| tamper(&c, to, data)));
    }
    let crypto = test_only_crypto();
    let keys = Keys::new(&crypto);
    let dev = Box::new(Matter::new(&TEST_DEV_DET, TEST_DEV_COMM, &TEST_DEV_ATT, 0));
    let ctls: Vec<Box<Matter>> = (0..3).map(|_| Box::new(Matter::new(&TEST_DEV_DET, TEST_DEV_COMM, &TEST_DEV_ATT, 0))).collect();
    let dev_fab = install_fabric(&crypto, &keys, &dev, DEV_NODE);
    let fabs: Vec<Option<core::num::NonZeroU8>> = ctls.iter().enumerate().map(|(i, c)| install_fabric(&crypto, &keys, c, 100 + i as u64)).collect();
    let _ = dev.open_basic_comm_window(900, &crypto, &());

    let results: Vec<RefCell<String>> = ops.iter().map(|_| RefCell::new(String::from("-"))).collect();
    // ephemeral node id of the unsecured session of each `ini` / `race` op (0 = none)
    let nodes: Vec<Cell<u64>> = ops.iter().map(|_| Cell::new(0)).collect();
    let socks: Vec<_> = (0..4).map(|i| net.socket(i)).collect();

    // ---- static table content: pinned (in use) and idle established sessions
    let mut pinned_ids: Vec<u32> = Vec::new();
    let mut pinned_handles: Vec<Exchange> = Vec::new();
    let mut port = 0u16;
    for (i, op) in ops.iter().enumerate() {
        let w: Vec<&str> = op.split_whitespace().collect();
        if w.first() == Some(&"pin") || w.first() == Some(&"idl") {
            let k: usize = w.get(1).and_then(|t| t.parse().ok()).unwrap_or(0).min(20);
            let mut made = 0;
            for _ in 0..k {
                port += 1;
                let id = dev.with_state(|st| {
                    let ss = st.verif_sessions_mut();
                    let lsid = ss.get_next_sess_id();
                    // a peer outside the simulated network: datagrams to it vanish
                    let peer = rs_matter::transport::network::Address::Udp(std::net::SocketAddr::V6(std::net::SocketAddrV6::new(
                        std::net::Ipv6Addr::new(0xfd00, 0, 0, 0, 0, 0, 0, 9),
                        6000 + port,
                        0,
                        0,
                    )));
                    match ss.add(0x1000 + port as u32, false, peer, Some(5000 + port as u64), &TEST_DEV_DET) {
                        Ok(s) => {
                            s.verif_set_session_mode(SessionMode::Case { fab_idx: core::num::NonZeroU8::new(1).unwrap(), cat_ids: Default::default() });
                            s.verif_set_local_sess_id(lsid);
                            Some(s.id())
                        }
                        Err(_) => None,
                    }
                });
                if let Some(id) = id {
                    made += 1;
                    if w[0] == "pin" {
                        if let Ok(ex) = Exchange::initiate_for_session(&dev, &crypto, id) {
                            pinned_ids.push(id);
                            pinned_handles.push(ex);
                        }
                    }
                }
            }
            *results[i].borrow_mut() = format!("ok {}", made);
        }
    }

    // ---- tasks
    let sc = SecureChannel::new(&crypto, &());
    let handler = Cancelling { inner: sc, plan: &plan, cancelled: &cancelled, accepted: &accepted };
    let responder = Responder::new("device", handler, &dev, 0);
    let busy = Responder::new_busy(&dev, 500);
    let mut tasks: Vec<Option<Pin<Box<dyn Future<Output = ()> + '_>>>> = Vec::new();
    tasks.push(Some(Box::pin(async {
        let _ = dev.run(&crypto, &socks[0], &socks[0], NoNetwork).await;
    })));
    {
        let responder = &responder;
        tasks.push(Some(Box::pin(async move {
            let _ = match n_handlers {
                1 => responder.run::<1>().await,
                2 => responder.run::<2>().await,
                3 => responder.run::<3>().await,
                _ => responder.run::<4>().await,
            };
        })));
    }
    if busy_on {
        let busy = &busy;
        tasks.push(Some(Box::pin(async move {
            let _ = busy.run::<2>().await;
        })));
    }
    for (i, c) in ctls.iter().enumerate() {
        let s = &socks[i + 1];
        let crypto = &crypto;
        tasks.push(Some(Box::pin(async move {
            let _ = c.run(crypto, s, s, NoNetwork).await;
        })));
    }
    if num(&km, "mdnsr").unwrap_or(0) != 0 {
        let dev: &Matter = &dev;
        tasks.push(Some(Box::pin(async move {
            loop {
                let a = core::pin::pin!(dev.transport().wait_mdns_resolve_request());
                let b = core::pin::pin!(dev.transport().wait_mdns_browse_request());
                let _ = select(a, b).await;
            }
        })));
    }
    let t0 = now_ms();
    for (i, op) in ops.iter().enumerate() {
        let w: Vec<&str> = op.split_whitespace().collect();
        let m = kvs(op);
        match w.first().copied().unwrap_or("") {
            "ini" | "race" => {
                let kind = w.get(1).copied().unwrap_or("pase").to_string();
                let c = (num(&m, "c").unwrap_or(1).clamp(1, 2) - 1) as usize;
                let at = num(&m, "at").unwrap_or(0);
                let pw = if m.get("pw").map(|s| s.as_str()) == Some("bad") { DEV_PW - 1 } else { DEV_PW };
                let stop = num(&m, "stop").map(|v| v as u32);
                let garble = m.get("garble").and_then(|g| {
                    let p: Vec<&str> = g.split(':').collect();
                    Some((p.first()?.parse::<u32>().ok()?, p.get(1)?.chars().next()?, p.get(2).and_then(|x| x.parse().ok()).unwrap_or(0u64)))
                });
                let cancel = num(&m, "cancel");
                let sec = num(&m, "sec").unwrap_or(0);
                let race = w[0] == "race";
                let ctl: &Matter = &ctls[c];
                let fab = fabs[c];
                let res = &results[i];
                let node_cell = &nodes[i];
                let ctlnet = ctlnet.clone();
                let crypto = &crypto;
                let net = &net;
                let body = async move {
                    Timer::at(embassy_time::Instant::from_millis(t0 + at)).await;
                    let before = session_ids(ctl);
                    let ex = match Exchange::initiate_plaintext(ctl, crypto, addr_of(0)).await {
                        Ok(ex) => ex,
                        Err(e) => {
                            *res.borrow_mut() = format!("err:init:{}", err_code(&e));
                            return;
                        }
                    };
                    let node = local_node_of(ctl, &ex);
                    node_cell.set(node);
                    let n_msgs: u32 = if kind == "case" { 2 } else { 3 };
                    ctlnet.borrow_mut().rules.push(Rule { node, stop, garble, hold_after: if race { Some(n_msgs) } else { None }, ..Default::default() });
                    *res.borrow_mut() = "pending".into();
                    if race {
                        // from now on the controller's datagrams are held back once the device has sent its
                        // final status report: approximated by holding everything after the last handshake
                        // message - the initiator's final acknowledgement is the first datagram held
                        let r = perform(&kind, ctl, crypto, fab, pw, ex).await;
                        if let Err(e) = r {
                            ctlnet.borrow_mut().hold_from = None;
                            *res.borrow_mut() = format!("err:{}", err_code(&e));
                            return;
                        }
                        // the first secure message: written while the acknowledgement is still held
                        let Some(sid) = newest_secure_session(ctl, &before) else {
                            ctlnet.borrow_mut().hold_from = None;
                            *res.borrow_mut() = "err:nosession".into();
                            return;
                        };
                        let Ok(mut ex2) = Exchange::initiate_for_session(ctl, crypto, sid) else {
                            ctlnet.borrow_mut().hold_from = None;
                            *res.borrow_mut() = "err:noexchange".into();
                            return;
                        };
                        let log0 = net.log_len();
                        let send = ex2.send_with(|_, wb| {
                            wb.append(&[0x15, 0x18])?;
                            Ok(Some(MessageMeta::new(0x0001, 0x02, true)))
                        });
                        let release = async {
                            // wait until the secure message is on the (held) wire, then release both at once
                            loop {
                                if ctlnet.borrow().held.len() >= 2 {
                                    break;
                                }
                                Timer::after(Duration::from_millis(1)).await;
                            }
                            let held: Vec<Vec<u8>> = {
                                let mut g = ctlnet.borrow_mut();
                                g.hold_from = None;
                                g.held.drain(..).collect()
                            };
                            for h in &held {
                                net.inject(c + 1, 0, h);
                            }
                            held.len()
                        };
                        let (sr, n_held) = embassy_futures::join::join(send, release).await;
                        // what the device answered to the first secure message
                        let snf = net.log()[log0..]
                            .iter()
                            .filter(|l| l.from == 0 && Dg::parse(&l.bytes).and_then(|d| d.status(&l.bytes)) == Some(5))
                            .count();
                        let fin = if sr.is_ok() { "acked" } else { "failed" };
                        *res.borrow_mut() = format!("ok held={} snf={} first={}", n_held, snf, fin);
                        return;
                    }
                    let r = perform(&kind, ctl, crypto, fab, pw, ex).await;
                    match r {
                        Ok(()) => {
                            let mut out = String::from("ok");
                            if sec > 0 {
                                if let Some(sid) = newest_secure_session(ctl, &before) {
                                    if let Ok(mut ex2) = Exchange::initiate_for_session(ctl, crypto, sid) {
                                        let mut okn = 0;
                                        for k in 0..sec {
                                            let r = ex2
                                                .send_with(|_, wb| {
                                                    wb.append(&[0x15, 0x24, 0x00, k as u8, 0x18])?;
                                                    Ok(Some(MessageMeta::new(0x0001, 0x02, true)))
                                                })
                                                .await;
                                            if r.is_ok() {
                                                okn += 1;
                                            } else {
                                                break;
                                            }
                                        }
                                        out = format!("ok sec={}", okn);
                                    }
                                }
                            }
                            *res.borrow_mut() = out;
                        }
                        Err(e) => *res.borrow_mut() = format!("err:{}", err_code(&e)),
                    }
                };
                let res2 = &results[i];
                tasks.push(Some(Box::pin(async move {
                    match cancel {
                        Some(ms) => {
                            let b = core::pin::pin!(body);
                            let t = core::pin::pin!(Timer::at(embassy_time::Instant::from_millis(t0 + at + ms)));
                            if let Either::Second(_) = select(b, t).await {
                                *res2.borrow_mut() = "cancelled".into();
                            }
                        }
                        None => body.await,
                    }
                })));
            }
            "rdv" => {
                let at = num(&m, "at").unwrap_or(0);
                let cancel = num(&m, "cancel");
                let browse = w.get(1).copied() == Some("browse");
                let dev: &Matter = &dev;
                let res = &results[i];
                let dev_fab = dev_fab;
                tasks.push(Some(Box::pin(async move {
                    Timer::at(embassy_time::Instant::from_millis(t0 + at)).await;
                    *res.borrow_mut() = "pending".into();
                    let body = async {
                        if browse {
                            let filter = rs_matter::transport::network::mdns::CommissionableFilter { discriminator: Some(0xA5A), ..Default::default() };
                            dev.transport().browse_commissionable(&filter, &[], 3_000).await.map(|_| ())
                        } else {
                            match dev_fab {
                                Some(f) => Exchange::resolve_operational_addrs(dev, f, 0x7777).await.map(|_| ()),
                                None => Err(ErrorCode::NotFound.into()),
                            }
                        }
                    };
                    let r = match cancel {
                        Some(ms) => {
                            let b = core::pin::pin!(body);
                            let t = core::pin::pin!(Timer::after(Duration::from_millis(ms)));
                            match select(b, t).await {
                                Either::First(r) => Some(r),
                                Either::Second(_) => None,
                            }
                        }
                        None => Some(body.await),
                    };
                    *res.borrow_mut() = match r {
                        None => "cancelled".into(),
                        Some(Ok(())) => "ok".into(),
                        Some(Err(e)) => format!("err:{}", err_code(&e)),
                    };
                })));
            }
            "junk" => {
                let at = num(&m, "at").unwrap_or(0);
                let c = num(&m, "c").unwrap_or(1).clamp(1, 2) as usize;
                let bytes = crate::proto::unhex(m.get("hex").map(|s| s.as_str()).unwrap_or(""));
                let net = &net;
                let res = &results[i];
                tasks.push(Some(Box::pin(async move {
                    Timer::at(embassy_time::Instant::from_millis(t0 + at)).await;
                    net.inject(c, 0, &bytes);
                    *res.borrow_mut() = "ok".into();
                })));
            }
            _ => {}
        }
    }

    let all = Tasks(tasks);
    let mut all = core::pin::pin!(all);
    // ---- sequential part of the script: quiesce / probe
    for (i, op) in ops.iter().enumerate() {
        let w: Vec<&str> = op.split_whitespace().collect();
        match w.first().copied().unwrap_or("") {
            "quiesce" => {
                let ms: u64 = w.get(1).and_then(|t| t.parse().ok()).unwrap_or(130_000).min(400_000);
                let _ = drive(&net, all.as_mut(), ms);
                let v = view(&dev, &pinned_ids);
                let (_w, _f, marker) = dev.with_state(|st| st.verif_pase().verif_state());
                let marker_live = dev.with_state(|st| st.verif_pase().verif_session_timeout_live());
                let (rx_free, tx_free) = dev.transport().verif_slots_free();
                let (rx_busy, tx_busy) = (!rx_free, !tx_free);
                let (rdv_r, rdv_b) = dev.transport().verif_mdns_rendezvous_idle();
                let cv: Vec<String> = ctls.iter().take(2).map(|c| {
                    let v = view(c, &[]);
                    format!("{}:{}", v.reserved, v.exch_owned + v.exch_dropped + v.exch_pending)
                }).collect();
                *results[i].borrow_mut() = format!(
                    "sess={} resv={} plain={} pase={} case={} pinned={}/{} xo={} xd={} xp={} px={} marker={}{} rx={} tx={} rdv={}{} c1={} c2={} acc={} hcanc={} wire={}",
                    v.sessions,
                    v.reserved,
                    v.plain,
                    v.pase,
                    v.case,
                    v.pinned_alive,
                    pinned_ids.len(),
                    v.exch_owned,
                    v.exch_dropped,
                    v.exch_pending,
                    v.pinned_extra,
                    marker as u8,
                    if marker_live { "L" } else { "" },
                    rx_busy as u8,
                    tx_busy as u8,
                    if rdv_r { "i" } else { "B" },
                    if rdv_b { "i" } else { "B" },
                    cv[0],
                    cv[1],
                    accepted.get(),
                    cancelled.get(),
                    net.log_len()
                );
            }
            "probe" => {
                // the executor leaves the handlers of the probe handshakes alone
                plan.borrow_mut().clear();
                let kind = w.get(1).copied().unwrap_or("pase").to_string();
                let ctl: &Matter = &ctls[2];
                let fab = fabs[2];
                let before = session_ids(&dev);
                let log0 = net.log_len();
                let outcome: RefCell<String> = RefCell::new("hang".into());
                // per attempt: ok | busy | status:<code> | silent:<error>
                let attempts: RefCell<Vec<String>> = RefCell::new(Vec::new());
                {
                    let net = &net;
                    let probe = async {
                        for attempt in 1..=3 {
                            let l0 = net.log_len();
                            let mut node = 0u64;
                            let r = async {
                                let ex = Exchange::initiate_plaintext(ctl, &crypto, addr_of(0)).await?;
                                node = local_node_of(ctl, &ex);
                                perform(&kind, ctl, &crypto, fab, DEV_PW, ex).await
                            }
                            .await;
                            match r {
                                Ok(()) => {
                                    attempts.borrow_mut().push("ok".into());
                                    *outcome.borrow_mut() = format!("ok@{}", attempt);
                                    return;
                                }
                                Err(e) => {
                                    if std::env::var("VH_DBG").is_ok() {
                                        dev.with_state(|st| {
                                            for s in st.verif_sessions().iter() {
                                                let mut t = String::new();
                                                let _ = s.verif_snapshot(&mut t);
                                                eprintln!("  [t={} attempt {}] s{} {}", now_ms(), attempt, s.id(), &t[..t.find(" dec=").unwrap_or(t.len())]);
                                            }
                                        });
                                    }
                                    let st: Vec<u16> = net.log()[l0..]
                                        .iter()
                                        .filter(|l| l.from == 0)
                                        .filter_map(|l| Dg::parse(&l.bytes).filter(|d| d.dst == Some(node)).and_then(|d| d.status(&l.bytes)))
                                        .collect();
                                    attempts.borrow_mut().push(if st.contains(&4) {
                                        "busy".into()
                                    } else if let Some(c) = st.first() {
                                        format!("status:{}", c)
                                    } else {
                                        format!("silent:{}", err_code(&e))
                                    });
                                }
                            }
                            Timer::after(Duration::from_millis(1000)).await;
                        }
                        *outcome.borrow_mut() = "refused".into();
                    };
                    let mut probe = core::pin::pin!(probe);
                    let both = core::pin::pin!(select(all.as_mut(), probe.as_mut()));
                    let _ = drive(net, both, 200_000);
                }
                // the device's handler still waits for the acknowledgement of its last message
                let _ = drive(&net, all.as_mut(), 3_000);
                let made = new_sessions(&dev, &before, kind == "case");
                let v = view(&dev, &pinned_ids);
                let (win, _f, _m) = dev.with_state(|st| st.verif_pase().verif_state());
                let _ = log0;
                *results[i].borrow_mut() = format!(
                    "{} att={} new={} win={} pinned={}/{} sess={}",
                    outcome.borrow(),
                    attempts.borrow().join(","),
                    made,
                    win as u8,
                    v.pinned_alive,
                    pinned_ids.len(),
                    v.sessions
                );
            }
            _ => {}
        }
    }
    drop(all);
    let wire = net.log();
    for (i, op) in ops.iter().enumerate() {
        if op.starts_with("ini ") && nodes[i].get() != 0 {
            let node = nodes[i].get();
            let st: Vec<u16> = wire.iter().filter(|l| l.from == 0).filter_map(|l| Dg::parse(&l.bytes).filter(|d| d.dst == Some(node)).and_then(|d| d.status(&l.bytes))).collect();
            let mut r = results[i].borrow_mut();
            let other: Vec<String> = st.iter().filter(|c| **c != 4 && **c != 0).map(|c| c.to_string()).collect();
            r.push_str(&format!(" busy={} st={}", st.iter().filter(|c| **c == 4).count(), if other.is_empty() { "-".to_string() } else { other.join(".") }));
        }
    }
    drop(pinned_handles);
    SysResult { results: results.iter().map(|r| r.borrow().clone()).collect(), wire }
}

pub fn run_sys(out: &mut Out, kind: &str, ops: &[String]) -> SysResult {
    let r = match std::panic::catch_unwind(std::panic::AssertUnwindSafe(|| run_case(kind, ops))) {
        Ok(r) => r,
        Err(_) => SysResult { results: ops.iter().map(|_| "panic".to_string()).collect(), wire: vec![] },
    };
    for (op, res) in ops.iter().zip(r.results.iter()) {
        let head = op.split_whitespace().next().unwrap_or("?");
        out.stat(&format!("sys_op_{}", head), 1);
        if head == "ini" || head == "probe" || head == "race" {
            let k = res.split_whitespace().next().unwrap_or("?");
            let k = k.split('@').next().unwrap_or(k);
            out.stat(&format!("sys_{}_{}", head, k.replace(':', "_")), 1);
        }
        out.op(op, res);
    }
    out.stat("sys_datagrams", r.wire.len() as u64);
    if std::env::var("VH_WIRE").is_ok() {
        for (i, l) in r.wire.iter().enumerate() {
            let d = Dg::parse(&l.bytes).unwrap_or_default();
            eprintln!(
                "  #{} t={} {}->{} {:?} sess={} ctr={} op={:02x} x={:04x} ack={:?} st={:?} len={}",
                i, l.t_ms, l.from, l.to, l.verdict, d.sess, d.ctr, d.opcode, d.exch, d.ack, d.status(&l.bytes), l.bytes.len()
            );
        }
    }
    r
}
