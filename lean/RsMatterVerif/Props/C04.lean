import RsMatterVerif.Lemmas.Dedup
import RsMatterVerif.Lemmas.DedupGroup
/-!
# C04 — a message counter is accepted at most once per secure peer; newer ones always

Property theorems over `Model/Dedup.lean`.  The unicast part is a refinement to the
set-based specification `Dedup.specAccept`; the four clauses of the property are proved on the
specification and, composed with the refinement, on the model's run (`run_*`).
-/
namespace C04
open Dedup

/-- run a secure unicast session (encrypted, no roll-over) over a history of received counters;
returns the final state, the list of accepted counters (newest first) and the verdict per message. -/
def runU : RxState → List Nat → List Nat → RxState × List Nat × List Bool
  | s, acc, [] => (s, acc, [])
  | s, acc, c :: cs =>
    let r := postRecvPlain s c true
    let out := runU r.1 (if r.2 then c :: acc else acc) cs
    (out.1, out.2.1, r.2 :: out.2.2)

/-- the same history run through the set-based specification only -/
def specRun : List Nat → List Nat → List Bool
  | _, [] => []
  | acc, c :: cs =>
    let ok := specAccept acc c
    ok :: specRun (if ok then c :: acc else acc) cs

theorem inv_init : Inv RxState.unsynced [] := by
  refine ⟨fun _ => rfl, ?_, ?_, ?_⟩
  · intro h; simp [RxState.unsynced] at h
  · intro a h; simp at h
  · intro h; simp [RxState.unsynced] at h

/-- **Refinement**: on every history, from every state satisfying the invariant, the model's
verdicts are exactly those of the set-based specification. -/
theorem run_refines (cs : List Nat) : ∀ (s : RxState) (acc : List Nat), Inv s acc →
    (runU s acc cs).2.2 = specRun acc cs := by
  induction cs with
  | nil => intro s acc _; rfl
  | cons c cs ih =>
    intro s acc h
    have hs := step_refines s acc c h
    simp only [runU, specRun]
    rw [hs.1]
    congr 1
    have := ih _ _ hs.2
    rw [hs.1] at this
    exact this

/-- Every history of a fresh secure unicast session behaves like the specification. -/
theorem unicast_is_spec (cs : List Nat) :
    (runU RxState.unsynced [] cs).2.2 = specRun [] cs :=
  run_refines cs _ _ inv_init

/-! ## The clauses of the property, as statements about the specification run
(which by `unicast_is_spec` is the model's behaviour on every history). -/

/-- accepted counters only ever grow along a run -/
theorem spec_acc_mono (pre : List Nat) (c : Nat) (acc : List Nat) :
    specAccept (pre ++ c :: acc) c = false := by
  simp [specAccept]

/-- Clause 1: a value that has been accepted is never accepted again, whatever happens in between. -/
theorem no_double_accept (acc : List Nat) (c : Nat) (hc : c ∈ acc) : specAccept acc c = false := by
  simp [specAccept, hc]

/-- Clause 2: a value older than the window below an accepted value is never accepted. -/
theorem older_than_window_rejected (acc : List Nat) (c a : Nat) (ha : a ∈ acc) (h : c + 16 < a) :
    specAccept acc c = false := by
  simp only [specAccept, Bool.and_eq_false_imp, Bool.not_eq_true', List.all_eq_false,
    decide_eq_true_eq]
  intro _; exact ⟨a, ha, by rw [L_eq]; omega⟩

/-- Clause 3: a value greater than every value accepted so far is always accepted
(including the very first message, `acc = []`). -/
theorem newer_always_accepted (acc : List Nat) (c : Nat) (h : ∀ a ∈ acc, a < c) :
    specAccept acc c = true := by
  simp only [specAccept, Bool.and_eq_true, Bool.not_eq_true', List.all_eq_true, decide_eq_true_eq]
  refine ⟨?_, fun a ha => by have := h a ha; omega⟩
  cases hcon : acc.contains c with
  | false => rfl
  | true => have := h c (by simpa using hcon); omega

/-- Clause 4: a value inside the window that has not been accepted yet is accepted
(exactly once, by clause 1) — whatever the size of the jump that overtook it. -/
theorem in_window_once (acc : List Nat) (c : Nat) (hn : c ∉ acc) (h : ∀ a ∈ acc, a ≤ c + 16) :
    specAccept acc c = true := by
  simp only [specAccept, Bool.and_eq_true, Bool.not_eq_true', List.all_eq_true, decide_eq_true_eq]
  refine ⟨by simpa using hn, fun a ha => by have := h a ha; rw [L_eq]; omega⟩

/-- The accepted list of a run is what the verdicts say. -/
theorem runU_acc (cs : List Nat) : ∀ s acc, Inv s acc →
    Inv (runU s acc cs).1 (runU s acc cs).2.1 := by
  induction cs with
  | nil => intro s acc h; exact h
  | cons c cs ih =>
    intro s acc h
    simp only [runU]
    exact ih _ _ (step_refines s acc c h).2

/-! ## The clauses on the MODEL's run (not on the specification): for every history `pre` of a
fresh secure unicast session and every next value `c`.  `accepted pre` is threaded by the model's
own verdicts (`runU` conses `c` exactly when `postRecvPlain` answered `true`; `accepted_eq` says so
explicitly), `verdictAfter pre c` is the model's answer to `c` after `pre`. -/

/-- the values the model accepted along `pre`, newest first -/
def accepted (pre : List Nat) : List Nat := (runU RxState.unsynced [] pre).2.1
/-- the model's verdict on `c` after the history `pre` -/
def verdictAfter (pre : List Nat) (c : Nat) : Bool :=
  (postRecvPlain (runU RxState.unsynced [] pre).1 c true).2

theorem runU_acc_eq (cs : List Nat) : ∀ s acc,
    (runU s acc cs).2.1 =
      (((cs.zip (runU s acc cs).2.2).filter (fun x => x.2)).map (fun x => x.1)).reverse ++ acc := by
  induction cs with
  | nil => intro s acc; simp [runU]
  | cons c cs ih =>
    intro s acc
    simp only [runU, List.zip_cons_cons]
    rw [ih]
    cases hr : (postRecvPlain s c true).2 with
    | false => simp
    | true => simp

/-- `accepted pre` is exactly the sub-history of values the model answered `true` to. -/
theorem accepted_eq (pre : List Nat) :
    accepted pre = (((pre.zip (runU RxState.unsynced [] pre).2.2).filter (fun x => x.2)).map
      (fun x => x.1)).reverse := by
  simpa [accepted] using runU_acc_eq pre RxState.unsynced []

/-- the verdict of a run on `pre ++ [c]` is the verdicts on `pre` followed by `verdictAfter pre c` -/
theorem runU_snoc (cs : List Nat) (c : Nat) : ∀ s acc,
    (runU s acc (cs ++ [c])).2.2 =
      (runU s acc cs).2.2 ++ [(postRecvPlain (runU s acc cs).1 c true).2] := by
  induction cs with
  | nil => intro s acc; simp [runU]
  | cons d cs ih => intro s acc; simp only [List.cons_append, runU, ih]

theorem verdictAfter_is_spec (pre : List Nat) (c : Nat) :
    verdictAfter pre c = specAccept (accepted pre) c :=
  (step_refines _ _ c (runU_acc pre _ _ inv_init)).1

/-- **Clause 1 on the run**: whatever the history, a value the model has accepted is rejected. -/
theorem run_no_double_accept (pre : List Nat) (c : Nat) (hc : c ∈ accepted pre) :
    verdictAfter pre c = false := by
  rw [verdictAfter_is_spec]; exact no_double_accept _ _ hc

/-- **Clause 2 on the run**: older than the window below an accepted value is rejected. -/
theorem run_older_than_window_rejected (pre : List Nat) (c a : Nat) (ha : a ∈ accepted pre)
    (h : c + 16 < a) : verdictAfter pre c = false := by
  rw [verdictAfter_is_spec]; exact older_than_window_rejected _ _ a ha h

/-- **Clause 3 on the run**: greater than everything accepted so far is accepted. -/
theorem run_newer_always_accepted (pre : List Nat) (c : Nat) (h : ∀ a ∈ accepted pre, a < c) :
    verdictAfter pre c = true := by
  rw [verdictAfter_is_spec]; exact newer_always_accepted _ _ h

/-- **Clause 4 on the run**: inside the window and not accepted yet is accepted, whatever the jump
that overtook it. -/
theorem run_in_window_once (pre : List Nat) (c : Nat) (hn : c ∉ accepted pre)
    (h : ∀ a ∈ accepted pre, a ≤ c + 16) : verdictAfter pre c = true := by
  rw [verdictAfter_is_spec]; exact in_window_once _ _ hn h

theorem runU_nodup (cs : List Nat) : ∀ s acc, Inv s acc → acc.Nodup → (runU s acc cs).2.1.Nodup := by
  induction cs with
  | nil => intro s acc _ h; exact h
  | cons c cs ih =>
    intro s acc hi hn
    simp only [runU]
    have hs := step_refines s acc c hi
    refine ih _ _ hs.2 ?_
    cases hr : (postRecvPlain s c true).2 with
    | false => simpa using hn
    | true =>
      simp only [↓reduceIte, List.nodup_cons]
      refine ⟨fun hin => ?_, hn⟩
      have := no_double_accept acc c hin
      rw [← hs.1, hr] at this; exact absurd this (by simp)

/-- **No value is ever accepted twice, every history**: the accepted values of any run of a fresh
secure unicast session are pairwise distinct. -/
theorem run_accepted_nodup (cs : List Nat) : (accepted cs).Nodup :=
  runU_nodup cs _ _ inv_init (by simp)

/-- Non-vacuity of the run-level clauses: after `100, 120` the value 119 is an in-window
first-timer, 120 an accepted one, 103 older than the window, 121 newer. -/
example : accepted [100, 120] = [120, 100] ∧ verdictAfter [100, 120] 119 = true ∧
    verdictAfter [100, 120] 120 = false ∧ verdictAfter [100, 120] 103 = false ∧
    verdictAfter [100, 120] 121 = true := by decide

/-- Non-vacuity: a concrete reachable state (gap of 20, then the overtaken value 119, then a
duplicate) — accepted, accepted, accepted, rejected. -/
example : (runU RxState.unsynced [] [100, 120, 119, 119]).2.2 = [true, true, true, false] := by
  decide

/-- Non-vacuity of clause 4's hypotheses. -/
example : (119 ∉ [120, 100]) ∧ ∀ a ∈ [120, 100], a ≤ 119 + 16 := by decide

/-! ## Bounded reordering loses nothing -/

/-- On the specification: a history of pairwise distinct values, none accepted before, all within
16 of each other and of what was accepted, is accepted entirely - in whatever order it arrives. -/
theorem specRun_all_accepted (cs : List Nat) : ∀ acc : List Nat, cs.Nodup → (∀ c ∈ cs, c ∉ acc) →
    (∀ a ∈ acc ++ cs, ∀ b ∈ acc ++ cs, a ≤ b + 16) → specRun acc cs = cs.map (fun _ => true) := by
  induction cs with
  | nil => intro _ _ _ _; rfl
  | cons c cs ih =>
    intro acc hnd hfresh hspread
    have hc : specAccept acc c = true :=
      in_window_once acc c (hfresh c (by simp))
        (fun a ha => hspread a (by simp [ha]) c (by simp))
    simp only [specRun, hc, ↓reduceIte, List.map_cons]
    congr 1
    rw [List.nodup_cons] at hnd
    refine ih (c :: acc) hnd.2 ?_ ?_
    · intro d hd hin
      rcases List.mem_cons.mp hin with h | h
      · subst h; exact hnd.1 hd
      · exact hfresh d (by simp [hd]) h
    · intro a ha b hb
      refine hspread a ?_ b ?_
      · simp only [List.cons_append, List.mem_cons, List.mem_append] at ha ⊢
        rcases ha with h | h | h
        · exact Or.inr (Or.inl h)
        · exact Or.inl h
        · exact Or.inr (Or.inr h)
      · simp only [List.cons_append, List.mem_cons, List.mem_append] at hb ⊢
        rcases hb with h | h | h
        · exact Or.inr (Or.inl h)
        · exact Or.inl h
        · exact Or.inr (Or.inr h)

/-- **Bounded reordering loses nothing (model run)**: on a fresh secure unicast session, any
history of pairwise distinct counter values that lie within the 16-entry window of each other is
accepted in full, whatever the order of arrival - no first-time message is mistaken for a
duplicate. -/
theorem run_reordered_all_accepted (cs : List Nat) (hnd : cs.Nodup)
    (hspread : ∀ a ∈ cs, ∀ b ∈ cs, a ≤ b + 16) :
    (runU RxState.unsynced [] cs).2.2 = cs.map (fun _ => true) := by
  rw [unicast_is_spec]
  exact specRun_all_accepted cs [] hnd (fun _ _ h => by simp at h) (by simpa using hspread)

/-- Non-vacuity: a 17-value burst arriving in a scrambled order. -/
example : (runU RxState.unsynced [] [108, 100, 116, 101, 115, 107]).2.2 =
    [true, true, true, true, true, true] := by decide

/-! ## Unsecured sessions: a restart of the peer's counter is accepted -/

theorem restart_accepted (s : RxState) (c : Nat) (hs : s.synced = true)
    (h : c + L < s.max) : (postRecvPlain s c false).2 = true ∧
      (postRecvPlain s c false).1.max = c := by
  unfold postRecvPlain
  have h1 : ¬ (c = s.max) := by omega
  have h2 : ¬ (c > s.max) := by omega
  have h3 : ¬ (s.max - c ≤ L) := by omega
  simp [hs, h1, h2, h3]

/-! ## Group senders (modular comparison) -/

/-- Clause 3 for group senders: a counter that is ahead of the maximum in the modular sense
`(c − max) mod 2³² ∈ [1, 2³¹−1]` is always accepted. -/
theorem group_forward_accepted (s : RxState) (c : Nat) (hs : s.synced = true)
    (hne : c ≠ s.max) (hf : (c + U32 - s.max) % U32 ≤ I32MAX) :
    (postRecvRoll s c).2 = true := by
  unfold postRecvRoll
  simp [hs, hne, hf]

/-- Clause 2 for group senders: a counter behind the maximum by more than the window
(in the modular sense) is never accepted. -/
theorem group_behind_window_rejected (s : RxState) (c : Nat) (hs : s.synced = true)
    (hf : ¬ (c + U32 - s.max) % U32 ≤ I32MAX) (hb : ¬ (s.max + U32 - c) % U32 ≤ L) :
    (postRecvRoll s c).2 = false ∧ (postRecvRoll s c).1 = s := by
  unfold postRecvRoll
  by_cases hne : c = s.max
  · simp [hs, hne]
  · simp [hs, hne, hf, hb]

/-- The maximum itself is a duplicate. -/
theorem group_max_rejected (s : RxState) (hs : s.synced = true) :
    (postRecvRoll s s.max).2 = false := by
  unfold postRecvRoll; simp [hs]

/-- A counter inside the window is accepted at most once: its immediate repeat is rejected. -/
theorem group_in_window_once (s : RxState) (c : Nat) (hs : s.synced = true) (hne : c ≠ s.max)
    (hf : ¬ (c + U32 - s.max) % U32 ≤ I32MAX) (hb : (s.max + U32 - c) % U32 ≤ L) :
    (postRecvRoll (postRecvRoll s c).1 c).2 = false := by
  have h1 : ∀ t : RxState, t.synced = true → t.max = s.max →
      postRecvRoll t c = inWindow t ((s.max + U32 - c) % U32) := by
    intro t ht hm
    unfold postRecvRoll; simp [ht, hm, hne, hf, hb]
  rw [h1 s hs rfl]
  unfold inWindow
  by_cases ht : s.bitmap.testBit ((s.max + U32 - c) % U32 - 1) = true
  · rw [if_pos ht]
    rw [h1 s hs rfl]; unfold inWindow; rw [if_pos ht]
  · rw [if_neg ht]
    simp only
    have h2 := h1 (RxState.mk s.synced s.max (s.bitmap ||| 1 <<< ((s.max + U32 - c) % U32 - 1))) hs rfl
    rw [h2]
    unfold inWindow
    simp [tb_ins]

/-- The ghost instrumentation (`stepG`: unbounded positions) does not change behaviour: erasing the
ghost fields gives exactly `postRecvRoll`. -/
theorem stepG_erases (g : G) (c : Nat) :
    (stepG g c).2 = (postRecvRoll g.s c).2 ∧ (stepG g c).1.s = (postRecvRoll g.s c).1 := by
  unfold stepG
  cases h : (postRecvRoll g.s c).2 <;> simp only [h, Bool.false_eq_true, ↓reduceIte] <;>
    (try split) <;> simp

/-- the state of a group sender right after its trust-first message `first` -/
def gInit (first : Nat) : G := { s := RxState.new first, P := first + U32, acc := [first + U32] }

/-- **Clause 1 for a tracked group sender, whole histories**: as long as the sender's counter has
advanced by less than a full cycle (2³²) since the trust-first message, no wire value is accepted
twice (the trust-first message included). A 32-bit counter necessarily re-admits values after a
full cycle, so the bound is the full strength available. -/
theorem group_no_double_accept (first : Nat) (cs : List Nat) (hf : first < U32)
    (hc : ∀ c ∈ cs, c < U32)
    (hadv : (runG (gInit first) [first] cs).1.P - (first + U32) < U32) :
    (runG (gInit first) [first] cs).2.Nodup := by
  have h := runG_inv cs (gInit first) [first] (first + U32) hc (ginv_init first hf)
    (by
      have h0 : (first + U32) % U32 = first := by rw [U32_eq] at *; omega
      simp only [gInit, List.map_cons, List.map_nil, h0])
  rw [h.2]
  exact nodup_map_mod _ (first + U32) _ h.1.range hadv h.1.nodup

/-- Non-vacuity: a sender that rolls over (trust-first at 2³²−3, then 2, then the in-window
2³²−2, then repeats) — accepted wire values are distinct and the hypotheses hold. -/
example : (runG (gInit 4294967293) [4294967293] [2, 4294967294, 2, 4294967294, 4294967293]).2
    = [4294967294, 2, 4294967293] := by decide

/-! ### Clauses 2 and 3 for a tracked group sender over whole histories, in unbounded positions

`g.P` is the unbounded position of the largest value accepted so far (`GInv.range`: every accepted
position is `≤ g.P`; `GInv.maxIn`: `g.P` itself was accepted), so "greater than every value accepted
so far" is `g.P < q` and "older than the receive window" is `q + 16 < g.P`.  A 32-bit wire counter
can only tell positions apart within half a cycle: both statements carry that bound and are the
full strength a modular comparison admits. -/

/-- the ghost state of a tracked group sender after its trust-first message and the history `cs` -/
def gAfter (first : Nat) (cs : List Nat) : G := (runG (gInit first) [first] cs).1

theorem gAfter_inv (first : Nat) (cs : List Nat) (hf : first < U32) (hc : ∀ c ∈ cs, c < U32) :
    GInv (gAfter first cs) (first + U32) :=
  (runG_inv cs (gInit first) [first] (first + U32) hc (ginv_init first hf)
    (by
      have h0 : (first + U32) % U32 = first := by rw [U32_eq] at *; omega
      simp only [gInit, List.map_cons, List.map_nil, h0])).1

/-- **Clause 3, every history**: a position beyond everything accepted so far (by less than half
a cycle) is always accepted, whatever the history. -/
theorem group_run_newer_accepted (first : Nat) (cs : List Nat) (hf : first < U32)
    (hc : ∀ c ∈ cs, c < U32) (q : Nat) (h1 : ∀ a ∈ (gAfter first cs).acc, a < q)
    (h2 : q ≤ (gAfter first cs).P + I32MAX) :
    (postRecvRoll (gAfter first cs).s (q % U32)).2 = true := by
  have h := gAfter_inv first cs hf hc
  have hP := h1 _ h.maxIn
  have hm := h.maxEq
  apply group_forward_accepted _ _ h.synced
  · rw [hm, U32_eq]; rw [I32MAX_eq] at h2; omega
  · rw [hm, U32_eq, I32MAX_eq]; rw [I32MAX_eq] at h2; omega

/-- **Clause 2, every history**: a position more than the window below the largest accepted one
(and less than half a cycle behind it) is never accepted, and leaves the window untouched. -/
theorem group_run_older_rejected (first : Nat) (cs : List Nat) (hf : first < U32)
    (hc : ∀ c ∈ cs, c < U32) (q : Nat) (h1 : q + 16 < (gAfter first cs).P)
    (h2 : (gAfter first cs).P ≤ q + I32MAX + 1) :
    (postRecvRoll (gAfter first cs).s (q % U32)).2 = false ∧
      (postRecvRoll (gAfter first cs).s (q % U32)).1 = (gAfter first cs).s := by
  have h := gAfter_inv first cs hf hc
  have hm := h.maxEq
  apply group_behind_window_rejected _ _ h.synced
  · rw [hm, U32_eq, I32MAX_eq]; rw [I32MAX_eq] at h2; omega
  · rw [hm, U32_eq, L_eq]; rw [I32MAX_eq] at h2; omega

/-- Non-vacuity: after trust-first 2³²−3 and the roll-over to 2, position 2³²+2+5 (wire 7) is
newer; position 2³²−20 (wire 2³²−20) is older than the window. -/
example :
    let g := gAfter 4294967293 [2]
    g.P = 4294967296 + 4294967296 + 2 ∧ (∀ a ∈ g.acc, a < g.P + 5) ∧ g.P + 5 ≤ g.P + I32MAX ∧
      (postRecvRoll g.s ((g.P + 5) % U32)).2 = true ∧
      (g.P - 22) + 16 < g.P ∧ g.P ≤ (g.P - 22) + I32MAX + 1 ∧
      (postRecvRoll g.s ((g.P - 22) % U32)).2 = false := by decide

/-! ## Group store: per-sender isolation, capacity -/

theorem lookupUpdate_length (clk fab node c : Nat) :
    ∀ (es es' : List GEntry) (b : Bool), lookupUpdate clk fab node c es = some (es', b) →
      es'.length = es.length := by
  intro es
  induction es with
  | nil => intro es' b h; simp [lookupUpdate] at h
  | cons e es ih =>
    intro es' b h
    unfold lookupUpdate at h
    by_cases hk : e.fab = fab ∧ e.node = node
    · simp only [hk, and_self, ↓reduceIte, Option.some.injEq, Prod.mk.injEq] at h
      rw [← h.1]; simp
    · simp only [hk, ↓reduceIte] at h
      cases hr : lookupUpdate clk fab node c es with
      | none => simp [hr] at h
      | some p =>
        obtain ⟨es2, b2⟩ := p
        simp only [hr, Option.some.injEq, Prod.mk.injEq] at h
        rw [← h.1]; simp [ih es2 b2 hr]

/-- The store never tracks more than `MAX_GROUP_CTR_ENTRIES` senders. -/
theorem store_capacity (g : GStore) (fab node c : Nat)
    (h : g.entries.length ≤ Consts.maxGroupCtrEntries) :
    (g.postRecv fab node c).1.entries.length ≤ Consts.maxGroupCtrEntries := by
  simp only [GStore.postRecv]
  split
  · rename_i es b hr
    simp only
    rw [lookupUpdate_length _ _ _ _ _ _ _ hr]; exact h
  · split
    · simp only [List.length_append, List.length_cons, List.length_nil]; omega
    · simp only [List.length_set]; exact h

/-- A sender that is not tracked is accepted (trust-first), also when the store is full. -/
theorem store_new_sender_accepted (g : GStore) (fab node c : Nat)
    (h : lookupUpdate ((g.clock + 1) % U32) fab node c g.entries = none) :
    (g.postRecv fab node c).2 = true := by
  unfold GStore.postRecv
  simp only [h]
  split <;> rfl

/-- On a hit, the verdict is the tracked sender's window verdict and the windows of all other
senders are untouched. -/
theorem lookupUpdate_spec (clk fab node c : Nat) :
    ∀ (es es' : List GEntry) (b : Bool), lookupUpdate clk fab node c es = some (es', b) →
      ∃ (pre post : List GEntry) (e : GEntry),
        es = pre ++ e :: post ∧ (∀ x ∈ pre, ¬ (x.fab = fab ∧ x.node = node)) ∧
        e.fab = fab ∧ e.node = node ∧ b = (postRecvRoll e.rx c).2 ∧
        es' = pre ++ { e with rx := (postRecvRoll e.rx c).1, lastUsed := clk } :: post := by
  intro es
  induction es with
  | nil => intro es' b h; simp [lookupUpdate] at h
  | cons e es ih =>
    intro es' b h
    unfold lookupUpdate at h
    by_cases hk : e.fab = fab ∧ e.node = node
    · simp only [hk, and_self, ↓reduceIte, Option.some.injEq, Prod.mk.injEq] at h
      exact ⟨[], es, e, by simp, by simp, hk.1, hk.2, h.2.symm, by simp [← h.1, hk.1, hk.2]⟩
    · simp only [hk, ↓reduceIte] at h
      cases hr : lookupUpdate clk fab node c es with
      | none => simp [hr] at h
      | some p =>
        obtain ⟨es2, b2⟩ := p
        simp only [hr, Option.some.injEq, Prod.mk.injEq] at h
        obtain ⟨pre, post, e0, h1, h2, h3, h4, h5, h6⟩ := ih es2 b2 hr
        refine ⟨e :: pre, post, e0, by simp [h1], ?_, h3, h4, by rw [← h.2]; exact h5, ?_⟩
        · intro x hx
          simp only [List.mem_cons] at hx
          rcases hx with hx | hx
          · rw [hx]; exact hk
          · exact h2 x hx
        · rw [← h.1, h6]; simp

/-! ## Store: one window per sender -/

def keys (es : List GEntry) : List (Nat × Nat) := es.map (fun e => (e.fab, e.node))

theorem lookupUpdate_none (clk fab node c : Nat) (es : List GEntry) :
    lookupUpdate clk fab node c es = none ↔ (fab, node) ∉ keys es := by
  induction es with
  | nil => simp [lookupUpdate, keys]
  | cons e es ih =>
    unfold lookupUpdate
    by_cases hk : e.fab = fab ∧ e.node = node
    · simp [hk, keys]
    · simp only [hk, ↓reduceIte]
      have hne : ¬ ((fab, node) = (e.fab, e.node)) := by
        intro h; apply hk; simp only [Prod.mk.injEq] at h; exact ⟨h.1.symm, h.2.symm⟩
      cases hr : lookupUpdate clk fab node c es with
      | none =>
        have := ih.1 hr
        simp only [keys, List.map_cons, List.mem_cons, not_or, true_iff]
        exact ⟨hne, this⟩
      | some p =>
        have : ¬ ((fab, node) ∉ keys es) := fun h => by rw [ih.2 h] at hr; simp at hr
        simp only [keys, List.map_cons, List.mem_cons, not_or, false_iff, not_and, reduceCtorEq]
        intro _; exact this

theorem lookupUpdate_keys (clk fab node c : Nat) :
    ∀ (es es' : List GEntry) (b : Bool), lookupUpdate clk fab node c es = some (es', b) →
      keys es' = keys es := by
  intro es es' b h
  obtain ⟨pre, post, e, h1, _, _, _, _, h6⟩ := lookupUpdate_spec clk fab node c es es' b h
  rw [h1, h6]; simp [keys]

theorem mem_set_imp {α : Type} (l : List α) (i : Nat) (x y : α) (h : y ∈ l.set i x) :
    y = x ∨ y ∈ l := by
  induction l generalizing i with
  | nil => simp at h
  | cons a l ih =>
    cases i with
    | zero => simp only [List.set_cons_zero, List.mem_cons] at h ⊢; rcases h with h | h <;> simp [h]
    | succ i =>
      simp only [List.set_cons_succ, List.mem_cons] at h ⊢
      rcases h with h | h
      · right; left; exact h
      · rcases ih i h with h | h
        · left; exact h
        · right; right; exact h

theorem nodup_set {α : Type} (l : List α) (i : Nat) (x : α) (h : l.Nodup) (hx : x ∉ l) :
    (l.set i x).Nodup := by
  induction l generalizing i with
  | nil => simp
  | cons a l ih =>
    simp only [List.nodup_cons, List.mem_cons, not_or] at h hx
    cases i with
    | zero => simp only [List.set_cons_zero, List.nodup_cons]; exact ⟨hx.2, h.2⟩
    | succ i =>
      simp only [List.set_cons_succ, List.nodup_cons]
      refine ⟨fun hm => ?_, ih i h.2 hx.2⟩
      rcases mem_set_imp l i x a hm with h1 | h1
      · exact hx.1 h1.symm
      · exact h.1 h1

/-- Every sender has at most one window in the store, after any history. -/
theorem store_keys_nodup (g : GStore) (fab node c : Nat) (h : (keys g.entries).Nodup) :
    (keys (g.postRecv fab node c).1.entries).Nodup := by
  simp only [GStore.postRecv]
  split
  · rename_i es b hr
    simp only
    rw [lookupUpdate_keys _ _ _ _ _ _ _ hr]; exact h
  · rename_i hr
    have hnot := (lookupUpdate_none _ _ _ _ _).1 hr
    split
    · simp only [keys, List.map_append, List.map_cons, List.map_nil]
      rw [List.nodup_append]
      refine ⟨h, by simp, ?_⟩
      intro a ha b hb
      simp only [List.mem_singleton] at hb
      subst hb
      intro heq; subst heq; exact hnot ha
    · simp only [keys, List.map_set]
      exact nodup_set _ _ _ h hnot

/-- Non-vacuity: the empty store has distinct keys. -/
example : (keys GStore.empty.entries).Nodup := by simp [keys, GStore.empty]

/-! ## Group store, whole histories -/

/-- the entry tracking sender `(f, n)`, if any (the first one; by `store_keys_nodup` the only one) -/
def track : List GEntry → Nat → Nat → Option GEntry
  | [], _, _ => none
  | e :: es, f, n => if e.fab = f ∧ e.node = n then some e else track es f n

theorem track_none_iff (es : List GEntry) (f n : Nat) :
    track es f n = none ↔ (f, n) ∉ keys es := by
  induction es with
  | nil => simp [track, keys]
  | cons e es ih =>
    unfold track
    by_cases hk : e.fab = f ∧ e.node = n
    · simp [hk, keys]
    · have hne : ¬ ((f, n) = (e.fab, e.node)) := by
        intro h; apply hk; simp only [Prod.mk.injEq] at h; exact ⟨h.1.symm, h.2.symm⟩
      simp only [hk, ↓reduceIte, ih, keys, List.map_cons, List.mem_cons, not_or, hne,
        not_false_eq_true, true_and]

theorem track_some_key {es : List GEntry} {f n : Nat} {e : GEntry} (h : track es f n = some e) :
    e.fab = f ∧ e.node = n ∧ e ∈ es := by
  induction es with
  | nil => simp [track] at h
  | cons a es ih =>
    unfold track at h
    by_cases hk : a.fab = f ∧ a.node = n
    · simp only [hk, and_self, ↓reduceIte, Option.some.injEq] at h
      subst h; exact ⟨hk.1, hk.2, by simp⟩
    · simp only [hk, ↓reduceIte] at h
      have := ih h
      exact ⟨this.1, this.2.1, by simp [this.2.2]⟩

/-- a hit: the verdict is the sender's own window verdict, its window advances by exactly that
step, and every other sender's entry is untouched. -/
theorem lookupUpdate_track (clk f n c : Nat) :
    ∀ (es es' : List GEntry) (b : Bool), lookupUpdate clk f n c es = some (es', b) →
      ∃ e, track es f n = some e ∧ b = (postRecvRoll e.rx c).2 ∧
        track es' f n = some { e with rx := (postRecvRoll e.rx c).1, lastUsed := clk } ∧
        ∀ f' n', ¬ (f' = f ∧ n' = n) → track es' f' n' = track es f' n' := by
  intro es
  induction es with
  | nil => intro es' b h; simp [lookupUpdate] at h
  | cons a es ih =>
    intro es' b h
    unfold lookupUpdate at h
    by_cases hk : a.fab = f ∧ a.node = n
    · simp only [hk, and_self, ↓reduceIte, Option.some.injEq, Prod.mk.injEq] at h
      refine ⟨a, by simp [track, hk], h.2.symm, ?_, ?_⟩
      · rw [← h.1]; simp [track, hk]
      · intro f' n' hne
        rw [← h.1]
        have h1 : ¬ (a.fab = f' ∧ a.node = n') := by
          intro hh; apply hne; exact ⟨hh.1 ▸ hk.1 ▸ rfl, hh.2 ▸ hk.2 ▸ rfl⟩
        have h2 : ¬ (f = f' ∧ n = n') := fun hh => hne ⟨hh.1.symm, hh.2.symm⟩
        simp [track, h1, h2]
    · simp only [hk, ↓reduceIte] at h
      cases hr : lookupUpdate clk f n c es with
      | none => simp [hr] at h
      | some p =>
        obtain ⟨es2, b2⟩ := p
        simp only [hr, Option.some.injEq, Prod.mk.injEq] at h
        obtain ⟨e, h1, h2, h3, h4⟩ := ih es2 b2 hr
        refine ⟨e, by simp [track, hk, h1], by rw [← h.2]; exact h2, ?_, ?_⟩
        · rw [← h.1]; simp [track, hk, h3]
        · intro f' n' hne
          rw [← h.1]
          unfold track
          by_cases hk' : a.fab = f' ∧ a.node = n'
          · simp [hk']
          · simp only [hk', ↓reduceIte]; exact h4 f' n' hne

theorem track_append_new (es : List GEntry) (ne : GEntry) (f n : Nat)
    (hk : ne.fab = f ∧ ne.node = n) (hnone : track es f n = none) :
    track (es ++ [ne]) f n = some ne := by
  induction es with
  | nil => simp [track, hk]
  | cons a es ih =>
    unfold track at hnone
    by_cases ha : a.fab = f ∧ a.node = n
    · simp [ha] at hnone
    · simp only [ha, ↓reduceIte] at hnone
      simp only [List.cons_append, track, ha, ↓reduceIte]
      exact ih hnone

theorem track_append_other (es : List GEntry) (ne : GEntry) (f' n' : Nat)
    (h : ¬ (ne.fab = f' ∧ ne.node = n')) : track (es ++ [ne]) f' n' = track es f' n' := by
  induction es with
  | nil => simp [track, h]
  | cons a es ih =>
    simp only [List.cons_append, track]
    split
    · rfl
    · exact ih

theorem track_set_new (es : List GEntry) (i : Nat) (ne : GEntry) (f n : Nat) (hi : i < es.length)
    (hk : ne.fab = f ∧ ne.node = n) (hnone : track es f n = none) :
    track (es.set i ne) f n = some ne := by
  induction es generalizing i with
  | nil => simp at hi
  | cons a es ih =>
    unfold track at hnone
    by_cases ha : a.fab = f ∧ a.node = n
    · simp [ha] at hnone
    · simp only [ha, ↓reduceIte] at hnone
      cases i with
      | zero => simp [track, hk]
      | succ i =>
        simp only [List.set_cons_succ, track, ha, ↓reduceIte]
        exact ih i (by simpa using hi) hnone

theorem mem_keys_of_mem {es : List GEntry} {v : GEntry} (h : v ∈ es) : (v.fab, v.node) ∈ keys es := by
  simp only [keys, List.mem_map]; exact ⟨v, h, rfl⟩

/-- replacing the entry at index `i` (the victim `v`) by an entry of another sender: the victim's
sender is no longer tracked, every other sender's entry is untouched. -/
theorem track_set_other (es : List GEntry) (i : Nat) (ne v : GEntry) (f' n' : Nat)
    (hne : ¬ (ne.fab = f' ∧ ne.node = n')) (hnd : (keys es).Nodup) (hv : es[i]? = some v) :
    track (es.set i ne) f' n' = if v.fab = f' ∧ v.node = n' then none else track es f' n' := by
  induction es generalizing i with
  | nil => simp at hv
  | cons a es ih =>
    simp only [keys, List.map_cons, List.nodup_cons] at hnd
    cases i with
    | zero =>
      simp only [List.getElem?_cons_zero, Option.some.injEq] at hv
      subst hv
      simp only [List.set_cons_zero, track, hne, ↓reduceIte]
      by_cases ha : a.fab = f' ∧ a.node = n'
      · simp only [ha, and_self, ↓reduceIte]
        apply (track_none_iff es f' n').2
        rw [← ha.1, ← ha.2]; exact hnd.1
      · simp [ha]
    | succ i =>
      simp only [List.getElem?_cons_succ] at hv
      have hvm : v ∈ es := List.mem_of_getElem? hv
      simp only [List.set_cons_succ, track]
      by_cases ha : a.fab = f' ∧ a.node = n'
      · have hvn : ¬ (v.fab = f' ∧ v.node = n') := by
          intro hh
          apply hnd.1
          have := mem_keys_of_mem hvm
          rw [hh.1, hh.2, ← ha.1, ← ha.2] at this; exact this
        simp [ha, hvn]
      · simp only [ha, ↓reduceIte]
        exact ih i hnd.2 hv

/-- `lruIdx` is the FIRST entry of minimal `lastUsed` (what `Iterator::min_by_key` returns). -/
theorem lruIdx_spec (es : List GEntry) (hne : es ≠ []) :
    ∃ m, es[lruIdx es]? = some m ∧
      (∀ (j : Nat) (x : GEntry), es[j]? = some x → m.lastUsed ≤ x.lastUsed) ∧
      (∀ (j : Nat) (x : GEntry), j < lruIdx es → es[j]? = some x → m.lastUsed < x.lastUsed) := by
  induction es with
  | nil => exact absurd rfl hne
  | cons e es ih =>
    cases es with
    | nil =>
      refine ⟨e, by simp [lruIdx], ?_, ?_⟩
      · intro j x hj
        cases j with
        | zero => simp at hj; subst hj; exact Nat.le_refl _
        | succ j => simp at hj
      · intro j x hj; simp [lruIdx] at hj
    | cons e2 es2 =>
      obtain ⟨m, hm, hmin, hfirst⟩ := ih (by simp)
      have hl : lruIdx (e :: e2 :: es2) =
          if e.lastUsed ≤ m.lastUsed then 0 else lruIdx (e2 :: es2) + 1 := by
        rw [lruIdx]
        · simp only [hm]
        · intro h; simp at h
      rw [hl]
      by_cases hle : e.lastUsed ≤ m.lastUsed
      · simp only [hle, ↓reduceIte]
        refine ⟨e, by simp, ?_, ?_⟩
        · intro j x hj
          cases j with
          | zero => simp at hj; subst hj; exact Nat.le_refl _
          | succ j =>
            simp only [List.getElem?_cons_succ] at hj
            exact Nat.le_trans hle (hmin j x hj)
        · intro j x hj; omega
      · simp only [hle, ↓reduceIte]
        refine ⟨m, by simpa using hm, ?_, ?_⟩
        · intro j x hj
          cases j with
          | zero => simp at hj; subst hj; omega
          | succ j =>
            simp only [List.getElem?_cons_succ] at hj
            exact hmin j x hj
        · intro j x hj hx
          cases j with
          | zero => simp at hx; subst hx; omega
          | succ j =>
            simp only [List.getElem?_cons_succ] at hx
            exact hfirst j x (by omega) hx

theorem maxEntries_pos : 0 < Consts.maxGroupCtrEntries := by decide

theorem postRecv_hit (g : GStore) (f n c : Nat) (es' : List GEntry) (b : Bool)
    (hr : lookupUpdate ((g.clock + 1) % U32) f n c g.entries = some (es', b)) :
    g.postRecv f n c = ({ entries := es', clock := (g.clock + 1) % U32 }, b) := by
  simp [GStore.postRecv, hr]

theorem postRecv_miss_append (g : GStore) (f n c : Nat)
    (hr : lookupUpdate ((g.clock + 1) % U32) f n c g.entries = none)
    (hl : g.entries.length < Consts.maxGroupCtrEntries) :
    g.postRecv f n c =
      (GStore.mk (g.entries ++ [GEntry.mk f n (RxState.new c) ((g.clock + 1) % U32)])
        ((g.clock + 1) % U32), true) := by
  simp [GStore.postRecv, hr, hl]

theorem postRecv_miss_set (g : GStore) (f n c : Nat)
    (hr : lookupUpdate ((g.clock + 1) % U32) f n c g.entries = none)
    (hl : ¬ g.entries.length < Consts.maxGroupCtrEntries) :
    g.postRecv f n c =
      (GStore.mk (g.entries.set (lruIdx g.entries) (GEntry.mk f n (RxState.new c) ((g.clock + 1) % U32)))
        ((g.clock + 1) % U32), true) := by
  simp [GStore.postRecv, hr, hl]

/-- One message of the tracked sender itself: the verdict is its own window's verdict and its
window advances by exactly that step; an untracked sender is admitted trust-first. -/
theorem store_step_own (g : GStore) (f n c : Nat) :
    (∀ e, track g.entries f n = some e →
       (g.postRecv f n c).2 = (postRecvRoll e.rx c).2 ∧
       ∃ e', track (g.postRecv f n c).1.entries f n = some e' ∧ e'.rx = (postRecvRoll e.rx c).1) ∧
    (track g.entries f n = none →
       (g.postRecv f n c).2 = true ∧
       ∃ e', track (g.postRecv f n c).1.entries f n = some e' ∧ e'.rx = RxState.new c) := by
  cases hr : lookupUpdate ((g.clock + 1) % U32) f n c g.entries with
  | some p =>
    obtain ⟨es', b⟩ := p
    rw [postRecv_hit g f n c es' b hr]
    obtain ⟨e0, h1, h2, h3, _⟩ := lookupUpdate_track _ _ _ _ _ _ _ hr
    refine ⟨?_, ?_⟩
    · intro e he
      rw [h1] at he; simp only [Option.some.injEq] at he; subst he
      exact ⟨h2, _, h3, rfl⟩
    · intro hn; rw [h1] at hn; simp at hn
  | none =>
    have hnone : track g.entries f n = none :=
      (track_none_iff _ _ _).2 ((lookupUpdate_none _ _ _ _ _).1 hr)
    refine ⟨?_, ?_⟩
    · intro e he; rw [hnone] at he; simp at he
    · intro _
      by_cases hl : g.entries.length < Consts.maxGroupCtrEntries
      · rw [postRecv_miss_append g f n c hr hl]
        exact ⟨rfl, _, track_append_new _ _ f n ⟨rfl, rfl⟩ hnone, rfl⟩
      · rw [postRecv_miss_set g f n c hr hl]
        have hne : g.entries ≠ [] := by
          intro h0; rw [h0] at hl; exact hl maxEntries_pos
        obtain ⟨m, hm, _, _⟩ := lruIdx_spec g.entries hne
        have hi : lruIdx g.entries < g.entries.length := by
          have := List.getElem?_eq_some_iff.1 hm; exact this.1
        exact ⟨rfl, _, track_set_new _ _ _ f n hi ⟨rfl, rfl⟩ hnone, rfl⟩

/-- One message of ANOTHER sender `(f', n')`: the entry of `(f, n)` is untouched -- or `(f, n)` is
evicted, and then `(f', n')` was untracked, the store was full and `(f, n)` held the first minimal
`lastUsed` (`lruIdx_spec`). -/
theorem store_step_other (g : GStore) (f n f' n' c : Nat) (hne : ¬ (f' = f ∧ n' = n))
    (hnd : (keys g.entries).Nodup) :
    track (g.postRecv f' n' c).1.entries f n = track g.entries f n ∨
    (track (g.postRecv f' n' c).1.entries f n = none ∧ track g.entries f' n' = none ∧
      Consts.maxGroupCtrEntries ≤ g.entries.length ∧
      ∃ v, g.entries[lruIdx g.entries]? = some v ∧ v.fab = f ∧ v.node = n) := by
  have hne' : ¬ (f = f' ∧ n = n') := fun h => hne ⟨h.1.symm, h.2.symm⟩
  cases hr : lookupUpdate ((g.clock + 1) % U32) f' n' c g.entries with
  | some p =>
    obtain ⟨es', b⟩ := p
    rw [postRecv_hit g f' n' c es' b hr]
    obtain ⟨_, _, _, _, h4⟩ := lookupUpdate_track _ _ _ _ _ _ _ hr
    left; exact h4 f n hne'
  | none =>
    have hnone : track g.entries f' n' = none :=
      (track_none_iff _ _ _).2 ((lookupUpdate_none _ _ _ _ _).1 hr)
    by_cases hl : g.entries.length < Consts.maxGroupCtrEntries
    · rw [postRecv_miss_append g f' n' c hr hl]
      left; exact track_append_other _ _ f n hne
    · rw [postRecv_miss_set g f' n' c hr hl]
      have hne0 : g.entries ≠ [] := by
        intro h0; rw [h0] at hl; exact hl maxEntries_pos
      obtain ⟨v, hv, _, _⟩ := lruIdx_spec g.entries hne0
      have := track_set_other g.entries (lruIdx g.entries)
        (GEntry.mk f' n' (RxState.new c) ((g.clock + 1) % U32)) v f n hne hnd hv
      by_cases hk : v.fab = f ∧ v.node = n
      · right
        simp only
        rw [this]; simp only [hk, and_self, ↓reduceIte, true_and]
        exact ⟨hnone, by omega, v, hv, hk.1, hk.2⟩
      · left; simp only; rw [this]; simp [hk]

/-! ### whole histories on the store -/

/-- a group message as the store sees it: (fabric, source node, counter) -/
abbrev Msg := Nat × Nat × Nat

/-- `GStore.postRecv` folded over a history; returns the final store and the verdict per message -/
def storeRun : GStore → List Msg → GStore × List Bool
  | g, [] => (g, [])
  | g, m :: ms =>
    let r := g.postRecv m.1 m.2.1 m.2.2
    let o := storeRun r.1 ms
    (o.1, r.2 :: o.2)

theorem storeRun_append (a b : List Msg) : ∀ g : GStore,
    storeRun g (a ++ b) =
      ((storeRun (storeRun g a).1 b).1, (storeRun g a).2 ++ (storeRun (storeRun g a).1 b).2) := by
  induction a with
  | nil => intro g; simp [storeRun]
  | cons m a ih => intro g; simp only [List.cons_append, storeRun, ih, List.cons_append]

theorem storeRun_keys_nodup (ms : List Msg) : ∀ g : GStore, (keys g.entries).Nodup →
    (keys (storeRun g ms).1.entries).Nodup := by
  induction ms with
  | nil => intro g h; exact h
  | cons m ms ih => intro g h; exact ih _ (store_keys_nodup g _ _ _ h)

theorem storeRun_capacity (ms : List Msg) : ∀ g : GStore,
    g.entries.length ≤ Consts.maxGroupCtrEntries →
    (storeRun g ms).1.entries.length ≤ Consts.maxGroupCtrEntries := by
  induction ms with
  | nil => intro g h; exact h
  | cons m ms ih => intro g h; exact ih _ (store_capacity g _ _ _ h)

/-- projection of a history to one sender: its counters, in order -/
def own (f n : Nat) : List Msg → List Nat
  | [] => []
  | m :: ms => if m.1 = f ∧ m.2.1 = n then m.2.2 :: own f n ms else own f n ms

/-- projection of the verdicts of a run to one sender's messages -/
def ownV (f n : Nat) : List Msg → List Bool → List Bool
  | m :: ms, b :: bs => if m.1 = f ∧ m.2.1 = n then b :: ownV f n ms bs else ownV f n ms bs
  | _, _ => []

/-- the verdicts of ONE window over a sequence of counters (no store, no other senders) -/
def runW : RxState → List Nat → List Bool
  | _, [] => []
  | s, c :: cs => (postRecvRoll s c).2 :: runW (postRecvRoll s c).1 cs

/-- the sender stays tracked (is not evicted) after every message of the history -/
def StillTracked (f n : Nat) : GStore → List Msg → Prop
  | _, [] => True
  | g, m :: ms =>
    (track (g.postRecv m.1 m.2.1 m.2.2).1.entries f n).isSome ∧
      StillTracked f n (g.postRecv m.1 m.2.1 m.2.2).1 ms

/-- **Per-sender projection of the store, whole histories.** While a sender stays tracked, its
verdicts on the store -- under ANY interleaving with other senders, admissions and evictions of
others included -- are exactly the verdicts of its own window run in isolation over its own
counters. -/
theorem store_period (f n : Nat) : ∀ (ms : List Msg) (g : GStore) (e : GEntry),
    (keys g.entries).Nodup → track g.entries f n = some e → StillTracked f n g ms →
    ownV f n ms (storeRun g ms).2 = runW e.rx (own f n ms) ∧
    ∃ e', track (storeRun g ms).1.entries f n = some e' := by
  intro ms
  induction ms with
  | nil => intro g e _ he _; exact ⟨rfl, e, he⟩
  | cons m ms ih =>
    intro g e hnd he hst
    obtain ⟨f', n', c⟩ := m
    have hnd' := store_keys_nodup g f' n' c hnd
    simp only [StillTracked] at hst
    simp only [storeRun, ownV, own]
    by_cases hk : f' = f ∧ n' = n
    · obtain ⟨rfl, rfl⟩ := hk
      obtain ⟨hv, e', he', hrx⟩ := (store_step_own g f' n' c).1 e he
      simp only [and_self, ↓reduceIte, runW]
      have := ih _ e' hnd' he' hst.2
      rw [hv, this.1, hrx]
      exact ⟨rfl, this.2⟩
    · simp only [hk, ↓reduceIte]
      rcases store_step_other g f n f' n' c hk hnd with h | h
      · exact ih _ e hnd' (by rw [h]; exact he) hst.2
      · have := hst.1; rw [h.1] at this; simp at this

instance StillTracked.dec (f n : Nat) : ∀ (ms : List Msg) (g : GStore), Decidable (StillTracked f n g ms)
  | [], _ => isTrue trivial
  | m :: ms, g => by
    unfold StillTracked
    exact @instDecidableAnd _ _ _ (StillTracked.dec f n ms _)

/-- accepted wire values of a verdict stream, newest first (the shape `runG` collects) -/
def accW : List Nat → List Bool → List Nat → List Nat
  | c :: cs, b :: bs, w => accW cs bs (if b then c :: w else w)
  | _, _, w => w

/-- the ghost-instrumented run `runG` collects exactly the values `runW` accepts -/
theorem runG_accW (cs : List Nat) : ∀ (g : G) (w : List Nat),
    (runG g w cs).2 = accW cs (runW g.s cs) w := by
  induction cs with
  | nil => intro g w; rfl
  | cons c cs ih =>
    intro g w
    simp only [runG, runW, accW]
    rw [ih, (stepG_erases g c).1, (stepG_erases g c).2]

/-- **A tracking period on the store, from the trust-first admission on** (any reachable store:
`storeRun_keys_nodup`): the admission is accepted, and while the sender stays tracked its
verdicts -- whatever other senders do in between -- are those of the isolated window started by
`RxState.new first`, i.e. of `runG` from `gInit first`. -/
theorem store_tracking_period (g : GStore) (f n first : Nat) (mid : List Msg)
    (hnd : (keys g.entries).Nodup) (hun : track g.entries f n = none)
    (hst : StillTracked f n (g.postRecv f n first).1 mid) :
    (g.postRecv f n first).2 = true ∧
    ownV f n mid (storeRun (g.postRecv f n first).1 mid).2 = runW (RxState.new first) (own f n mid) ∧
    accW (own f n mid) (ownV f n mid (storeRun (g.postRecv f n first).1 mid).2) [first] =
      (runG (gInit first) [first] (own f n mid)).2 := by
  obtain ⟨hv, e', he', hrx⟩ := (store_step_own g f n first).2 hun
  have h := (store_period f n mid _ e' (store_keys_nodup g f n first hnd) he' hst).1
  rw [hrx] at h
  refine ⟨hv, h, ?_⟩
  rw [h, runG_accW]; rfl

/-- **Clause 1 per tracking period, on the store, whole histories**: within one tracking period
(trust-first admission until eviction) no wire value of the sender is accepted twice, under any
interleaving with other senders, as long as the sender advanced less than a full 2³² cycle. -/
theorem store_no_double_accept (g : GStore) (f n first : Nat) (mid : List Msg)
    (hnd : (keys g.entries).Nodup) (hun : track g.entries f n = none)
    (hst : StillTracked f n (g.postRecv f n first).1 mid)
    (hf : first < U32) (hc : ∀ c ∈ own f n mid, c < U32)
    (hadv : (runG (gInit first) [first] (own f n mid)).1.P - (first + U32) < U32) :
    (accW (own f n mid) (ownV f n mid (storeRun (g.postRecv f n first).1 mid).2) [first]).Nodup := by
  rw [(store_tracking_period g f n first mid hnd hun hst).2.2]
  exact group_no_double_accept first _ hf hc hadv

/-- every tracking period of every history from the empty store: `pre` is any history (with any
number of senders and evictions) after which the sender is untracked. -/
theorem history_tracking_period (pre mid : List Msg) (f n first : Nat)
    (hun : track (storeRun GStore.empty pre).1.entries f n = none)
    (hst : StillTracked f n ((storeRun GStore.empty pre).1.postRecv f n first).1 mid) :
    ((storeRun GStore.empty pre).1.postRecv f n first).2 = true ∧
    ownV f n mid (storeRun ((storeRun GStore.empty pre).1.postRecv f n first).1 mid).2 =
      runW (RxState.new first) (own f n mid) :=
  let h := store_tracking_period _ f n first mid
    (storeRun_keys_nodup pre _ (by simp [keys, GStore.empty])) hun hst
  ⟨h.1, h.2.1⟩

/-- Non-vacuity: 17 senders on the 16-entry store; sender (1,0) is admitted, 16 others follow (the
17th evicts (1,0), the least recently heard), (1,0) returns and is admitted trust-first again: its
old duplicate 5 is accepted anew in the new period -- the verdict streams per period are those of
fresh windows. -/
example :
    let hist : List Msg := (1, 0, 5) :: (1, 0, 6) :: (1, 0, 5) ::
      ((List.range 16).map fun i => (2, i, 9)) ++ [(1, 0, 5), (1, 0, 5)]
    (storeRun GStore.empty hist).2 =
      [true, true, false] ++ List.replicate 16 true ++ [true, false] := by decide

example : track (storeRun GStore.empty [(2, 7, 1)]).1.entries 1 0 = none ∧
    StillTracked 1 0 ((storeRun GStore.empty [(2, 7, 1)]).1.postRecv 1 0 5).1
      [(2, 7, 2), (1, 0, 6), (3, 3, 3), (1, 0, 5)] := by decide

/-! ### the evicted sender is the least recently heard one -/

/-- when (1-based position in the history) sender `(f, n)` was last heard; `h` is the history
NEWEST FIRST; 0 = never -/
def lastSeen : List Msg → Nat → Nat → Nat
  | [], _, _ => 0
  | m :: h, f, n => if m.1 = f ∧ m.2.1 = n then h.length + 1 else lastSeen h f n

theorem lastSeen_le (h : List Msg) (f n : Nat) : lastSeen h f n ≤ h.length := by
  induction h with
  | nil => simp [lastSeen]
  | cons m h ih => simp only [lastSeen, List.length_cons]; split <;> omega

/-- two senders are never "last heard" at the same position -/
theorem lastSeen_inj (h : List Msg) (f n f' n' : Nat) (h1 : 1 ≤ lastSeen h f n)
    (he : lastSeen h f n = lastSeen h f' n') : f = f' ∧ n = n' := by
  induction h with
  | nil => simp [lastSeen] at h1
  | cons m h ih =>
    simp only [lastSeen] at he h1
    by_cases ha : m.1 = f ∧ m.2.1 = n
    · by_cases hb : m.1 = f' ∧ m.2.1 = n'
      · exact ⟨ha.1 ▸ hb.1, ha.2 ▸ hb.2⟩
      · rw [if_pos ha, if_neg hb] at he
        have := lastSeen_le h f' n'; omega
    · by_cases hb : m.1 = f' ∧ m.2.1 = n'
      · rw [if_neg ha, if_pos hb] at he
        have := lastSeen_le h f n; omega
      · rw [if_neg ha, if_neg hb] at he
        rw [if_neg ha] at h1
        exact ih h1 he

/-- the store's LRU stamps are the positions at which each tracked sender was last heard
(`h` = the history so far, newest first) -/
structure Timed (h : List Msg) (g : GStore) : Prop where
  clock : g.clock = h.length
  stamp : ∀ e ∈ g.entries, e.lastUsed = lastSeen h e.fab e.node ∧ 1 ≤ e.lastUsed

theorem timed_empty : Timed [] GStore.empty := ⟨rfl, by simp [GStore.empty]⟩

theorem timed_step (h : List Msg) (g : GStore) (f n c : Nat) (ht : Timed h g)
    (hnd : (keys g.entries).Nodup) (hlen : h.length + 1 < U32) :
    Timed ((f, n, c) :: h) (g.postRecv f n c).1 := by
  have hclk : (g.clock + 1) % U32 = h.length + 1 := by rw [ht.clock]; exact Nat.mod_eq_of_lt hlen
  have hother : ∀ x : GEntry, x ∈ g.entries → ¬ (x.fab = f ∧ x.node = n) →
      x.lastUsed = lastSeen ((f, n, c) :: h) x.fab x.node ∧ 1 ≤ x.lastUsed := by
    intro x hx hk
    have hk' : ¬ (f = x.fab ∧ n = x.node) := fun hh => hk ⟨hh.1.symm, hh.2.symm⟩
    simp only [lastSeen, hk', ↓reduceIte]
    exact ht.stamp x hx
  have hnew : ∀ x : GEntry, x.fab = f → x.node = n → x.lastUsed = (g.clock + 1) % U32 →
      x.lastUsed = lastSeen ((f, n, c) :: h) x.fab x.node ∧ 1 ≤ x.lastUsed := by
    intro x hf hn hl
    rw [hl, hclk, hf, hn]
    refine ⟨?_, by omega⟩
    simp only [lastSeen, and_self, ↓reduceIte]
  cases hr : lookupUpdate ((g.clock + 1) % U32) f n c g.entries with
  | some p =>
    obtain ⟨es', b⟩ := p
    rw [postRecv_hit g f n c es' b hr]
    obtain ⟨pre, post, e, h1, h2, h3, h4, _, h6⟩ := lookupUpdate_spec _ _ _ _ _ _ _ hr
    refine ⟨hclk, ?_⟩
    intro x hx
    simp only at hx
    rw [h6] at hx
    rw [h1] at hnd
    simp only [keys, List.map_append, List.map_cons] at hnd
    have hnd2 := List.nodup_append.1 hnd
    simp only [List.mem_append, List.mem_cons] at hx
    rcases hx with hx | hx | hx
    · exact hother x (by rw [h1]; simp [hx]) (h2 x hx)
    · subst hx; exact hnew _ h3 h4 rfl
    · apply hother x (by rw [h1]; simp [hx])
      intro hk
      have hin : (e.fab, e.node) ∈ List.map (fun e => (e.fab, e.node)) post := by
        rw [h3, h4, ← hk.1, ← hk.2]; exact List.mem_map.2 ⟨x, hx, rfl⟩
      exact (List.nodup_cons.1 hnd2.2.1).1 hin
  | none =>
    have hnot := (lookupUpdate_none _ _ _ _ _).1 hr
    have hall : ∀ x ∈ g.entries, ¬ (x.fab = f ∧ x.node = n) := by
      intro x hx hk; apply hnot; rw [← hk.1, ← hk.2]; exact mem_keys_of_mem hx
    by_cases hl : g.entries.length < Consts.maxGroupCtrEntries
    · rw [postRecv_miss_append g f n c hr hl]
      refine ⟨hclk, ?_⟩
      intro x hx
      simp only [List.mem_append, List.mem_singleton] at hx
      rcases hx with hx | hx
      · exact hother x hx (hall x hx)
      · subst hx; exact hnew _ rfl rfl rfl
    · rw [postRecv_miss_set g f n c hr hl]
      refine ⟨hclk, ?_⟩
      intro x hx
      rcases mem_set_imp _ _ _ _ hx with hx | hx
      · subst hx; exact hnew _ rfl rfl rfl
      · exact hother x hx (hall x hx)

/-- along every history shorter than 2³² the LRU stamps are the true last-heard positions -/
theorem timed_run (ms : List Msg) : ∀ (h : List Msg) (g : GStore), Timed h g →
    (keys g.entries).Nodup → h.length + ms.length < U32 →
    Timed (ms.reverse ++ h) (storeRun g ms).1 := by
  induction ms with
  | nil => intro h g ht _ _; simpa [storeRun] using ht
  | cons m ms ih =>
    intro h g ht hnd hlen
    obtain ⟨f, n, c⟩ := m
    simp only [List.length_cons] at hlen
    have := ih ((f, n, c) :: h) _ (timed_step h g f n c ht hnd (by omega))
      (store_keys_nodup g f n c hnd) (by simp only [List.length_cons]; omega)
    simpa [storeRun] using this

/-- **The evicted sender is the least recently heard one.** In every history (shorter than 2³²
messages) from the empty store, whenever a message evicts (sender untracked, store full), the
victim -- the entry at `lruIdx`, the FIRST minimum of `lastUsed` (`lruIdx_spec`) -- is the
tracked sender that was heard longest ago, strictly before every other tracked sender. -/
theorem evicted_is_least_recently_heard (pre : List Msg) (hlen : pre.length < U32) :
    let g := (storeRun GStore.empty pre).1
    g.entries ≠ [] →
    ∃ v, g.entries[lruIdx g.entries]? = some v ∧
      ∀ e ∈ g.entries, ¬ (e.fab = v.fab ∧ e.node = v.node) →
        lastSeen pre.reverse v.fab v.node < lastSeen pre.reverse e.fab e.node := by
  intro g hne
  have ht : Timed pre.reverse g := by
    have := timed_run pre [] GStore.empty timed_empty (by simp [keys, GStore.empty]) (by simpa using hlen)
    simpa using this
  obtain ⟨v, hv, hmin, _⟩ := lruIdx_spec g.entries hne
  refine ⟨v, hv, ?_⟩
  intro e he hk
  have hvm : v ∈ g.entries := List.mem_of_getElem? hv
  obtain ⟨i, hi⟩ := List.getElem?_of_mem he
  have h1 := hmin i e hi
  have sv := ht.stamp v hvm
  have se := ht.stamp e he
  rw [← sv.1, ← se.1]
  rcases Nat.lt_or_ge v.lastUsed e.lastUsed with hlt | hge
  · exact hlt
  · exfalso
    have heq : v.lastUsed = e.lastUsed := by omega
    have := lastSeen_inj pre.reverse v.fab v.node e.fab e.node (by rw [← sv.1]; exact sv.2)
      (by rw [← sv.1, ← se.1]; exact heq)
    exact hk ⟨this.1.symm, this.2.symm⟩

/-- Non-vacuity: a full store after 16 senders; the victim is the first one heard. -/
example : (storeRun GStore.empty ((List.range 16).map fun i => ((1 : Nat), i, (7 : Nat)))).1.entries ≠ [] := by
  decide

/-- Non-vacuity of the conclusion on a store that is full and was touched out of admission order:
16 senders admitted, then senders 0, 1, 2 heard again -- the victim is sender 3 (not the first
admitted), and it was heard strictly before sender 0 and sender 15. -/
example :
    let pre : List Msg := ((List.range 16).map fun i => ((1 : Nat), i, (7 : Nat))) ++
      [(1, 0, 8), (1, 1, 8), (1, 2, 8)]
    let g := (storeRun GStore.empty pre).1
    g.entries.length = 16 ∧ lruIdx g.entries = 3 ∧
      (g.entries[lruIdx g.entries]?).map (fun v => (v.fab, v.node)) = some (1, 3) ∧
      lastSeen pre.reverse 1 3 < lastSeen pre.reverse 1 0 ∧
      lastSeen pre.reverse 1 3 < lastSeen pre.reverse 1 15 := by decide

/-! ## Unsecured sessions, whole histories -/

/-- representation invariant of an unsecured session's window w.r.t. the current epoch:
bit `i` (for positions that exist, `i + 1 ≤ max`) is set iff `max − i − 1` was accepted in this
epoch. -/
structure PInv (s : RxState) (p : PSpec) : Prop where
  unsynced : s.synced = false → p.acc = []
  maxIn : s.synced = true → s.max ∈ p.acc
  le : ∀ a ∈ p.acc, a ≤ s.max
  bits : s.synced = true → ∀ i, i < 16 → i + 1 ≤ s.max →
    (s.bitmap.testBit i = true ↔ (s.max - (i + 1)) ∈ p.acc)

theorem pinv_init : PInv RxState.unsynced PSpec.init := by
  refine ⟨fun _ => rfl, ?_, ?_, ?_⟩
  · intro h; simp [RxState.unsynced] at h
  · intro a h; simp [PSpec.init] at h
  · intro h; simp [RxState.unsynced] at h

theorem isRestart_false_of_le (p : PSpec) (c m : Nat) (hle : ∀ a ∈ p.acc, a ≤ m) (h : m ≤ c + L) :
    p.isRestart c = false := by
  simp only [PSpec.isRestart, List.any_eq_false, decide_eq_true_eq]
  intro a ha; have := hle a ha; omega

theorem isRestart_true_of_mem (p : PSpec) (c a : Nat) (ha : a ∈ p.acc) (h : c + L < a) :
    p.isRestart c = true := by
  simp only [PSpec.isRestart, List.any_eq_true, decide_eq_true_eq]
  exact ⟨a, ha, h⟩

theorem plain_old_unsec (s : RxState) (c : Nat) (h : s.synced = true) (hc : c < s.max)
    (hw : ¬ s.max - c ≤ L) :
    postRecvPlain s c false = ({ s with max := c, bitmap := 0 }, true) := by
  have h1 : c ≠ s.max := by omega
  have h2 : ¬ c > s.max := by omega
  simp [postRecvPlain, h, h1, h2, hw]

theorem acc_ne_nil_isEmpty {l : List Nat} {x : Nat} (h : x ∈ l) : l.isEmpty = false := by
  cases l with
  | nil => simp at h
  | cons a l => rfl

/-- one step: the model's verdict is the specification's, and the invariant is preserved -/
theorem plain_step_refines (s : RxState) (p : PSpec) (c : Nat) (h : PInv s p) :
    (postRecvPlain s c false).2 = specPlainAccept p c ∧
    PInv (postRecvPlain s c false).1 (specPlainNext p c (postRecvPlain s c false).2) := by
  cases hs : s.synced with
  | false =>
    have hacc := h.unsynced hs
    rw [plain_unsynced s c false hs]
    refine ⟨by simp [specPlainAccept, hacc], ?_⟩
    simp only [specPlainNext, hacc, Bool.not_true, Bool.false_eq_true, ↓reduceIte, List.isEmpty_nil]
    refine ⟨by simp, by simp, by simp, ?_⟩
    intro _ i hi hle
    simp only at hle
    simp only [Nat.zero_testBit, Bool.false_eq_true, List.mem_singleton, false_iff]
    omega
  | true =>
    have hmax := h.maxIn hs
    have hne := acc_ne_nil_isEmpty hmax
    rcases Nat.lt_trichotomy c s.max with hlt | heq | hgt
    · by_cases hw : s.max - c ≤ L
      · -- behind, inside the window
        rw [plain_win s c false hs hlt hw]
        have hnr := isRestart_false_of_le p c s.max h.le (by omega)
        rw [L_eq] at hw
        have hb := h.bits hs (s.max - c - 1) (by omega) (by omega)
        have hval : s.max - (s.max - c - 1 + 1) = c := by omega
        rw [hval] at hb
        unfold inWindow
        by_cases ht : s.bitmap.testBit (s.max - c - 1) = true
        · rw [if_pos ht]
          have hin := hb.1 ht
          refine ⟨by simp [specPlainAccept, hne, hnr, hin], ?_⟩
          simpa [specPlainNext] using h
        · rw [if_neg ht]
          have hnin : c ∉ p.acc := fun hin => ht (hb.2 hin)
          refine ⟨by simp [specPlainAccept, hne, hnr, hnin], ?_⟩
          simp only [specPlainNext, Bool.not_true, Bool.false_eq_true, ↓reduceIte, hne, hnr]
          refine ⟨by intro hh; simp [hs] at hh, by intro _; simp [hmax], ?_, ?_⟩
          · intro a ha
            simp only [List.mem_cons] at ha
            rcases ha with ha | ha
            · simp only; omega
            · exact h.le a ha
          · intro _ i hi hle
            simp only at hle
            simp only [tb_ins, Bool.or_eq_true, decide_eq_true_eq, List.mem_cons]
            have hbi := h.bits hs i hi hle
            constructor
            · rintro (hb' | heq)
              · right; exact hbi.1 hb'
              · left; omega
            · rintro (heq | hin)
              · right; omega
              · left; exact hbi.2 hin
      · -- behind, outside the window: a restart of the peer's counter
        rw [plain_old_unsec s c hs hlt hw]
        have hr := isRestart_true_of_mem p c s.max hmax (by omega)
        refine ⟨by simp [specPlainAccept, hr], ?_⟩
        simp only [specPlainNext, Bool.not_true, Bool.false_eq_true, ↓reduceIte, hne, hr]
        refine ⟨by intro hh; simp [hs] at hh, by simp, by simp, ?_⟩
        intro _ i hi hle
        simp only at hle
        simp only [Nat.zero_testBit, Bool.false_eq_true, List.mem_singleton, false_iff]
        omega
    · subst heq
      rw [plain_eq s false hs]
      have hnr := isRestart_false_of_le p s.max s.max h.le (by omega)
      refine ⟨by simp [specPlainAccept, hne, hnr, hmax], ?_⟩
      simpa [specPlainNext] using h
    · rw [plain_fwd s c false hs hgt]
      have hnr := isRestart_false_of_le p c s.max h.le (by omega)
      have hnot : c ∉ p.acc := fun hm => by have := h.le c hm; omega
      refine ⟨by simp [specPlainAccept, hne, hnr, hnot], ?_⟩
      simp only [specPlainNext, Bool.not_true, Bool.false_eq_true, ↓reduceIte, hne, hnr]
      have hbits := h.bits hs
      unfold forward
      rw [L_eq]
      by_cases hd : c - s.max ≤ 16
      · rw [if_pos hd]
        refine ⟨by intro hh; simp [hs] at hh, by intro _; simp, ?_, ?_⟩
        · intro a ha
          simp only [List.mem_cons] at ha
          rcases ha with ha | ha
          · simp [ha]
          · have := h.le a ha; simp only; omega
        · intro _ i hi hle
          simp only at hle
          simp only [tb_shift _ _ _ hi, Bool.or_eq_true, Bool.and_eq_true, decide_eq_true_eq,
            List.mem_cons]
          constructor
          · rintro (⟨hge, hb⟩ | heq)
            · have := (hbits (i - (c - s.max)) (by omega) (by omega)).1 hb
              have h2 : c - (i + 1) = s.max - (i - (c - s.max) + 1) := by omega
              rw [h2]
              right; exact this
            · right
              have h2 : c - (i + 1) = s.max := by omega
              rw [h2]; exact hmax
          · rintro (heq | hin)
            · omega
            · by_cases hlt : i + 1 < c - s.max
              · have := h.le _ hin; omega
              · by_cases he : i + 1 = c - s.max
                · right; omega
                · left
                  refine ⟨by omega, ?_⟩
                  apply (hbits (i - (c - s.max)) (by omega) (by omega)).2
                  have h2 : s.max - (i - (c - s.max) + 1) = c - (i + 1) := by omega
                  rw [h2]; exact hin
      · rw [if_neg hd]
        refine ⟨by intro hh; simp [hs] at hh, by intro _; simp, ?_, ?_⟩
        · intro a ha
          simp only [List.mem_cons] at ha
          rcases ha with ha | ha
          · simp [ha]
          · have := h.le a ha; simp only; omega
        · intro _ i hi hle
          simp only at hle
          simp only [Nat.zero_testBit, Bool.false_eq_true, false_iff, List.mem_cons, not_or]
          refine ⟨by omega, fun hin => ?_⟩
          have := h.le _ hin; omega

/-- an unsecured session over a history of received counters: the verdict per message -/
def runP : RxState → List Nat → List Bool
  | _, [] => []
  | s, c :: cs => (postRecvPlain s c false).2 :: runP (postRecvPlain s c false).1 cs

/-- the same history through the set-based specification with the restart rule -/
def specPlainRun : PSpec → List Nat → List Bool
  | _, [] => []
  | p, c :: cs => specPlainAccept p c :: specPlainRun (specPlainNext p c (specPlainAccept p c)) cs

/-- the epoch state of the specification after a history -/
def specPlainState : PSpec → List Nat → PSpec
  | p, [] => p
  | p, c :: cs => specPlainState (specPlainNext p c (specPlainAccept p c)) cs

theorem runP_refines (cs : List Nat) : ∀ (s : RxState) (p : PSpec), PInv s p →
    runP s cs = specPlainRun p cs := by
  induction cs with
  | nil => intro s p _; rfl
  | cons c cs ih =>
    intro s p h
    have hs := plain_step_refines s p c h
    simp only [runP, specPlainRun]
    rw [hs.1]
    congr 1
    have := ih _ _ hs.2
    rw [hs.1] at this
    exact this

/-- **Unsecured sessions, every history**: a fresh unsecured session answers exactly like the
set-based specification with the restart rule (accepted iff first message, restart, or not
accepted yet since the last restart). -/
theorem unsecured_is_spec (cs : List Nat) : runP RxState.unsynced cs = specPlainRun PSpec.init cs :=
  runP_refines cs _ _ pinv_init

/-- Restart clause: a value more than the window below a value accepted in the current epoch is
accepted and starts a new epoch in which only the restart value itself has been accepted. -/
theorem plain_restart_accepted (p : PSpec) (c a : Nat) (ha : a ∈ p.acc) (h : c + L < a) :
    specPlainAccept p c = true ∧ specPlainNext p c true = { acc := [c] } := by
  have hr := isRestart_true_of_mem p c a ha h
  have hne := acc_ne_nil_isEmpty ha
  exact ⟨by simp [specPlainAccept, hr], by simp [specPlainNext, hne, hr]⟩

/-- Clause 1 between two restarts: a value accepted in the current epoch is not accepted again,
unless it is itself a restart (more than the window below a value accepted since). -/
theorem plain_no_double_accept (p : PSpec) (c : Nat) (hc : c ∈ p.acc) (hn : p.isRestart c = false) :
    specPlainAccept p c = false := by
  have hne := acc_ne_nil_isEmpty hc
  simp [specPlainAccept, hne, hn, hc]

/-- Clause 3: a value greater than every value accepted in the current epoch is accepted. -/
theorem plain_newer_accepted (p : PSpec) (c : Nat) (h : ∀ a ∈ p.acc, a < c) :
    specPlainAccept p c = true := by
  have hnot : c ∉ p.acc := fun hm => by have := h c hm; omega
  simp [specPlainAccept, hnot]

/-- Clause 4: a value not accepted yet in this epoch -- in particular an in-window one that was
overtaken, also just below a restart point -- is accepted (exactly once, by
`plain_no_double_accept`). -/
theorem plain_in_window_once (p : PSpec) (c : Nat) (hn : c ∉ p.acc) :
    specPlainAccept p c = true := by
  simp [specPlainAccept, hn]

/-- well-formedness of the epoch state, preserved along every history -/
def PWF (p : PSpec) : Prop := p.acc.Nodup

theorem specPlainNext_wf (p : PSpec) (c : Nat) (h : PWF p) :
    PWF (specPlainNext p c (specPlainAccept p c)) := by
  unfold specPlainNext
  cases hv : specPlainAccept p c with
  | false => simpa using h
  | true =>
    simp only [Bool.not_true, Bool.false_eq_true, ↓reduceIte]
    by_cases h1 : p.acc.isEmpty = true
    · simp [h1, PWF]
    · simp only [h1, Bool.false_eq_true, ↓reduceIte]
      by_cases h2 : p.isRestart c = true
      · simp [h2, PWF]
      · simp only [h2, Bool.false_eq_true, ↓reduceIte]
        simp only [specPlainAccept, h1, h2, Bool.or_self, Bool.false_or,
          Bool.not_eq_true'] at hv
        simp only [PWF, List.nodup_cons]
        exact ⟨by simpa using hv, h⟩

/-- **Accepted at most once between two restarts, every history**: after any history the values
accepted since the last restart (the first message, if there was none) are pairwise distinct. -/
theorem plain_epoch_accepted_once (cs : List Nat) : ∀ p : PSpec, PWF p → PWF (specPlainState p cs) := by
  induction cs with
  | nil => intro p h; exact h
  | cons c cs ih => intro p h; exact ih _ (specPlainNext_wf p c h)

theorem plain_epoch_accepted_once_fresh (cs : List Nat) : PWF (specPlainState PSpec.init cs) :=
  plain_epoch_accepted_once cs _ (by simp [PSpec.init, PWF])

/-- Non-vacuity: first message, in-window first-timer, duplicate, restart (far below), the value
just below the restart point (a first-timer: accepted), its duplicate, a value above the restart
point, a duplicate of the restart value, and a second restart. -/
example : runP RxState.unsynced [100, 99, 99, 50, 49, 49, 51, 50, 10] =
    [true, true, false, true, true, false, true, false, true] := by decide
example : specPlainState PSpec.init [100, 99, 99, 50, 49, 51] = { acc := [51, 49, 50] } := by
  decide

/-! ## Unsecured sessions: only a repetition is ever answered 'duplicate' -/

/-- On the specification with the restart rule: a history of pairwise distinct values, none of them
accepted in the current epoch, is accepted entirely. -/
theorem specPlainRun_distinct_all (cs : List Nat) : ∀ p : PSpec, cs.Nodup → (∀ c ∈ cs, c ∉ p.acc) →
    specPlainRun p cs = cs.map (fun _ => true) := by
  induction cs with
  | nil => intro _ _ _; rfl
  | cons c cs ih =>
    intro p hnd hfresh
    have hc : specPlainAccept p c = true := plain_in_window_once p c (hfresh c (by simp))
    simp only [specPlainRun, hc, List.map_cons]
    congr 1
    rw [List.nodup_cons] at hnd
    refine ih _ hnd.2 ?_
    intro d hd hin
    have hdc : d ≠ c := fun h => hnd.1 (h ▸ hd)
    have hdp : d ∉ p.acc := hfresh d (by simp [hd])
    unfold specPlainNext at hin
    simp only [Bool.not_true, Bool.false_eq_true, ↓reduceIte] at hin
    split at hin
    · simp at hin; exact hdc hin
    · split at hin
      · simp at hin; exact hdc hin
      · rcases List.mem_cons.mp hin with h | h
        · exact hdc h
        · exact hdp h

/-- **An unsecured session never rejects a first-time value (model run)**: on a fresh unsecured
session every history of pairwise distinct counter values is accepted in full, whatever the order,
the gaps or the restarts in it - only a repetition can be answered 'duplicate'. -/
theorem unsecured_distinct_all_accepted (cs : List Nat) (hnd : cs.Nodup) :
    runP RxState.unsynced cs = cs.map (fun _ => true) := by
  rw [unsecured_is_spec]
  exact specPlainRun_distinct_all cs PSpec.init hnd (fun _ _ h => by simp [PSpec.init] at h)

/-- Non-vacuity: forward jump, overtaken value, restart far below, value above the restart. -/
example : runP RxState.unsynced [100, 200, 199, 3, 4, 150] =
    [true, true, true, true, true, true] := by decide

/-! ## Group store: how a tracking period ends -/

theorem track_unique (es : List GEntry) (f n : Nat) (e v : GEntry) (hnd : (keys es).Nodup)
    (he : track es f n = some e) (hv : v ∈ es) (hk : v.fab = f ∧ v.node = n) : v = e := by
  induction es with
  | nil => simp at hv
  | cons a es ih =>
    simp only [keys, List.map_cons, List.nodup_cons] at hnd
    unfold track at he
    simp only [List.mem_cons] at hv
    by_cases ha : a.fab = f ∧ a.node = n
    · simp only [ha, and_self, ↓reduceIte, Option.some.injEq] at he
      rcases hv with hv | hv
      · rw [hv, he]
      · exfalso; apply hnd.1
        have := mem_keys_of_mem hv
        rw [hk.1, hk.2, ← ha.1, ← ha.2] at this; exact this
    · simp only [ha, ↓reduceIte] at he
      rcases hv with hv | hv
      · exfalso; apply ha; rw [← hv]; exact hk
      · exact ih hnd.2 he hv

/-- **A tracking period ends only by LRU eviction**: if a tracked sender `(f, n)` is no longer
tracked after a message, that message came from another, untracked sender, the store was full,
and `(f, n)`'s entry was the one at `lruIdx` -- the first entry of minimal `lastUsed`
(`lruIdx_spec`), i.e. the least recently heard sender (`evicted_is_least_recently_heard`). -/
theorem tracking_ends_only_by_lru_eviction (g : GStore) (f n f' n' c : Nat) (e : GEntry)
    (hnd : (keys g.entries).Nodup) (he : track g.entries f n = some e)
    (hlost : track (g.postRecv f' n' c).1.entries f n = none) :
    ¬ (f' = f ∧ n' = n) ∧ track g.entries f' n' = none ∧
      Consts.maxGroupCtrEntries ≤ g.entries.length ∧ g.entries[lruIdx g.entries]? = some e := by
  by_cases hk : f' = f ∧ n' = n
  · obtain ⟨rfl, rfl⟩ := hk
    obtain ⟨_, e', he', _⟩ := (store_step_own g f' n' c).1 e he
    rw [he'] at hlost; simp at hlost
  · rcases store_step_other g f n f' n' c hk hnd with h | h
    · rw [h, he] at hlost; simp at hlost
    · obtain ⟨_, h2, h3, v, hv, hvk⟩ := h
      refine ⟨hk, h2, h3, ?_⟩
      rw [hv, track_unique g.entries f n e v hnd he (List.mem_of_getElem? hv) hvk]

/-! ### group senders: clauses 2 and 3 over whole histories, on the store

`group_forward_accepted` / `group_behind_window_rejected` are one-step facts relative to the
window's `max`. Over a whole tracking period (any interleaving with other senders, `store_period`)
`max` IS the wire value of the largest position accepted so far (`GInv`), so they become: a counter
ahead of the largest accepted value by 1 … 2³¹−1 (cyclically) is accepted; one behind it by more
than the window (and up to 2³¹) is rejected. -/

/-- window state after a sequence of counters (the state `runW` threads) -/
def stateW : RxState → List Nat → RxState
  | s, [] => s
  | s, c :: cs => stateW (postRecvRoll s c).1 cs

theorem runG_state (cs : List Nat) : ∀ (g : G) (w : List Nat), (runG g w cs).1.s = stateW g.s cs := by
  induction cs with
  | nil => intro g w; rfl
  | cons c cs ih => intro g w; simp only [runG, stateW]; rw [ih, (stepG_erases g c).2]

/-- `store_period` with the window state: while the sender stays tracked its entry holds exactly the
state of its own window run in isolation over its own counters -/
theorem store_period_state (f n : Nat) : ∀ (ms : List Msg) (g : GStore) (e : GEntry),
    (keys g.entries).Nodup → track g.entries f n = some e → StillTracked f n g ms →
    ∃ e', track (storeRun g ms).1.entries f n = some e' ∧ e'.rx = stateW e.rx (own f n ms) := by
  intro ms
  induction ms with
  | nil => intro g e _ he _; exact ⟨e, he, rfl⟩
  | cons m ms ih =>
    intro g e hnd he hst
    obtain ⟨f', n', c⟩ := m
    have hnd' := store_keys_nodup g f' n' c hnd
    simp only [StillTracked] at hst
    simp only [storeRun, own]
    by_cases hk : f' = f ∧ n' = n
    · obtain ⟨rfl, rfl⟩ := hk
      obtain ⟨_, e', he', hrx⟩ := (store_step_own g f' n' c).1 e he
      simp only [and_self, ↓reduceIte, stateW]
      obtain ⟨e'', h1, h2⟩ := ih _ e' hnd' he' hst.2
      exact ⟨e'', h1, by rw [h2, hrx]⟩
    · simp only [hk, ↓reduceIte]
      rcases store_step_other g f n f' n' c hk hnd with h | h
      · exact ih _ e hnd' (by rw [h]; exact he) hst.2
      · have := hst.1; rw [h.1] at this; simp at this

/-- the verdict of the store on the NEXT message of a sender that has stayed tracked since its
trust-first admission is the verdict of its own window, whose state is that of `runG` -/
theorem store_own_next (g : GStore) (f n first : Nat) (mid : List Msg) (c : Nat)
    (hnd : (keys g.entries).Nodup) (hun : track g.entries f n = none)
    (hst : StillTracked f n (g.postRecv f n first).1 mid) :
    ((storeRun (g.postRecv f n first).1 mid).1.postRecv f n c).2 =
      (postRecvRoll (runG (gInit first) [first] (own f n mid)).1.s c).2 := by
  obtain ⟨_, e', he', hrx⟩ := (store_step_own g f n first).2 hun
  obtain ⟨e'', h1, h2⟩ := store_period_state f n mid _ e' (store_keys_nodup g f n first hnd) he' hst
  rw [((store_step_own _ f n c).1 e'' h1).1, h2, hrx, runG_state]
  rfl

/-- **Clause 3 for a tracked group sender, whole histories, on the store**: after any tracking
period (any interleaving with other senders), `G.P` is the largest position the sender's window
accepted, the window's `max` is its wire value, and a counter AHEAD of it by 1 … 2³¹−1 (cyclically)
is accepted by the store. -/
theorem store_newer_accepted (g : GStore) (f n first : Nat) (mid : List Msg) (c : Nat)
    (hnd : (keys g.entries).Nodup) (hun : track g.entries f n = none)
    (hst : StillTracked f n (g.postRecv f n first).1 mid)
    (hf : first < U32) (hc : ∀ c ∈ own f n mid, c < U32) :
    let G' := (runG (gInit first) [first] (own f n mid)).1
    (∀ a ∈ G'.acc, a ≤ G'.P) ∧ G'.P ∈ G'.acc ∧ G'.s.max = G'.P % U32 ∧
    (c ≠ G'.s.max → (c + U32 - G'.s.max) % U32 ≤ I32MAX →
      ((storeRun (g.postRecv f n first).1 mid).1.postRecv f n c).2 = true) := by
  intro G'
  have h := (runG_inv (own f n mid) (gInit first) [first] (first + U32) hc (ginv_init first hf)
    (by
      have h0 : (first + U32) % U32 = first := by rw [U32_eq] at *; omega
      simp only [gInit, List.map_cons, List.map_nil, h0])).1
  refine ⟨fun a ha => (h.range a ha).2, h.maxIn, h.maxEq, fun hne hfw => ?_⟩
  rw [store_own_next g f n first mid c hnd hun hst]
  exact group_forward_accepted _ c h.synced hne hfw

/-- **Clause 2 for a tracked group sender, whole histories, on the store**: a counter BEHIND the
largest accepted value by more than the window (cyclically: not ahead by ≤ 2³¹−1 and more than 16
behind) is rejected by the store and changes nothing in the sender's window. -/
theorem store_behind_window_rejected (g : GStore) (f n first : Nat) (mid : List Msg) (c : Nat)
    (hnd : (keys g.entries).Nodup) (hun : track g.entries f n = none)
    (hst : StillTracked f n (g.postRecv f n first).1 mid)
    (hf : first < U32) (hc : ∀ c ∈ own f n mid, c < U32) :
    let G' := (runG (gInit first) [first] (own f n mid)).1
    ¬ (c + U32 - G'.s.max) % U32 ≤ I32MAX → ¬ (G'.s.max + U32 - c) % U32 ≤ L →
      ((storeRun (g.postRecv f n first).1 mid).1.postRecv f n c).2 = false := by
  intro G' hfw hbw
  have h := (runG_inv (own f n mid) (gInit first) [first] (first + U32) hc (ginv_init first hf)
    (by
      have h0 : (first + U32) % U32 = first := by rw [U32_eq] at *; omega
      simp only [gInit, List.map_cons, List.map_nil, h0])).1
  rw [store_own_next g f n first mid c hnd hun hst]
  exact (group_behind_window_rejected _ c h.synced hfw hbw).1

/-- non-vacuity: sender (1,0) admitted at 2³²−3 on a store that already tracks (2,7), other traffic in
between; it rolled over to 2; then 40 (ahead) is accepted and 2³²−30 (more than 16 behind 2) is not -/
example :
    let g := (storeRun GStore.empty [(2, 7, 1)]).1
    let mid : List Msg := [(2, 7, 2), (1, 0, 2), (3, 3, 3)]
    (keys g.entries).Nodup ∧ track g.entries 1 0 = none ∧
    StillTracked 1 0 (g.postRecv 1 0 4294967293).1 mid ∧
    (runG (gInit 4294967293) [4294967293] (own 1 0 mid)).1.s.max = 2 ∧
    ((storeRun (g.postRecv 1 0 4294967293).1 mid).1.postRecv 1 0 40).2 = true ∧
    ((storeRun (g.postRecv 1 0 4294967293).1 mid).1.postRecv 1 0 4294967266).2 = false := by decide


/-! ## Non-vacuity of the hypotheses of the whole-history theorems -/

/-- `tracking_ends_only_by_lru_eviction`: a full store (16 senders), sender (1,0) tracked and heard
longest ago; a 17th, untracked sender evicts exactly it. -/
example :
    let g := (storeRun GStore.empty ((List.range 16).map fun i => ((1 : Nat), i, (7 : Nat)))).1
    (keys g.entries).Nodup ∧ (track g.entries 1 0).isSome ∧
      track (g.postRecv 2 0 9).1.entries 1 0 = none ∧ lruIdx g.entries = 0 := by decide

/-- `store_no_double_accept`: the cycle bound holds on a concrete period that rolls over. -/
example : (runG (gInit 4294967293) [4294967293] (own 1 0 [(1, 0, 2), (2, 5, 2), (1, 0, 4294967294), (1, 0, 2)])).1.P
    - (4294967293 + U32) < U32 := by decide

/-- `plain_restart_accepted`, `plain_no_double_accept`, `plain_newer_accepted`, `plain_in_window_once`:
their hypotheses on the epoch state reached by `100, 99, 50, 52`. -/
example :
    let p := specPlainState PSpec.init [100, 99, 50, 52]
    p = { acc := [52, 50] } ∧ (52 ∈ p.acc ∧ 10 + L < 52) ∧
      (50 ∈ p.acc ∧ p.isRestart 50 = false) ∧ (∀ a ∈ p.acc, a < 60) ∧ 49 ∉ p.acc := by decide

end C04
