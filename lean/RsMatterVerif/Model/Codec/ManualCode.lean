import RsMatterVerif.Generated.Consts
import RsMatterVerif.Model.Codec.Verhoeff
/-!
# Model of the manual pairing code: `pairing/code.rs` `compute_pairing_code` (11 digits) and
`pairing/qr.rs` `QrPayload::parse_pairing_code` (11 / 21 digits)
Strings are lists of code points (`code.chars()`), ASCII digits are 48..57.
-/
namespace Codec.ManualCode
open Codec

/-- decimal digits of `n`, most significant first, exactly `w` of them (value mod 10^w) -/
def fixedDigits : Nat → Nat → List Nat
  | 0, _ => []
  | w + 1, n => (48 + n / 10 ^ w % 10) :: fixedDigits w n

/-- `{:0>w}` of an unsigned value: at least `w` digits, zero padded, never truncated -/
def fmtPad (w n : Nat) : List Nat :=
  if n < 10 ^ w then fixedDigits w n else (Nat.toDigits 10 n).map Char.toNat

/-- second half of `compute_pairing_code`: the ten digits went into a `heapless::String<10>`, then the
digits and the Verhoeff check digit go into a `heapless::String<11>`; both capacities are checked by
`write_unwrap!` (a panic). -/
def finish (digits : List Nat) : Except Err (List Nat) :=
  if digits.length > 10 then .error .panic
  else match Verhoeff.calculate digits with
    | .error e => .error e
    | .ok chk =>
      let fin := digits ++ fmtPad 1 chk
      if fin.length > 11 then .error .panic else .ok fin

/-- `compute_pairing_code`. `disc : u16`, `pw : u32`. -/
def encode (disc pw : Nat) : Except Err (List Nat) :=
  let d1 := (disc / 1024) % 256                            -- (0 << 2) | (discriminator >> 10) as u8
  let g2 := (((disc % 65536) / 256 % 4) * 16384) + pw % 16384   -- ((disc & 0x300) << 6) | (pw & 0x3FFF) as u16
  let g3 := pw / 16384                                     -- password >> 14
  finish (fmtPad 1 d1 ++ fmtPad 5 g2 ++ fmtPad 4 g3)

/-- what `parse_pairing_code` returns (observable part of `QrPayload<'_, ()>`) -/
structure Manual where
  short : Nat      -- short_discriminator()
  pass : Nat       -- passcode()
  vid : Nat
  pid : Nat
  long : Bool      -- 21-digit variant (comm_flow = Custom)
deriving DecidableEq, Repr

/-- strip `-` and ` `; reject non-digits and more than 21 digits -/
def strip : List Nat → List Nat → Except Err (List Nat)
  | [], acc => .ok acc
  | ch :: r, acc =>
    if ch = 45 ∨ ch = 32 then strip r acc
    else if !(Verhoeff.isDigit ch) then .error .invalidData
    else if acc.length ≥ Consts.c17ManualLongLen then .error .invalidData
    else strip r (acc ++ [ch])

/-- `str::parse::<u32>` of a run of ASCII digits (at most 5 here: no overflow) -/
def decVal (ds : List Nat) : Nat := ds.foldl (fun a c => 10 * a + (c - 48)) 0

/-- `digits_at(digits, offset, len)`; `.get(offset..offset+len)` out of range → `InvalidData` -/
def digitsAt (ds : List Nat) (off len : Nat) : Except Err Nat :=
  if off + len ≤ ds.length then .ok (decVal ((ds.drop off).take len)) else .error .invalidData

def parse (code : List Nat) : Except Err Manual := do
  let ds ← strip code []
  let long ← if ds.length = Consts.c17ManualShortLen then pure false
    else if ds.length = Consts.c17ManualLongLen then pure true else .error .invalidData
  if !(Verhoeff.validate ds) then .error .invalidData else
  let digit1 ← digitsAt ds 0 1
  if digit1 > 7 then .error .invalidData else
  let vidPidPresent := digit1 / 4 = 1
  if vidPidPresent ≠ (long = true) then .error .invalidData else
  let disc1110 := digit1 % 4
  let group ← digitsAt ds 1 5
  if group > 65535 then .error .invalidData else
  let disc98 := group / 16384 % 4
  let passLow := group % 16384
  let passHigh ← digitsAt ds 6 4
  if passHigh > 8191 then .error .invalidData else
  let pass := passHigh * 16384 + passLow      -- (high << 14) | low, low < 2^14
  let short := disc1110 * 4 + disc98          -- (d << 2) | e, e < 4
  if long then do
    let vid ← digitsAt ds 10 5
    let pid ← digitsAt ds 15 5
    if vid > 65535 ∨ pid > 65535 then .error .invalidData
    else pure { short := short, pass := pass, vid := vid, pid := pid, long := true }
  else pure { short := short, pass := pass, vid := 0, pid := 0, long := false }

/-- Specification-side encoder of the 21-digit variant (rs-matter has no encoder for it): used only
to state that the decoder inverts the format of the Matter specification. -/
def specEncodeLong (disc pw vid pid : Nat) : Except Err (List Nat) :=
  let d1 := 4 + disc / 1024
  let g2 := ((disc / 256 % 4) * 16384) + pw % 16384
  let g3 := pw / 16384
  let digits := fixedDigits 1 d1 ++ fixedDigits 5 g2 ++ fixedDigits 4 g3 ++ fixedDigits 5 vid ++ fixedDigits 5 pid
  match Verhoeff.calculate digits with
  | .error e => .error e
  | .ok chk => .ok (digits ++ fixedDigits 1 chk)

end Codec.ManualCode
