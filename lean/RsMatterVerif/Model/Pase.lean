import RsMatterVerif.Generated.Consts
/-!
# Model of the PASE responder and the commissioning window (C02)

Transliteration of
* `sc/pase.rs`            `Pase::{open_basic_comm_window, close_comm_window, check_comm_window_timeout,
                           record_pake_failure}`, `SessionEstTimeout` (the single in-progress marker),
* `sc/pase/responder.rs`  `PaseResponder::{handle, handle_inner, update_session_timeout,
                           handle_pbkdfparamrequest, handle_pasepake1, handle_pasepake3}`,
* `lib.rs`                `Matter::mdns_services` (commissionable record iff a window is present).

One responder task exists per exchange (`tasks`); a task that returns is removed. Time is a `Nat`
of milliseconds. **SPAKE2+ is symbolic**: the confirmation value the responder expects is the free
term `Conf pw ctx pA pB` (= `cA = MAC(KcA(w0,w1,pA,pB,TT(ctx)))`): it equals a received value only
if passcode class, transcript, and both shares coincide; `Pt` distinguishes a valid prover share
from the identity / off-curve / unparsable ones `setup_verifier` and the TLV layer refuse.

Not modelled: session-table exhaustion (`ReservedSession::reserve` failing), MRP retransmissions
(duplicates never reach the handler), the enhanced (verifier-supplied) window, fail-safe arming.
Import-free apart from the generated constants.
-/
namespace Pase

def estTimeoutMs : Nat := Consts.paseSessionEstTimeoutSecs * 1000
def maxFailures : Nat := Consts.maxPakeFailures
def minWindowSecs : Nat := Consts.minCommWindowTimeoutMins * 60
def maxWindowSecs : Nat := Consts.maxCommWindowTimeoutMins * 60

/-- the prover's share `pA` as the responder sees it -/
inductive Pt
  | valid (id : Nat)
  | identity
  | offCurve
  /-- not a 65-byte octet string / TLV does not parse -/
  | malformed
deriving Repr, DecidableEq, Inhabited

/-- `cA` of the handshake `(passcode class, transcript, pA, pB)` — a free constructor -/
structure Conf where
  pw : Nat
  ctx : Nat
  pA : Nat
  pB : Nat
deriving Repr, DecidableEq, Inhabited

/-- what arrives in Pake3 -/
inductive CA
  | mac (c : Conf)
  /-- 32 bytes that are no confirmation value of any handshake (bit flips, zeros, …) -/
  | junk (n : Nat)
  /-- wrong length / TLV does not parse -/
  | malformed
deriving Repr, DecidableEq, Inhabited

inductive Req
  | good
  | malformed
  | passcodeIdNonZero
deriving Repr, DecidableEq, Inhabited

structure Window where
  /-- identity of this window instance (`mdns_id`, drawn when the window is opened) -/
  id : Nat
  /-- passcode class (passcode, salt, iterations) the verifier was derived from -/
  pw : Nat
  expiry : Nat
  failures : Nat
deriving Repr, DecidableEq, Inhabited

structure Marker where
  exch : Nat
  deadline : Nat
deriving Repr, DecidableEq, Inhabited

inductive Stage
  | waitPake1 (ctx : Nat)
  /-- `wid` = `comm_window_id`: the window whose verifier answered Pake1 -/
  | waitPake3 (expected : Conf) (wid : Nat)
deriving Repr, DecidableEq, Inhabited

structure Task where
  exch : Nat
  stage : Stage
deriving Repr, DecidableEq, Inhabited

/-- an established PASE session; ghost fields record how it came to be -/
structure Sess where
  exch : Nat
  conf : Conf
  /-- ghost: was a window present and unexpired when the session was created? -/
  windowOpenAtCreation : Bool
  /-- ghost: was that window the one whose verifier the proof is for? -/
  sameWindowAtCreation : Bool
deriving Repr, DecidableEq, Inhabited

structure St where
  now : Nat := 0
  window : Option Window := none
  marker : Option Marker := none
  tasks : List Task := []
  sessions : List Sess := []
  /-- source of fresh transcript ids / responder shares (responder random, `pB`) -/
  fresh : Nat := 0
deriving Repr, DecidableEq, Inhabited

inductive Op
  /-- `open_basic_comm_window` with the verifier of passcode class `pw` -/
  | openWin (pw secs : Nat)
  /-- `close_comm_window` (RevokeCommissioning) -/
  | revoke
  | tick (ms : Nat)
  /-- the periodic `check_comm_window_timeout` -/
  | poll
  /-- PBKDFParamRequest opening exchange `x` -/
  | pbkdf (x : Nat) (r : Req)
  | pake1 (x : Nat) (p : Pt)
  | pake3 (x : Nat) (c : CA)
  /-- any other message on exchange `x` (status report, wrong opcode) -/
  | other (x : Nat)
  /-- the exchange dies under the responder (`recv_fetch` errs: receive timeout, peer gone) -/
  | dead (x : Nat)
deriving Repr, DecidableEq, Inhabited

inductive Out
  | none
  | ok
  | errBusy
  | errInvalidCommand
  | pbkdfResp (ctx : Nat)
  | pake2 (pB : Nat)
  | statusSuccess
  | statusInvalidParameter
  | statusBusy
  | statusSessionNotFound
  /-- silently dropped -/
  | dropped
deriving Repr, DecidableEq, Inhabited

/-- `Pase::check_comm_window_timeout` -/
def checkWindowTimeout (s : St) : St :=
  match s.window with
  | some w => if s.now > w.expiry then { s with window := none } else s
  | none => s

/-- `Pase::record_pake_failure` -/
def recordFailure (s : St) : St :=
  let s := { s with marker := none }
  match s.window with
  | some w =>
    let f := w.failures + 1   -- u8 saturating; never reaches 255 (revoked at `maxFailures`)
    if f ≥ maxFailures then { s with window := none }
    else { s with window := some { w with failures := f } }
  | none => s

def removeTask (s : St) (x : Nat) : St := { s with tasks := s.tasks.filter (·.exch != x) }
def setTask (s : St) (t : Task) : St := { s with tasks := t :: s.tasks.filter (·.exch != t.exch) }
def findTask (s : St) (x : Nat) : Option Task := s.tasks.find? (·.exch == x)

/-- the task of exchange `x` ends with `Ok(false) | Err(_)`: `handle` charges a failure -/
def failTask (s : St) (x : Nat) : St := recordFailure (removeTask s x)

/-- `update_session_timeout`: `none` = go on, `some status` = the task answers `status` and returns `Ok(true)` -/
def updateSessionTimeout (s : St) (x : Nat) (new : Bool) : St × Option Out :=
  let s := match s.marker with
    | some m => if s.now > m.deadline then { s with marker := none } else s
    | none => s
  match s.marker with
  | some m =>
    if m.exch != x then (s, some .statusBusy)
    else ({ s with marker := some { exch := x, deadline := s.now + estTimeoutMs } }, none)
  | none =>
    if new then ({ s with marker := some { exch := x, deadline := s.now + estTimeoutMs } }, none)
    else (s, some .statusSessionNotFound)

def windowOpenNow (s : St) : Bool :=
  match s.window with
  | some w => s.now ≤ w.expiry
  | none => false

def step (s : St) : Op → St × Out
  | .openWin pw secs =>
    if s.window.isSome then (s, .errBusy)
    else if secs < minWindowSecs || secs > maxWindowSecs then (s, .errInvalidCommand)
    else ({ s with window := some { id := s.fresh, pw := pw, expiry := s.now + secs * 1000, failures := 0 },
                   fresh := s.fresh + 1 }, .ok)
  | .revoke => ({ s with window := none }, .ok)
  | .tick ms => ({ s with now := s.now + ms }, .none)
  | .poll => (checkWindowTimeout s, .none)
  | .pbkdf x r =>
    match findTask s x with
    | some _ =>
      -- a PBKDFParamRequest where Pake1 / Pake3 is expected: handled like any other wrong message
      let (s, st) := updateSessionTimeout s x false
      match st with
      | some o => (removeTask s x, o)
      | none => (failTask s x, .statusInvalidParameter)
    | none =>
      let (s, st) := updateSessionTimeout s x true
      match st with
      | some o => (s, o)
      | none =>
        let s := checkWindowTimeout s
        match s.window with
        | none => ({ s with marker := none }, .dropped)
        | some _ =>
          match r with
          | .good =>
            let ctx := s.fresh
            (setTask { s with fresh := s.fresh + 1 } { exch := x, stage := .waitPake1 ctx }, .pbkdfResp ctx)
          | _ => (recordFailure s, .none)
  | .pake1 x p =>
    match findTask s x with
    | none => (s, .none)
    | some t =>
      let (s, st) := updateSessionTimeout s x false
      match st with
      | some o => (removeTask s x, o)
      | none =>
        match t.stage with
        | .waitPake3 _ _ => (failTask s x, .statusInvalidParameter)   -- expect_opcode(PASEPake3) fails
        | .waitPake1 ctx =>
          if p = .malformed then (failTask s x, .none) else
          let s := checkWindowTimeout s
          match s.window with
          | none => (removeTask { s with marker := none } x, .dropped)
          | some w =>
            match p with
            | .valid a =>
              let pB := s.fresh
              let exp : Conf := { pw := w.pw, ctx := ctx, pA := a, pB := pB }
              (setTask { s with fresh := s.fresh + 1 } { exch := x, stage := .waitPake3 exp w.id }, .pake2 pB)
            | _ => (failTask s x, .none)   -- `setup_verifier`: invalid prover share
  | .pake3 x c =>
    match findTask s x with
    | none => (s, .none)
    | some t =>
      let (s, st) := updateSessionTimeout s x false
      match st with
      | some o => (removeTask s x, o)
      | none =>
        match t.stage with
        | .waitPake1 _ => (failTask s x, .statusInvalidParameter)   -- expect_opcode(PASEPake1) fails
        | .waitPake3 exp wid =>
          if c = .malformed then (failTask s x, .none) else
          -- the window is re-checked before the proof is looked at: gone, expired or another one => drop
          let s := checkWindowTimeout s
          let sameWindow := match s.window with
            | some w => w.id == wid
            | none => false
          if !sameWindow then (removeTask { s with marker := none } x, .dropped)
          else if c = .mac exp then
            -- `Spake2P::verify` succeeded: the session is created and completed
            let sess : Sess := { exch := x, conf := exp, windowOpenAtCreation := windowOpenNow s,
                                 sameWindowAtCreation := sameWindow }
            let s := { s with sessions := s.sessions ++ [sess] }
            (removeTask { s with marker := none } x, .statusSuccess)
          else (failTask { s with marker := none } x, .statusInvalidParameter)
  | .other x =>
    match findTask s x with
    | none => (s, .none)
    | some _ =>
      let (s, st) := updateSessionTimeout s x false
      match st with
      | some o => (removeTask s x, o)
      | none => (failTask s x, .none)
  | .dead x =>
    match findTask s x with
    | none => (s, .none)
    | some _ => (failTask s x, .none)

def run (s : St) : List Op → St
  | [] => s
  | o :: os => run (step s o).1 os

/-- `Matter::mdns_services`: the commissionable record is published iff a window is present -/
def advertised (s : St) : Bool := s.window.isSome

end Pase
