//! Shared interpreter for the transport properties (C09 / C10 / C15 / C20).
//!
//! Two case kinds:
//!  `tab`  a real `Matter` object; ops drive the real session table (`Sessions`), real `Session`
//!         methods, real `ReservedSession` and real `Exchange` handles (their `Drop` included)
//!         under virtual time. Every op line carries `<result> # <table snapshot>`.
//!  `mrp`  a bare real `ReliableMessage` / `RetransEntry`. Every op line carries `<result> # <state>`.
//!
//! All ops are total on the text level: references to sessions / handles that do not exist answer
//! `nosess` / `nohandle`, so delta-debugged op lists stay replayable.
use std::panic::{catch_unwind, AssertUnwindSafe};

use crate::proto::{Case, Out};

use embassy_time::{Duration, MockDriver};
use rs_matter::crypto::{test_only_crypto, Crypto};
use rs_matter::dm::devices::test::{TEST_DEV_ATT, TEST_DEV_COMM, TEST_DEV_DET};
use rs_matter::error::{Error, ErrorCode};
use rs_matter::transport::exchange::Exchange;
use rs_matter::transport::mrp::{ReliableMessage, RetransEntry};
use rs_matter::transport::network::{Address, Ipv4Addr, SocketAddr, SocketAddrV4};
use rs_matter::transport::packet::PacketHdr;
use rs_matter::transport::plain_hdr::PlainHdr;
use rs_matter::transport::proto_hdr::ProtoHdr;
use rs_matter::transport::session::{ReservedSession, Session, SessionMode, Sessions};
use rs_matter::Matter;

pub fn err_name(e: &Error) -> String {
    match e.code() {
        ErrorCode::TxTimeout => "TxTimeout".into(),
        ErrorCode::Duplicate => "Duplicate".into(),
        ErrorCode::NoExchange => "NoExchange".into(),
        ErrorCode::NoSession => "NoSession".into(),
        ErrorCode::NoSpaceExchanges => "NoSpaceExchanges".into(),
        ErrorCode::NoSpaceSessions => "NoSpaceSessions".into(),
        c => format!("Other{:?}", c),
    }
}

fn res_key(r: &str) -> String {
    let first = r.split_whitespace().next().unwrap_or("?");
    if first.chars().all(|c| c.is_ascii_digit()) {
        "res_num".into()
    } else if first == "err" {
        format!("res_err_{}", r.split_whitespace().nth(1).unwrap_or("?"))
    } else if first == "ctr" {
        format!("res_tx_rt{}", r.split_whitespace().nth(3).unwrap_or("?"))
    } else {
        format!("res_{}", first)
    }
}

fn addr(port: u16) -> Address {
    Address::Udp(SocketAddr::V4(SocketAddrV4::new(Ipv4Addr::new(10, 0, 0, 1), port)))
}

fn opt_u32(s: &str) -> Option<u32> {
    if s == "-" {
        None
    } else {
        s.parse().ok()
    }
}

fn show_opt<T: std::fmt::Display>(o: Option<T>) -> String {
    match o {
        Some(v) => v.to_string(),
        None => "-".into(),
    }
}

/// Build the proto header of a synthetic message. `opc`: `n` = an Interaction Model request
/// (may open an exchange), `a` = MRP standalone ack, `s` = secure-channel status report.
fn set_opcode(proto: &mut ProtoHdr, opc: &str) {
    match opc {
        "a" => {
            proto.proto_id = 0;
            proto.proto_opcode = 0x10;
        }
        "s" => {
            proto.proto_id = 0;
            proto.proto_opcode = 0x40;
        }
        _ => {
            proto.proto_id = 1;
            proto.proto_opcode = 2;
        }
    }
}

pub fn snapshot_session(s: &Session) -> String {
    let (expired, reserved) = s.verif_flags();
    let mode = match s.get_session_mode() {
        SessionMode::PlainText => "x",
        SessionMode::Pase { .. } => "p",
        SessionMode::Case { .. } => "c",
        _ => "g",
    };
    let port = match s.get_peer_addr() {
        Address::Udp(a) => a.port(),
        _ => 0,
    };
    let mut out = format!(
        "s{} l{} c{} {}{} {} P{}",
        s.id(),
        s.get_local_sess_id(),
        s.verif_msg_ctr(),
        if expired { "e" } else { "-" },
        if reserved { "r" } else { "-" },
        mode,
        port
    );
    for e in s.verif_exchanges() {
        match e {
            None => out.push_str(" [-]"),
            Some((id, role, rt, ak)) => {
                out.push_str(&format!(
                    " [{} {} t{} a{}]",
                    id,
                    role,
                    rt.map(|(c, n)| format!("{}/{}", c, n)).unwrap_or("-".into()),
                    ak.map(|(c, a)| format!("{}/{}", c, if a { 1 } else { 0 })).unwrap_or("-".into())
                ));
            }
        }
    }
    out
}

pub fn snapshot(ss: &Sessions) -> String {
    let (n, x) = ss.verif_next_ids();
    let mut out = format!("n{} x{} ::", n, x);
    for s in ss.iter() {
        out.push(' ');
        out.push_str(&snapshot_session(s));
        out.push_str(" |");
    }
    out
}

struct World<'a, C: Crypto> {
    matter: &'a Matter<'a>,
    crypto: &'a C,
    reserved: Vec<(u32, ReservedSession<'a>)>,
    exchanges: Vec<(u32, Exchange<'a>)>,
}

fn handle(tok: Option<&str>) -> Option<u32> {
    tok.and_then(|t| t.get(1..)).and_then(|t| t.parse().ok())
}

impl<'a, C: Crypto> World<'a, C> {
    fn sessions<R>(&self, f: impl FnOnce(&mut Sessions) -> R) -> R {
        self.matter.with_state(|st| f(st.verif_sessions_mut()))
    }

    fn op(&mut self, op: &str) -> String {
        let w: Vec<&str> = op.split_whitespace().collect();
        if w.is_empty() {
            return "bad".into();
        }
        let num = |i: usize| -> u64 { w.get(i).and_then(|t| t.parse().ok()).unwrap_or(0) };
        match w[0] {
            "t" => {
                MockDriver::get().advance(Duration::from_millis(num(1)));
                "ok".into()
            }
            "add" => self.sessions(|ss| {
                match ss.add(num(1) as u32, num(2) != 0, addr(num(3) as u16), Some(1), &TEST_DEV_DET) {
                    Ok(s) => format!("id {}", s.id()),
                    Err(e) => format!("err {}", err_name(&e)),
                }
            }),
            "rsv" => {
                let Some(h) = handle(w.get(1).copied()) else { return "bad".into() };
                if self.reserved.iter().any(|(k, _)| *k == h) {
                    return "dup-handle".into();
                }
                match ReservedSession::reserve_now(self.matter, self.crypto) {
                    Ok(r) => {
                        // the id and the random initial counter are read back from the table
                        let (id, ctr) = self.sessions(|ss| {
                            let s = ss.iter().last().unwrap();
                            (s.id(), s.verif_msg_ctr())
                        });
                        self.reserved.push((h, r));
                        format!("id {} ctr {}", id, ctr)
                    }
                    Err(e) => format!("err {}", err_name(&e)),
                }
            }
            "upd" => {
                let Some(h) = handle(w.get(1).copied()) else { return "bad".into() };
                let mode = match w.get(4).copied().unwrap_or("p") {
                    "c" => SessionMode::Case { fab_idx: core::num::NonZeroU8::new(1).unwrap(), cat_ids: Default::default() },
                    "x" => SessionMode::PlainText,
                    _ => SessionMode::Pase { fab_idx: 0 },
                };
                let (ls, ps) = (num(2) as u16, num(3) as u16);
                match self.reserved.iter_mut().find(|(k, _)| *k == h) {
                    None => "nohandle".into(),
                    Some((_, r)) => match r.update(0, 1, ps, ls, addr(ps), mode, None, None, None, None) {
                        Ok(()) => "ok".into(),
                        Err(e) => format!("err {}", err_name(&e)),
                    },
                }
            }
            // `complete()` while the handle stays alive: the handshake still waits for the
            // acknowledgement of its last message
            "cpl" => {
                let Some(h) = handle(w.get(1).copied()) else { return "bad".into() };
                match self.reserved.iter_mut().find(|(k, _)| *k == h) {
                    None => "nohandle".into(),
                    Some((_, r)) => {
                        r.complete();
                        "ok".into()
                    }
                }
            }
            "cmp" | "drp" => {
                let Some(h) = handle(w.get(1).copied()) else { return "bad".into() };
                match self.reserved.iter().position(|(k, _)| *k == h) {
                    None => "nohandle".into(),
                    Some(i) => {
                        let (_, mut r) = self.reserved.remove(i);
                        if w[0] == "cmp" {
                            r.complete();
                        }
                        match catch_unwind(AssertUnwindSafe(move || drop(r))) {
                            Ok(()) => "ok".into(),
                            Err(_) => "panic".into(),
                        }
                    }
                }
            }
            "rm" => self.sessions(|ss| if ss.remove(num(1) as u32).is_some() { "ok".into() } else { "none".into() }),
            "sid" => self.sessions(|ss| ss.get_next_sess_id().to_string()),
            "xid" => {
                let c = self.crypto;
                self.sessions(|ss| match ss.get_next_exch_id(c) {
                    Ok(x) => x.to_string(),
                    Err(e) => format!("err {}", err_name(&e)),
                })
            }
            "setsid" => self.sessions(|ss| {
                ss.verif_set_next_sess_id(num(1) as u16);
                "ok".into()
            }),
            "setxid" => self.sessions(|ss| {
                ss.verif_set_next_exch_id(num(1) as u16);
                "ok".into()
            }),
            "lsid" | "mode" | "exp" | "setctr" => {
                let id = num(1) as u32;
                let arg = w.get(2).copied().unwrap_or("");
                // goes through `Sessions::get`, i.e. touches `last_use` (the model does the same)
                self.sessions(|ss| {
                    let Some(now_touch) = ss.get(id) else { return "nosess".to_string() };
                    match w[0] {
                        "lsid" => now_touch.verif_set_local_sess_id(arg.parse().unwrap_or(0)),
                        "mode" => now_touch.verif_set_session_mode(match arg {
                            "c" => SessionMode::Case { fab_idx: core::num::NonZeroU8::new(1).unwrap(), cat_ids: Default::default() },
                            "x" => SessionMode::PlainText,
                            _ => SessionMode::Pase { fab_idx: 0 },
                        }),
                        "exp" => now_touch.verif_set_expired_t(true),
                        _ => now_touch.verif_set_msg_ctr(arg.parse().unwrap_or(0)),
                    }
                    "ok".to_string()
                })
            }
            "init" => {
                let Some(h) = handle(w.get(2).copied()) else { return "bad".into() };
                if self.exchanges.iter().any(|(k, _)| *k == h) {
                    return "dup-handle".into();
                }
                let m = self.matter;
                let c = self.crypto;
                match catch_unwind(AssertUnwindSafe(|| Exchange::initiate_for_session(m, c, num(1) as u32))) {
                    Err(_) => "panic".into(),
                    Ok(Err(e)) => format!("err {}", err_name(&e)),
                    Ok(Ok(ex)) => {
                        let (sid, idx) = ex.verif_ids();
                        let xid = self.sessions(|ss| {
                            ss.iter().find(|s| s.id() == sid).and_then(|s| s.verif_exchanges()[idx].map(|e| e.0)).unwrap_or(0)
                        });
                        self.exchanges.push((h, ex));
                        format!("x {} {}", xid, idx)
                    }
                }
            }
            "acc" => {
                let Some(h) = handle(w.get(3).copied()) else { return "bad".into() };
                if self.exchanges.iter().any(|(k, _)| *k == h) {
                    return "dup-handle".into();
                }
                let (id, idx) = (num(1) as u32, num(2) as usize);
                let ok = self.sessions(|ss| match ss.get(id) {
                    Some(s) => s.verif_accept_exch(idx),
                    None => false,
                });
                if ok {
                    self.exchanges.push((h, Exchange::verif_new(self.matter, id, idx)));
                    "ok".into()
                } else {
                    "no".into()
                }
            }
            "xdrop" => {
                let Some(h) = handle(w.get(1).copied()) else { return "bad".into() };
                match self.exchanges.iter().position(|(k, _)| *k == h) {
                    None => "nohandle".into(),
                    Some(i) => {
                        let (_, ex) = self.exchanges.remove(i);
                        match catch_unwind(AssertUnwindSafe(move || drop(ex))) {
                            Ok(()) => "ok".into(),
                            Err(_) => "panic".into(),
                        }
                    }
                }
            }
            // rx <sess> <ctr> <exch> <I|R> <ack|-> <r|u> <n|a|s>
            "rx" => {
                let mut hdr = PacketHdr::new();
                hdr.plain.ctr = num(2) as u32;
                hdr.proto.exch_id = num(3) as u16;
                if w.get(4).copied() == Some("I") {
                    hdr.proto.set_initiator();
                }
                hdr.proto.set_ack(w.get(5).and_then(|t| opt_u32(t)));
                if w.get(6).copied() == Some("r") {
                    hdr.proto.set_reliable();
                }
                set_opcode(&mut hdr.proto, w.get(7).copied().unwrap_or("n"));
                let id = num(1) as u32;
                self.sessions(|ss| match ss.get(id) {
                    None => "nosess".into(),
                    Some(s) => match catch_unwind(AssertUnwindSafe(|| s.verif_post_recv(&hdr))) {
                        Err(_) => "panic".into(),
                        Ok(Ok(true)) => "new".into(),
                        Ok(Ok(false)) => "old".into(),
                        Ok(Err(e)) => format!("err {}", err_name(&e)),
                    },
                })
            }
            // tx <sess> <slot|-> <r|u> <hdr ack|-> <n|a|s> [sai]
            "tx" => {
                let mut hdr = PacketHdr::new();
                if w.get(3).copied() == Some("r") {
                    hdr.proto.set_reliable();
                }
                hdr.proto.set_ack(w.get(4).and_then(|t| opt_u32(t)));
                set_opcode(&mut hdr.proto, w.get(5).copied().unwrap_or("n"));
                let sai = w.get(6).and_then(|t| opt_u32(t));
                let slot: Option<usize> = w.get(2).and_then(|t| t.parse().ok());
                let id = num(1) as u32;
                self.sessions(|ss| match ss.get(id) {
                    None => "nosess".into(),
                    Some(s) => match catch_unwind(AssertUnwindSafe(|| s.verif_pre_send_t(slot, &mut hdr, sai, None))) {
                        Err(_) => "panic".into(),
                        Ok(Ok((_, retr))) => format!(
                            "ctr {} rt {} ack {} sid {}",
                            hdr.plain.ctr,
                            if retr { 1 } else { 0 },
                            show_opt(hdr.proto.get_ack()),
                            hdr.plain.sess_id
                        ),
                        Ok(Err(e)) => format!("err {}", err_name(&e)),
                    },
                })
            }
            "evict" => self.sessions(|ss| match ss.get_session_for_eviction() {
                Some(s) => format!("id {}", s.id()),
                None => "none".into(),
            }),
            // evict + remove, as `write_evict_some_session_packet` does (without the close-session packet)
            "evictrm" => self.sessions(|ss| {
                let id = ss.get_session_for_eviction().map(|s| s.id());
                match id {
                    Some(id) => {
                        ss.remove(id);
                        format!("id {}", id)
                    }
                    None => "none".into(),
                }
            }),
            // swa|swo <port> <local sess id> <exch> <I|R>: accept-timeout / orphan sweep on an occupied RX slot
            "swa" | "swo" => {
                let mut hdr = PacketHdr::new();
                hdr.plain.sess_id = num(2) as u16;
                hdr.proto.exch_id = num(3) as u16;
                if w.get(4).copied() == Some("I") {
                    hdr.proto.set_initiator();
                }
                let runner = self.matter.transport_runner(self.crypto);
                if runner.verif_sweep_rx(w[0] == "swo", addr(num(1) as u16), &hdr) { "cleared".into() } else { "kept".into() }
            }
            // the closer of dropped exchanges: `handle_dropped_exchange`
            "swd" => {
                let runner = self.matter.transport_runner(self.crypto);
                match runner.verif_handle_dropped_exchange() {
                    (Err(e), _) => format!("err {}", err_name(&e)),
                    (Ok(true), _) => "none".into(),
                    (Ok(false), None) => "exch".into(),
                    (Ok(false), Some((hdr, _))) => {
                        if hdr.proto.proto_id == 0 && hdr.proto.proto_opcode == 0x10 {
                            format!("exch ack {} ctr {} x {}", show_opt(hdr.proto.get_ack()), hdr.plain.ctr, hdr.proto.exch_id)
                        } else {
                            format!("sess x {} ctr {}", hdr.proto.exch_id, hdr.plain.ctr)
                        }
                    }
                }
            }
            // leak check marker at quiescence: no action, the driver's oracle inspects the snapshot
            "qchk" => "ok".into(),
            // lookup of the owner of a received message: `get_exch_for_rx`
            "own" => {
                let mut hdr = PacketHdr::new();
                hdr.proto.exch_id = num(2) as u16;
                if w.get(3).copied() == Some("I") {
                    hdr.proto.set_initiator();
                }
                let id = num(1) as u32;
                self.sessions(|ss| match ss.iter().find(|s| s.id() == id) {
                    None => "nosess".into(),
                    Some(s) => show_opt(s.verif_get_exch_for_rx(&hdr.proto)),
                })
            }
            _ => "bad".into(),
        }
    }
}

/// Run one `tab` case: `f` receives an `exec(op) -> "<result> # <snapshot>"` function, so that a
/// generator can choose the next op from what the real code answered; replay just feeds the ops.
pub fn run_tab_with(out: &mut Out, f: &mut dyn FnMut(&mut dyn FnMut(&str) -> String)) {
    MockDriver::get().reset();
    // keep `Instant::now()` away from 0
    MockDriver::get().advance(Duration::from_millis(1000));
    let matter = Box::new(Matter::new(&TEST_DEV_DET, TEST_DEV_COMM, &TEST_DEV_ATT, 0));
    let crypto = test_only_crypto();
    let mut w = World { matter: &matter, crypto: &crypto, reserved: Vec::new(), exchanges: Vec::new() };
    {
        let mut exec = |op: &str| -> String {
            let r = match catch_unwind(AssertUnwindSafe(|| w.op(op))) {
                Ok(r) => r,
                Err(_) => "panic".into(),
            };
            let snap = w.sessions(|ss| snapshot(ss));
            out.stat(&format!("op_{}", op.split_whitespace().next().unwrap_or("?")), 1);
            out.stat(&res_key(&r), 1);
            let full = format!("{} # {}", r, snap);
            out.op(op, &full);
            full
        };
        f(&mut exec);
    }
    // handles die before the table
    let World { reserved, exchanges, .. } = w;
    let _ = catch_unwind(AssertUnwindSafe(move || {
        drop(exchanges);
        drop(reserved);
    }));
}

fn run_tab(out: &mut Out, case: &Case) {
    run_tab_with(out, &mut |exec| {
        for op in &case.ops {
            exec(op);
        }
    });
}

/// Parsed view of a snapshot, for generators.
#[derive(Clone, Debug, Default)]
pub struct GSlot {
    pub id: u32,
    pub role: String,
    pub rt: Option<(u32, u32)>,
    pub ak: Option<(u32, bool)>,
}
#[derive(Clone, Debug, Default)]
pub struct GSess {
    pub uid: u32,
    pub lsid: u32,
    pub ctr: u32,
    pub expired: bool,
    pub reserved: bool,
    pub port: u32,
    pub slots: Vec<Option<GSlot>>,
}
#[derive(Clone, Debug, Default)]
pub struct GSnap {
    pub next_sid: u32,
    pub next_xid: u32,
    pub sessions: Vec<GSess>,
}

pub fn result_of(full: &str) -> &str {
    full.split(" # ").next().unwrap_or("").trim()
}

pub fn parse_snap(full: &str) -> GSnap {
    let snap = full.split(" # ").nth(1).unwrap_or("");
    let mut g = GSnap::default();
    let mut parts = snap.splitn(2, " ::");
    let head: Vec<&str> = parts.next().unwrap_or("").split_whitespace().collect();
    g.next_sid = head.first().and_then(|t| t[1..].parse().ok()).unwrap_or(0);
    g.next_xid = head.get(1).and_then(|t| t[1..].parse().ok()).unwrap_or(0);
    let pair = |t: &str| -> Option<(u32, u32)> {
        let mut it = t.split('/');
        Some((it.next()?.parse().ok()?, it.next()?.parse().ok()?))
    };
    for chunk in parts.next().unwrap_or("").split(" |") {
        let w: Vec<&str> = chunk.split_whitespace().collect();
        if w.len() < 6 {
            continue;
        }
        let mut s = GSess {
            uid: w[0][1..].parse().unwrap_or(0),
            lsid: w[1][1..].parse().unwrap_or(0),
            ctr: w[2][1..].parse().unwrap_or(0),
            expired: w[3].starts_with('e'),
            reserved: w[3].ends_with('r'),
            port: w[5][1..].parse().unwrap_or(0),
            slots: Vec::new(),
        };
        let mut i = 6;
        while i < w.len() {
            if w[i] == "[-]" {
                s.slots.push(None);
                i += 1;
            } else if i + 3 < w.len() {
                s.slots.push(Some(GSlot {
                    id: w[i].trim_start_matches('[').parse().unwrap_or(0),
                    role: w[i + 1].to_string(),
                    rt: pair(&w[i + 2][1..]),
                    ak: pair(w[i + 3].trim_end_matches(']').get(1..).unwrap_or("")).map(|(c, a)| (c, a == 1)),
                }));
                i += 4;
            } else {
                break;
            }
        }
        g.sessions.push(s);
    }
    g
}

fn mrp_state(m: &ReliableMessage) -> String {
    let (rt, ak, rcv) = m.verif_state();
    format!(
        "t{} a{} {}",
        rt.map(|(c, n)| format!("{}/{}", c, n)).unwrap_or("-".into()),
        ak.map(|(c, a)| format!("{}/{}", c, if a { 1 } else { 0 })).unwrap_or("-".into()),
        if rcv { "R" } else { "-" }
    )
}

/// `mrp` cases: ops
///  `ps <ctr> <r|u> <hdr ack|-> <sai|->`   ReliableMessage::pre_send  => `ok ack <a|->` | `err E` | `panic`
///  `pr <ctr> <ack|-> <r|u>`               ReliableMessage::post_recv => `ok` | `err E`
///  `dl <jitter>`                          delay of the pending retransmission => `<ms>` | `none`
///  `bo <base> <count> <jitter>`           RetransEntry::backoff_ms => `<ms>`
///  `t <ms>`                               virtual time
fn run_mrp(out: &mut Out, case: &Case) {
    MockDriver::get().reset();
    MockDriver::get().advance(Duration::from_millis(1000));
    let mut m = ReliableMessage::new();
    for op in &case.ops {
        let w: Vec<&str> = op.split_whitespace().collect();
        let num = |i: usize| -> u64 { w.get(i).and_then(|t| t.parse().ok()).unwrap_or(0) };
        let r: String = match w.first().copied().unwrap_or("") {
            "t" => {
                MockDriver::get().advance(Duration::from_millis(num(1)));
                "ok".into()
            }
            "ps" => {
                let mut plain = PlainHdr::default();
                plain.ctr = num(1) as u32;
                let mut proto = ProtoHdr::new();
                if w.get(2).copied() == Some("r") {
                    proto.set_reliable();
                }
                proto.set_ack(w.get(3).and_then(|t| opt_u32(t)));
                let sai = w.get(4).and_then(|t| opt_u32(t));
                match catch_unwind(AssertUnwindSafe(|| m.pre_send(&plain, &mut proto, sai, None))) {
                    Err(_) => "panic".into(),
                    Ok(Ok(())) => format!("ok ack {}", show_opt(proto.get_ack())),
                    Ok(Err(e)) => format!("err {}", err_name(&e)),
                }
            }
            "pr" => {
                let mut plain = PlainHdr::default();
                plain.ctr = num(1) as u32;
                let mut proto = ProtoHdr::new();
                proto.set_ack(w.get(2).and_then(|t| opt_u32(t)));
                if w.get(3).copied() == Some("r") {
                    proto.set_reliable();
                }
                match catch_unwind(AssertUnwindSafe(|| m.post_recv(&plain, &proto))) {
                    Err(_) => "panic".into(),
                    Ok(Ok(())) => "ok".into(),
                    Ok(Err(e)) => format!("err {}", err_name(&e)),
                }
            }
            "dl" => {
                // the pending entry's own delay (what `Exchange::wait_tx` sleeps)
                let (rt, _, _) = m.verif_state();
                match rt {
                    None => "none".into(),
                    Some(_) => m.verif_retrans_delay_ms(num(1) as u8).map(|d| d.to_string()).unwrap_or("none".into()),
                }
            }
            "bo" => RetransEntry::verif_backoff_ms(num(1) as u32, num(2) as u16, num(3) as u8).to_string(),
            "to" => (m.has_rx_timed_out(num(1)) as u8).to_string(),
            _ => "bad".into(),
        };
        out.stat(&format!("op_{}", w.first().copied().unwrap_or("?")), 1);
        out.stat(&res_key(&r), 1);
        out.op(op, &format!("{} # {}", r, mrp_state(&m)));
    }
}

pub fn run_case(out: &mut Out, case: &Case) {
    out.case(case.id, &case.kind);
    match case.kind.split_whitespace().next().unwrap_or("") {
        "mrp" => run_mrp(out, case),
        _ => run_tab(out, case),
    }
}
