import RsMatterVerif.Model.Codec.CheckIn
import RsMatterVerif.Lemmas.CodecBuf
/-! # Lemmas about the check-in message framing with a symbolic AEAD / HMAC scheme -/
namespace Codec.CheckIn
open Codec

/-- **check-in: `parse k (generate k ctr app) = (ctr, app)`** for every sound scheme -/
theorem parse_generate (S : Scheme) (hS : S.Sound) (key app : List Nat) (ctr cap : Nat)
    (hc : ctr < 4294967296) (hcap : MIN_PAYLOAD_LEN + app.length ≤ cap) :
    ∃ p, generate S key ctr app cap = .ok p ∧ p.length = MIN_PAYLOAD_LEN + app.length ∧
      parse S key p = .ok (ctr, app) := by
  have hn : (nonceOf S key ctr).length = 13 := by
    simp [nonceOf, NONCE_LEN]; have := hS.mac_len key (le32 ctr); omega
  refine ⟨nonceOf S key ctr ++ S.enc key (nonceOf S key ctr) (le32 ctr ++ app), ?_, ?_, ?_⟩
  · simp [generate]; omega
  · simp [hn, hS.enc_len, MIN_PAYLOAD_LEN, NONCE_LEN, COUNTER_LEN, TAG_LEN]; omega
  · have hlen : ¬ ((nonceOf S key ctr ++ S.enc key (nonceOf S key ctr) (le32 ctr ++ app)).length < MIN_PAYLOAD_LEN) := by
      simp [hn, hS.enc_len, MIN_PAYLOAD_LEN, NONCE_LEN, COUNTER_LEN, TAG_LEN]; omega
    have ht : (nonceOf S key ctr ++ S.enc key (nonceOf S key ctr) (le32 ctr ++ app)).take NONCE_LEN = nonceOf S key ctr := by
      simp [NONCE_LEN, ← hn]
    have hd : (nonceOf S key ctr ++ S.enc key (nonceOf S key ctr) (le32 ctr ++ app)).drop NONCE_LEN
        = S.enc key (nonceOf S key ctr) (le32 ctr ++ app) := by
      simp [NONCE_LEN, ← hn]
    have h4 : (le32 ctr ++ app).take COUNTER_LEN = le32 ctr := by simp [COUNTER_LEN, le32]
    have h4' : (le32 ctr ++ app).drop COUNTER_LEN = app := by simp [COUNTER_LEN, le32]
    simp only [parse, hlen, if_false, ht, hd, hS.dec_enc, h4, h4', fromLe_le32 ctr hc]
    simp [COUNTER_LEN]

/-- **check-in: `parse` never panics** (the slice `plaintext[..4]` is in range because an AEAD
plaintext is 16 bytes shorter than its input and the input was checked to be ≥ 20 bytes) -/
theorem parse_np (S : Scheme) (hS : S.Sound) (key payload : List Nat) : NoPanic (parse S key payload) := by
  by_cases hl : payload.length < MIN_PAYLOAD_LEN
  · simp only [parse, hl, if_true]; exact NoPanic.err (by decide)
  · cases hdec : S.dec key (payload.take NONCE_LEN) (payload.drop NONCE_LEN) with
    | none => simp only [parse, hl, if_false, hdec]; exact NoPanic.err (by decide)
    | some pt =>
      have := hS.dec_len _ _ _ _ hdec
      have hpt : ¬ (pt.length < COUNTER_LEN) := by
        simp [MIN_PAYLOAD_LEN, NONCE_LEN, COUNTER_LEN, TAG_LEN] at hl this ⊢; omega
      simp only [parse, hl, if_false, hdec, hpt]
      split
      · exact NoPanic.err (by decide)
      · exact NoPanic.ok _

/-- **check-in: a payload whose nonce is not the one derived from the (authenticated) counter is refused** -/
theorem parse_rejects_wrong_nonce (S : Scheme) (key payload pt : List Nat)
    (hl : ¬ payload.length < MIN_PAYLOAD_LEN)
    (hdec : S.dec key (payload.take NONCE_LEN) (payload.drop NONCE_LEN) = some pt)
    (h4 : ¬ pt.length < COUNTER_LEN)
    (hn : nonceOf S key (fromLe (pt.take COUNTER_LEN)) ≠ payload.take NONCE_LEN) :
    parse S key payload = .error .invalid := by
  simp [parse, hl, hdec, h4, hn]

/-- **check-in: a payload whose tag does not verify is refused** -/
theorem parse_rejects_bad_tag (S : Scheme) (key payload : List Nat) (hl : ¬ payload.length < MIN_PAYLOAD_LEN)
    (hdec : S.dec key (payload.take NONCE_LEN) (payload.drop NONCE_LEN) = none) :
    parse S key payload = .error .invalidData := by
  simp [parse, hl, hdec]

/-- the hypotheses are satisfiable: a (cryptographically useless) sound scheme exists -/
def toyScheme : Scheme :=
  { mac := fun _ d => d ++ List.replicate 13 0
    enc := fun _ _ p => p ++ List.replicate 16 7
    dec := fun _ _ c => if c.length ≥ 16 ∧ c.drop (c.length - 16) = List.replicate 16 7 then some (c.take (c.length - 16)) else none }

theorem toyScheme_sound : toyScheme.Sound where
  mac_len := by intro k d; simp [toyScheme]
  enc_len := by intro k n p; simp [toyScheme]
  dec_enc := by intro k n p; simp [toyScheme]
  dec_len := by
    intro k n c p h
    simp only [toyScheme] at h
    split at h
    · rename_i hc; simp at h; subst h; simp; omega
    · simp at h

end Codec.CheckIn
