//! C06: Interaction-Model path expansion is mediated by the access check.
//!
//! One case = an access-control configuration (the ops of C05: `fab`, `rmfab`, `acl`, `grp`, `gaux`)
//! followed by node metadata and requests run through the real `expand_read` / `expand_write` /
//! `expand_invoke` (the public entry points used by `im.rs`) with real request TLVs.
//!
//!   node <spec>                                        => ok <endpoints>
//!      spec: endpoints joined by `;`, each `id@devtypes@clusters`, devtypes `-` or `d+d`,
//!            clusters joined by `|`, each `id^featuremap^attrs^cmds`, attrs `-` or `id.access.array,..`,
//!            cmds `-` or `id.access,..`.  A leaf is enabled iff bit (id % 32) of the feature map is set
//!            (that is the `with_attrs` / `with_cmds` predicate the harness installs).
//!   x <r|w|i> <fab> <p|c|g|n> <aux> <id> <cats|-> <timed> <excluded|-> <paths>
//!                                                      => outputs joined by ` | `
//!      excluded: triples `ep.cl.leaf,..` rejected by the caller's filter (reads only)
//!      paths: `ep/cl/leaf;..` with `*` for a wildcard component
//!      output element: `ok ep cl leaf w<0|1> a<0|1>` or `st <path> <Status>`; `-` for no output
use crate::proto::{parse_cases, Case, Out};
use crate::rng::Rng;
use crate::Args;

use super::c05;

#[path = "c06_e2e.rs"]
mod e2e;

use rs_matter::acl::{Accessor, AccessorSubjects};
use rs_matter::dm::{Access, Attribute, Cluster, Command, DeviceType, Endpoint, Metadata, Node, Quality};
use std::num::NonZeroU8;
use rs_matter::im::{expand_invoke, expand_read, expand_write, IMStatusCode, InvReq, ReadReq, ReportDataReq, WriteReq};
use rs_matter::tlv::TLVElement;
use rs_matter::Matter;

fn leak<T>(v: Vec<T>) -> &'static [T] {
    Box::leak(v.into_boxed_slice())
}

fn with_leaf_attr(a: &Attribute, _rev: u16, fm: u32) -> bool {
    fm & (1u32 << (a.id % 32)) != 0
}
fn with_leaf_cmd(c: &Command, _rev: u16, fm: u32) -> bool {
    fm & (1u32 << (c.id % 32)) != 0
}
fn with_leaf_event(e: &rs_matter::dm::Event, _rev: u16, fm: u32) -> bool {
    fm & (1u32 << (e.id % 32)) != 0
}

fn parse_node(spec: &str) -> Option<&'static Node<'static>> {
    let mut eps: Vec<Endpoint<'static>> = Vec::new();
    if spec != "-" {
        for e in spec.split(';') {
            let mut it = e.split('@');
            let id: u16 = it.next()?.parse().ok()?;
            let dts = it.next()?;
            let cls = it.next()?;
            let dts: Vec<DeviceType> = if dts == "-" { Vec::new() } else { dts.split('+').map(|d| DeviceType { dtype: d.parse().unwrap_or(0), drev: 1 }).collect() };
            let mut clusters: Vec<Cluster<'static>> = Vec::new();
            if cls != "-" {
                for c in cls.split('|') {
                    let mut ci = c.split('^');
                    let cid: u32 = ci.next()?.parse().ok()?;
                    let fm: u32 = ci.next()?.parse().ok()?;
                    let attrs = ci.next()?;
                    let cmds = ci.next()?;
                    let mut av: Vec<Attribute> = Vec::new();
                    if attrs != "-" {
                        for a in attrs.split(',') {
                            let mut ai = a.split('.');
                            let aid: u32 = ai.next()?.parse().ok()?;
                            let acc: u16 = ai.next()?.parse().ok()?;
                            let arr = ai.next()? == "1";
                            av.push(Attribute::new(aid, Access::from_bits_retain(acc), if arr { Quality::ARRAY } else { Quality::NONE }));
                        }
                    }
                    let mut cv: Vec<Command> = Vec::new();
                    if cmds != "-" {
                        for a in cmds.split(',') {
                            let mut ai = a.split('.');
                            let aid: u32 = ai.next()?.parse().ok()?;
                            let acc: u16 = ai.next()?.parse().ok()?;
                            cv.push(Command::new(aid, None, Access::from_bits_retain(acc)));
                        }
                    }
                    // optional 5th field: events `id.access,..`
                    let mut ev: Vec<rs_matter::dm::Event> = Vec::new();
                    if let Some(evs) = ci.next() {
                        if evs != "-" {
                            for a in evs.split(',') {
                                let mut ai = a.split('.');
                                let eid: u32 = ai.next()?.parse().ok()?;
                                let acc: u16 = ai.next()?.parse().ok()?;
                                ev.push(rs_matter::dm::Event::new(eid, Access::from_bits_retain(acc)));
                            }
                        }
                    }
                    clusters.push(Cluster::new(cid, 1, fm, leak(av), leak(cv), leak(ev), with_leaf_attr, with_leaf_cmd, with_leaf_event));
                }
            }
            eps.push(Endpoint::new(id, leak(dts), leak(clusters)));
        }
    }
    Some(Box::leak(Box::new(Node::new(leak(eps)))))
}

// ------------------------------------------------------------------ request TLVs (hand-encoded)
fn put_path(b: &mut Vec<u8>, tags: [u8; 3], p: &(Option<u16>, Option<u32>, Option<u32>)) {
    if let Some(e) = p.0 {
        b.extend_from_slice(&[0x25, tags[0]]);
        b.extend_from_slice(&e.to_le_bytes());
    }
    if let Some(c) = p.1 {
        b.extend_from_slice(&[0x26, tags[1]]);
        b.extend_from_slice(&c.to_le_bytes());
    }
    if let Some(l) = p.2 {
        b.extend_from_slice(&[0x26, tags[2]]);
        b.extend_from_slice(&l.to_le_bytes());
    }
}

type P = (Option<u16>, Option<u32>, Option<u32>);

fn read_req(paths: &[P]) -> Vec<u8> {
    let mut b = vec![0x15, 0x36, 0x00];
    for p in paths {
        b.push(0x17);
        put_path(&mut b, [2, 3, 4], p);
        b.push(0x18);
    }
    b.push(0x18);
    b.extend_from_slice(&[0x29, 0x03]); // fabric filtered = true
    b.push(0x18);
    b
}

fn write_req(paths: &[P], timed: bool) -> Vec<u8> {
    write_req_chunk(paths, timed, false)
}

/// one WriteRequest message; `more` = MoreChunkedMessages (all chunks of a chunked Write but the last)
fn write_req_chunk(paths: &[P], timed: bool, more: bool) -> Vec<u8> {
    let mut b = vec![0x15, 0x28, 0x00, if timed { 0x29 } else { 0x28 }, 0x01, 0x36, 0x02];
    for p in paths {
        b.push(0x15);
        b.extend_from_slice(&[0x37, 0x01]);
        put_path(&mut b, [2, 3, 4], p);
        b.push(0x18);
        b.extend_from_slice(&[0x24, 0x02, 0x01]); // data: u8 1
        b.push(0x18);
    }
    b.push(0x18);
    if more {
        b.extend_from_slice(&[0x29, 0x03]); // MoreChunkedMessages = true
    }
    b.push(0x18);
    b
}

fn inv_req(paths: &[P], timed: bool) -> Vec<u8> {
    let mut b = vec![0x15, 0x28, 0x00, if timed { 0x29 } else { 0x28 }, 0x01, 0x36, 0x02];
    for p in paths {
        b.push(0x15);
        b.extend_from_slice(&[0x37, 0x00]);
        put_path(&mut b, [0, 1, 2], p);
        b.push(0x18);
        b.extend_from_slice(&[0x35, 0x01, 0x18]); // data: empty struct
        b.push(0x18);
    }
    b.push(0x18);
    b.push(0x18);
    b
}

/// ReadRequest carrying event paths only
/// `fabric_filtered`: the requester-controlled `isFabricFiltered` field of the ReadRequest
fn event_read_req(paths: &[P], fabric_filtered: bool) -> Vec<u8> {
    let mut b = vec![0x15, 0x36, 0x01];
    for p in paths {
        b.push(0x17);
        put_path(&mut b, [1, 2, 3], p);
        b.push(0x18);
    }
    b.push(0x18);
    b.extend_from_slice(&[if fabric_filtered { 0x29 } else { 0x28 }, 0x03]); // isFabricFiltered
    b.extend_from_slice(&[0x24, 0xff, 13]);
    b.push(0x18);
    b
}

/// InvokeRequest with a CommandRef per command (mandatory for more than one command)
fn inv_req_refs(paths: &[P], timed: bool) -> Vec<u8> {
    let mut b = vec![0x15, 0x28, 0x00, if timed { 0x29 } else { 0x28 }, 0x01, 0x36, 0x02];
    for (i, p) in paths.iter().enumerate() {
        b.push(0x15);
        b.extend_from_slice(&[0x37, 0x00]);
        put_path(&mut b, [0, 1, 2], p);
        b.push(0x18);
        b.extend_from_slice(&[0x35, 0x01, 0x18]);
        b.extend_from_slice(&[0x25, 0x02, i as u8, 0x00]);
        b.push(0x18);
    }
    b.push(0x18);
    b.extend_from_slice(&[0x24, 0xff, 13]);
    b.push(0x18);
    b
}

fn parse_paths(s: &str) -> Vec<P> {
    s.split(';')
        .filter(|s| !s.is_empty() && *s != "-")
        .map(|p| {
            let mut it = p.split('/');
            (
                c05::opt_num(it.next().unwrap_or("*")),
                c05::opt_num(it.next().unwrap_or("*")),
                c05::opt_num(it.next().unwrap_or("*")),
            )
        })
        .collect()
}

/// e2e <r|w|i|v> <fab> <p|c> <id> <cats|-> <treq: -|T:D> <flag> <paths> <emit: -|ep.cl.ev.fab,..>
///   => <top> # <effects> # <responses>
fn run_e2e(matter: &Matter<'_>, env: &e2e::Env, node: &'static Node<'static>, w: &[&str], out: &mut Out) -> String {
    let kind = w[1];
    let fab: u8 = w[2].parse().unwrap_or(0);
    let id: u64 = w[4].parse().unwrap_or(0);
    let mut cats = [0u32; 3];
    if w[5] != "-" {
        for (i, c) in w[5].split(',').take(3).enumerate() {
            cats[i] = c.parse().unwrap_or(0);
        }
    }
    let sess = if w[3] == "p" { e2e::Sess::Pase { fab } } else { e2e::Sess::Case { fab, node_id: id, cats } };
    // `T:D` (single message) or `T:D0,D1,..` (chunked write: D_k = clock advance before chunk k)
    let mut delays: Vec<u64> = Vec::new();
    let timed = if w[6] == "-" {
        None
    } else {
        let mut it = w[6].split(':');
        let t = it.next().and_then(|x| x.parse().ok()).unwrap_or(0u16);
        delays = it.next().unwrap_or("0").split(',').map(|x| x.parse().unwrap_or(0)).collect();
        Some((t, delays.first().copied().unwrap_or(0)))
    };
    let flags: Vec<bool> = w[7].split('+').map(|f| f == "1").collect();
    let flag = flags.first().copied().unwrap_or(false);
    let chunk_paths: Vec<Vec<P>> = w[8].split('+').map(parse_paths).collect();
    let paths = chunk_paths.first().cloned().unwrap_or_default();
    let emit: Vec<(u16, u32, u32, e2e::FabF)> = if w[9] == "-" {
        Vec::new()
    } else {
        w[9].split(',')
            .filter_map(|t| {
                let mut it = t.split('.');
                let (e, c, v) = (it.next()?.parse().ok()?, it.next()?.parse().ok()?, it.next()?.parse().ok()?);
                // `0` no FabricIndex field, `k` fabric index k, `z` fabric index 0, `n` null, `w` 16-bit
                let f = match it.next()? {
                    "z" => e2e::FabF::Idx(0),
                    "n" => e2e::FabF::Null,
                    "w" => e2e::FabF::Wide,
                    k => match k.parse::<u8>().ok()? {
                        0 => e2e::FabF::Absent,
                        k => e2e::FabF::Idx(k),
                    },
                };
                Some((e, c, v, f))
            })
            .collect()
    };
    let (opcode, payload) = match kind {
        "r" => (rs_matter::im::OpCode::ReadRequest, read_req(&paths)),
        // for an event read the flag field carries `isFabricFiltered`: `u` = false (unfiltered), else true
        "v" => (rs_matter::im::OpCode::ReadRequest, event_read_req(&paths, w[7] != "u")),
        "w" => (rs_matter::im::OpCode::WriteRequest, write_req(&paths, flag)),
        "W" => (rs_matter::im::OpCode::WriteRequest, write_req_chunk(&paths, flag, chunk_paths.len() > 1)),
        _ => (rs_matter::im::OpCode::InvokeRequest, inv_req_refs(&paths, flag)),
    };
    e2e::SHARED.lock().unwrap().node = Some(node);
    // follow-up chunks of a chunked write: each with its own TimedRequest flag and paths
    let mut more: Vec<(u64, Vec<u8>)> = Vec::new();
    if kind == "W" {
        for k in 1..chunk_paths.len() {
            let f = flags.get(k).copied().unwrap_or(false);
            let d = delays.get(k).copied().unwrap_or(0);
            more.push((d, write_req_chunk(&chunk_paths[k], f, k + 1 < chunk_paths.len())));
        }
    }
    let req = e2e::Req { sess, timed, opcode, payload, emit, more };
    let ans = match std::panic::catch_unwind(std::panic::AssertUnwindSafe(|| e2e::run_request(matter, env, &req))) {
        Ok(a) => a,
        Err(_) => e2e::Answer { top: "panic".into(), resp: Vec::new(), effects: Vec::new(), more: Vec::new() },
    };
    out.stat(&format!("e2e_{}", kind), 1);
    out.stat(&format!("e2e_top_{}", ans.top.replace(' ', "_")), 1);
    out.stat("e2e_effects", ans.effects.len() as u64);
    for r in &ans.resp {
        let k = r.split(' ').next().unwrap_or("?");
        if k == "st" {
            out.stat(&format!("e2e_{}_status_{}", kind, r.rsplit(' ').next().unwrap_or("?")), 1);
        } else {
            out.stat(&format!("e2e_{}_{}", kind, k), 1);
        }
    }
    let fmt_part = |top: &str, effects: &[String], resp: &[String]| {
        format!(
            "{} # {} # {}",
            top,
            if effects.is_empty() { "-".to_string() } else { effects.join(",") },
            if resp.is_empty() { "-".to_string() } else { resp.join(" | ") }
        )
    };
    let mut o = fmt_part(&ans.top, &ans.effects, &ans.resp);
    for (top, resp, effects) in &ans.more {
        out.stat(&format!("e2e_chunk_top_{}", top.replace(' ', "_")), 1);
        out.stat("e2e_chunk_effects", effects.len() as u64);
        o.push_str(" ## ");
        o.push_str(&fmt_part(top, effects, resp));
    }
    o
}

fn fmt_o<T: ToString>(o: Option<T>) -> String {
    o.map(|x| x.to_string()).unwrap_or_else(|| "*".into())
}

fn status_name(s: IMStatusCode) -> String {
    format!("{:?}", s)
}

const STEP_CAP: usize = 20000;

/// `Metadata` whose node composition is replaced between the expander's `next` calls: the i-th
/// `access` sees `nodes[min(i, last)]` (`PathExpanderIterator::next` calls `access` once per call).
struct SwapMeta {
    nodes: Vec<&'static Node<'static>>,
    calls: std::cell::Cell<usize>,
}

impl Metadata for SwapMeta {
    fn access<F, R>(&self, f: F) -> R
    where
        F: FnOnce(&Node<'_>) -> R,
    {
        let i = self.calls.get();
        self.calls.set(i + 1);
        f(self.nodes[i.min(self.nodes.len() - 1)])
    }
}

fn run_x<M: Metadata + Copy>(matter: &Matter<'_>, node: M, w: &[&str], out: &mut Out) -> String {
    run_x_wipe(matter, node, w, None, out)
}

/// `wipe_at = Some(k)`: (writes) the ACL of the requester's fabric is emptied after `k` calls of the
/// expander's `next` — what the handler of a WriteRequest item that rewrites the ACL does between two
/// calls; calls `0..k` see the ACL as configured, the later calls the emptied one
fn run_x_wipe<M: Metadata + Copy>(matter: &Matter<'_>, node: M, w: &[&str], wipe_at: Option<usize>, out: &mut Out) -> String {
    let kind = w[1];
    let fab: u8 = w[2].parse().unwrap_or(0);
    let mode = c05::mode_of(w[3]);
    let aux = w[4] == "1";
    let mut subj = AccessorSubjects::new(w[5].parse().unwrap_or(0));
    if w[6] != "-" {
        for c in w[6].split(',') {
            let _ = subj.add_catid(c.parse().unwrap_or(0));
        }
    }
    let timed = w[7] == "1";
    let excluded: Vec<(u16, u32, u32)> = if w[8] == "-" {
        Vec::new()
    } else {
        w[8].split(',')
            .filter_map(|t| {
                let mut it = t.split('.');
                Some((it.next()?.parse().ok()?, it.next()?.parse().ok()?, it.next()?.parse().ok()?))
            })
            .collect()
    };
    let paths: Vec<P> = w[9]
        .split(';')
        .filter(|s| !s.is_empty() && *s != "-")
        .map(|p| {
            let mut it = p.split('/');
            (
                c05::opt_num(it.next().unwrap_or("*")),
                c05::opt_num(it.next().unwrap_or("*")),
                c05::opt_num(it.next().unwrap_or("*")),
            )
        })
        .collect();
    let accessor = Accessor::new(fab, aux, subj, mode, matter);
    let mut outs: Vec<String> = Vec::new();
    let r = std::panic::catch_unwind(std::panic::AssertUnwindSafe(|| {
        let mut outs: Vec<String> = Vec::new();
        match kind {
            "r" => {
                let bytes = read_req(&paths);
                let rr = ReadReq::new(TLVElement::new(&bytes));
                let req = ReportDataReq::Read(&rr);
                let it = match expand_read(node, &req, &accessor, |e, c, l| !excluded.contains(&(e, c, l))) {
                    Ok(it) => it,
                    Err(_) => return vec!["err".to_string()],
                };
                for (n, item) in it.enumerate() {
                    if n >= STEP_CAP {
                        outs.push("HANG".into());
                        break;
                    }
                    outs.push(match item {
                        Ok(Ok(a)) => format!("ok {} {} {} w{} a{}", a.endpoint_id, a.cluster_id, a.attr_id, a.wildcard as u8, a.array as u8),
                        Ok(Err(s)) => format!("st {}/{}/{} {}", fmt_o(s.path.endpoint), fmt_o(s.path.cluster), fmt_o(s.path.attr), status_name(s.status.status)),
                        Err(_) => "err".into(),
                    });
                }
            }
            "w" => {
                let bytes = write_req(&paths, timed);
                let req = WriteReq::new(TLVElement::new(&bytes));
                let mut it = match expand_write(node, &req, &accessor) {
                    Ok(it) => it,
                    Err(_) => return vec!["err".to_string()],
                };
                let mut n = 0usize;
                loop {
                    if wipe_at == Some(n) {
                        if let Some(f) = NonZeroU8::new(fab) {
                            matter.with_state(|state| {
                                if let Ok(fabric) = state.fabrics.fabric_mut(f) {
                                    fabric.acl_remove_all();
                                }
                            });
                        }
                    }
                    let Some(item) = it.next() else { break };
                    n += 1;
                    if n > STEP_CAP {
                        outs.push("HANG".into());
                        break;
                    }
                    outs.push(match item {
                        Ok(Ok((a, _))) => format!("ok {} {} {} w{} a{}", a.endpoint_id, a.cluster_id, a.attr_id, a.wildcard as u8, a.array as u8),
                        Ok(Err(s)) => format!("st {}/{}/{} {}", fmt_o(s.path.endpoint), fmt_o(s.path.cluster), fmt_o(s.path.attr), status_name(s.status.status)),
                        Err(_) => "err".into(),
                    });
                }
            }
            _ => {
                let bytes = inv_req(&paths, timed);
                let req = InvReq::new(TLVElement::new(&bytes));
                let it = match expand_invoke(node, &req, &accessor) {
                    Ok(it) => it,
                    Err(_) => return vec!["err".to_string()],
                };
                for (n, item) in it.enumerate() {
                    if n >= STEP_CAP {
                        outs.push("HANG".into());
                        break;
                    }
                    outs.push(match item {
                        // `CmdDetails` carries no wildcard information from the path (always `false`): not compared
                        Ok(Ok((c, _))) => format!("ok {} {} {} w- a0", c.endpoint_id, c.cluster_id, c.cmd_id),
                        Ok(Err(s)) => format!("st {}/{}/{} {}", fmt_o(s.path.endpoint), fmt_o(s.path.cluster), fmt_o(s.path.cmd), status_name(s.status.status)),
                        Err(_) => "err".into(),
                    });
                }
            }
        }
        outs
    }));
    match r {
        Ok(o) => outs = o,
        Err(_) => outs.push("panic".into()),
    }
    for o in &outs {
        if o.starts_with("ok") {
            out.stat(&format!("out_{}_item", kind), 1);
        } else if o.starts_with("st") {
            out.stat(&format!("out_{}_status_{}", kind, o.rsplit(' ').next().unwrap_or("?")), 1);
        } else {
            out.stat(&format!("out_{}_{}", kind, o), 1);
        }
    }
    if outs.is_empty() {
        out.stat(&format!("out_{}_nothing", kind), 1);
        "-".into()
    } else {
        outs.join(" | ")
    }
}

fn run_case(matter: &Matter<'_>, env: &e2e::Env, out: &mut Out, case: &Case) {
    c05::reset(matter);
    out.case(case.id, &case.kind);
    let mut node: &'static Node<'static> = Box::leak(Box::new(Node::new(&[])));
    let mut kinds = std::collections::BTreeSet::new();
    for op in &case.ops {
        let w: Vec<&str> = op.split_whitespace().collect();
        match w.first().copied() {
            Some("node") if w.len() == 2 => match parse_node(w[1]) {
                Some(n) => {
                    node = n;
                    out.op(op, &format!("ok {}", n.endpoints.len()));
                }
                None => out.op(op, "badnode"),
            },
            // sw <same 9 fields as x> <spec0> <spec1> ..: call i of the expander sees node spec_min(i,last)
            Some("sw") if w.len() >= 11 => {
                let nodes: Option<Vec<&'static Node<'static>>> = w[10..].iter().map(|s| parse_node(s)).collect();
                match nodes {
                    None => out.op(op, "badnode"),
                    Some(nodes) => {
                        let meta = SwapMeta { nodes, calls: std::cell::Cell::new(0) };
                        let o = run_x(matter, &meta, &w[..10], out);
                        out.stat("swap_requests", 1);
                        out.stat(&format!("swap_calls_{}", meta.calls.get().min(9)), 1);
                        if o.contains("ok ") {
                            kinds.insert("item");
                        }
                        if o.contains("Unsupported") || o.contains("NeedsTimed") {
                            kinds.insert("status");
                        }
                        out.op(op, &o);
                    }
                }
            }
            Some("e2e") if w.len() == 10 => {
                let o = run_e2e(matter, env, node, &w, out);
                if o.contains("ok ") || o.contains("ev ") {
                    kinds.insert("item");
                }
                if o.contains("Unsupported") || o.contains("NeedsTimed") {
                    kinds.insert("status");
                }
                out.op(op, &o);
            }
            // xa <same 9 fields as x (kind w)> <k>: the requester's fabric loses its ACL after k calls
            Some("xa") if w.len() == 11 => {
                let k: usize = w[10].parse().unwrap_or(0);
                let o = run_x_wipe(matter, node, &w[..10], Some(k), out);
                out.stat("acl_rewrite_requests", 1);
                if o.contains("ok ") {
                    kinds.insert("item");
                }
                if o.contains("Unsupported") || o.contains("NeedsTimed") {
                    kinds.insert("status");
                }
                out.op(op, &o);
            }
            Some("x") if w.len() == 10 => {
                let o = run_x(matter, node, &w, out);
                if o.contains("ok ") {
                    kinds.insert("item");
                }
                if o.contains("Unsupported") || o.contains("NeedsTimed") {
                    kinds.insert("status");
                }
                out.op(op, &o);
            }
            _ => {
                let (o, _) = c05::run_op(matter, op, out);
                out.op(op, &o);
            }
        }
    }
    if kinds.len() == 2 {
        out.buf.push_str("#nt\n");
    }
}

// ---------------------------------------------------------------------------------- generator
const ENDPOINTS: [u16; 5] = [0, 1, 2, 3, 7];
const CLUSTERS: [u32; 4] = [6, 8, 29, 31];
const DEV_TYPES: [u32; 3] = [22, 256, 257];
const GROUP_IDS: [u64; 3] = [1, 2, 3];

#[derive(Clone)]
struct GLeaf { id: u32, access: u16, array: bool }
#[derive(Clone)]
struct GCluster { id: u32, fm: u32, attrs: Vec<GLeaf>, cmds: Vec<GLeaf>, evs: Vec<GLeaf> }
#[derive(Clone)]
struct GEndpoint { id: u16, dts: Vec<u32>, clusters: Vec<GCluster> }

fn attr_access_pool() -> Vec<u16> {
    vec![
        Access::RV.bits(), Access::RV.bits(), Access::RA.bits(), Access::RWVA.bits(), Access::RWVM.bits(), Access::RWFA.bits(),
        Access::RWFVM.bits(), (Access::RWVM | Access::TIMED_ONLY).bits(), (Access::RWVA | Access::TIMED_ONLY).bits(),
        Access::WO.bits(), (Access::READ | Access::NEED_OPERATE).bits(), Access::RF.bits(),
    ]
}
fn cmd_access_pool() -> Vec<u16> {
    vec![
        Access::WO.bits(), Access::WO.bits(), Access::WM.bits(), Access::WA.bits(), (Access::WO | Access::TIMED_ONLY).bits(),
        (Access::WA | Access::FAB_SCOPED).bits(), (Access::WO | Access::FAB_SCOPED).bits(), (Access::WM | Access::TIMED_ONLY | Access::FAB_SCOPED).bits(),
        Access::RV.bits(),
    ]
}

fn gen_node(r: &mut Rng, out: &mut Out, wf: bool) -> Vec<GEndpoint> {
    gen_node_n(r, out, wf, None)
}

fn gen_node_n(r: &mut Rng, out: &mut Out, wf: bool, force_ne: Option<usize>) -> Vec<GEndpoint> {
    let mut eps: Vec<GEndpoint> = Vec::new();
    let ne = force_ne.unwrap_or_else(|| *r.pick(&[0usize, 1, 2, 2, 3, 3, 4]));
    let mut ids: Vec<u16> = ENDPOINTS.to_vec();
    // choose `ne` ids, sorted
    while ids.len() > ne {
        let k = r.below(ids.len() as u64) as usize;
        ids.remove(k);
    }
    let ap = attr_access_pool();
    let cp = cmd_access_pool();
    for id in ids {
        let mut dts = Vec::new();
        if r.chance(1, 2) { dts.push(*r.pick(&DEV_TYPES)); }
        if r.chance(1, 5) { dts.push(*r.pick(&DEV_TYPES)); }
        let nc = *r.pick(&[0usize, 1, 2, 2, 3]);
        let mut cids: Vec<u32> = CLUSTERS.to_vec();
        while cids.len() > nc {
            let k = r.below(cids.len() as u64) as usize;
            cids.remove(k);
        }
        let mut clusters = Vec::new();
        for cid in cids {
            let na = *r.pick(&[0usize, 1, 2, 3, 4]);
            let ncm = *r.pick(&[0usize, 0, 1, 2, 3]);
            let mut attrs: Vec<GLeaf> = (0..na as u32).map(|i| GLeaf { id: i, access: if r.chance(1, 8) { r.below(512) as u16 } else { *r.pick(&ap) }, array: r.chance(1, 4) }).collect();
            let mut cmds: Vec<GLeaf> = (0..ncm as u32).map(|i| GLeaf { id: i, access: if r.chance(1, 8) { r.below(512) as u16 } else { *r.pick(&cp) }, array: false }).collect();
            if !wf {
                // duplicate ids (first-match semantics are compared model-vs-code only)
                if !attrs.is_empty() && r.chance(1, 2) { let a = GLeaf { id: attrs[0].id, access: *r.pick(&ap), array: false }; attrs.push(a); }
                if !cmds.is_empty() && r.chance(1, 2) { let a = GLeaf { id: cmds[0].id, access: *r.pick(&cp), array: false }; cmds.push(a); }
            }
            // feature map = enabled mask; mostly everything enabled
            let fm: u32 = if r.chance(3, 4) { 0xFFFF_FFFF } else { r.next() as u32 | 1 };
            out.stat("node_clusters", 1);
            let nev = *r.pick(&[0usize, 0, 1, 2, 3]);
            let evp = [Access::RV.bits(), Access::RV.bits(), (Access::READ | Access::NEED_OPERATE).bits(), (Access::READ | Access::NEED_MANAGE).bits(), Access::RA.bits()];
            let mut evs: Vec<GLeaf> = (0..nev as u32).map(|i| GLeaf { id: i, access: if r.chance(1, 10) { r.below(512) as u16 } else { *r.pick(&evp) }, array: false }).collect();
            if !wf && !evs.is_empty() && r.chance(1, 2) { let a = GLeaf { id: evs[0].id, access: *r.pick(&evp), array: false }; evs.push(a); }
            clusters.push(GCluster { id: cid, fm, attrs, cmds, evs });
        }
        if !wf && !clusters.is_empty() && r.chance(1, 3) {
            let c = GCluster { id: clusters[0].id, fm: 0xFFFF_FFFF, attrs: vec![GLeaf { id: 0, access: Access::RV.bits(), array: false }], cmds: vec![], evs: vec![] };
            clusters.push(c);
        }
        eps.push(GEndpoint { id, dts, clusters });
    }
    out.stat(&format!("node_endpoints_{}", eps.len()), 1);
    eps
}

fn node_spec(eps: &[GEndpoint]) -> String {
    if eps.is_empty() {
        return "-".into();
    }
    eps.iter()
        .map(|e| {
            let dts = if e.dts.is_empty() { "-".to_string() } else { e.dts.iter().map(|d| d.to_string()).collect::<Vec<_>>().join("+") };
            let cls = if e.clusters.is_empty() {
                "-".to_string()
            } else {
                e.clusters
                    .iter()
                    .map(|c| {
                        let a = if c.attrs.is_empty() { "-".to_string() } else { c.attrs.iter().map(|l| format!("{}.{}.{}", l.id, l.access, l.array as u8)).collect::<Vec<_>>().join(",") };
                        let m = if c.cmds.is_empty() { "-".to_string() } else { c.cmds.iter().map(|l| format!("{}.{}", l.id, l.access)).collect::<Vec<_>>().join(",") };
                        let v = if c.evs.is_empty() { "-".to_string() } else { c.evs.iter().map(|l| format!("{}.{}", l.id, l.access)).collect::<Vec<_>>().join(",") };
                        format!("{}^{}^{}^{}^{}", c.id, c.fm, a, m, v)
                    })
                    .collect::<Vec<_>>()
                    .join("|")
            };
            format!("{}@{}@{}", e.id, dts, cls)
        })
        .collect::<Vec<_>>()
        .join(";")
}

fn gen_case(r: &mut Rng, out: &mut Out, nx: usize, _case_id: u64) -> Vec<String> {
    let mut ops: Vec<String> = Vec::new();
    // access control: 1-2 fabrics, a few entries of decreasing generosity
    let nf = r.range(1, 2);
    for _ in 0..nf {
        ops.push("fab".into());
    }
    let privs = [1u8, 3, 7, 15, 16];
    for f in 1..=nf {
        if r.chance(1, 2) {
            // one generous entry so that permitted elements are common
            ops.push(format!("acl {} {} c {} null", f, r.pick(&[15u8, 15, 7, 3]), r.pick(&["null", "1", "1,2"])));
        }
        let ne = r.range(0, 3);
        for _ in 0..ne {
            let mode = *r.pick(&["c", "c", "g"]);
            let subj = match r.below(4) {
                0 => "null".to_string(),
                1 => "e".to_string(),
                _ => if mode == "g" { r.pick(&GROUP_IDS).to_string() } else { r.pick(&[1u64, 2, 112233]).to_string() },
            };
            let tgt = match r.below(5) {
                0 => "null".to_string(),
                1 => "e".to_string(),
                _ => {
                    let n = r.range(1, 3);
                    (0..n)
                        .map(|_| {
                            let shape = r.range(1, 7);
                            format!(
                                "{}/{}/{}",
                                if shape & 1 != 0 { r.pick(&ENDPOINTS).to_string() } else { "-".into() },
                                if shape & 2 != 0 { r.pick(&CLUSTERS).to_string() } else { "-".into() },
                                if shape & 4 != 0 { r.pick(&DEV_TYPES).to_string() } else { "-".into() }
                            )
                        })
                        .collect::<Vec<_>>()
                        .join(";")
                }
            };
            ops.push(format!("acl {} {} {} {} {}", f, r.pick(&privs), mode, subj, tgt));
        }
        if r.chance(1, 4) {
            // an entry whose subject is a CASE Authenticated Tag (identifier 1, version 2)
            ops.push(format!("acl {} {} c 18446744060824649730 null", f, r.pick(&[3u8, 7, 15])));
            out.stat("acl_cat_entry", 1);
        }
        if r.chance(1, 2) {
            let ng = r.range(1, 4);
            for _ in 0..ng {
                let gid = *r.pick(&GROUP_IDS);
                ops.push(format!("grp {} {} {}", f, gid, r.pick(&ENDPOINTS)));
                if r.chance(1, 3) {
                    ops.push(format!("gaux {} {} 1", f, gid));
                }
            }
        }
    }
    let wf = !r.chance(1, 8);
    out.stat(if wf { "node_wellformed" } else { "node_with_duplicate_ids" }, 1);
    let eps = gen_node(r, out, wf);
    ops.push(format!("node {}", node_spec(&eps)));
    for _ in 0..nx {
        let kind = *r.pick(&["r", "r", "w", "w", "i", "i"]);
        let (fab, mode, id): (u64, &str, u64) = match r.below(12) {
            0 => (0, "p", 1),
            1 => (r.range(1, nf), "p", 1),
            2 => (0, "c", 1),
            3 => (3, "c", 1),
            4..=5 => (r.range(1, nf), "g", *r.pick(&GROUP_IDS)),
            _ => (r.range(1, nf), "c", *r.pick(&[1u64, 1, 2, 112233])),
        };
        let aux = if r.chance(1, 6) { 1 } else { 0 };
        let timed = if r.chance(1, 2) { 1 } else { 0 };
        let np = *r.pick(&[1usize, 1, 2, 3, 4]);
        let mut paths: Vec<String> = Vec::new();
        for _ in 0..np {
            if !paths.is_empty() && r.chance(1, 5) {
                // repeat an earlier path (exercises the last-authorised cache)
                let p = r.pick(&paths).clone();
                paths.push(p);
                out.stat("path_repeat", 1);
                continue;
            }
            // aim at an existing element, then wildcard / perturb components
            let mut ep: Option<u64> = Some(*r.pick(&ENDPOINTS) as u64);
            let mut cl: Option<u64> = Some(*r.pick(&CLUSTERS) as u64);
            let mut lf: Option<u64> = Some(r.below(5));
            if !eps.is_empty() && r.chance(4, 5) {
                let e = &eps[r.below(eps.len() as u64) as usize];
                ep = Some(e.id as u64);
                if !e.clusters.is_empty() && r.chance(4, 5) {
                    let c = &e.clusters[r.below(e.clusters.len() as u64) as usize];
                    cl = Some(c.id as u64);
                    let leaves = if kind == "i" { &c.cmds } else { &c.attrs };
                    if !leaves.is_empty() && r.chance(4, 5) {
                        lf = Some(leaves[r.below(leaves.len() as u64) as usize].id as u64);
                    }
                }
            }
            let shape = if kind == "r" {
                match r.below(10) {
                    0..=4 => 0, // concrete
                    5 => 1,     // endpoint wildcard
                    6 => 2,     // cluster wildcard
                    7 => 4,     // leaf wildcard
                    8 => 7,     // everything
                    _ => r.below(8),
                }
            } else {
                // writes / invokes support the endpoint wildcard only
                match r.below(10) {
                    0..=5 => 0,
                    6..=8 => 1,
                    _ => r.below(8),
                }
            };
            if shape & 1 != 0 { ep = None; }
            if shape & 2 != 0 { cl = None; }
            if shape & 4 != 0 { lf = None; }
            out.stat(&format!("path_{}_{}{}{}", kind, if ep.is_some() { "E" } else { "*" }, if cl.is_some() { "C" } else { "*" }, if lf.is_some() { "L" } else { "*" }), 1);
            paths.push(format!("{}/{}/{}", fmt_o(ep), fmt_o(cl), fmt_o(lf)));
        }
        // caller's filter (reads): exclude a few existing triples
        let mut excl: Vec<String> = Vec::new();
        if kind == "r" && r.chance(1, 4) {
            for e in &eps {
                for c in &e.clusters {
                    for l in &c.attrs {
                        if r.chance(1, 4) {
                            excl.push(format!("{}.{}.{}", e.id, c.id, l.id));
                        }
                    }
                }
            }
        }
        // tags of the requester's NOC: version above / equal / below the entry's, another identifier
        let cats = if mode == "c" && r.chance(1, 4) { *r.pick(&["65538", "65539", "65537", "131074", "65537,131075"]) } else { "-" };
        if cats != "-" { out.stat("requester_with_cats", 1); }
        ops.push(format!(
            "x {} {} {} {} {} {} {} {} {}",
            kind,
            fab,
            mode,
            aux,
            id,
            cats,
            timed,
            if excl.is_empty() { "-".to_string() } else { excl.join(",") },
            paths.join(";")
        ));
    }
    // requests answered while the node composition is replaced between the expander's calls
    if r.chance(1, 2) {
        let pool_n = *r.pick(&[2usize, 3, 4, 5]);
        let pool = gen_node_n(r, out, true, Some(pool_n));
        let nsw = r.range(1, 3);
        for _ in 0..nsw {
            let kind = *r.pick(&["r", "r", "r", "w", "i"]);
            let (fab, mode, id): (u64, &str, u64) = match r.below(8) {
                0..=2 => (0, "p", 1),
                3 => (r.range(1, nf), "p", 1),
                4 => (r.range(1, nf), "g", *r.pick(&GROUP_IDS)),
                _ => (r.range(1, nf), "c", *r.pick(&[1u64, 1, 2, 112233])),
            };
            let timed = if r.chance(1, 2) { 1 } else { 0 };
            // mostly one wildcard path (the shape `node_swap_safe` speaks about); sometimes several
            let mut cl = *r.pick(&CLUSTERS);
            let mut lf = r.below(4);
            // aim at something the pool has
            if r.chance(4, 5) {
                let e = &pool[r.below(pool.len() as u64) as usize];
                if !e.clusters.is_empty() {
                    let c = &e.clusters[r.below(e.clusters.len() as u64) as usize];
                    cl = c.id;
                    let leaves = if kind == "i" { &c.cmds } else { &c.attrs };
                    if !leaves.is_empty() {
                        lf = leaves[r.below(leaves.len() as u64) as usize].id as u64;
                    }
                }
            }
            let one = if kind == "r" {
                match r.below(8) {
                    0..=3 => "*/*/*".to_string(),
                    4 => format!("*/{}/*", cl),
                    5 => format!("*/{}/{}", cl, lf),
                    6 => format!("{}/*/*", r.pick(&ENDPOINTS)),
                    _ => format!("*/*/{}", lf),
                }
            } else {
                format!("*/{}/{}", cl, lf)
            };
            let paths = if r.chance(1, 5) {
                out.stat("swap_multi_path", 1);
                format!("{};{}/{}/{};{}", one, r.pick(&ENDPOINTS), cl, lf, one)
            } else {
                one
            };
            // compositions: subsets of the pool (an endpoint id keeps its shape); 1 in 6 schedules
            // also changes the shape of an endpoint (violates the documented invariant: model-vs-code only)
            let nn = r.range(2, 6);
            let unstable = r.chance(1, 6);
            let mut specs: Vec<String> = Vec::new();
            for k in 0..nn {
                let mut comp: Vec<GEndpoint> = pool.iter().filter(|_| r.chance(2, 3)).cloned().collect();
                if unstable && k > 0 && !comp.is_empty() {
                    let i = r.below(comp.len() as u64) as usize;
                    if !comp[i].clusters.is_empty() && r.chance(1, 2) {
                        comp[i].clusters.remove(0);
                    } else {
                        comp[i].clusters.push(GCluster { id: 40, fm: 0xFFFF_FFFF, attrs: vec![GLeaf { id: 0, access: Access::RV.bits(), array: false }], cmds: vec![GLeaf { id: 0, access: Access::WO.bits(), array: false }], evs: vec![] });
                    }
                }
                specs.push(node_spec(&comp));
            }
            out.stat(if unstable { "swap_shape_changed" } else { "swap_stable" }, 1);
            ops.push(format!("sw {} {} {} 0 {} - {} - {} {}", kind, fab, mode, id, timed, paths, specs.join(" ")));
        }
    }
    // requests through the REAL InteractionModel with an instrumented handler (effect stream)
    if r.chance(2, 3) {
        let ne2e = r.range(1, 4);
        for _ in 0..ne2e {
            let kind = *r.pick(&["r", "r", "r", "w", "w", "w", "i", "i", "i", "v", "v", "W", "W", "W"]);
            let (fab, mode, id): (u64, &str, u64) = match r.below(10) {
                0 | 1 => (0, "p", 1),
                2 => (r.range(1, nf), "p", 1),
                3 => (3, "c", 1),
                _ => (r.range(1, nf), "c", *r.pick(&[1u64, 1, 2, 112233])),
            };
            if kind == "W" {
                // a chunked Write action: 2..3 WriteRequest messages, each with its own TimedRequest flag;
                // timed-only attributes preferably in chunk >= 2; the clock moves between the chunks
                let nch = r.range(2, 3) as usize;
                let has_treq = r.chance(1, 2);
                let t = *r.pick(&[50u64, 200, 1000]);
                let mut delays: Vec<u64> = vec![r.below(t / 4)];
                let mut sum = delays[0];
                for _ in 1..nch {
                    let d = match r.below(5) {
                        0 => t + 1 + r.below(t),          // the window closes before this chunk
                        1 => t.saturating_sub(sum),      // exactly at the instant the window closes
                        2 => t.saturating_sub(sum) + 1,  // one millisecond late
                        _ => r.below(t / 8 + 1),
                    };
                    sum += d;
                    delays.push(d);
                }
                let honest = if has_treq { 1u8 } else { 0 };
                let flags: Vec<u8> = (0..nch)
                    .map(|k| match (k, r.below(4)) {
                        (0, 0) => 1 - honest,
                        (0, _) => honest,
                        (_, 0) => 1,               // claimed
                        (_, 1) => 0,               // not claimed
                        (_, _) => honest,
                    })
                    .collect();
                // (endpoint, cluster, attribute, timed-only) of the node
                let mut all: Vec<(u16, u32, u32, bool)> = Vec::new();
                for e in eps.iter() {
                    for c in &e.clusters {
                        for l in &c.attrs {
                            all.push((e.id, c.id, l.id, l.access & Access::TIMED_ONLY.bits() != 0));
                        }
                    }
                }
                let timed_only: Vec<(u16, u32, u32, bool)> = all.iter().filter(|a| a.3).cloned().collect();
                let mut chunks: Vec<String> = Vec::new();
                for k in 0..nch {
                    let np = *r.pick(&[1usize, 1, 2]);
                    let mut ps: Vec<String> = Vec::new();
                    for _ in 0..np {
                        let pick = if k >= 1 && !timed_only.is_empty() && r.chance(2, 3) {
                            Some(*r.pick(&timed_only))
                        } else if !all.is_empty() && r.chance(5, 6) {
                            Some(*r.pick(&all))
                        } else {
                            None
                        };
                        ps.push(match pick {
                            Some((e, c, l, to)) => {
                                if to { out.stat(if k >= 1 { "e2e_W_timed_only_in_later_chunk" } else { "e2e_W_timed_only_in_first_chunk" }, 1); }
                                if r.chance(1, 8) { format!("*/{}/{}", c, l) } else { format!("{}/{}/{}", e, c, l) }
                            }
                            None => format!("{}/{}/{}", r.pick(&ENDPOINTS), r.pick(&CLUSTERS), r.below(5)),
                        });
                    }
                    chunks.push(ps.join(";"));
                }
                let treq = if has_treq { format!("{}:{}", t, delays.iter().map(|d| d.to_string()).collect::<Vec<_>>().join(",")) } else { "-".to_string() };
                out.stat(&format!("e2e_W_treq_{}", has_treq as u8), 1);
                ops.push(format!(
                    "e2e W {} {} {} - {} {} {} -",
                    fab, mode, id, treq, flags.iter().map(|f| f.to_string()).collect::<Vec<_>>().join("+"), chunks.join("+")
                ));
                continue;
            }
            let (treq, flag): (String, u8) = if kind == "w" || kind == "i" {
                let t = *r.pick(&[50u64, 200, 1000]);
                match r.below(9) {
                    0 | 1 => ("-".into(), 0),
                    2 => ("-".into(), 1),
                    3 | 4 => (format!("{}:{}", t, r.below(t)), 1),
                    5 => (format!("{}:{}", t, t + 1 + r.below(t)), 1),
                    6 => (format!("{}:{}", t, t), 1),
                    7 => (format!("{}:{}", t, r.below(t)), 0),
                    _ => (format!("{}:{}", t, t - 1), 1),
                }
            } else {
                ("-".into(), 0)
            };
            out.stat(&format!("e2e_timed_{}_{}", if treq == "-" { "none" } else { "req" }, flag), 1);
            let mut paths: Vec<String> = Vec::new();
            let mut emit: Vec<String> = Vec::new();
            if kind == "v" {
                let np = *r.pick(&[1usize, 1, 2, 3]);
                for _ in 0..np {
                    let mut ep: Option<u64> = Some(*r.pick(&ENDPOINTS) as u64);
                    let mut cl: Option<u64> = Some(*r.pick(&CLUSTERS) as u64);
                    let mut ev: Option<u64> = None;
                    if !eps.is_empty() && r.chance(5, 6) {
                        let e = &eps[r.below(eps.len() as u64) as usize];
                        ep = Some(e.id as u64);
                        if !e.clusters.is_empty() && r.chance(5, 6) {
                            let c = &e.clusters[r.below(e.clusters.len() as u64) as usize];
                            cl = Some(c.id as u64);
                            let enabled: Vec<u32> = c.evs.iter().filter(|l| c.fm & (1 << (l.id % 32)) != 0).map(|l| l.id).collect();
                            if !enabled.is_empty() && r.chance(5, 6) {
                                ev = Some(*r.pick(&enabled) as u64);
                            } else if r.chance(1, 2) {
                                // a concrete path naming an event the cluster does not have: UnsupportedEvent
                                // (fixed finding C06-absent-event-silent; also disabled ids)
                                ev = Some(*r.pick(&[9u64, 0, 1, 2, 7]));
                            }
                        } else {
                            cl = Some(99);
                            ev = Some(r.below(3));
                        }
                    } else if r.chance(1, 2) {
                        ev = Some(r.below(3));
                    }
                    let exists_ec = eps.iter().any(|e| Some(e.id as u64) == ep && e.clusters.iter().any(|c| Some(c.id as u64) == cl));
                    match r.below(6) {
                        0 => { ep = None; }
                        1 => { ep = None; cl = None; ev = None; }
                        2 => { ev = None; }
                        3 => { cl = None; ev = None; }
                        _ => {}
                    }
                    if let (Some(e), Some(c), Some(v)) = (ep, cl, ev) {
                        let ok = eps.iter().any(|x| x.id as u64 == e && x.clusters.iter().any(|y| y.id as u64 == c && y.evs.iter().any(|l| l.id as u64 == v && y.fm & (1 << (l.id % 32)) != 0)));
                        if exists_ec && !ok {
                            out.stat("path_v_absent_event", 1);
                        }
                    }
                    out.stat(&format!("path_v_{}{}{}", if ep.is_some() { "E" } else { "*" }, if cl.is_some() { "C" } else { "*" }, if ev.is_some() { "L" } else { "*" }), 1);
                    paths.push(format!("{}/{}/{}", fmt_o(ep), fmt_o(cl), fmt_o(ev)));
                }
                let nem = r.range(0, 6);
                for _ in 0..nem {
                    let fabf = *r.pick(&["0", "0", "0", "1", "1", "2", "2", "3", "z", "n", "w"]);
                    out.stat(&format!("e2e_emit_fab_{}", if fabf == "0" { "absent" } else if fabf == "n" || fabf == "w" { "unreadable" } else { "index" }), 1);
                    let mut done = false;
                    if !eps.is_empty() && r.chance(4, 5) {
                        let e = &eps[r.below(eps.len() as u64) as usize];
                        if !e.clusters.is_empty() {
                            let c = &e.clusters[r.below(e.clusters.len() as u64) as usize];
                            if !c.evs.is_empty() {
                                let l = &c.evs[r.below(c.evs.len() as u64) as usize];
                                emit.push(format!("{}.{}.{}.{}", e.id, c.id, l.id, fabf));
                                done = true;
                            }
                        }
                    }
                    if !done {
                        emit.push(format!("{}.{}.{}.{}", r.pick(&ENDPOINTS), r.pick(&CLUSTERS), r.below(3), fabf));
                    }
                }
            } else {
                let np = *r.pick(&[1usize, 1, 2, 3, 4]);
                for _ in 0..np {
                    if !paths.is_empty() && kind != "i" && r.chance(1, 5) {
                        let p = r.pick(&paths).clone();
                        paths.push(p);
                        continue;
                    }
                    let mut ep: Option<u64> = Some(*r.pick(&ENDPOINTS) as u64);
                    let mut cl: Option<u64> = Some(*r.pick(&CLUSTERS) as u64);
                    let mut lf: Option<u64> = Some(r.below(5));
                    if !eps.is_empty() && r.chance(4, 5) {
                        let e = &eps[r.below(eps.len() as u64) as usize];
                        ep = Some(e.id as u64);
                        if !e.clusters.is_empty() && r.chance(4, 5) {
                            let c = &e.clusters[r.below(e.clusters.len() as u64) as usize];
                            cl = Some(c.id as u64);
                            let leaves = if kind == "i" { &c.cmds } else { &c.attrs };
                            if !leaves.is_empty() && r.chance(4, 5) {
                                lf = Some(leaves[r.below(leaves.len() as u64) as usize].id as u64);
                            }
                        }
                    }
                    let shape = if kind == "r" {
                        match r.below(10) {
                            0..=4 => 0,
                            5 => 1,
                            6 => 6,
                            7 => 4,
                            8 => 7,
                            _ => r.below(8),
                        }
                    } else {
                        match r.below(10) {
                            0..=5 => 0,
                            6..=8 => 1,
                            _ => r.below(8),
                        }
                    };
                    if shape & 1 != 0 { ep = None; }
                    if shape & 2 != 0 { cl = None; }
                    if shape & 4 != 0 { lf = None; }
                    // a wildcard cluster with a concrete (non-global) attribute makes the whole read invalid: rare
                    if kind == "r" && cl.is_none() && lf.is_some() && r.chance(9, 10) { lf = None; }
                    out.stat(&format!("path_e2e_{}_{}{}{}", kind, if ep.is_some() { "E" } else { "*" }, if cl.is_some() { "C" } else { "*" }, if lf.is_some() { "L" } else { "*" }), 1);
                    let p = format!("{}/{}/{}", fmt_o(ep), fmt_o(cl), fmt_o(lf));
                    if kind == "i" && paths.contains(&p) && r.chance(19, 20) {
                        continue;
                    }
                    paths.push(p);
                }
            }
            let cats = if mode == "c" && r.chance(1, 4) { *r.pick(&["65538", "65539", "65537", "131074", "65537,131075"]) } else { "-" };
            if cats != "-" { out.stat("e2e_requester_with_cats", 1); }
            // an event read: the flag field carries the requester-controlled `isFabricFiltered`
            // (`u` = false: the requester asks for the unfiltered view)
            let flag_s = if kind == "v" {
                let unf = r.chance(1, 2);
                out.stat(if unf { "e2e_v_unfiltered" } else { "e2e_v_filtered" }, 1);
                if unf { "u".to_string() } else { "0".to_string() }
            } else {
                flag.to_string()
            };
            ops.push(format!(
                "e2e {} {} {} {} {} {} {} {} {}",
                kind, fab, mode, id, cats, treq, flag_s, paths.join(";"), if emit.is_empty() { "-".to_string() } else { emit.join(",") }
            ));
        }
    }
    // a WriteRequest whose handler rewrites the ACL between the expander's calls (last: the ACL of the
    // requester's fabric is gone afterwards): repeated concrete paths (cache hits) and other paths
    if !eps.is_empty() && r.chance(1, 3) {
        let fab = r.range(1, nf);
        let id = *r.pick(&[1u64, 1, 2, 112233]);
        let timed = if r.chance(1, 2) { 1 } else { 0 };
        let mut pool: Vec<String> = Vec::new();
        for e in &eps {
            for c in &e.clusters {
                for l in &c.attrs {
                    pool.push(format!("{}/{}/{}", e.id, c.id, l.id));
                }
            }
        }
        if !pool.is_empty() {
            let np = r.range(2, 5);
            let mut paths: Vec<String> = Vec::new();
            for _ in 0..np {
                if !paths.is_empty() && r.chance(1, 2) {
                    let p = paths[paths.len() - 1].clone();
                    paths.push(p);
                } else if r.chance(1, 6) {
                    paths.push(format!("*/{}/{}", r.pick(&CLUSTERS), r.below(3)));
                } else {
                    paths.push(r.pick(&pool).clone());
                }
            }
            let k = r.range(0, 3);
            out.stat(&format!("acl_rewrite_after_{}", k), 1);
            ops.push(format!("xa w {} c 0 {} - {} - {} {}", fab, id, timed, paths.join(";"), k));
        }
    }
    ops
}

pub fn gen(a: &Args) -> String {
    let seed = a.seed;
    let thorough = a.thorough;
    c05::with_matter(move |matter| {
        let mut r = Rng::new(seed);
        let mut out = Out::default();
        let env = e2e::new_env();
        embassy_time::MockDriver::get().reset();
        out.buf.push_str("#rule one case = an access-control configuration (fabrics, entries, group tables, built through the real API) + generated node metadata (0..4 endpoints x 0..3 clusters x 0..4 attributes / 0..3 commands with declared and random access bits, timed-only / fabric-scoped marks, partially disabled by the feature map; 1 in 8 nodes has duplicate ids) + requests run through the real expand_read / expand_write / expand_invoke with real request TLVs (also with the node composition replaced between the expander's calls, and end to end through the real InteractionModel with a logging handler, timed requests under virtual time, PASE sessions without fabric, event reads with isFabricFiltered set / cleared over events with, without and with an unreadable FabricIndex, chunked writes with a TimedRequest flag per chunk and the clock moving between the chunks; and a write during which the ACL of the requester's fabric is emptied between the expander's calls): 1..4 paths (concrete, each wildcard shape, absent ids, repeats), requester in {PASE with/without fabric, CASE, Group, missing fabric}, timed flag, read filter; non-trivial = the case produced both items and statuses\n");
        let n_cases: u64 = if thorough { 100000 } else { 10000 };
        for id in 1..=n_cases {
            let mut cr = r.fork();
            let nx = if thorough { cr.range(4, 24) } else { cr.range(4, 14) } as usize;
            let ops = gen_case(&mut cr, &mut out, nx, id);
            run_case(matter, &env, &mut out, &Case { id, kind: "expand".into(), ops });
        }
        out.finish()
    })
}

pub fn replay(a: &Args) -> String {
    let text = std::fs::read_to_string(a.input.as_ref().expect("--in")).expect("read input");
    c05::with_matter(move |matter| {
        let mut out = Out::default();
        let env = e2e::new_env();
        embassy_time::MockDriver::get().reset();
        for c in parse_cases(&text) {
            run_case(matter, &env, &mut out, &c);
        }
        out.finish()
    })
}
