import Driver.C01
import Driver.C02
import Driver.C03
import Driver.C04
import Driver.C05
import Driver.C06
import Driver.C07
import Driver.C08
import Driver.C09
import Driver.C10
import Driver.C11
import Driver.C12
import Driver.C13
import Driver.C14
import Driver.C15
import Driver.C16
import Driver.C17
import Driver.C18
import Driver.C19
import Driver.C20

/-- `vdriver <Cxx>`: reads the harness line protocol on stdin (see Driver/Util.lean). -/
def main (args : List String) : IO UInt32 := do
  match args with
  | ["C01"] => Driver.C01.run
  | ["C02"] => Driver.C02.run
  | ["C03"] => Driver.C03.run
  | ["C04"] => Driver.C04.run
  | ["C05"] => Driver.C05.run
  | ["C06"] => Driver.C06.run
  | ["C07"] => Driver.C07.run
  | ["C08"] => Driver.C08.run
  | ["C09"] => Driver.C09.run
  | ["C10"] => Driver.C10.run
  | ["C11"] => Driver.C11.run
  | ["C12"] => Driver.C12.run
  | ["C13"] => Driver.C13.run
  | ["C14"] => Driver.C14.run
  | ["C15"] => Driver.C15.run
  | ["C16"] => Driver.C16.run
  | ["C17"] => Driver.C17.run
  | ["C18"] => Driver.C18.run
  | ["C19"] => Driver.C19.run
  | ["C20"] => Driver.C20.run
  | _ => do
    IO.eprintln "usage: vdriver <Cxx> < lines"
    return 2
