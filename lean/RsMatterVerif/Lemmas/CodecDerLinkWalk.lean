import RsMatterVerif.Lemmas.CodecDerLinkX509
/-!
# `as_asn1` output under rs-matter's X.509 parser: refusals, extensions, validity, the composed TBS walk
(audit C17 concern 2b, second round)

* `Fails p l e` — the failing counterpart of `Run`: on every reader whose remaining input is `l`, `p` answers `e`.
* `x509New_tbs_refused` — `X509Cert::new` answers `InvalidData` on a bare TBSCertificate (what `as_asn1` emits).
* `cal_days`, `civil_day_bound`, `calOf_agree` — the writer's `civil_from_days` and the `der` crate's `DateTime::new`
  agree on every instant from the Matter epoch to the end of year 9999.
* `run_validity_asn1`, `C17.cert_x509_tbs_walk` — `Validity::decode` returns the two instants; one walk over the whole output.
-/
namespace Codec.DerRd

/-- on every reader whose remaining input is exactly `l`, the action `p` fails with `e` -/
def Fails {α : Type} (p : Dec α) (l : List Nat) (e : E) : Prop := ∀ r, NextX r l → p r = .error e

namespace Fails
variable {α β : Type}

theorem bind_left {p : Dec α} {f : α → Dec β} {l : List Nat} {e : E} (hp : Fails p l e) : Fails (p >>= f) l e := by
  intro r hr
  rw [Dec.bind_run, hp r hr]

theorem bind_right {p : Dec α} {f : α → Dec β} {l l1 : List Nat} {Q : α → Prop} {e : E}
    (hp : Run p l Q l1) (hf : ∀ a, Q a → Fails (f a) l1 e) : Fails (p >>= f) l e := by
  intro r hr
  obtain ⟨a, pre, hq, hl, hpr⟩ := hp r hr
  subst hl
  rw [Dec.bind_run, hpr]
  exact hf a hq _ hr.adv

theorem fail {l : List Nat} {e : E} : Fails (Dec.fail e : Dec α) l e := fun _ _ => rfl

theorem lift {x : Except E α} {l : List Nat} {e : E} (hx : x = .error e) : Fails (Dec.lift x) l e := by
  intro r _; subst hx; rfl

theorem congr {p q : Dec α} {l : List Nat} {e : E} (h : Fails q l e) (hpq : p = q) : Fails p l e := hpq ▸ h

theorem of_len {p : Dec α} {l : List Nat} {e : E} (h : l.length ≤ MAX_LEN → Fails p l e) : Fails p l e :=
  fun r hr => h hr.next.length_le r hr

end Fails

theorem fails_nested {α : Type} {p : Dec α} {v rest : List Nat} {e : E} {n : Nat} (hn : v.length = n)
    (hp : Fails p v e) : Fails (dNested n p) (v ++ rest) e := by
  intro r hr
  subst hn
  obtain ⟨hnew, _⟩ := Next.nested hr.next
  unfold dNested readNested
  rw [hnew]
  simp only [Bind.bind, Except.bind, hp _ hr.nested]

theorem fromDer_of_fails {α : Type} {p : Dec α} {bytes : List Nat} {e : E} (hp : Fails p bytes e)
    (hlen : bytes.length ≤ MAX_LEN) : fromDer bytes p = .error e := by
  unfold fromDer Rdr.new
  rw [lenNew_of_le hlen]
  simp only [Bind.bind, Except.bind, Pure.pure, Except.pure, hp _ (NextX.ofSlice hlen)]

theorem runNew_of_fails {α : Type} {p : Dec α} {bytes : List Nat} {e : E} (hp : Fails p bytes e)
    (hlen : bytes.length ≤ MAX_LEN) : runNew bytes p = .error e := by
  unfold runNew Rdr.new
  rw [lenNew_of_le hlen]
  simp only [Bind.bind, Except.bind, Pure.pure, Except.pure, hp _ (NextX.ofSlice hlen)]

/-- a reader standing before a TLV with another tag: `T::decode` of a fixed-tag type answers `TagUnexpected` -/
theorem fails_headerOf {tag t : Nat} {v rest : List Nat} (ht : tagOfByte t = .ok t) (hne : t ≠ tag) :
    Fails (dHeaderOf tag) (encTlv t v ++ rest) .tagUnexpected := by
  unfold dHeaderOf
  refine Fails.bind_right (run_header ht) (fun x hx => ?_)
  subst hx
  simp only [ne_eq, hne, not_false_eq_true, if_true]
  exact Fails.fail

/-- **`X509Cert::new` refuses a bare TBSCertificate**: a SEQUENCE whose first element is the `[0]` version (what
`as_asn1` writes) instead of the TBSCertificate SEQUENCE is `InvalidData` for every certificate type -/
theorem x509New_tbs_refused (k : CertKind) (x rest : List Nat)
    (hlen : (encTlv TAG_SEQUENCE (encTlv 0xA0 x ++ rest)).length ≤ MAX_LEN) :
    x509New k (encTlv TAG_SEQUENCE (encTlv 0xA0 x ++ rest)) = .error .invalidData := by
  have hf : Fails (dCertificate k ((encTlv TAG_SEQUENCE (encTlv 0xA0 x ++ rest)).length + 1))
      (encTlv TAG_SEQUENCE (encTlv 0xA0 x ++ rest)) .tagUnexpected := by
    unfold dCertificate
    refine Fails.congr (l := encTlv TAG_SEQUENCE (encTlv 0xA0 x ++ rest)) ?_ rfl
    have h0 : encTlv TAG_SEQUENCE (encTlv 0xA0 x ++ rest) = encTlv TAG_SEQUENCE (encTlv 0xA0 x ++ rest) ++ [] := by simp
    rw [h0]
    refine Fails.bind_right (run_headerOf tagOfByte_seq) (fun n hn => ?_)
    subst hn
    refine fails_nested rfl ?_
    refine Fails.bind_left ?_
    unfold dTbs
    exact Fails.bind_left (fails_headerOf tagOfByte_a0 (by decide))
  unfold x509New
  rw [fromDer_of_fails hf hlen]
  rfl

end Codec.DerRd

/-! ## calendar agreement: the writer's `civil_from_days` vs. `DateTime::new` of the `der` crate -/
namespace Codec.CertAsn1
open Codec Codec.Der

theorem jan1 (y : Nat) (hy : 1970 ≤ y) :
    (y - 1970) * 365 + (((y - 1) - 1968) / 4 - ((y - 1) - 1900) / 100 + ((y - 1) - 1600) / 400) + 719468
      = (y - 1) / 400 * 146097 + ((y - 1) % 400 * 365 + (y - 1) % 400 / 4 - (y - 1) % 400 / 100) + 306 := by
  omega

set_option maxRecDepth 10000 in
/-- leap days up to the end of year `y` = leap days up to the end of `y - 1` + (is `y` a leap year) -/
theorem leap_step (y : Nat) (hy : 1970 ≤ y) :
    ((y - 1968) / 4 - (y - 1900) / 100 + (y - 1600) / 400)
      = (((y - 1) - 1968) / 4 - ((y - 1) - 1900) / 100 + ((y - 1) - 1600) / 400) + DerRd.leapAdj (DerRd.isLeapYear y) 3 := by
  have a4 : (y - 1968) / 4 = ((y - 1) - 1968) / 4 + (if y % 4 = 0 then 1 else 0) := by split <;> omega
  have a100 : (y - 1900) / 100 = ((y - 1) - 1900) / 100 + (if y % 100 = 0 then 1 else 0) := by split <;> omega
  have a400 : (y - 1600) / 400 = ((y - 1) - 1600) / 400 + (if y % 400 = 0 then 1 else 0) := by split <;> omega
  have o1 : ((y - 1) - 1900) / 100 ≤ ((y - 1) - 1968) / 4 := by omega
  have o2 : (y - 1900) / 100 ≤ (y - 1968) / 4 := by omega
  rw [a4, a100, a400] at *
  generalize ((y - 1) - 1968) / 4 = A at *
  generalize ((y - 1) - 1900) / 100 = B at *
  generalize ((y - 1) - 1600) / 400 = C at *
  unfold DerRd.leapAdj
  by_cases hl : DerRd.isLeapYear y = true
  · have hl2 := (DerRd.isLeapYear_iff y).1 hl
    rw [hl]
    simp only [Bool.true_and, show decide (3 > 2) = true from rfl, if_true]
    split <;> split <;> split <;> omega
  · have hl2 : ¬ (y % 4 = 0 ∧ (y % 100 ≠ 0 ∨ y % 400 = 0)) := fun h => hl ((DerRd.isLeapYear_iff y).2 h)
    have hl3 : DerRd.isLeapYear y = false := by simpa using hl
    rw [hl3]
    simp only [Bool.false_and, Bool.false_eq_true, if_false]
    split <;> split <;> split <;> omega

set_option maxRecDepth 10000 in
/-- months January / February: day number via the previous March-based year -/
theorem cal_days_lo (y d yd : Nat) (hy : 1970 ≤ y) (hd : 1 ≤ d) :
    (y - 1970) * 365 + (((y - 1) - 1968) / 4 - ((y - 1) - 1900) / 100 + ((y - 1) - 1600) / 400) + (yd + (d - 1) + 0)
      = (y - 1) / 400 * 146097 + ((y - 1) % 400 * 365 + (y - 1) % 400 / 4 - (y - 1) % 400 / 100 + (yd + 306 + d - 1)) - 719468 := by
  have j1 := jan1 y hy
  generalize ((y - 1) - 1968) / 4 - ((y - 1) - 1900) / 100 + ((y - 1) - 1600) / 400 = A at *
  generalize (y - 1) / 400 * 146097 = B at *
  generalize (y - 1) % 400 * 365 + (y - 1) % 400 / 4 - (y - 1) % 400 / 100 = C at *
  omega

set_option maxRecDepth 10000 in
/-- months March … December -/
theorem cal_days_hi (y d k : Nat) (hy : 1970 ≤ y) (hd : 1 ≤ d) :
    (y - 1970) * 365 + (((y - 1) - 1968) / 4 - ((y - 1) - 1900) / 100 + ((y - 1) - 1600) / 400)
        + (59 + k + (d - 1) + DerRd.leapAdj (DerRd.isLeapYear y) 3)
      = y / 400 * 146097 + (y % 400 * 365 + y % 400 / 4 - y % 400 / 100 + (k + d - 1)) - 719468 := by
  have j2 := jan1 (y + 1) (by omega)
  simp only [Nat.add_sub_cancel] at j2
  have e1 : y + 1 - 1970 = y - 1970 + 1 := by omega
  rw [e1, leap_step y hy] at j2
  generalize ((y - 1) - 1968) / 4 - ((y - 1) - 1900) / 100 + ((y - 1) - 1600) / 400 = A at *
  generalize y / 400 * 146097 = B at *
  generalize y % 400 * 365 + y % 400 / 4 - y % 400 / 100 = C at *
  generalize DerRd.leapAdj (DerRd.isLeapYear y) 3 = L at *
  omega

theorem leapAdj_hi (l : Bool) (m : Nat) (h : 3 ≤ m) : DerRd.leapAdj l m = DerRd.leapAdj l 3 := by
  unfold DerRd.leapAdj
  have : decide (m > 2) = true := by simp; omega
  rw [this]; rfl

theorem leapAdj_lo (l : Bool) (m : Nat) (h : m ≤ 2) : DerRd.leapAdj l m = 0 := by
  unfold DerRd.leapAdj
  have : decide (m > 2) = false := by simp; omega
  rw [this]; simp

/-- **the two day counts agree**: `DateTime::new`'s count (years × 365 + leap days + days before the month + day) equals
Hinnant's `days_from_civil`, for every date from 1970 on -/
theorem cal_days (y m d : Nat) (hy : 1970 ≤ y) (hm1 : 1 ≤ m) (hm2 : m ≤ 12) (hd : 1 ≤ d) :
    (y - 1970) * 365 + (((y - 1) - 1968) / 4 - ((y - 1) - 1900) / 100 + ((y - 1) - 1600) / 400)
      + (DerRd.ydaysOf m + (d - 1) + DerRd.leapAdj (DerRd.isLeapYear y) m) = daysFromCivil y m d := by
  unfold daysFromCivil
  dsimp only
  by_cases hm : m ≤ 2
  · rw [if_pos hm, if_neg (show ¬ m > 2 by omega), leapAdj_lo _ _ hm]
    have hmc : m = 1 ∨ m = 2 := by omega
    rcases hmc with rfl | rfl
    · have := cal_days_lo y d 0 hy hd
      simpa [DerRd.ydaysOf] using this
    · have := cal_days_lo y d 31 hy hd
      simpa [DerRd.ydaysOf] using this
  · rw [if_neg hm, if_pos (show m > 2 by omega), leapAdj_hi _ _ (by omega)]
    have hmc : m = 3 ∨ m = 4 ∨ m = 5 ∨ m = 6 ∨ m = 7 ∨ m = 8 ∨ m = 9 ∨ m = 10 ∨ m = 11 ∨ m = 12 := by omega
    rcases hmc with rfl | rfl | rfl | rfl | rfl | rfl | rfl | rfl | rfl | rfl
    · simpa [DerRd.ydaysOf] using cal_days_hi y d 0 hy hd
    · simpa [DerRd.ydaysOf] using cal_days_hi y d 31 hy hd
    · simpa [DerRd.ydaysOf] using cal_days_hi y d 61 hy hd
    · simpa [DerRd.ydaysOf] using cal_days_hi y d 92 hy hd
    · simpa [DerRd.ydaysOf] using cal_days_hi y d 122 hy hd
    · simpa [DerRd.ydaysOf] using cal_days_hi y d 153 hy hd
    · simpa [DerRd.ydaysOf] using cal_days_hi y d 184 hy hd
    · simpa [DerRd.ydaysOf] using cal_days_hi y d 214 hy hd
    · simpa [DerRd.ydaysOf] using cal_days_hi y d 245 hy hd
    · simpa [DerRd.ydaysOf] using cal_days_hi y d 275 hy hd

set_option maxRecDepth 10000 in
/-- the year of the era found by `civil_from_days` is the right one: the next year starts after `doe` -/
theorem yoe_next (doe yoe : Nat) (h : doe < 146097) (hyoe : yoe = (doe - doe / 1460 + doe / 36524 - doe / 146096) / 365) :
    yoe = 399 ∨ doe < 365 * (yoe + 1) + (yoe + 1) / 4 - (yoe + 1) / 100 := by
  have h1 : doe / 36524 = 0 ∨ doe / 36524 = 1 ∨ doe / 36524 = 2 ∨ doe / 36524 = 3 ∨ doe / 36524 = 4 := by omega
  have h2 : doe / 146096 = 0 ∨ doe / 146096 = 1 := by omega
  have hy : yoe ≤ 400 := by omega
  have h3 : (yoe + 1) / 100 = 0 ∨ (yoe + 1) / 100 = 1 ∨ (yoe + 1) / 100 = 2 ∨ (yoe + 1) / 100 = 3 ∨ (yoe + 1) / 100 = 4 := by omega
  rcases h1 with h1 | h1 | h1 | h1 | h1 <;> rcases h2 with h2 | h2 <;> rcases h3 with h3 | h3 | h3 | h3 | h3 <;> omega

set_option maxRecDepth 10000 in
theorem civil_day_core (days z era doe yoe doy mp : Nat) (hz : z = days + 719468) (hera : era = z / 146097)
    (hdoe : doe = z % 146097) (hyoe : yoe = (doe - doe / 1460 + doe / 36524 - doe / 146096) / 365)
    (hdoy : doy = doe - (365 * yoe + yoe / 4 - yoe / 100)) (hmp : mp = (5 * doy + 2) / 153) :
    doy - (153 * mp + 2) / 5 + 1 ≤ DerRd.daysIn
      (DerRd.isLeapYear (if (if mp < 10 then mp + 3 else mp - 9) ≤ 2 then yoe + era * 400 + 1 else yoe + era * 400))
      (if mp < 10 then mp + 3 else mp - 9) := by
  have hd : doe < 146097 := by omega
  obtain ⟨y1, y2, y3⟩ := yoe_facts doe yoe hd hyoe
  obtain ⟨m1, m2, m3⟩ := mp_facts doy mp (by omega) hmp
  have hn := yoe_next doe yoe hd hyoe
  by_cases h11 : mp = 11
  · subst h11
    have e1 : (if (11 : Nat) < 10 then 11 + 3 else 11 - 9) = 2 := by decide
    rw [e1]
    simp only [DerRd.daysIn, Nat.le_refl, if_true]
    by_cases hl : DerRd.isLeapYear (yoe + era * 400 + 1) = true
    · rw [if_pos hl]; omega
    · have hl2 : ¬ ((yoe + era * 400 + 1) % 4 = 0 ∧ ((yoe + era * 400 + 1) % 100 ≠ 0 ∨ (yoe + era * 400 + 1) % 400 = 0)) :=
        fun h => hl ((DerRd.isLeapYear_iff _).2 h)
      rw [if_neg hl]
      have s4 : (yoe + 1) / 4 = yoe / 4 + (if (yoe + 1) % 4 = 0 then 1 else 0) := by split <;> omega
      have s100 : (yoe + 1) / 100 = yoe / 100 + (if (yoe + 1) % 100 = 0 then 1 else 0) := by split <;> omega
      have r4 : (yoe + era * 400 + 1) % 4 = (yoe + 1) % 4 := by omega
      have r100 : (yoe + era * 400 + 1) % 100 = (yoe + 1) % 100 := by omega
      have r400 : (yoe + era * 400 + 1) % 400 = (yoe + 1) % 400 := by omega
      have o1 : yoe / 100 ≤ yoe / 4 := by omega
      rw [r4, r100, r400] at hl2
      rw [s4, s100] at hn
      clear hyoe hdoe hz hera r4 r100 r400 s4 s100 hmp m1
      generalize yoe / 4 = q4 at *
      generalize yoe / 100 = q100 at *
      rcases hn with hn | hn
      · subst hn; omega
      · split at hn <;> split at hn <;> omega
  · have hmc : mp = 0 ∨ mp = 1 ∨ mp = 2 ∨ mp = 3 ∨ mp = 4 ∨ mp = 5 ∨ mp = 6 ∨ mp = 7 ∨ mp = 8 ∨ mp = 9 ∨ mp = 10 := by omega
    rcases hmc with h | h | h | h | h | h | h | h | h | h | h <;> subst h <;> simp [DerRd.daysIn] <;> omega

theorem civil_day_bound (days : Nat) :
    (civilFromDays days).2.2 ≤ DerRd.daysIn (DerRd.isLeapYear (civilFromDays days).1) (civilFromDays days).2.1 :=
  civil_day_core days _ _ _ _ _ _ rfl rfl rfl rfl rfl rfl

/-- the calendar fields the writer computes for a Unix time, as the X.509 model's `Cal` -/
def calOf (t : Nat) : DerRd.Cal :=
  { year := (civilOfUnix t).year, month := (civilOfUnix t).month, day := (civilOfUnix t).day,
    hour := (civilOfUnix t).hour, minute := (civilOfUnix t).minute, second := (civilOfUnix t).second }

set_option maxRecDepth 10000 in
/-- **calendar agreement**: for every instant from the Matter epoch to 9999-12-31T23:59:59Z the date the writer's
`civil_from_days` computes is a valid date of the X.509 model, and `DateTime::new`'s second count of it is the instant -/
theorem calOf_agree (t : Nat) (h1 : MATTER_EPOCH_SECS ≤ t) (h2 : t ≤ MAX_UNIX) : (calOf t).Valid ∧ (calOf t).secs = t := by
  have hE : MATTER_EPOCH_SECS = 946684800 := rfl
  have hM : MAX_UNIX = 253402300799 := rfl
  obtain ⟨r1, r2, r3, r4, r5⟩ := civil_roundtrip (t / 86400)
  have hy1 := year_lower _ _ _ r2 r3 r4 r5 (by rw [r1]; omega)
  have hy2 := year_upper _ _ _ r2 r3 r4 r5 (by rw [r1]; omega)
  have hb := civil_day_bound (t / 86400)
  unfold calOf civilOfUnix
  dsimp only
  generalize hc : civilFromDays (t / 86400) = c at *
  obtain ⟨y, m, d⟩ := c
  simp only at r1 r2 r3 r4 r5 hy1 hy2 hb ⊢
  refine ⟨?_, ?_⟩
  · unfold DerRd.Cal.Valid
    dsimp only
    exact ⟨by omega, hy2, r2, r3, r4, hb, by omega, by omega, by omega⟩
  have hcd := cal_days y m d (by omega) r2 r3 r4
  unfold DerRd.Cal.secs DerRd.dateTimeSecs
  dsimp only
  rw [hcd, r1]
  omega

end Codec.CertAsn1

/-! ## `Validity::decode` on the output of `as_asn1`, and the composed walk -/
namespace Codec.CertAsn1
open Codec Codec.Der

set_option maxRecDepth 10000 in
/-- the UTCTime / GeneralizedTime the writer emits is the X.509 model's encoding of the same calendar date -/
theorem timeNode_encTime (e : Nat) (n : Node) (h : MATTER_EPOCH_SECS + e ≤ MAX_UNIX) (hn : timeNode e = some n) :
    n.encRd = DerRd.encTime (calOf (MATTER_EPOCH_SECS + e)) := by
  have hM : MAX_UNIX = 253402300799 := rfl
  obtain ⟨hv, _⟩ := calOf_agree (MATTER_EPOCH_SECS + e) (by omega) h
  unfold timeNode timeStr at hn
  dsimp only at hn
  rw [if_neg (by omega)] at hn
  unfold DerRd.encTime
  unfold DerRd.Cal.Valid at hv
  have hy : (calOf (MATTER_EPOCH_SECS + e)).year = (civilOfUnix (MATTER_EPOCH_SECS + e)).year := rfl
  by_cases hg : (civilOfUnix (MATTER_EPOCH_SECS + e)).year ≥ 2050
  · rw [if_pos hg] at hn
    simp only [Option.map_some, Option.some.injEq] at hn
    subst hn
    rw [if_neg (by rw [hy]; omega)]
    simp only [Node.encRd, DerRd.TAG_GENERALIZED_TIME, calOf, Der.dec4, Der.dec2, DerRd.dec2, Der.digit, List.cons_append,
      List.nil_append]
    have h9 : (civilOfUnix (MATTER_EPOCH_SECS + e)).year ≤ 9999 := hv.2.1
    generalize (civilOfUnix (MATTER_EPOCH_SECS + e)).year = Y at *
    congr 1
    simp only [List.cons.injEq, and_true, true_and]
    omega
  · rw [if_neg hg] at hn
    simp only [Option.map_some, Option.some.injEq] at hn
    subst hn
    rw [if_pos (by rw [hy]; omega)]
    simp only [Node.encRd, DerRd.TAG_UTC_TIME, calOf, Der.dec2, DerRd.dec2, Der.digit, List.cons_append, List.nil_append]

/-- **`Validity::decode` on the validity `as_asn1` wrote** returns two `DateTime`s whose second counts are the two
instants of the TLV certificate (Matter epoch + value; `not-after = 0` is written, as the code does, as
9999-12-31T23:59:59Z = `DOESNT_EXPIRE`) -/
theorem run_validity_asn1 (nbv nav : Nat) (nb na : Node) (h1 : MATTER_EPOCH_SECS + nbv ≤ MAX_UNIX)
    (h2 : MATTER_EPOCH_SECS + nav ≤ MAX_UNIX) (hnb : timeNode nbv = some nb) (hna : timeNode nav = some na) (rest : List Nat) :
    DerRd.Run DerRd.dValidity (validityBytes nb na ++ rest)
      (fun y => y.1.secs = MATTER_EPOCH_SECS + nbv ∧ y.2.secs = MATTER_EPOCH_SECS + nav ∧
        y = ((calOf (MATTER_EPOCH_SECS + nbv)).dt, (calOf (MATTER_EPOCH_SECS + nav)).dt)) rest := by
  obtain ⟨v1, s1⟩ := calOf_agree (MATTER_EPOCH_SECS + nbv) (by omega) h1
  obtain ⟨v2, s2⟩ := calOf_agree (MATTER_EPOCH_SECS + nav) (by omega) h2
  unfold validityBytes
  rw [timeNode_encTime nbv nb h1 hnb, timeNode_encTime nav na h2 hna]
  refine (DerRd.run_validity v1 v2).weaken (fun y hy => ?_)
  subst hy
  exact ⟨s1, s2, rfl⟩

end Codec.CertAsn1

namespace Codec.DerRd

/-- the walk of `TbsCertificate::decode_value` (`dTbs`) without the attestation profile: SEQUENCE header, nested reader,
`dTbsHead` (version, serial, signature algorithm, issuer), `Validity::decode`, `dTbsMid` (subject, SubjectPublicKeyInfo); the
`[3]` extensions element is taken as an `AnyRef` (its interpretation is `ParsedExtensionFields::parse`, see below) -/
def dTbsWalk (fuel : Nat) : Dec ((List Nat × (Nat × List Nat) × List Nat × (List Nat × DnAttrs)) × (DateTime × DateTime) ×
    ((List Nat × DnAttrs) × (Option (Nat × List Nat) × BitStr)) × (Nat × List Nat)) := do
  let len ← dHeaderOf TAG_SEQUENCE
  dNested len (do
    let h ← dTbsHead fuel
    let v ← dValidity
    let m ← dTbsMid fuel
    let x ← dAny
    pure (h, v, m, x))

end Codec.DerRd

namespace C17
open Codec Codec.Der Codec.CertAsn1

/-- **One walk over the whole `as_asn1` output with the field readers of rs-matter's X.509 parser** (audit C17, 2b).
For every certificate within the declared bounds with an uncompressed P-256 key, `T::from_der`-style reading of the bytes
`as_asn1` writes (`SliceReader::new`, the walk, `finish`) succeeds and returns: version 3, the serial, ecdsa-with-SHA256, the
issuer and subject RDNSequences (= X.509 encoding of the attribute lists `xi`, `xs`; no VID / PID), **the two validity
instants** (`secs` = Matter epoch + the TLV value; `not-after = 0` ↦ 9999-12-31T23:59:59Z as the code writes it), curve
P-256, the public key, and the `[3]` element holding the extensions. -/
theorem cert_x509_tbs_walk (f : Fields) (h : f.Legal) (hpl : f.pubkey.length = 65) (hph : f.pubkey.head? = some 4) :
    ∃ n xi xs, certNode f = some n ∧ mapO Attr.toX f.issuer = some xi ∧ mapO Attr.toX f.subject = some xs ∧
      ∀ buf : List Nat, n.need ≤ buf.length → buf.length < 65536 →
        asAsn1 f.lazy buf = .ok n.enc ∧
        ∀ fuel, f.issuer.length < fuel + 2 → f.subject.length < fuel + 2 →
          ∃ a, DerRd.fromDer n.enc (DerRd.dTbsWalk (fuel + 2)) = .ok a ∧
            a.1 = ([2], (DerRd.TAG_INTEGER, f.serial), DerRd.OID_ECDSA_WITH_SHA256,
              (DerRd.encRdns xi, { vid := none, pid := none })) ∧
            a.2.1.1.secs = MATTER_EPOCH_SECS + f.notBefore ∧
            a.2.1.2.secs = MATTER_EPOCH_SECS + (if f.notAfter = 0 then DOESNT_EXPIRE else f.notAfter) ∧
            a.2.2.1.1 = (DerRd.encRdns xs, { vid := none, pid := none }) ∧
            a.2.2.1.2.1 = some (DerRd.TAG_OID, DerRd.OID_PRIME256V1) ∧ a.2.2.1.2.2.bytes = f.pubkey ∧
            a.2.2.1.2.2.unused = 0 ∧
            a.2.2.2 = (0xA3, DerRd.encTlv 0x30 (Node.encRdL (f.exts.map extNode))) := by
  obtain ⟨n, hn⟩ := certNode_some f h
  have hE : MATTER_EPOCH_SECS = 946684800 := rfl
  have hM : MAX_UNIX = 253402300799 := rfl
  have hD : DOESNT_EXPIRE = 252455615999 := rfl
  have hnb := h.nb
  have hna := h.na
  refine ⟨n, ?_⟩
  obtain ⟨_, _, _, issuer, nb, na, subject, h2, h3, h4, h5, _⟩ := certNode_parts f n hn
  obtain ⟨xi, i1, _, i3, i4, i5⟩ := dn_encRd f.issuer issuer h.wf.1 h2
  obtain ⟨xs, s1, _, s3, s4, s5⟩ := dn_encRd f.subject subject h.wf.2.1 h5
  refine ⟨xi, xs, hn, i1, s1, fun buf hfit hsmall => ?_⟩
  have hl := lenOk_of_need n (by omega)
  refine ⟨asAsn1_ok f n buf hn h.wf hl hfit, fun fuel hfi hfs => ?_⟩
  obtain ⟨xi2, xs2, nb2, na2, a1, a2, a3, a4, _, _, _, _, _, _, a5⟩ := asn1_tbs_layout f n hn h.wf hl
  rw [i1] at a1; rw [s1] at a2; rw [h3] at a3; rw [h4] at a4
  cases a1; cases a2; cases a3; cases a4
  have hmax : n.enc.length ≤ DerRd.MAX_LEN := by
    have := need_ge n
    have : DerRd.MAX_LEN = 268435455 := rfl
    omega
  have hrun : DerRd.Run (DerRd.dTbsWalk (fuel + 2)) n.enc
      (fun a => a.1 = ([2], (DerRd.TAG_INTEGER, f.serial), DerRd.OID_ECDSA_WITH_SHA256,
              (DerRd.encRdns xi, { vid := none, pid := none })) ∧
            a.2.1.1.secs = MATTER_EPOCH_SECS + f.notBefore ∧
            a.2.1.2.secs = MATTER_EPOCH_SECS + (if f.notAfter = 0 then DOESNT_EXPIRE else f.notAfter) ∧
            a.2.2.1.1 = (DerRd.encRdns xs, { vid := none, pid := none }) ∧
            a.2.2.1.2.1 = some (DerRd.TAG_OID, DerRd.OID_PRIME256V1) ∧ a.2.2.1.2.2.bytes = f.pubkey ∧
            a.2.2.1.2.2.unused = 0 ∧
            a.2.2.2 = (0xA3, DerRd.encTlv 0x30 (Node.encRdL (f.exts.map extNode)))) [] := by
    rw [a5]
    unfold DerRd.dTbsWalk
    refine DerRd.Run.of_append_nil ?_
    refine DerRd.Run.bind (DerRd.run_headerOf DerRd.tagOfByte_seq) (fun len hlen => ?_)
    subst hlen
    refine DerRd.run_nested rfl ?_
    refine DerRd.Run.bind (DerRd.run_tbsHead i3 (i5 _) (by omega)) (fun hd hhd => ?_)
    refine DerRd.Run.bind (run_validity_asn1 f.notBefore _ nb na (by omega) (by split <;> omega) h3 h4 _) (fun v hv => ?_)
    refine DerRd.Run.bind (DerRd.run_tbsMid s3 (s5 _) (by omega) hpl hph) (fun m hm => ?_)
    have hx := DerRd.run_any (tag := 0xA3) (v := DerRd.encTlv 0x30 (Node.encRdL (f.exts.map extNode))) (rest := [])
      DerRd.tagOfByte_a3
    simp only [List.append_nil] at hx
    refine DerRd.Run.bind (by unfold extsBytes; exact hx) (fun x hx2 => ?_)
    exact DerRd.Run.pure ⟨hhd, hv.1, hv.2.1, hm.1, hm.2.1, hm.2.2.1, hm.2.2.2, hx2⟩
  obtain ⟨a, ha, hder⟩ := DerRd.fromDer_of_run hrun hmax
  exact ⟨a, hder, ha⟩

end C17
