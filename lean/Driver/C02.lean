import RsMatterVerif.Model.Pase
import RsMatterVerif.Model.PaseFs
import RsMatterVerif.Model.PaseInit
import Driver.Util
/-! Driver for C02: replays the harness' scripts (window operations - basic and enhanced -, virtual
time, PASE initiators played message by message against the real responder, duplicated / re-sent
datagrams, a session table filled by other sessions) on `Model/Pase` and evaluates the
specification on the implementation's observations: a PASE session appears only at a Pake3 that
carries the right proof for the right transcript while the window is open; failures are counted;
the window is revoked at the threshold; advertised ⇔ window present. -/
namespace Driver.C02
open Pase

abbrev KV := List (String × String)

def kvOf (ws : List String) : KV :=
  ws.filterMap fun w =>
    match w.splitOn "=" with
    | k :: v :: rest => some (k, "=".intercalate (v :: rest))
    | _ => none

def KV.get (m : KV) (k : String) : Option String := (m.find? (·.1 = k)).map (·.2)
def KV.num (m : KV) (k : String) : Nat := ((m.get k).bind String.toNat?).getD 0
def KV.optNum (m : KV) (k : String) : Option Nat := (m.get k).bind String.toNat?

/-- what initiator `k` knows (symbolically) -/
structure Ini where
  k : Nat
  ctx : Option Nat := none
  pw : Nat := 0
  /-- the window instance whose salt / iteration count the PBKDFParamResponse carried -/
  salt : Nat := 0
  pB : Option Nat := none
  /-- the exchange is still usable from the initiator's side -/
  live : Bool := true
  /-- message counter of its next datagram -/
  nextCtr : Nat := 0
  /-- what it has sent: handshake message index (0 PBKDFParamRequest, 1 Pake1, 2 Pake3) ↦ (counter, message) -/
  sent : List (Nat × Nat × Op) := []

def Ini.conf (i : Ini) : Option Conf :=
  match i.ctx, i.pB with
  | some c, some b => some { pw := i.pw * 1000 + i.salt, ctx := c, pA := i.k, pB := b }
  | _, _ => none

/-- the specification's own book-keeping (written from the property text, independent of `step`) -/
structure Spec where
  /-- window: (passcode its verifier was made from, expiry, failures) -/
  win : Option (Nat × Nat × Nat) := none
  sessions : Nat := 0
  /-- the window expired and the device was not yet seen without it (allowed until the next poll) -/
  lingering : Bool := false

structure St where
  /-- `init` case: the real initiator against the real responder, messages modified in flight -/
  initMode : Bool := false
  m : Pase.St := {}
  /-- the fail-safe (`Model/PaseFs.lean`): the instant it expires when armed -/
  fs : Option Nat := none
  devPw : Nat := 0
  /-- a handshake message is mutated in flight: the case is judged by the oracle only -/
  tamper : Bool := false
  /-- number of windows opened so far: every window has its own salt, so its verifier (the
  model's passcode class) is (passcode, window instance) -/
  opens : Nat := 0
  t0 : Option Nat := none
  inis : List Ini := []
  spec : Spec := {}
  /-- exchanges whose final `SessionEstablishmentSuccess` the initiator never acknowledges (`noack=1`) -/
  pendFinal : List Nat := []

/-- slack for the virtual milliseconds the responder's answer and its acknowledgement are under way -/
def slackMs : Nat := 200
/-- slack for the few virtual milliseconds the initiator's next message is under way -/
def aliveSlackMs : Nat := 50

def tabOf (s : Pase.St) : String :=
  let c (p : Slot → Bool) : Nat := (s.table.filter p).length
  let f := c (fun sl => sl == .filler false)
  let fp := c (fun sl => sl == .filler true)
  let u := c (fun sl => match sl with | .unsec x => (findTask s x).isNone | _ => false)
  let up := c (fun sl => match sl with | .unsec x => (findTask s x).isSome | _ => false)
  let r := c (fun sl => match sl with | .reserved _ => true | _ => false)
  let p := c (fun sl => match sl with | .pase _ => true | _ => false)
  s!"tab=F:{f},Fp:{fp},U:{u},Up:{up},R:{r},P:{p}"

def paseCount (s : Pase.St) : Nat :=
  (s.table.filter (fun sl => match sl with | .pase _ => true | _ => false)).length

def obsOf (s : Pase.St) (fs : Option Nat := none) : String :=
  let w := if s.window.isSome then "1" else "0"
  let f := match s.window with | some x => toString x.failures | none => "-"
  let mk := if s.marker.isSome then "1" else "0"
  let adv := if advertised s then "1" else "0"
  let (enh, disc) := match advertisedAs s with
    | some (d, true) => ("1", toString d)
    | some (_, false) => ("0", "-")
    | none => ("-", "-")
  s!"w={w} f={f} m={mk} s={paseCount s} adv={adv} {tabOf s} enh={enh} disc={disc} fs={if fs.isSome then 1 else 0}"

def replyOf : Out → String
  | .none => "silent"
  | .ok => "ok"
  | .okN n => s!"ok:{n}"
  | .errBusy => "err:Busy"
  | .errInvalidCommand => "err:InvalidCommand"
  | .errConstraint => "err:ConstraintError"
  | .errPakeParam => "err:Failure cs=3"
  | .errClusterBusy => "err:Failure cs=2"
  | .pbkdfResp _ => "pbkdfresp"
  | .pake2 _ => "pake2"
  | .statusSuccess => "status:0"
  | .statusInvalidParameter => "status:2"
  | .statusBusy => "status:4"
  | .statusSessionNotFound => "status:5"
  | .transportBusy => "status:4"
  | .ackOnly => "ack"
  | .dropped => "silent"

/-- let responder tasks whose peer stayed silent beyond the receive timeout die; `none` = a task is
inside the band in which its timer may or may not have fired: it is armed (for `rxTimeoutMs`) when
the responder's answer has been acknowledged, at the earliest with the answer itself and at the
latest one retransmission ladder (`sendLadderMs`) later -/
def reap (m : Pase.St) (now : Nat) : Option Pase.St :=
  m.tasks.foldl (fun acc t =>
    match acc with
    | none => none
    | some m =>
      let rx := rxTimeoutMs t.mrp localActiveMs
      if now ≥ t.since + rx + sendLadderMs t.mrp + slackMs then
        some (Pase.step { m with now := max m.now (t.since + rx) } (.rxTimeout t.exch)).1
      else if now + aliveSlackMs > t.since + rx then none
      else some m) (some m)

/-- the responder's final status report was never acknowledged: at the end of the retransmission
ladder its `send_with` fails and `handle` charges a failure (`Op.dead` on a `finishing` exchange);
`none` = the observation falls inside the ladder (the generator must follow `noack=1` by a long `tick`) -/
def reapFinal (m : Pase.St) (pend : List Nat) (now : Nat) : Option Pase.St :=
  pend.foldl (fun acc k =>
    match acc with
    | none => none
    | some m =>
      match m.finishing.find? (·.1 == k) with
      | none => some m
      | some (_, untl) =>
        if now ≥ untl + slackMs then
          some { (Pase.step { m with now := min m.now untl } (.dead k)).1 with now := m.now }
        else none) (some m)

def specExpire (sp : Spec) (now : Nat) : Spec :=
  match sp.win with
  | some (_, e, _) => if now > e then { sp with win := none, lingering := true } else sp
  | none => sp

def victimOf (ev : String) : Option VClass :=
  match (ev.splitOn ",").head? with
  | some "F" => some .filler
  | some "U" => some .unsec
  | some "P" => some .pase
  | _ => none

/-- what reached the initiator, as a message of `Model/PaseInit.lean`. The honest responder's values: request,
response, shares and salt / iteration count have identity 1; its `cB` is computed from ITS view (`rv`). -/
def initMsg (rv : PaseInit.RespView) (tok : String) : PaseInit.Msg :=
  let good : PaseInit.Resp := { payload := 1, random := 1, hasParams := true, salt := 1, saltLen := 32, iterations := 1 }
  match tok.splitOn ":" with
  | ["21", "same"] => .resp good
  | ["21", "field"] => .resp { good with payload := 2 }
  | ["21", "rnd"] => .resp { good with payload := 2, random := 2 }
  | ["21", "noparams"] => .resp { good with payload := 2, hasParams := false }
  | ["21", "saltlen"] => .resp { good with payload := 2, saltLen := 15 }
  | ["21", _] => .respMalformed
  | ["23", "same"] => .pake2 1 rv.cb
  | ["23", "field"] => .pake2 2 rv.cb
  | ["23", _] => .pake2Malformed
  | ["40", "same"] => .status true
  | ["40", "parse"] => .statusMalformed
  | ["40", _] => .status false
  | _ => .otherOpcode

/-- one `hs` of an `init` case: the model's verdict and the specification on the implementation's answer -/
def initStep (devPw : Nat) (m o' : KV) : String :=
  let ipw := m.num "ipw"
  let rxs := ((o'.get "rx").getD "-").splitOn "," |>.filter (fun t => t != "-" && t != "")
  let rv : PaseInit.RespView := { vR := { passcode := devPw, salt := 1, iterations := 1 }, reqSeen := 1, respSent := 1, pASeen := 1, pB := 1 }
  let s0 : PaseInit.St := { passcode := ipw, rnd := 1, req := 1, pA := 1 }
  let (sN, sent, notify) := rxs.foldl (fun (acc : PaseInit.St × Nat × Bool) tok =>
    let r := PaseInit.step acc.1 (initMsg rv tok)
    let sent := match r.2 with | .sendPake1 | .sendPake3 => acc.2.1 + 1 | _ => acc.2.1
    let notify := match r.2 with | .fail true => true | _ => acc.2.2
    (r.1, sent, notify)) (s0, 1, false)
  let est := match sN.stage with | .established _ => true | _ => false
  let implOk := (o'.get "res") = some "ok"
  let implSess := o'.num "isess"
  let untouched := rxs = ["21:same", "23:same", "40:same"]
  -- the property, on the implementation's answer alone: a session on the initiator's side only with the right
  -- passcode and with PBKDFParamResponse, Pake2 and the success report exactly as the responder sent them
  if implSess > 0 && ipw ≠ devPw then "ORA the initiator completed a session with a passcode the responder's window does not have"
  else if implSess > 0 && !untouched then "ORA the initiator completed a session although a message of the responder was modified / replaced in flight"
  else if implOk && implSess = 0 then "ORA the initiator reported success without a session"
  else if o'.num "dsess" > 0 && ipw ≠ devPw then "ORA a session on the device for an initiator with a wrong passcode"
  else
    let mo := s!"res={if est then "ok" else "err"} sent={sent} isess={if est then 1 else 0}"
    let io := s!"res={if implOk then "ok" else "err"} sent={o'.num "sent"} isess={implSess}"
    -- (the status report the initiator sends when it gives up is compared when it received something to give up on)
    let mo := if rxs.isEmpty then mo else s!"{mo} notify={if notify then 1 else 0}"
    let io := if rxs.isEmpty then io else s!"{io} notify={o'.num "notify"}"
    if mo = io then "ok" else s!"DIS {mo}"

def step (st : St) (line : String) : St × String :=
  let (op, out) := splitArrow line
  match words op with
  | "case" :: _ :: "init" :: rest => ({ devPw := (kvOf rest).num "pw", initMode := true }, "case")
  | "case" :: _ :: rest => ({ devPw := (kvOf rest).num "pw", tamper := ((kvOf rest).get "tamper").isSome }, "case")
  | head :: rest =>
    let m := kvOf rest
    if st.initMode then
      (st, if head = "hs" then initStep st.devPw m (kvOf (words out)) else "ok")
    else
    -- impl answer: `t=<ms> <reply> | <observation>`
    let (lhs, obs) := match out.splitOn " | " with
      | [a, b] => (a, b)
      | _ => (out, "")
    let lw := words lhs
    let t := ((lw.head?.map (fun w => (w.drop 2).toString)).bind String.toNat?).getD 0
    let reply := " ".intercalate (lw.drop 1)
    if reply = "skip" then (st, "ok") else
    let o' := kvOf (words obs)
    if st.tamper then
      -- single-bit mutation of a handshake message in flight: no PASE session may result
      let s := o'.num "s"
      if obs ≠ "" && s > 0 then (st, "ORA session although a handshake message was mutated in flight")
      else (st, "ok")
    else
    let t0 := st.t0.getD t
    let now := t - t0
    let st := { st with t0 := some t0 }
    -- virtual time is an input: bring the model to `now`, reaping dead handshakes first
    match reap st.m now with
    | none => (st, "BAD a live handshake idles inside the receive-timeout band (generator must avoid this)")
    | some m0 =>
    if !st.pendFinal.isEmpty && head ≠ "tick" then
      (st, "BAD `noack=1` must be followed by a `tick` beyond the retransmission ladder")
    else
    let st := { st with m := (Pase.step m0 (.tick (now - m0.now))).1 }
    let sp := st.spec
    let k := m.num "i"
    let ini := (st.inis.find? (·.k = k)).getD { k := k }
    let setIni (st : St) (i : Ini) : St := { st with inis := i :: st.inis.filter (·.k ≠ i.k) }
    let victim := victimOf ((o'.get "ev").getD "-")
    -- the model event(s)
    let (mev0, st) : Option Ev × St :=
      match head with
      | "open" => (some (.op (.openWin (st.devPw * 1000 + st.opens + 1) (m.num "t"))), st)
      | "openenh" =>
        (some (.op (.openEnh (m.num "pw" * 1000 + st.opens + 1) (m.num "t") (m.num "sl") (m.num "it") (m.num "disc"))), st)
      | "cmdopen" =>
        (some (.op (.cmdOpenEnh (m.num "pw" * 1000 + st.opens + 1) (m.num "t") (m.num "sl") (m.num "it") (m.num "disc")
          ((m.optNum "vl").getD 97))), st)
      | "cmdbasic" => (some (.op (.cmdOpenBasic (st.devPw * 1000 + st.opens + 1) (m.num "t"))), st)
      | "revoke" => (some (.op .revoke), st)
      | "tick" => (some (.op (.tick (m.num "ms"))), st)
      | "poll" => (some (.op .poll), st)
      | "fill" => (some (.op (.fill (m.num "n") (m.num "pin" == 1))), st)
      | "unfill" => (some (.op .unfill), st)
      | "pbkdf" =>
        let r := match m.get "req" with
          | some "malformed" => Req.malformed
          | some "pid" => Req.passcodeIdNonZero
          | _ =>
            if (m.get "sai").isSome || (m.get "sii").isSome || (m.get "sat").isSome
            then Req.params (m.optNum "sai") (m.optNum "sii") (m.optNum "sat") else Req.good
        let o := Op.pbkdf k r victim
        (some (.msg 0 o), setIni st { k := k, nextCtr := 1, sent := [(0, 0, o)] })
      | "pake1" =>
        let p := match m.get "pt" with
          | some "zero" => Pt.identity
          | some "offcurve" | some "comp65" | some "hybrid" | some "xgep" | some "pfield" => Pt.offCurve
          | some "short" | some "inf1" | some "comp" | some "long" => Pt.malformed
          -- valid points that are not the prover's own share
          | some "gen" => Pt.valid (k + 1000)
          | some "m" => Pt.valid (k + 2000)
          | some "n" => Pt.valid (k + 3000)
          | some "neg" => Pt.valid (k + 4000)
          | _ => Pt.valid k
        let o := Op.pake1 k p
        (some (.msg ini.nextCtr o),
          setIni st { ini with pw := m.num "pw", nextCtr := ini.nextCtr + 1, sent := (1, ini.nextCtr, o) :: ini.sent })
      | "pake3" =>
        let good := ini.conf
        let c : Option CA := match m.get "ca" with
          | some "flip" => some (.junk 1)
          | some "zero" => some (.junk 0)
          | some "short" => some .malformed
          | some "good" | none => good.map .mac
          | some other =>
            match other.splitOn ":" with
            | ["replay", j] =>
              match ((st.inis.find? (·.k = j.toNat?.getD 0)).bind Ini.conf) with
              | some cj => some (.mac cj)
              | none => some (.junk 2)
            | _ => some (.junk 3)
        match c with
        | some c =>
          let o := Op.pake3 k c
          (some (.msg ini.nextCtr o), setIni st { ini with nextCtr := ini.nextCtr + 1, sent := (2, ini.nextCtr, o) :: ini.sent })
        | none => (none, st)
      | "abort" => (some (.msg ini.nextCtr (.other k)), setIni st { ini with nextCtr := ini.nextCtr + 1 })
      | "resend" =>
        match ini.sent.find? (·.1 = m.num "m") with
        | some (_, c, o) => (some (.msg c o), st)
        | none => (none, st)
      | _ => (none, st)
    let mev : Option FEv := match head with
      | "cmdrevoke" => some .cmdRevoke
      | "fspoll" => some .fsPoll
      | _ => mev0.map .ev
    if head = "rxto" then
      let want := s!"rxto={rxTimeoutMs { active := m.num "pa", idle := m.num "pi", thresh := m.num "pt" } (m.num "la")}"
      if reply = want then (st, "ok") else (st, s!"DIS {want}")
    else
    match mev with
    | none => (st, "BAD op")
    | some mev =>
      let (f1, o) := Pase.stepF { st := st.m, fs := st.fs } mev
      -- the network delivered the datagram twice; or the answer was lost and the initiator's MRP retransmission
      -- of the request reached the device as well
      let f1 := if m.get "dup" = some "1" || m.get "rdrop" = some "1" then (Pase.stepF f1 mev).1 else f1
      let m1 := f1.st
      -- handshakes whose peer stays silent throughout a long `tick` die inside it
      let reaped : Option Pase.St :=
        if head = "tick" then (reap m1 (now + m.num "ms")).bind (fun m2 => reapFinal m2 st.pendFinal (now + m.num "ms"))
        else some m1
      let st := if head = "tick" then { st with pendFinal := [] } else st
      let st := if head = "pake3" && m.get "noack" = some "1" && o = .statusSuccess
        then { st with pendFinal := k :: st.pendFinal } else st
      match reaped with
      | none => (st, "BAD a live handshake idles inside the receive-timeout band / a `noack=1` tick ends inside the ladder (generator must avoid this)")
      | some m' =>
      -- what the initiator learns from the answer
      let st := match o with
        | .pbkdfResp ctx => setIni st { (st.inis.find? (fun (i : Ini) => i.k = k)).getD { k := k } with ctx := some ctx, salt := st.opens }
        | .ok => if head = "open" || head = "openenh" || head = "cmdopen" || head = "cmdbasic" then { st with opens := st.opens + 1 } else st
        | .pake2 pB => setIni st { (st.inis.find? (fun (i : Ini) => i.k = k)).getD { k := k } with pB := some pB }
        | _ => st
      -- the op itself takes (virtual) time: the observation is made after it
      let st := { st with m := m', fs := f1.fs }
      -- ---------------- specification on the implementation's observation ----------------
      let implW := o'.get "w" = some "1"
      let implS := o'.num "s"
      let implAdv := o'.get "adv" = some "1"
      let implF := (o'.get "f").bind String.toNat?
      let evicted := ((o'.get "ev").getD "-").splitOn ","
      let sp := specExpire sp now
      -- expected-by-spec effects of the op on the window
      let sp := match head with
        | "open" | "cmdbasic" =>
          if reply = "ok" then { sp with win := some (st.devPw, now + m.num "t" * 1000, 0), lingering := false } else sp
        | "openenh" | "cmdopen" =>
          if reply = "ok" then { sp with win := some (m.num "pw", now + m.num "t" * 1000, 0), lingering := false } else sp
        | "revoke" | "cmdrevoke" => { sp with win := none }
        | _ => sp
      -- (1) a session appears only at a Pake3 with the passcode of the open window's verifier, an unmodified /
      --     unreplayed confirmation, not at a re-sent datagram, while the window is open (present and unexpired)
      let c1 : Option String :=
        if implS > sp.sessions then
          if head = "resend" then some "a re-sent (replayed) handshake datagram yielded a PASE session"
          else if head ≠ "pake3" then some s!"a PASE session appeared at a `{head}` step"
          else if implS > sp.sessions + 1 then some "more than one session appeared"
          else if (m.get "ca").getD "good" ≠ "good" then some "session although the confirmation was mutated / replayed"
          else match sp.win with
            | none => some "session although no commissioning window is open (closed or expired)"
            | some (wpw, _, _) =>
              if ini.pw ≠ wpw then some "session although the passcode is not the one of the open window's verifier" else none
        else if implS < sp.sessions && !evicted.contains "P" then some "a session disappeared"
        else none
      -- (2) advertised ⇔ window present
      let c2 : Option String :=
        if implAdv ≠ implW then some "commissionable mDNS record and window presence disagree" else none
      -- (3) the window is revoked once the counter reaches the threshold
      let c3 : Option String :=
        if (implF.getD 0) ≥ 20 then some s!"window still open with {implF.getD 0} counted failures (the property says twenty)" else none
      -- (4) a failed proof is counted (once): after a Pake3 answered `InvalidParameter` the counter moved by one or the window is gone
      let c4 : Option String :=
        if head = "pake3" && reply = "status:2" && implW && m.get "noack" ≠ some "1" then
          match sp.win, implF with
          | some (_, _, f), some f' => if f' = f + 1 then none else some s!"failed proof not counted exactly once ({f} -> {f'})"
          | _, _ => none
        else none
      -- (5) no window by the spec's book-keeping (revoked / never opened / expired and polled) => none reported
      let c5 : Option String :=
        if implW && sp.win.isNone then
          (if sp.lingering && head ≠ "poll" then none
           else some "a window is reported although it was revoked, never opened, or expired and polled")
        else none
      -- (6) only failed proofs count towards the revocation: a request that is turned away with `Busy`
      --     (no free session slot / another handshake in progress) is no proof - the counter stays, the window stays
      let c6 : Option String :=
        if reply = "status:4" then
          match sp.win with
          | some (_, _, f) =>
            if implW then
              match implF with
              | some f' => if f' = f then none else some s!"a request answered Busy moved the failure counter ({f} -> {f'})"
              | none => none
            else some "a request answered Busy revoked the commissioning window"
          | none => none
        else none
      let ora : Option String := c1 <|> c2 <|> c3 <|> c4 <|> c5 <|> c6
      let sp := { sp with lingering := sp.lingering && implW }
      let sp := { sp with sessions := implS,
                          win := if implW then (match sp.win, implF with
                                                | some (p, e, _), some f => some (p, e, f)
                                                | w, _ => w)
                                 else (if sp.win.isSome && (implF.isNone) then none else sp.win) }
      let st := { st with spec := sp }
      match ora with
      | some why => (st, s!"ORA {why}")
      | none =>
        let ro := match o with
          | .pbkdfResp _ =>
            let rx := match findTask m1 k with
              | some tk => toString (rxTimeoutMs tk.mrp localActiveMs)
              | none => "-"
            match m1.window with
            | some w => s!"pbkdfresp it={w.iterations} sl={w.saltLen} rxto={rx}"
            | none => "pbkdfresp"
          | _ => replyOf o
        let mo := s!"{ro} | {obsOf m' f1.fs}"
        -- the classes of the evicted sessions are an input (they choose the model's victim), not compared
        let io := s!"{reply} | {" ".intercalate ((words obs).filter (fun w => !(w.startsWith "ev=") && !(w.startsWith "hit=")))}"
        -- `tick` / `poll` / `abort` print `-` as reply
        let mo := if head = "tick" || head = "poll" || head = "abort" || head = "fspoll" then s!"- | {obsOf m' f1.fs}" else mo
        let mo := if head = "revoke" then s!"ok | {obsOf m' f1.fs}" else mo
        -- `noack=1`: the observation is taken while the responder task is still delivering its final status
        -- report (it still holds the marker and the unsecured session's exchange); the model's Pake3 step ends
        -- with the task's return (a refused proof is charged when the task returns, i.e. at the end of the ladder):
        -- window, counter, marker and table are compared from the following `tick` on
        let strip (x : String) : String :=
          if head = "pake3" && m.get "noack" = some "1" then
            " ".intercalate ((words x).filter (fun w => !(w.startsWith "m=") && !(w.startsWith "tab=") &&
              !(w.startsWith "f=") && !(w.startsWith "w=") && !(w.startsWith "adv=") && !(w.startsWith "enh=") && !(w.startsWith "disc=")))
          else x
        if strip mo = strip io then (st, "ok") else (st, s!"DIS {mo}")
  | _ => (st, "BAD line")

def run : IO UInt32 := Driver.runLoop ({} : St) step

end Driver.C02
