import Driver.Util
/-! Driver for C09: not built yet. -/
namespace Driver.C09

def run : IO UInt32 := do
  IO.eprintln "C09: driver not built yet"
  return 2

end Driver.C09
