#!/usr/bin/env python3
"""Writes MANIFEST.json from props.json (claimed properties) + the list of all property ids."""
import json, os
ROOT = os.path.dirname(os.path.dirname(os.path.abspath(__file__)))
props = {fn[:-5]: json.load(open(os.path.join(ROOT, "props", fn))) for fn in sorted(os.listdir(os.path.join(ROOT, "props"))) if fn.endswith(".json")}
all_ids = [json.loads(l)["id"] for l in open(os.path.join(ROOT, "properties.jsonl")) if l.strip()]
hooks = json.load(open(os.path.join(ROOT, "hooks.json")))
checks = []
for pid in all_ids:
    if pid not in props or not props[pid].get("claimed", True):
        continue
    c = props[pid]
    checks.append({
        "property_id": pid,
        "quick_cmd": f"./check {pid} --tier quick",
        "thorough_cmd": f"./check {pid} --tier thorough",
        "evidence_file": f"/verif/evidence/{pid}.json",
        "replay_cmd_template": f"./check {pid} --replay {{path}}",
        "engine": "lean4-proof+correspondence",
        "level_claimed": {"category": "proof", "text": c["level_text"], "design_ref": c.get("design_ref", f"DESIGN.md section 6, {pid}")},
        "level_note": c["level_note"],
        "technique": c.get("technique", "Lean 4 theorems over an executable model + differential correspondence check against the real code"),
    })
na = []
for pid in all_ids:
    if pid not in props or not props[pid].get("claimed", True):
        reason = props.get(pid, {}).get("na_reason", "check not built yet in this round (the design in DESIGN.md section 6 applies; nothing is claimed until the model, theorems and correspondence harness exist)")
        na.append({"property_id": pid, "reason": reason})
m = {
    "version": 1,
    "setup_cmd": "./check --setup",
    "hooks": hooks,
    "engines": [{"name": "lean4-proof+correspondence", "path": "/verif/check", "serves_properties": [c["property_id"] for c in checks],
                 "kind_free_text": "Lean 4 (kernel-checked theorems over hand-written executable models in /verif/lean) + Rust harness /verif/harness driving the real rs-matter working tree + Lean driver executable comparing model and implementation and evaluating the property's specification on the implementation's outputs; constants regenerated from the sources on every run"}],
    "checks": checks,
    "not_applicable": na,
    "notes": "See DESIGN.md. A broken proof obligation or broken correspondence is reported as VIOLATION; when no concrete failing input is found the line ends with no-failing-input-found and the replay file names the theorem / stream.",
}
json.dump(m, open(os.path.join(ROOT, "MANIFEST.json"), "w"), indent=1)
print("checks:", [c["property_id"] for c in checks], "n/a:", len(na))
