import RsMatterVerif.Model.Chunk
/-! # Lemmas about `Model/Chunk.lean` (C14) -/
namespace Chunk

def sumSizes (ps : List Piece) : Nat := (ps.map Piece.size).sum

def sumEv (ps : List EvPiece) : Nat := (ps.map EvPiece.size).sum

/-- all attribute reports written so far, in order -/
def St.flat (s : St) : List Piece := (s.done.reverse.flatMap (·.pieces)) ++ s.cur.reverse

/-- invariant of the responder state between two attribute reports -/
structure Inv (c : Cfg) (s : St) : Prop where
  usedEq : s.used = c.hdr + c.arrOpen + sumSizes s.cur
  usedLe : s.used ≤ c.limit
  doneOk : ∀ ch ∈ s.done, ch.more = true ∧ ch.size ≤ c.cap ∧
    ch.size = c.hdr + c.arrOpen + sumSizes ch.pieces + c.trailerMore ∧ ch.events = []
  doneNonempty : ∀ ch ∈ s.done, ch.pieces ≠ []

theorem sumSizes_cons (p : Piece) (ps : List Piece) : sumSizes (p :: ps) = p.size + sumSizes ps := by
  simp [sumSizes]

theorem sumSizes_reverse (ps : List Piece) : sumSizes ps.reverse = sumSizes ps := by
  simp [sumSizes, List.sum_reverse]

theorem sumEv_cons (p : EvPiece) (ps : List EvPiece) : sumEv (p :: ps) = p.size + sumEv ps := by
  simp [sumEv]

theorem limit_le (c : Cfg) (h : c.WF) : c.limit + c.reserve + c.structReserve = c.cap := by
  have := h.room
  unfold Cfg.limit; omega

theorem inv_init (c : Cfg) (h : c.WF) : Inv c (St.init c) := by
  refine ⟨by simp [St.init, sumSizes], h.start, ?_, ?_⟩ <;> simp [St.init]

/-- writing a report that has room appends exactly that report -/
theorem write_ok {c : Cfg} {s : St} (p : Piece) (h : Inv c s) (hfit : s.used + p.size ≤ c.limit) :
    Inv c (s.write p) ∧ (s.write p).flat = s.flat ++ [p] := by
  refine ⟨⟨?_, hfit, h.doneOk, h.doneNonempty⟩, ?_⟩
  · simp only [St.write, sumSizes_cons]; have := h.usedEq; omega
  · simp [St.write, St.flat]

/-- the `NoSpace` arm: the chunk is sent unless it is empty; afterwards the open chunk is empty -/
theorem next_ok {c : Cfg} {s : St} (hw : c.WF) (h : Inv c s) :
    Inv c (s.next c) ∧ (s.next c).flat = s.flat ∧ (s.next c).used = c.hdr + c.arrOpen := by
  unfold St.next
  split
  · rename_i hf
    refine ⟨h, rfl, ?_⟩
    simpa [St.fresh] using hf
  · rename_i hf
    have hne : s.used ≠ c.hdr + c.arrOpen := by simpa [St.fresh] using hf
    have hcur : s.cur ≠ [] := by
      intro h0
      have := h.usedEq
      rw [h0] at this
      simp only [sumSizes, List.map_nil, List.sum_nil] at this
      omega
    have hlim := limit_le c hw
    refine ⟨⟨?_, hw.start, ?_, ?_⟩, ?_, rfl⟩
    · simp [St.flush, sumSizes]
    · intro ch hch
      simp only [St.flush, List.mem_cons] at hch
      rcases hch with rfl | hch
      · refine ⟨rfl, ?_, ?_, rfl⟩
        · have := h.usedLe; have := hw.trailerMore; simp only; omega
        · simp only [sumSizes_reverse]; have := h.usedEq; omega
      · exact h.doneOk ch hch
    · intro ch hch
      simp only [St.flush, List.mem_cons] at hch
      rcases hch with rfl | hch
      · simpa using hcur
      · exact h.doneNonempty ch hch
    · simp [St.flat, St.flush]

theorem room_some {c : Cfg} {s s' : St} {n : Nat} (hw : c.WF) (h : Inv c s) (hr : room c s n = some s') :
    Inv c s' ∧ s'.flat = s.flat ∧ s'.used + n ≤ c.limit := by
  unfold room at hr
  split at hr
  · rename_i hfit
    injection hr with hr; subst hr
    exact ⟨h, rfl, hfit⟩
  · split at hr
    · rename_i hfit
      injection hr with hr; subst hr
      obtain ⟨h1, h2, _⟩ := next_ok hw h
      exact ⟨h1, h2, hfit⟩
    · cases hr

/-- no room even in an empty message -/
theorem room_none {c : Cfg} {s : St} {n : Nat} (hw : c.WF) (h : Inv c s) (hr : room c s n = none) :
    c.limit < c.hdr + c.arrOpen + n := by
  unfold room at hr
  split at hr
  · cases hr
  · split at hr
    · cases hr
    · rename_i hno
      have := (next_ok hw h).2.2
      omega

theorem room_fits {c : Cfg} {s : St} {n : Nat} (hw : c.WF) (h : Inv c s)
    (hf : c.hdr + c.arrOpen + n ≤ c.limit) : ∃ s', room c s n = some s' := by
  cases hr : room c s n with
  | some s' => exact ⟨s', rfl⟩
  | none => have := room_none hw h hr; omega

theorem fallback_ok {c : Cfg} {s s' : St} {st : Piece} (hw : c.WF) (h : Inv c s)
    (hf : fallback c s st = .ok s') : Inv c s' ∧ s'.flat = s.flat ++ [st] := by
  unfold fallback at hf
  split at hf
  · rename_i hfit
    injection hf with hf; subst hf
    obtain ⟨h1, h2, _⟩ := next_ok hw h
    obtain ⟨h3, h4⟩ := write_ok st h1 hfit
    exact ⟨h3, by rw [h4, h2]⟩
  · cases hf

theorem fallback_fits {c : Cfg} {s : St} {st : Piece} (hw : c.WF) (h : Inv c s)
    (hf : c.hdr + c.arrOpen + st.size ≤ c.limit) : ∃ s', fallback c s st = .ok s' := by
  unfold fallback
  have := (next_ok hw h).2.2
  rw [if_pos (by omega)]
  exact ⟨_, rfl⟩

theorem fallback_err {c : Cfg} {s : St} {st : Piece} {e : Err} (hf : fallback c s st = .error e) :
    e = .noSpace := by
  unfold fallback at hf
  split at hf
  · cases hf
  · injection hf with hf; exact hf.symm

/-- `put` appends exactly one report — the item's or, if that fits no message, the error status —
and keeps the invariant -/
theorem put_ok {c : Cfg} {s s' : St} {p st : Piece} {b : Bool} (hw : c.WF) (h : Inv c s)
    (hp : put c s p st = .ok (s', b)) :
    Inv c s' ∧ s'.flat = s.flat ++ [if b then st else p] ∧
      (b = true → c.limit < c.hdr + c.arrOpen + p.size) := by
  unfold put at hp
  cases hr : room c s p.size with
  | some s1 =>
    rw [hr] at hp
    simp only [Except.ok.injEq, Prod.mk.injEq] at hp
    obtain ⟨rfl, rfl⟩ := hp
    obtain ⟨h1, h2, h3⟩ := room_some hw h hr
    obtain ⟨h4, h5⟩ := write_ok p h1 h3
    exact ⟨h4, by simp [h5, h2], by simp⟩
  | none =>
    rw [hr] at hp
    simp only at hp
    cases hf : fallback c s st with
    | error e => rw [hf] at hp; cases hp
    | ok s2 =>
      rw [hf] at hp
      simp only [Except.ok.injEq, Prod.mk.injEq] at hp
      obtain ⟨rfl, rfl⟩ := hp
      obtain ⟨h1, h2⟩ := fallback_ok hw h hf
      exact ⟨h1, by simp [h2], fun _ => room_none hw h hr⟩

/-- a report that `put` placed as itself fits an empty message -/
theorem put_false_fits {c : Cfg} {s s' : St} {p st : Piece} (hw : c.WF) (h : Inv c s)
    (hp : put c s p st = .ok (s', false)) : c.hdr + c.arrOpen + p.size ≤ c.limit := by
  unfold put at hp
  cases hr : room c s p.size with
  | some s1 =>
    obtain ⟨h1, _, h3⟩ := room_some hw h hr
    have := h1.usedEq
    omega
  | none =>
    rw [hr] at hp
    simp only at hp
    cases hf : fallback c s st with
    | error e => rw [hf] at hp; cases hp
    | ok s2 => rw [hf] at hp; simp at hp

/-- a report that fits an empty chunk is always placed, as itself -/
theorem put_fits {c : Cfg} {s : St} (p st : Piece) (hw : c.WF) (h : Inv c s)
    (hf : c.hdr + c.arrOpen + p.size ≤ c.limit) : ∃ s', put c s p st = .ok (s', false) := by
  obtain ⟨s1, h1⟩ := room_fits hw h hf
  unfold put
  rw [h1]
  exact ⟨_, rfl⟩

/-- `put` ends: with the report, with the error status, or — the error status fits no message —
with `NoSpace`; never with an endless loop -/
theorem put_total {c : Cfg} {s : St} (p st : Piece) (hw : c.WF) (h : Inv c s)
    (hst : c.hdr + c.arrOpen + st.size ≤ c.limit) : ∃ s' b, put c s p st = .ok (s', b) := by
  unfold put
  cases hr : room c s p.size with
  | some s1 => exact ⟨_, _, rfl⟩
  | none =>
    obtain ⟨s2, h2⟩ := fallback_fits (st := st) hw h hst
    simp only [h2]
    exact ⟨_, _, rfl⟩

theorem put_err {c : Cfg} {s : St} {p st : Piece} {e : Err} (hp : put c s p st = .error e) :
    e = .noSpace := by
  unfold put at hp
  split at hp
  · cases hp
  · split at hp
    · cases hp
    · rename_i e' hf
      injection hp with hp
      subst hp
      exact fallback_err hf

theorem elemPieces_nil (id k : Nat) : elemPieces id k [] = [] := by simp [elemPieces]

theorem elemPieces_cons (id k e : Nat) (es : List Nat) :
    elemPieces id k (e :: es) = .listElem id k e :: elemPieces id (k + 1) es := by
  simp [elemPieces, List.zipIdx_cons]

/-- the streamed elements: a prefix of the list — all of it, or, when the element at index `n`
fits no message, exactly the `n` elements before it (each of which fits) followed by an error status -/
theorem putElems_ok {c : Cfg} (hw : c.WF) (id st : Nat) : ∀ (es : List Nat) (k : Nat) (s s' : St) (b : Bool),
    Inv c s → putElems c id st k es s = .ok (s', b) →
    Inv c s' ∧ ∃ n, n ≤ es.length ∧
      s'.flat = s.flat ++ elemPieces id k (es.take n) ++ (if b then [.status id st] else []) ∧
      (b = false → n = es.length) ∧
      (b = true → ∃ e ∈ es, c.limit < c.hdr + c.arrOpen + e) ∧
      (∀ e ∈ es.take n, c.hdr + c.arrOpen + e ≤ c.limit) ∧
      (b = true → ∃ hn : n < es.length, c.limit < c.hdr + c.arrOpen + es[n]) := by
  intro es
  induction es with
  | nil =>
    intro k s s' b h hp
    simp only [putElems, Except.ok.injEq, Prod.mk.injEq] at hp
    obtain ⟨rfl, rfl⟩ := hp
    exact ⟨h, 0, by simp, by simp [elemPieces_nil], by simp, by simp, by simp, by simp⟩
  | cons e es ih =>
    intro k s s' b h hp
    simp only [putElems] at hp
    cases hput : put c s (.listElem id k e) (.status id st) with
    | error err => rw [hput] at hp; cases hp
    | ok r =>
      obtain ⟨s1, b1⟩ := r
      rw [hput] at hp
      obtain ⟨h1, f1, j1⟩ := put_ok hw h hput
      cases b1 with
      | true =>
        simp only [Except.ok.injEq, Prod.mk.injEq] at hp
        obtain ⟨rfl, rfl⟩ := hp
        have hlt : c.limit < c.hdr + c.arrOpen + e := by simpa [Piece.size] using j1 rfl
        refine ⟨h1, 0, by simp, ?_, by simp, ?_, by simp, ?_⟩
        · simpa [elemPieces_nil] using f1
        · intro _
          exact ⟨e, by simp, hlt⟩
        · intro _
          exact ⟨by simp, by simpa using hlt⟩
      | false =>
        simp only at hp
        have hfit : c.hdr + c.arrOpen + e ≤ c.limit := by
          simpa [Piece.size] using put_false_fits hw h hput
        obtain ⟨h2, n, hn, f2, c2, j2, a2, x2⟩ := ih (k + 1) s1 s' b h1 hp
        refine ⟨h2, n + 1, by simp; omega, ?_, ?_, ?_, ?_, ?_⟩
        · rw [f2, f1]
          simp [List.take_succ_cons, elemPieces_cons]
        · intro hb; simp [c2 hb]
        · intro hb
          obtain ⟨e', he', hlt⟩ := j2 hb
          exact ⟨e', by simp [he'], hlt⟩
        · intro e' he'
          simp only [List.take_succ_cons, List.mem_cons] at he'
          rcases he' with rfl | he'
          · exact hfit
          · exact a2 e' he'
        · intro hb
          obtain ⟨hn', hlt⟩ := x2 hb
          exact ⟨by simp; omega, by simpa using hlt⟩

theorem putElems_fits {c : Cfg} (hw : c.WF) (id st : Nat) : ∀ (es : List Nat) (k : Nat) (s : St), Inv c s →
    (∀ e ∈ es, c.hdr + c.arrOpen + e ≤ c.limit) → ∃ s', putElems c id st k es s = .ok (s', false) := by
  intro es
  induction es with
  | nil => intro k s _ _; exact ⟨s, rfl⟩
  | cons e es ih =>
    intro k s h hf
    simp only [putElems]
    obtain ⟨s1, h1⟩ := put_fits (.listElem id k e) (.status id st) hw h
      (by simpa [Piece.size] using hf e (by simp))
    rw [h1]
    exact ih (k + 1) s1 (put_ok hw h h1).1 (fun e' he' => hf e' (by simp [he']))

theorem putElems_total {c : Cfg} (hw : c.WF) (id st : Nat) (hst : c.hdr + c.arrOpen + st ≤ c.limit) :
    ∀ (es : List Nat) (k : Nat) (s : St), Inv c s → ∃ s' b, putElems c id st k es s = .ok (s', b) := by
  intro es
  induction es with
  | nil => intro k s _; exact ⟨s, false, rfl⟩
  | cons e es ih =>
    intro k s h
    simp only [putElems]
    obtain ⟨s1, b1, h1⟩ := put_total (.listElem id k e) (.status id st) hw h (by simpa [Piece.size] using hst)
    rw [h1]
    cases b1 with
    | true => exact ⟨_, _, rfl⟩
    | false => exact ih (k + 1) s1 (put_ok hw h h1).1

theorem putElems_err {c : Cfg} (id st : Nat) : ∀ (es : List Nat) (k : Nat) (s : St) (e : Err),
    putElems c id st k es s = .error e → e = .noSpace := by
  intro es
  induction es with
  | nil => intro k s e hp; simp [putElems] at hp
  | cons x es ih =>
    intro k s e hp
    simp only [putElems] at hp
    cases hput : put c s (.listElem id k x) (.status id st) with
    | error err => rw [hput] at hp; injection hp with hp; subst hp; exact put_err hput
    | ok r =>
      obtain ⟨s1, b1⟩ := r
      rw [hput] at hp
      cases b1 with
      | true => cases hp
      | false => exact ih (k + 1) s1 e hp

/-- the end-of-list probe adds no report (it may close the chunk) — its header then fits an empty
message —, unless its header fits no message: then an error status follows the complete list -/
theorem endProbe_ok {c : Cfg} (hw : c.WF) {s s' : St} (id probe st : Nat) (h : Inv c s)
    (hp : endProbe c s id probe st = .ok s') :
    Inv c s' ∧ ((s'.flat = s.flat ∧ c.hdr + c.arrOpen + probe ≤ c.limit) ∨
      (s'.flat = s.flat ++ [.status id st] ∧ c.limit < c.hdr + c.arrOpen + probe)) := by
  unfold endProbe at hp
  cases hr : room c s probe with
  | some s1 =>
    rw [hr] at hp
    injection hp with hp; subst hp
    obtain ⟨h1, h2, h3⟩ := room_some hw h hr
    have := h1.usedEq
    exact ⟨h1, .inl ⟨h2, by omega⟩⟩
  | none =>
    rw [hr] at hp
    obtain ⟨h1, h2⟩ := fallback_ok hw h hp
    exact ⟨h1, .inr ⟨h2, room_none hw h hr⟩⟩

theorem getD_lt (l : List Nat) (k d : Nat) (h : k < l.length) : l.getD k d = l[k] := by
  simp [List.getD_eq_getElem?_getD, h]

theorem getD_ge (l : List Nat) (k d : Nat) (h : l.length ≤ k) : l.getD k d = d := by
  simp [List.getD_eq_getElem?_getD, h]

/-- `n` bytes of report fit a message that holds nothing else -/
def Cfg.holds (c : Cfg) (n : Nat) : Prop := c.hdr + c.arrOpen + n ≤ c.limit

instance (c : Cfg) (n : Nat) : Decidable (c.holds n) := by unfold Cfg.holds; infer_instance

/-- **an outcome is justified: an error status stands exactly for the report that fits no message.**
* a scalar comes whole iff its report fits an empty message, is `failed` iff it does not (never
  `split` / `cut`);
* a list comes `whole` only if the single report fits a message; `split` (streamed completely) only
  if its start, every element report and the header of the end-of-list read fit a message;
  `failed` exactly when the report that starts the streamed list fits no message; `cut k` exactly
  when the start and the first `k` element reports fit a message and the read of index `k` — the
  report of element `k`, or for `k = length` the header of the end-of-list read — fits none.
So a list with an oversize element is neither replaced by a status as a whole nor cut anywhere but at
the first oversize element (`justified_unique`, `justified_cut_first`). -/
def Justified (c : Cfg) : Item → Out → Prop
  | .scalar _ sz _, .whole => c.holds sz
  | .scalar _ sz _, .failed => ¬ c.holds sz
  | .scalar _ _ _, .split => False
  | .scalar _ _ _, .cut _ => False
  | .list _ whole _ _ _ _ _, .whole => c.holds whole
  | .list _ _ empty elems probe _ _, .split => c.holds empty ∧ (∀ e ∈ elems, c.holds e) ∧ c.holds probe
  | .list _ _ empty _ _ _ _, .failed => ¬ c.holds empty
  | .list _ _ empty elems probe _ _, .cut k =>
    c.holds empty ∧ k ≤ elems.length ∧ (∀ e ∈ elems.take k, c.holds e) ∧ ¬ c.holds (elems.getD k probe)

instance (c : Cfg) (it : Item) (o : Out) : Decidable (Justified c it o) := by
  cases it <;> cases o <;> unfold Justified <;> infer_instance

/-- the former, weaker reading of `Justified` (kept as a consequence): an incomplete outcome means that
SOME report of the item fits no message -/
theorem Justified.weak {c : Cfg} {it : Item} {o : Out} (h : Justified c it o) :
    o.complete = false → it.fits c = false := by
  intro hc
  cases it with
  | scalar id sz st =>
    cases o with
    | whole => simp [Out.complete] at hc
    | split => simp [Out.complete] at hc
    | failed => simpa [Justified, Cfg.holds, Item.fits] using h
    | cut k => exact h.elim
  | list id whole empty elems probe st stE =>
    cases o with
    | whole => simp [Out.complete] at hc
    | split => simp [Out.complete] at hc
    | failed =>
      simp only [Justified, Cfg.holds] at h
      simp only [Item.fits, Bool.and_eq_false_iff, decide_eq_false_iff_not]
      left; left; exact h
    | cut k =>
      obtain ⟨_, hk, _, hx⟩ := h
      simp only [Cfg.holds] at hx
      simp only [Item.fits, Bool.and_eq_false_iff, decide_eq_false_iff_not]
      by_cases hlt : k < elems.length
      · right
        rw [List.all_eq_false]
        refine ⟨elems[k], List.getElem_mem hlt, ?_⟩
        rw [getD_lt _ _ _ hlt] at hx
        simpa using hx
      · left; right
        rw [getD_ge _ _ _ (by omega)] at hx
        exact hx

/-- conversely: an item all of whose reports fit a message is never failed / cut -/
theorem Justified.complete_of_fits {c : Cfg} {it : Item} {o : Out} (h : Justified c it o)
    (hf : it.fits c = true) : o.complete = true := by
  cases hc : o.complete with
  | true => rfl
  | false => have := h.weak hc; rw [hf] at this; cases this

/-- a streamed list is cut at the FIRST read that fits no message: two justified cuts of the same list
are at the same index -/
theorem justified_cut_first {c : Cfg} {id whole empty : Nat} {elems : List Nat} {probe st stE k j : Nat}
    (hk : Justified c (.list id whole empty elems probe st stE) (.cut k))
    (hj : Justified c (.list id whole empty elems probe st stE) (.cut j)) : k = j := by
  obtain ⟨_, hk1, hk2, hk3⟩ := hk
  obtain ⟨_, hj1, hj2, hj3⟩ := hj
  rcases Nat.lt_trichotomy k j with hlt | heq | hgt
  · exfalso
    have hkl : k < elems.length := by omega
    rw [getD_lt _ _ _ hkl] at hk3
    exact hk3 (hj2 _ (List.mem_take_iff_getElem.mpr ⟨k, by omega, rfl⟩))
  · exact heq
  · exfalso
    have hjl : j < elems.length := by omega
    rw [getD_lt _ _ _ hjl] at hj3
    exact hj3 (hk2 _ (List.mem_take_iff_getElem.mpr ⟨j, by omega, rfl⟩))

/-- **the incomplete outcome is determined by the sizes**: two justified outcomes of the same item
that both use an error status are the same outcome (same place of the status) -/
theorem justified_unique {c : Cfg} {it : Item} {o o2 : Out} (h : Justified c it o) (h2 : Justified c it o2)
    (hc : o.complete = false) (hc2 : o2.complete = false) : o = o2 := by
  cases it with
  | scalar id sz st =>
    cases o <;> cases o2 <;> simp_all [Justified, Out.complete]
  | list id whole empty elems probe st stE =>
    cases o with
    | whole => simp [Out.complete] at hc
    | split => simp [Out.complete] at hc
    | failed =>
      cases o2 with
      | whole => simp [Out.complete] at hc2
      | split => simp [Out.complete] at hc2
      | failed => rfl
      | cut j => exact absurd h2.1 h
    | cut k =>
      cases o2 with
      | whole => simp [Out.complete] at hc2
      | split => simp [Out.complete] at hc2
      | failed => exact absurd h.1 h2
      | cut j => rw [justified_cut_first h h2]

/-- a streamed-complete and an incomplete outcome exclude each other -/
theorem justified_split_excl {c : Cfg} {it : Item} {o : Out} (h : Justified c it .split) (h2 : Justified c it o) :
    o.complete = true := by
  cases it with
  | scalar id sz st => exact h.elim
  | list id whole empty elems probe st stE =>
    obtain ⟨h1, h3, h4⟩ := h
    cases o with
    | whole => rfl
    | split => rfl
    | failed => exact absurd h1 h2
    | cut k =>
      exfalso
      obtain ⟨_, hk, _, hx⟩ := h2
      by_cases hlt : k < elems.length
      · rw [getD_lt _ _ _ hlt] at hx
        exact hx (h3 _ (List.getElem_mem hlt))
      · rw [getD_ge _ _ _ (by omega)] at hx
        exact hx h4

theorem pieces_cut_all (id whole empty : Nat) (elems : List Nat) (probe st stE : Nat) (n : Nat) :
    (Item.list id whole empty elems probe st stE).pieces (.cut n) =
      .listStart id empty :: (elemPieces id 0 (elems.take n) ++ [.status id stE]) := rfl

/-- one item contributes exactly its reports — whole, streamed, or with an error status standing
for exactly the report that fits no message — once, in order -/
theorem putItem_ok {c : Cfg} (hw : c.WF) {s s' : St} {it : Item} (h : Inv c s)
    (hp : putItem c s it = .ok s') :
    Inv c s' ∧ ∃ o, s'.flat = s.flat ++ it.pieces o ∧ Justified c it o := by
  cases it with
  | scalar id sz st =>
    simp only [putItem] at hp
    cases hput : put c s (.scalar id sz) (.status id st) with
    | error e => rw [hput] at hp; cases hp
    | ok r =>
      obtain ⟨s1, b⟩ := r
      rw [hput] at hp
      injection hp with hp; subst hp
      obtain ⟨h1, f1, j1⟩ := put_ok hw h hput
      cases b with
      | false =>
        refine ⟨h1, .whole, by simpa [Item.pieces] using f1, ?_⟩
        simpa [Justified, Cfg.holds, Piece.size] using put_false_fits hw h hput
      | true =>
        refine ⟨h1, .failed, by simpa [Item.pieces] using f1, ?_⟩
        have := j1 rfl
        simp only [Piece.size] at this
        simp only [Justified, Cfg.holds]; omega
  | list id whole empty elems probe st stE =>
    simp only [putItem] at hp
    split at hp
    · rename_i hfit
      injection hp with hp; subst hp
      obtain ⟨h1, f1⟩ := write_ok (.wholeList id whole elems) h (by simpa [Piece.size] using hfit)
      refine ⟨h1, .whole, by simpa [Item.pieces] using f1, ?_⟩
      have := h.usedEq
      simp only [Justified, Cfg.holds]; omega
    · cases hput : put c s (.listStart id empty) (.status id st) with
      | error err => rw [hput] at hp; cases hp
      | ok r =>
        obtain ⟨s1, b1⟩ := r
        rw [hput] at hp
        obtain ⟨h1, f1, j1⟩ := put_ok hw h hput
        cases b1 with
        | true =>
          simp only at hp
          injection hp with hp; subst hp
          refine ⟨h1, .failed, by simpa [Item.pieces] using f1, ?_⟩
          have := j1 rfl
          simp only [Piece.size] at this
          simp only [Justified, Cfg.holds]; omega
        | false =>
          simp only at hp
          have hstart : c.holds empty := by
            simpa [Cfg.holds, Piece.size] using put_false_fits hw h hput
          cases hel : putElems c id stE 0 elems s1 with
          | error err => rw [hel] at hp; cases hp
          | ok r2 =>
            obtain ⟨s2, b2⟩ := r2
            rw [hel] at hp
            obtain ⟨h2, n, hn, f2, c2, _, a2, x2⟩ := putElems_ok hw id stE elems 0 s1 s2 b2 h1 hel
            cases b2 with
            | true =>
              simp only at hp
              injection hp with hp; subst hp
              refine ⟨h2, .cut n, ?_, ?_⟩
              · rw [f2, f1, pieces_cut_all]; simp
              · obtain ⟨hlt, hbig⟩ := x2 rfl
                refine ⟨hstart, hn, a2, ?_⟩
                rw [getD_lt _ _ _ hlt]
                simp only [Cfg.holds]; omega
            | false =>
              simp only at hp
              obtain ⟨h3, f3⟩ := endProbe_ok hw id probe stE h2 hp
              have hn' := c2 rfl
              rcases f3 with ⟨f3, j3⟩ | ⟨f3, j3⟩
              · refine ⟨h3, .split, ?_, ?_⟩
                · rw [f3, f2, f1, hn']
                  simp [Item.pieces]
                · refine ⟨hstart, ?_, j3⟩
                  intro e he
                  exact a2 e (by rw [hn', List.take_length]; exact he)
              · refine ⟨h3, .cut n, ?_, ?_⟩
                · rw [f3, f2, f1, pieces_cut_all]; simp
                · refine ⟨hstart, hn, a2, ?_⟩
                  rw [getD_ge _ _ _ (by omega)]
                  simp only [Cfg.holds]; omega

/-- the largest error status that may stand for (a part of) the item -/
def Item.st : Item → Nat
  | .scalar _ _ st => st
  | .list _ _ _ _ _ st stE => max st stE

theorem putItem_fits {c : Cfg} (hw : c.WF) {s : St} (h : Inv c s) (it : Item) (hf : it.fits c = true) :
    ∃ s', putItem c s it = .ok s' := by
  cases it with
  | scalar id sz st =>
    simp only [Item.fits, decide_eq_true_eq] at hf
    obtain ⟨s1, h1⟩ := put_fits (.scalar id sz) (.status id st) hw h (by simpa [Piece.size] using hf)
    simp only [putItem, h1]
    exact ⟨_, rfl⟩
  | list id whole empty elems probe st stE =>
    simp only [Item.fits, Bool.and_eq_true, decide_eq_true_eq, List.all_eq_true] at hf
    simp only [putItem]
    split
    · exact ⟨_, rfl⟩
    · obtain ⟨s1, h1⟩ := put_fits (.listStart id empty) (.status id st) hw h (by simpa [Piece.size] using hf.1.1)
      rw [h1]
      simp only
      have i1 := (put_ok hw h h1).1
      obtain ⟨s2, h2⟩ := putElems_fits hw id stE elems 0 s1 i1 hf.2
      rw [h2]
      simp only
      have i2 := (putElems_ok hw id stE elems 0 s1 s2 false i1 h2).1
      obtain ⟨s3, h3⟩ := room_fits (n := probe) hw i2 hf.1.2
      simp only [endProbe, h3]
      exact ⟨_, rfl⟩

/-- an item whose error status fits an empty message is always answered -/
theorem putItem_total {c : Cfg} (hw : c.WF) {s : St} (h : Inv c s) (it : Item)
    (hst : c.hdr + c.arrOpen + it.st ≤ c.limit) : ∃ s', putItem c s it = .ok s' := by
  cases it with
  | scalar id sz st =>
    obtain ⟨s1, b, h1⟩ := put_total (.scalar id sz) (.status id st) hw h (by simpa [Piece.size, Item.st] using hst)
    simp only [putItem, h1]
    exact ⟨_, rfl⟩
  | list id whole empty elems probe st stE =>
    simp only [Item.st] at hst
    have hst1 : c.hdr + c.arrOpen + st ≤ c.limit := by have := Nat.le_max_left st stE; omega
    have hst2 : c.hdr + c.arrOpen + stE ≤ c.limit := by have := Nat.le_max_right st stE; omega
    simp only [putItem]
    split
    · exact ⟨_, rfl⟩
    · obtain ⟨s1, b1, h1⟩ := put_total (.listStart id empty) (.status id st) hw h (by simpa [Piece.size] using hst1)
      rw [h1]
      cases b1 with
      | true => exact ⟨_, rfl⟩
      | false =>
        simp only
        have i1 := (put_ok hw h h1).1
        obtain ⟨s2, b2, h2⟩ := putElems_total hw id stE hst2 elems 0 s1 i1
        rw [h2]
        cases b2 with
        | true => exact ⟨_, rfl⟩
        | false =>
          simp only
          have i2 := (putElems_ok hw id stE elems 0 s1 s2 false i1 h2).1
          unfold endProbe
          cases hr : room c s2 probe with
          | some s3 => exact ⟨_, rfl⟩
          | none => exact fallback_fits hw i2 (by simpa [Piece.size] using hst2)

theorem putItem_err {c : Cfg} {s : St} {it : Item} {e : Err} (hp : putItem c s it = .error e) :
    e = .noSpace := by
  cases it with
  | scalar id sz st =>
    simp only [putItem] at hp
    cases hput : put c s (.scalar id sz) (.status id st) with
    | error err => rw [hput] at hp; injection hp with hp; subst hp; exact put_err hput
    | ok r => rw [hput] at hp; cases hp
  | list id whole empty elems probe st stE =>
    simp only [putItem] at hp
    split at hp
    · cases hp
    · cases hput : put c s (.listStart id empty) (.status id st) with
      | error err => rw [hput] at hp; injection hp with hp; subst hp; exact put_err hput
      | ok r =>
        obtain ⟨s1, b1⟩ := r
        rw [hput] at hp
        cases b1 with
        | true => cases hp
        | false =>
          simp only at hp
          cases hel : putElems c id stE 0 elems s1 with
          | error err => rw [hel] at hp; injection hp with hp; subst hp; exact putElems_err id stE elems 0 s1 _ hel
          | ok r2 =>
            obtain ⟨s2, b2⟩ := r2
            rw [hel] at hp
            cases b2 with
            | true => cases hp
            | false =>
              simp only at hp
              unfold endProbe at hp
              cases hr : room c s2 probe with
              | some s3 => rw [hr] at hp; cases hp
              | none => rw [hr] at hp; exact fallback_err hp

/-- one justified outcome per item -/
inductive AllJustified (c : Cfg) : List Item → List Out → Prop
  | nil : AllJustified c [] []
  | cons {it : Item} {o : Out} {its : List Item} {os : List Out} :
      Justified c it o → AllJustified c its os → AllJustified c (it :: its) (o :: os)

theorem AllJustified.length_eq {c : Cfg} {its : List Item} {os : List Out} (h : AllJustified c its os) :
    os.length = its.length := by
  induction h with
  | nil => rfl
  | cons _ _ ih => simp [ih]

/-- the reports of a request for given outcomes of its items -/
def allPieces : List Item → List Out → List Piece
  | [], _ => []
  | it :: its, [] => it.pieces .whole ++ allPieces its []
  | it :: its, o :: os => it.pieces o ++ allPieces its os

theorem putItems_ok {c : Cfg} (hw : c.WF) : ∀ (its : List Item) (s s' : St), Inv c s →
    putItems c its s = .ok s' →
    Inv c s' ∧ ∃ outs, AllJustified c its outs ∧ s'.flat = s.flat ++ allPieces its outs := by
  intro its
  induction its with
  | nil => intro s s' h hp; simp [putItems] at hp; subst hp; exact ⟨h, [], .nil, by simp [allPieces]⟩
  | cons it its ih =>
    intro s s' h hp
    simp only [putItems] at hp
    cases hput : putItem c s it with
    | error err => rw [hput] at hp; simp at hp
    | ok s1 =>
      rw [hput] at hp
      simp only at hp
      obtain ⟨h1, o, f1, j1⟩ := putItem_ok hw h hput
      obtain ⟨h2, os, hl, f2⟩ := ih s1 s' h1 hp
      exact ⟨h2, o :: os, .cons j1 hl, by rw [f2, f1]; simp [allPieces]⟩

theorem putItems_fits {c : Cfg} (hw : c.WF) : ∀ (its : List Item) (s : St), Inv c s → Fits c its →
    ∃ s', putItems c its s = .ok s' := by
  intro its
  induction its with
  | nil => intro s _ _; exact ⟨s, rfl⟩
  | cons it its ih =>
    intro s h hf
    simp only [putItems]
    obtain ⟨s1, h1⟩ := putItem_fits hw h it (hf it (by simp))
    rw [h1]
    exact ih s1 (putItem_ok hw h h1).1 (fun it' h' => hf it' (by simp [h']))

/-- **the attribute section always ends** when the error statuses fit an empty message -/
theorem putItems_total {c : Cfg} (hw : c.WF) : ∀ (its : List Item) (s : St), Inv c s →
    (∀ it ∈ its, c.hdr + c.arrOpen + it.st ≤ c.limit) → ∃ s', putItems c its s = .ok s' := by
  intro its
  induction its with
  | nil => intro s _ _; exact ⟨s, rfl⟩
  | cons it its ih =>
    intro s h hf
    simp only [putItems]
    obtain ⟨s1, h1⟩ := putItem_total hw h it (hf it (by simp))
    rw [h1]
    exact ih s1 (putItem_ok hw h h1).1 (fun it' h' => hf it' (by simp [h']))

theorem putItems_err {c : Cfg} : ∀ (its : List Item) (s : St) (e : Err),
    putItems c its s = .error e → e = .noSpace := by
  intro its
  induction its with
  | nil => intro s e hp; simp [putItems] at hp
  | cons it its ih =>
    intro s e hp
    simp only [putItems] at hp
    cases hput : putItem c s it with
    | error err => rw [hput] at hp; injection hp with hp; subst hp; exact putItem_err hput
    | ok s1 => rw [hput] at hp; exact ih s1 e hp

/-- an attribute held back by its data version filter writes nothing: the attribute section is the
chunking of the selected items -/
theorem putAttrs_eq (c : Cfg) : ∀ (as : List AttrReq) (s : St),
    putAttrs c as s = putItems c ((as.filter fun a => !a.unchanged).map (·.item)) s := by
  intro as
  induction as with
  | nil => intro s; rfl
  | cons a as ih =>
    intro s
    simp only [putAttrs, putAttr]
    cases hu : a.unchanged with
    | true => simp [hu, ih]
    | false =>
      simp only [hu, Bool.false_eq_true, ↓reduceIte, List.filter_cons, Bool.not_false, List.map_cons, putItems]
      cases putItem c s a.item with
      | error e => rfl
      | ok s1 => exact ih s1

/-! ## event section -/

/-- all event reports written so far, in order -/
def ESt.flatEv (s : ESt) : List EvPiece := (s.done.reverse.flatMap (·.events)) ++ s.evs.reverse

/-- all attribute reports written so far, in order -/
def ESt.flatAt (s : ESt) : List Piece := (s.done.reverse.flatMap (·.pieces)) ++ s.attrs.reverse

/-- invariant of the responder state between two event reports -/
structure EInv (c : Cfg) (s : ESt) : Prop where
  usedLe : s.used ≤ s.lim
  /-- the final `end_container` and the trailer still fit -/
  limLe : s.lim + c.close + c.reserve ≤ c.cap
  doneOk : ∀ ch ∈ s.done, ch.more = true ∧ ch.size ≤ c.cap
  /-- a message in which nothing precedes the event array is an empty event message -/
  freshOk : s.fresh = true → s.base ≤ c.hdr + c.evOpen ∧ c.limit ≤ s.lim

theorem flushEv_ok {c : Cfg} {s : ESt} (hw : c.WF) (h : EInv c s) :
    EInv c (s.flushEv c) ∧ (s.flushEv c).flatEv = s.flatEv ∧ (s.flushEv c).flatAt = s.flatAt ∧
      (s.flushEv c).cursor = s.cursor ∧ (s.flushEv c).empty = s.empty := by
  have hlim := limit_le c hw
  refine ⟨⟨?_, ?_, ?_, ?_⟩, ?_, ?_, rfl, rfl⟩
  · simpa [ESt.flushEv] using hw.startEv
  · have := hw.struct; simp only [ESt.flushEv]; omega
  · intro ch hch
    simp only [ESt.flushEv, List.mem_cons] at hch
    rcases hch with rfl | hch
    · refine ⟨rfl, ?_⟩
      have := h.usedLe; have := h.limLe; have := hw.trailerMore; simp only; omega
    · exact h.doneOk ch hch
  · intro _; exact ⟨Nat.le_refl _, Nat.le_refl _⟩
  · simp [ESt.flatEv, ESt.flushEv]
  · simp [ESt.flatAt, ESt.flushEv]

theorem writeEv_ok {c : Cfg} {s : ESt} (p : EvPiece) (h : EInv c s) (hfit : s.used + p.size ≤ s.lim) :
    EInv c (s.writeEv p) ∧ (s.writeEv p).flatEv = s.flatEv ++ [p] ∧ (s.writeEv p).flatAt = s.flatAt := by
  refine ⟨⟨hfit, h.limLe, h.doneOk, h.freshOk⟩, ?_, rfl⟩
  simp [ESt.flatEv, ESt.writeEv]

theorem putEvStatus_ok {c : Cfg} {s s' : ESt} {k sz : Nat} (hw : c.WF) (h : EInv c s)
    (hp : putEvStatus c s k sz = .ok s') :
    EInv c s' ∧ s'.flatEv = s.flatEv ++ [.status k sz] ∧ s'.flatAt = s.flatAt ∧ s'.cursor = s.cursor := by
  unfold putEvStatus at hp
  split at hp
  · rename_i hfit
    injection hp with hp; subst hp
    obtain ⟨h1, h2, h3⟩ := writeEv_ok (.status k sz) h (by simpa [EvPiece.size] using hfit)
    exact ⟨h1, h2, h3, rfl⟩
  · split at hp
    · rename_i hfit
      injection hp with hp; subst hp
      obtain ⟨g1, g2, g3, g4, _⟩ := flushEv_ok hw h
      obtain ⟨h1, h2, h3⟩ := writeEv_ok (.status k sz) g1 (by simpa [EvPiece.size] using hfit)
      exact ⟨h1, by rw [h2, g2], by rw [h3, g3], g4⟩
    · cases hp

theorem putEvStatuses_ok {c : Cfg} (hw : c.WF) : ∀ (szs : List Nat) (k : Nat) (s s' : ESt), EInv c s →
    putEvStatuses c k szs s = .ok s' →
    EInv c s' ∧ s'.flatEv = s.flatEv ++ (szs.zipIdx k).map (fun (sz, i) => EvPiece.status i sz) ∧
      s'.flatAt = s.flatAt ∧ s'.cursor = s.cursor := by
  intro szs
  induction szs with
  | nil => intro k s s' h hp; simp [putEvStatuses] at hp; subst hp; exact ⟨h, by simp, rfl, rfl⟩
  | cons sz szs ih =>
    intro k s s' h hp
    simp only [putEvStatuses] at hp
    cases h1 : putEvStatus c s k sz with
    | error e => rw [h1] at hp; cases hp
    | ok s1 =>
      rw [h1] at hp
      obtain ⟨i1, f1, a1, c1⟩ := putEvStatus_ok hw h h1
      obtain ⟨i2, f2, a2, c2⟩ := ih (k + 1) s1 s' i1 hp
      exact ⟨i2, by rw [f2, f1]; simp [List.zipIdx_cons], by rw [a2, a1], by rw [c2, c1]⟩

/-- a status report that fits an empty event message is always placed -/
theorem putEvStatus_fits {c : Cfg} {s : ESt} {k sz : Nat} (hf : c.hdr + c.evOpen + sz ≤ c.limit) :
    ∃ s', putEvStatus c s k sz = .ok s' := by
  unfold putEvStatus
  split
  · exact ⟨_, rfl⟩
  · rw [if_pos (by simpa [ESt.flushEv] using hf)]
    exact ⟨_, rfl⟩

theorem putEvStatuses_fits {c : Cfg} : ∀ (szs : List Nat) (k : Nat) (s : ESt),
    (∀ sz ∈ szs, c.hdr + c.evOpen + sz ≤ c.limit) → ∃ s', putEvStatuses c k szs s = .ok s' := by
  intro szs
  induction szs with
  | nil => intro k s _; exact ⟨s, rfl⟩
  | cons sz szs ih =>
    intro k s hf
    simp only [putEvStatuses]
    obtain ⟨s1, h1⟩ := putEvStatus_fits (s := s) (k := k) (hf sz (by simp))
    rw [h1]
    exact ih (k + 1) s1 (fun x hx => hf x (by simp [hx]))

/-- the state after event `e` was written -/
def ESt.wr (s : ESt) (e : Ev) : ESt := { s.writeEv (.data e.num e.size) with cursor := e.num }

/-- the fetch loop as a single sweep over the buffer: an event that finds no space is retried in
the next message, where it is the first event -/
def sweep (c : Cfg) (r : EvReq) : List Ev → ESt → Except Err ESt
  | [], s => .ok s
  | e :: es, s =>
    if r.inRange s.cursor e then
      if r.passes e then
        if s.used + e.size ≤ s.lim then sweep c r es (s.wr e)
        else if s.fresh && s.used == s.base then .error .tooBig
        else if (s.flushEv c).used + e.size ≤ (s.flushEv c).lim then sweep c r es ((s.flushEv c).wr e)
        else .error .tooBig
      else sweep c r es { s with cursor := e.num }
    else sweep c r es s

/-- the events before the cursor are skipped by a fetch -/
theorem pass_skip (r : EvReq) : ∀ (pre rest : List Ev) (s : ESt),
    (∀ e ∈ pre, r.inRange s.cursor e = false) → pass r (pre ++ rest) s = pass r rest s := by
  intro pre
  induction pre with
  | nil => intro rest s _; rfl
  | cons e pre ih =>
    intro rest s h
    simp only [List.cons_append, pass]
    rw [if_neg (by simp [h e (by simp)])]
    exact ih rest s (fun x hx => h x (by simp [hx]))

theorem inRange_mono (r : EvReq) {a b : Nat} (e : Ev) (hab : a ≤ b) (h : r.inRange a e = false) :
    r.inRange b e = false := by
  simp only [EvReq.inRange, Bool.and_eq_false_iff, decide_eq_false_iff_not] at h ⊢
  rcases h with h | h
  · left; omega
  · right; exact h

theorem inRange_self (r : EvReq) (e : Ev) : r.inRange e.num e = false := by
  simp [EvReq.inRange]

theorem inRange_lt (r : EvReq) {a : Nat} {e : Ev} (h : r.inRange a e = true) : a < e.num := by
  simp only [EvReq.inRange, Bool.and_eq_true, decide_eq_true_eq] at h
  exact h.1

theorem evLoop_congr (c : Cfg) (r : EvReq) (fuel : Nat) {s s' : ESt}
    (h : pass r r.buf s = pass r r.buf s') : evLoop c r (fuel + 1) s = evLoop c r (fuel + 1) s' := by
  simp only [evLoop, h]

/-- **the cursor resumes correctly**: iterating the buffer again from its start after every sent
chunk is the same as one sweep over it — nothing is reported twice, nothing is left out, and the
loop ends within `buf.length + 1` fetches (never with an endless sequence of chunks) -/
theorem evLoop_eq_sweep (c : Cfg) (r : EvReq) : ∀ (rest pre : List Ev) (s : ESt) (fuel : Nat),
    rest.length ≤ fuel → (∀ e ∈ pre, r.inRange s.cursor e = false) → r.buf = pre ++ rest →
    evLoop c r (fuel + 1) s = sweep c r rest s := by
  intro rest
  induction rest with
  | nil =>
    intro pre s fuel _ hpre hbuf
    have hp : pass r r.buf s = (s, true) := by
      rw [hbuf, pass_skip r pre [] s hpre]; rfl
    simp only [evLoop, hp, sweep]
  | cons e es ih =>
    intro pre s fuel hfuel hpre hbuf
    have hbuf' : r.buf = (pre ++ [e]) ++ es := by simp [hbuf]
    simp only [List.length_cons] at hfuel
    -- what a state reached by considering `e` skips
    have hskip : ∀ s1 : ESt, s1.cursor = e.num → s.cursor ≤ e.num →
        ∀ x ∈ pre ++ [e], r.inRange s1.cursor x = false := by
      intro s1 hc hle x hx
      simp only [List.mem_append, List.mem_singleton] at hx
      rcases hx with hx | rfl
      · rw [hc]; exact inRange_mono r x hle (hpre x hx)
      · rw [hc]; exact inRange_self r x
    have hp : pass r r.buf s = pass r (e :: es) s := by rw [hbuf]; exact pass_skip r pre _ s hpre
    -- continuing from a state in which `e` is behind the cursor
    have hcont : ∀ s1 : ESt, s1.cursor = e.num → s.cursor ≤ e.num → ∀ f, es.length ≤ f →
        pass r r.buf s1 = pass r es s1 ∧ evLoop c r (f + 1) s1 = sweep c r es s1 := by
      intro s1 hc hle f hf
      refine ⟨?_, ih (pre ++ [e]) s1 f hf (hskip s1 hc hle) hbuf'⟩
      rw [hbuf']; exact pass_skip r _ es s1 (hskip s1 hc hle)
    cases hr : r.inRange s.cursor e with
    | false =>
      simp only [sweep, hr, Bool.false_eq_true, ↓reduceIte]
      refine ih (pre ++ [e]) s fuel (by omega) ?_ hbuf'
      intro x hx
      simp only [List.mem_append, List.mem_singleton] at hx
      rcases hx with hx | rfl
      · exact hpre x hx
      · exact hr
    | true =>
      have hlt := Nat.le_of_lt (inRange_lt r hr)
      cases hpa : r.passes e with
      | false =>
        simp only [sweep, hr, hpa, Bool.false_eq_true, ↓reduceIte]
        obtain ⟨q1, q2⟩ := hcont { s with cursor := e.num } rfl hlt fuel (by omega)
        rw [← q2]
        apply evLoop_congr
        rw [hp, q1]
        simp only [pass, hr, hpa, Bool.false_eq_true, ↓reduceIte]
      | true =>
        by_cases hfit : s.used + e.size ≤ s.lim
        · simp only [sweep, hr, hpa, hfit, ↓reduceIte]
          obtain ⟨q1, q2⟩ := hcont (s.wr e) rfl hlt fuel (by omega)
          rw [← q2]
          apply evLoop_congr
          rw [hp, q1]
          simp only [pass, hr, hpa, hfit, ↓reduceIte, ESt.wr]
        · have hp0 : pass r r.buf s = (s, false) := by
            rw [hp]; simp only [pass, hr, hpa, hfit, ↓reduceIte]
          simp only [sweep, hr, hpa, hfit, ↓reduceIte]
          simp only [evLoop, hp0]
          split
          · rfl
          · -- the chunk is sent; `e` is retried as the first event of the next message
            obtain ⟨f, rfl⟩ : ∃ f, fuel = f + 1 := ⟨fuel - 1, by omega⟩
            have hpre2 : ∀ x ∈ pre, r.inRange (s.flushEv c).cursor x = false := hpre
            have hp2 : pass r r.buf (s.flushEv c) = pass r (e :: es) (s.flushEv c) := by
              rw [hbuf]; exact pass_skip r pre _ _ hpre2
            have hr2 : r.inRange (s.flushEv c).cursor e = true := hr
            by_cases hfit2 : (s.flushEv c).used + e.size ≤ (s.flushEv c).lim
            · simp only [hfit2, ↓reduceIte]
              obtain ⟨q1, q2⟩ := hcont ((s.flushEv c).wr e) rfl hlt f (by omega)
              rw [← q2]
              apply evLoop_congr
              rw [hp2, q1]
              simp only [pass, hr2, hpa, hfit2, ↓reduceIte, ESt.wr]
            · simp only [hfit2, ↓reduceIte]
              have hp3 : pass r r.buf (s.flushEv c) = (s.flushEv c, false) := by
                rw [hp2]; simp only [pass, hr2, hpa, hfit2, ↓reduceIte]
              simp only [evLoop, hp3]
              simp [ESt.flushEv]

/-- the events a sweep starting with cursor `cur` reports -/
def considered (r : EvReq) : Nat → List Ev → List Ev
  | _, [] => []
  | cur, e :: es =>
    if r.inRange cur e then
      if r.passes e then e :: considered r e.num es else considered r e.num es
    else considered r cur es

/-- in a buffer with ascending event numbers the cursor leaves nothing out: the events reported are
exactly the events of the buffer in the range that pass the filters -/
theorem considered_eq_filter (r : EvReq) : ∀ (es : List Ev) (cur : Nat),
    (es.map (·.num)).Pairwise (· < ·) →
    considered r cur es = es.filter fun e => r.inRange cur e && r.passes e := by
  intro es
  induction es with
  | nil => intro cur _; rfl
  | cons e es ih =>
    intro cur hasc
    simp only [List.map_cons, List.pairwise_cons] at hasc
    obtain ⟨hlt, hasc'⟩ := hasc
    simp only [considered, List.filter_cons]
    cases hr : r.inRange cur e with
    | false => simpa using ih cur hasc'
    | true =>
      have hcur := inRange_lt r hr
      have hcong : (es.filter fun x => r.inRange e.num x && r.passes x) =
          es.filter fun x => r.inRange cur x && r.passes x := by
        apply List.filter_congr
        intro x hx
        have : e.num < x.num := hlt x.num (List.mem_map.mpr ⟨x, hx, rfl⟩)
        simp only [EvReq.inRange]
        congr 2
        simp only [decide_eq_decide]
        omega
      cases hp : r.passes e with
      | false => simp [ih e.num hasc', hcong]
      | true => simp [ih e.num hasc', hcong]

theorem wr_ok {c : Cfg} {s : ESt} (e : Ev) (h : EInv c s) (hfit : s.used + e.size ≤ s.lim) :
    EInv c (s.wr e) ∧ (s.wr e).flatEv = s.flatEv ++ [.data e.num e.size] ∧ (s.wr e).flatAt = s.flatAt ∧
      (s.wr e).cursor = e.num := by
  obtain ⟨h1, h2, h3⟩ := writeEv_ok (.data e.num e.size) h (by simpa [EvPiece.size] using hfit)
  exact ⟨⟨h1.usedLe, h1.limLe, h1.doneOk, h1.freshOk⟩, h2, h3, rfl⟩

/-- the sweep reports exactly the considered events, each once, in buffer order -/
theorem sweep_ok {c : Cfg} (hw : c.WF) (r : EvReq) : ∀ (es : List Ev) (s s' : ESt), EInv c s →
    sweep c r es s = .ok s' →
    EInv c s' ∧ s'.flatEv = s.flatEv ++ (considered r s.cursor es).map (fun e => EvPiece.data e.num e.size) ∧
      s'.flatAt = s.flatAt := by
  intro es
  induction es with
  | nil => intro s s' h hp; simp [sweep] at hp; subst hp; exact ⟨h, by simp [considered], rfl⟩
  | cons e es ih =>
    intro s s' h hp
    simp only [sweep] at hp
    simp only [considered]
    cases hr : r.inRange s.cursor e with
    | false =>
      simp only [hr, Bool.false_eq_true, ↓reduceIte] at hp ⊢
      exact ih s s' h hp
    | true =>
      cases hpa : r.passes e with
      | false =>
        simp only [hr, hpa, Bool.false_eq_true, ↓reduceIte] at hp ⊢
        exact ih { s with cursor := e.num } s' ⟨h.usedLe, h.limLe, h.doneOk, h.freshOk⟩ hp
      | true =>
        simp only [hr, hpa, ↓reduceIte] at hp ⊢
        split at hp
        · rename_i hfit
          obtain ⟨i1, f1, a1, c1⟩ := wr_ok e h hfit
          obtain ⟨i2, f2, a2⟩ := ih (s.wr e) s' i1 hp
          exact ⟨i2, by rw [f2, f1, c1]; simp, by rw [a2, a1]⟩
        · split at hp
          · cases hp
          · split at hp
            · rename_i hfit
              obtain ⟨g1, g2, g3, g4, _⟩ := flushEv_ok hw h
              obtain ⟨i1, f1, a1, c1⟩ := wr_ok e g1 hfit
              obtain ⟨i2, f2, a2⟩ := ih ((s.flushEv c).wr e) s' i1 hp
              exact ⟨i2, by rw [f2, f1, c1, g2]; simp, by rw [a2, a1, g3]⟩
            · cases hp

/-- the sweep ends with an answer when every event to be reported fits an empty event message -/
theorem sweep_fits {c : Cfg} (hw : c.WF) (r : EvReq) : ∀ (es : List Ev) (s : ESt), EInv c s →
    (∀ e ∈ es, r.passes e = true → c.hdr + c.evOpen + e.size ≤ c.limit) → ∃ s', sweep c r es s = .ok s' := by
  intro es
  induction es with
  | nil => intro s _ _; exact ⟨s, rfl⟩
  | cons e es ih =>
    intro s h hf
    have hf' : ∀ x ∈ es, r.passes x = true → c.hdr + c.evOpen + x.size ≤ c.limit :=
      fun x hx => hf x (by simp [hx])
    simp only [sweep]
    split
    · split
      · rename_i hpa
        have hfe := hf e (by simp) hpa
        split
        · rename_i hfit
          exact ih _ (wr_ok e h hfit).1 hf'
        · split
          · rename_i hnofit hfresh
            -- the open message is an empty event message: the event fits it
            exfalso
            simp only [Bool.and_eq_true, beq_iff_eq] at hfresh
            obtain ⟨hb, hl⟩ := h.freshOk hfresh.1
            omega
          · have hfit2 : (s.flushEv c).used + e.size ≤ (s.flushEv c).lim := by simpa [ESt.flushEv] using hfe
            rw [if_pos hfit2]
            exact ih _ (wr_ok e (flushEv_ok hw h).1 hfit2).1 hf'
      · exact ih _ ⟨h.usedLe, h.limLe, h.doneOk, h.freshOk⟩ hf'
    · exact ih _ h hf'

theorem sweep_err {c : Cfg} (r : EvReq) : ∀ (es : List Ev) (s : ESt) (e : Err),
    sweep c r es s = .error e → e = .tooBig := by
  intro es
  induction es with
  | nil => intro s e hp; simp [sweep] at hp
  | cons x es ih =>
    intro s e hp
    simp only [sweep] at hp
    repeat' split at hp
    all_goals first
      | exact ih _ e hp
      | (injection hp with hp; exact hp.symm)

/-! ## the sections of `respond` -/

/-- as long as nothing was reported no message was sent and the open message holds no report -/
def EmptyOk (s : ESt) : Prop := s.empty = true → s.done = [] ∧ s.attrs = [] ∧ s.evs = []

theorem putEvStatus_empty {c : Cfg} {s s' : ESt} {k sz : Nat} (hp : putEvStatus c s k sz = .ok s') :
    s'.empty = false := by
  unfold putEvStatus at hp
  split at hp
  · injection hp with hp; subst hp; rfl
  · split at hp
    · injection hp with hp; subst hp; rfl
    · cases hp

theorem putEvStatuses_empty {c : Cfg} : ∀ (szs : List Nat) (k : Nat) (s s' : ESt), EmptyOk s →
    putEvStatuses c k szs s = .ok s' → EmptyOk s' := by
  intro szs
  induction szs with
  | nil => intro k s s' h hp; simp [putEvStatuses] at hp; subst hp; exact h
  | cons sz szs ih =>
    intro k s s' _ hp
    simp only [putEvStatuses] at hp
    cases h1 : putEvStatus c s k sz with
    | error e => rw [h1] at hp; cases hp
    | ok s1 =>
      rw [h1] at hp
      refine ih (k + 1) s1 s' ?_ hp
      intro he
      rw [putEvStatus_empty h1] at he
      cases he

theorem sweep_empty {c : Cfg} (r : EvReq) : ∀ (es : List Ev) (s s' : ESt), EmptyOk s →
    sweep c r es s = .ok s' → EmptyOk s' := by
  intro es
  induction es with
  | nil => intro s s' h hp; simp [sweep] at hp; subst hp; exact h
  | cons e es ih =>
    intro s s' h hp
    simp only [sweep] at hp
    have hwr : ∀ t : ESt, EmptyOk (t.wr e) := by
      intro t he
      simp [ESt.wr, ESt.writeEv] at he
    repeat' split at hp
    all_goals first
      | exact ih _ s' (hwr _) hp
      | exact ih _ s' h hp
      | exact ih { s with cursor := e.num } s' h hp
      | cases hp

/-- what `report_attributes` leaves behind -/
structure AInv (c : Cfg) (s : ESt) : Prop where
  usedLe : s.used ≤ s.lim
  limLe : s.lim + c.evOpen + c.close + c.reserve ≤ c.cap
  doneOk : ∀ ch ∈ s.done, ch.more = true ∧ ch.size ≤ c.cap
  freshOk : s.fresh = true → s.used = c.hdr ∧ s.lim = c.limit

/-- what `send(Done)` needs -/
structure FInv (c : Cfg) (s : ESt) : Prop where
  usedLe : s.used ≤ s.lim
  limLe : s.lim + c.reserve ≤ c.cap
  doneOk : ∀ ch ∈ s.done, ch.more = true ∧ ch.size ≤ c.cap

/-- the attributes a correct answer to the request carries -/
def selOf : Option (List AttrReq) → List Item
  | none => []
  | some as => selected as

theorem flatMap_events_nil (l : List ChunkOut) (h : ∀ ch ∈ l, ch.events = []) :
    l.flatMap (·.events) = [] := by
  induction l with
  | nil => rfl
  | cons a l ih =>
    simp only [List.flatMap_cons, h a (by simp), List.nil_append]
    exact ih (fun ch hch => h ch (by simp [hch]))

theorem expand_ok {c : Cfg} {lim n lim' : Nat} (h : expand c lim n = .ok lim') :
    lim' = lim + n := by
  unfold expand at h
  split at h
  · injection h with h; exact h.symm
  · cases h

theorem expand_fits {c : Cfg} {lim n : Nat} (h : lim + n ≤ c.cap) : expand c lim n = .ok (lim + n) := by
  unfold expand
  rw [if_pos (by omega)]

theorem expand_err {c : Cfg} {lim n : Nat} {e : Err} (h : expand c lim n = .error e) : e = .noSpace := by
  unfold expand at h
  split at h
  · cases h
  · injection h with h; exact h.symm

/-- the attribute section, when attribute paths are requested: the chunking of the selected items
followed by the array end -/
theorem attrSection_some {c : Cfg} (hw : c.WF) {as : List AttrReq} {s1 : ESt}
    (h : attrSection c (some as) = .ok s1) :
    ∃ s, putItems c (selected as) (St.init c) = .ok s ∧ Inv c s ∧ s1.done = s.done ∧ s1.attrs = s.cur ∧
      s1.evs = [] ∧ s1.used = s.used + c.close ∧ s1.lim = c.limit + c.close ∧ s1.fresh = false ∧
      s1.empty = (yielded as).isEmpty := by
  simp only [attrSection] at h
  rw [putAttrs_eq] at h
  cases hp : putItems c (((yielded as).filter fun a => !a.unchanged).map (·.item)) (St.init c) with
  | error e => rw [hp] at h; cases h
  | ok s =>
    rw [hp] at h
    simp only at h
    cases hx : expand c c.limit c.close with
    | error e => rw [hx] at h; cases h
    | ok lim =>
      rw [hx] at h
      simp only at h
      obtain rfl := expand_ok hx
      split at h
      · injection h with h; subst h
        exact ⟨s, hp, (putItems_ok hw _ _ _ (inv_init c hw) hp).1, rfl, rfl, rfl, rfl, rfl, rfl, rfl⟩
      · cases h

theorem attrSection_ok {c : Cfg} (hw : c.WF) {ra : Option (List AttrReq)} {s1 : ESt}
    (h : attrSection c ra = .ok s1) :
    AInv c s1 ∧ EmptyOk s1 ∧ s1.flatEv = [] ∧
      ∃ outs, AllJustified c (selOf ra) outs ∧ s1.flatAt = allPieces (selOf ra) outs := by
  have hlim := limit_le c hw
  cases ra with
  | none =>
    simp only [attrSection] at h
    injection h with h; subst h
    refine ⟨⟨?_, ?_, by simp, by simp⟩, by simp [EmptyOk], by simp [ESt.flatEv], [], .nil, by simp [ESt.flatAt, selOf, allPieces]⟩
    · have := hw.startEv; simp only; omega
    · have := hw.struct; simp only; omega
  | some as =>
    obtain ⟨s, hp, hinv, hd, ha, he, hu, hl, hf, hem⟩ := attrSection_some hw h
    obtain ⟨_, outs, hj, hflat⟩ := putItems_ok hw _ _ _ (inv_init c hw) hp
    refine ⟨⟨?_, ?_, ?_, ?_⟩, ?_, ?_, outs, hj, ?_⟩
    · have := hinv.usedLe; omega
    · have := hw.struct; omega
    · intro ch hch; rw [hd] at hch
      exact ⟨(hinv.doneOk ch hch).1, (hinv.doneOk ch hch).2.1⟩
    · intro hf'; rw [hf] at hf'; cases hf'
    · intro hemp
      rw [hem, List.isEmpty_iff] at hemp
      have hs : s = St.init c := by
        have : selected as = [] := by simp [selected, hemp]
        rw [this] at hp
        simp only [putItems] at hp
        injection hp with hp; exact hp.symm
      rw [hd, ha, he, hs]
      simp [St.init]
    · simp only [ESt.flatEv, hd, he]
      rw [flatMap_events_nil _ (fun ch hch => (hinv.doneOk ch (List.mem_reverse.mp hch)).2.2.2)]
      rfl
    · simp only [ESt.flatAt, hd, ha, selOf]
      have : (St.init c).flat = [] := by simp [St.flat, St.init]
      rw [this, List.nil_append] at hflat
      rw [← hflat]; rfl

/-- the event reports the event section adds (the cursor's view) -/
def evOut : Option EvReq → List EvPiece
  | none => []
  | some r => (r.statuses.zipIdx.map fun (sz, k) => EvPiece.status k sz) ++
      (considered r r.maxSeen r.buf).map fun e => .data e.num e.size

theorem eventSection_ok {c : Cfg} (hw : c.WF) {s s2 : ESt} {re : Option EvReq} (h : AInv c s) (hemp : EmptyOk s)
    (hp : eventSection c s re = .ok s2) :
    FInv c s2 ∧ EmptyOk s2 ∧ s2.flatAt = s.flatAt ∧ s2.flatEv = s.flatEv ++ evOut re := by
  cases re with
  | none =>
    simp only [eventSection] at hp
    injection hp with hp; subst hp
    exact ⟨⟨h.usedLe, by have := h.limLe; omega, h.doneOk⟩, hemp, rfl, by simp [evOut]⟩
  | some r =>
    simp only [eventSection] at hp
    cases hx : expand c s.lim c.evOpen with
    | error e => rw [hx] at hp; cases hp
    | ok lim =>
      rw [hx] at hp
      simp only at hp
      obtain rfl := expand_ok hx
      split at hp
      · rename_i hfit
        -- the state after `start_array(EventReports)`
        have i1 : EInv c { s with lim := s.lim + c.evOpen, used := s.used + c.evOpen, base := s.used + c.evOpen, cursor := r.maxSeen } := by
          refine ⟨hfit, by have := h.limLe; simp only; omega, h.doneOk, ?_⟩
          intro hf
          obtain ⟨h1, h2⟩ := h.freshOk hf
          simp only; omega
        have e1 : EmptyOk { s with lim := s.lim + c.evOpen, used := s.used + c.evOpen, base := s.used + c.evOpen, cursor := r.maxSeen } := hemp
        cases hst : putEvStatuses c 0 r.statuses { s with lim := s.lim + c.evOpen, used := s.used + c.evOpen, base := s.used + c.evOpen, cursor := r.maxSeen } with
        | error e => rw [hst] at hp; cases hp
        | ok s3 =>
          rw [hst] at hp
          simp only at hp
          obtain ⟨i2, f2, a2, c2⟩ := putEvStatuses_ok hw _ _ _ _ i1 hst
          have e2 := putEvStatuses_empty _ _ _ _ e1 hst
          rw [evLoop_eq_sweep c r r.buf [] s3 r.buf.length (Nat.le_refl _) (by simp) (by simp)] at hp
          cases hsw : sweep c r r.buf s3 with
          | error e => rw [hsw] at hp; cases hp
          | ok s4 =>
            rw [hsw] at hp
            simp only at hp
            obtain ⟨i3, f3, a3⟩ := sweep_ok hw r _ _ _ i2 hsw
            have e3 := sweep_empty r _ _ _ e2 hsw
            cases hx2 : expand c s4.lim c.close with
            | error e => rw [hx2] at hp; cases hp
            | ok lim' =>
              rw [hx2] at hp
              simp only at hp
              obtain rfl := expand_ok hx2
              split at hp
              · rename_i hfit2
                injection hp with hp; subst hp
                refine ⟨⟨hfit2, by have := i3.limLe; simp only; omega, i3.doneOk⟩, e3, ?_, ?_⟩
                · show s4.flatAt = s.flatAt
                  rw [a3, a2]; rfl
                · show s4.flatEv = s.flatEv ++ evOut (some r)
                  rw [f3, f2, c2]
                  simp [evOut, ESt.flatEv]
              · cases hp
      · cases hp

/-- `send(Done)` always finds room for the trailer -/
theorem sendDone_ok {c : Cfg} (hw : c.WF) {s : ESt} (h : FInv c s) :
    sendDone c s = .ok (({ pieces := s.attrs.reverse, events := s.evs.reverse, size := s.used + c.trailerDone, more := false } :: s.done).reverse) := by
  unfold sendDone
  rw [expand_fits h.limLe]
  simp only
  rw [if_pos (by have := h.usedLe; have := hw.trailerDone; omega)]

/-! ## the responder always ends -/

theorem attrSection_total {c : Cfg} (hw : c.WF) (ra : Option (List AttrReq))
    (hst : ∀ it ∈ selOf ra, c.hdr + c.arrOpen + it.st ≤ c.limit) : ∃ s1, attrSection c ra = .ok s1 := by
  have hlim := limit_le c hw
  cases ra with
  | none => exact ⟨_, rfl⟩
  | some as =>
    simp only [attrSection]
    rw [putAttrs_eq]
    obtain ⟨s, hp⟩ := putItems_total hw (selected as) (St.init c) (inv_init c hw) hst
    simp only [selected] at hp
    rw [hp]
    simp only
    rw [expand_fits (by have := hw.struct; omega)]
    simp only
    rw [if_pos (by have := (putItems_ok hw _ _ _ (inv_init c hw) hp).1.usedLe; omega)]
    exact ⟨_, rfl⟩

theorem attrSection_err {c : Cfg} {ra : Option (List AttrReq)} {e : Err}
    (h : attrSection c ra = .error e) : e = .noSpace := by
  cases ra with
  | none => cases h
  | some as =>
    simp only [attrSection] at h
    rw [putAttrs_eq] at h
    cases hp : putItems c (((yielded as).filter fun a => !a.unchanged).map (·.item)) (St.init c) with
    | error e' => rw [hp] at h; injection h with h; subst h; exact putItems_err _ _ _ hp
    | ok s =>
      rw [hp] at h
      simp only at h
      cases hx : expand c c.limit c.close with
      | error e' => rw [hx] at h; injection h with h; subst h; exact expand_err hx
      | ok lim =>
        rw [hx] at h
        simp only at h
        split at h
        · cases h
        · injection h with h; exact h.symm

/-- every event report that may have to go into an empty event message fits one -/
def EvFits (c : Cfg) : Option EvReq → Prop
  | none => True
  | some r => (∀ sz ∈ r.statuses, c.hdr + c.evOpen + sz ≤ c.limit) ∧
      ∀ e ∈ r.buf, r.passes e = true → c.hdr + c.evOpen + e.size ≤ c.limit

theorem eventSection_total {c : Cfg} (hw : c.WF) {s : ESt} (re : Option EvReq) (h : AInv c s)
    (hf : EvFits c re) : ∃ s2, eventSection c s re = .ok s2 := by
  cases re with
  | none => exact ⟨_, rfl⟩
  | some r =>
    obtain ⟨hf1, hf2⟩ := hf
    simp only [eventSection]
    rw [expand_fits (by have := h.limLe; omega)]
    simp only
    rw [if_pos (by have := h.usedLe; omega)]
    have i1 : EInv c { s with lim := s.lim + c.evOpen, used := s.used + c.evOpen, base := s.used + c.evOpen, cursor := r.maxSeen } := by
      refine ⟨by have := h.usedLe; simp only; omega, by have := h.limLe; simp only; omega, h.doneOk, ?_⟩
      intro hfr
      obtain ⟨h1, h2⟩ := h.freshOk hfr
      simp only; omega
    obtain ⟨s3, hst⟩ := putEvStatuses_fits (c := c) r.statuses 0 { s with lim := s.lim + c.evOpen, used := s.used + c.evOpen, base := s.used + c.evOpen, cursor := r.maxSeen } hf1
    rw [hst]
    simp only
    obtain ⟨i2, _⟩ := putEvStatuses_ok hw _ _ _ _ i1 hst
    rw [evLoop_eq_sweep c r r.buf [] s3 r.buf.length (Nat.le_refl _) (by simp) (by simp)]
    obtain ⟨s4, hsw⟩ := sweep_fits hw r r.buf s3 i2 hf2
    rw [hsw]
    simp only
    obtain ⟨i3, _⟩ := sweep_ok hw r _ _ _ i2 hsw
    rw [expand_fits (by have := i3.limLe; omega)]
    simp only
    rw [if_pos (by have := i3.usedLe; omega)]
    exact ⟨_, rfl⟩

theorem putEvStatus_err {c : Cfg} {s : ESt} {k sz : Nat} {e : Err} (h : putEvStatus c s k sz = .error e) :
    e = .noSpace := by
  unfold putEvStatus at h
  split at h
  · cases h
  · split at h
    · cases h
    · injection h with h; exact h.symm

theorem putEvStatuses_err {c : Cfg} : ∀ (szs : List Nat) (k : Nat) (s : ESt) (e : Err),
    putEvStatuses c k szs s = .error e → e = .noSpace := by
  intro szs
  induction szs with
  | nil => intro k s e h; simp [putEvStatuses] at h
  | cons sz szs ih =>
    intro k s e h
    simp only [putEvStatuses] at h
    cases h1 : putEvStatus c s k sz with
    | error e' => rw [h1] at h; injection h with h; subst h; exact putEvStatus_err h1
    | ok s1 => rw [h1] at h; exact ih _ _ _ h

theorem eventSection_err {c : Cfg} {s : ESt} {re : Option EvReq} {e : Err}
    (h : eventSection c s re = .error e) : e = .noSpace ∨ e = .tooBig := by
  cases re with
  | none => cases h
  | some r =>
    simp only [eventSection] at h
    cases hx : expand c s.lim c.evOpen with
    | error e' => rw [hx] at h; injection h with h; subst h; exact .inl (expand_err hx)
    | ok lim =>
      rw [hx] at h
      simp only at h
      split at h
      · cases hst : putEvStatuses c 0 r.statuses { s with lim := lim, used := s.used + c.evOpen, base := s.used + c.evOpen, cursor := r.maxSeen } with
        | error e' => rw [hst] at h; injection h with h; subst h; exact .inl (putEvStatuses_err _ _ _ _ hst)
        | ok s3 =>
          rw [hst] at h
          simp only at h
          rw [evLoop_eq_sweep c r r.buf [] s3 r.buf.length (Nat.le_refl _) (by simp) (by simp)] at h
          cases hsw : sweep c r r.buf s3 with
          | error e' => rw [hsw] at h; injection h with h; subst h; exact .inr (sweep_err r _ _ _ hsw)
          | ok s4 =>
            rw [hsw] at h
            simp only at h
            cases hx2 : expand c s4.lim c.close with
            | error e' => rw [hx2] at h; injection h with h; subst h; exact .inl (expand_err hx2)
            | ok lim' =>
              rw [hx2] at h
              simp only at h
              split at h
              · cases h
              · injection h with h; exact .inl h.symm
      · injection h with h; exact .inl h.symm

/-! ## attribute reports come before event reports -/

/-- no attribute report follows an event report -/
def Ordered : List ChunkOut → Prop
  | [] => True
  | ch :: rest => (ch.events ≠ [] → ∀ x ∈ rest, x.pieces = []) ∧ Ordered rest

theorem ordered_of_no_events : ∀ l : List ChunkOut, (∀ ch ∈ l, ch.events = []) → Ordered l := by
  intro l
  induction l with
  | nil => intro _; trivial
  | cons a l ih =>
    intro h
    exact ⟨fun hne => absurd (h a (by simp)) hne, ih (fun ch hch => h ch (by simp [hch]))⟩

/-- a message without attribute reports may follow -/
theorem ordered_snoc : ∀ (l : List ChunkOut) (e : ChunkOut), Ordered l → e.pieces = [] → Ordered (l ++ [e]) := by
  intro l
  induction l with
  | nil => intro e _ _; exact ⟨fun _ x hx => absurd hx List.not_mem_nil, trivial⟩
  | cons a l ih =>
    intro e h he
    show (a.events ≠ [] → ∀ x ∈ l ++ [e], x.pieces = []) ∧ Ordered (l ++ [e])
    refine ⟨?_, ih e h.2 he⟩
    intro hne x hx
    simp only [List.mem_append, List.mem_singleton] at hx
    rcases hx with hx | rfl
    · exact h.1 hne x hx
    · exact he

/-- the last message may get more event reports -/
theorem ordered_last : ∀ (l : List ChunkOut) (a b : ChunkOut), Ordered (l ++ [a]) → b.pieces = a.pieces →
    Ordered (l ++ [b]) := by
  intro l
  induction l with
  | nil => intro a b _ _; exact ⟨fun _ x hx => absurd hx List.not_mem_nil, trivial⟩
  | cons c l ih =>
    intro a b h hb
    have h' : (c.events ≠ [] → ∀ x ∈ l ++ [a], x.pieces = []) ∧ Ordered (l ++ [a]) := h
    show (c.events ≠ [] → ∀ x ∈ l ++ [b], x.pieces = []) ∧ Ordered (l ++ [b])
    refine ⟨?_, ih a b h'.2 hb⟩
    intro hne x hx
    simp only [List.mem_append, List.mem_singleton] at hx
    rcases hx with hx | rfl
    · exact h'.1 hne x (by simp [hx])
    · rw [hb]; exact h'.1 hne a (by simp)

/-- the messages sent so far and the open one -/
def ESt.all (s : ESt) : List ChunkOut :=
  s.done.reverse ++ [{ pieces := s.attrs.reverse, events := s.evs.reverse, size := 0, more := false }]

def OInv (s : ESt) : Prop := Ordered s.all

theorem writeEv_ordered {s : ESt} (p : EvPiece) (h : OInv s) : OInv (s.writeEv p) := by
  unfold OInv ESt.all at *
  exact ordered_last _ _ _ h rfl

theorem flushEv_ordered {c : Cfg} {s : ESt} (h : OInv s) : OInv (s.flushEv c) := by
  unfold OInv ESt.all at *
  simp only [ESt.flushEv, List.reverse_cons, List.reverse_nil]
  apply ordered_snoc _ _ _ rfl
  exact ordered_last _ _ _ h rfl

theorem putEvStatus_ordered {c : Cfg} {s s' : ESt} {k sz : Nat} (h : OInv s)
    (hp : putEvStatus c s k sz = .ok s') : OInv s' := by
  unfold putEvStatus at hp
  split at hp
  · injection hp with hp; subst hp; exact writeEv_ordered _ h
  · split at hp
    · injection hp with hp; subst hp; exact writeEv_ordered _ (flushEv_ordered h)
    · cases hp

theorem putEvStatuses_ordered {c : Cfg} : ∀ (szs : List Nat) (k : Nat) (s s' : ESt), OInv s →
    putEvStatuses c k szs s = .ok s' → OInv s' := by
  intro szs
  induction szs with
  | nil => intro k s s' h hp; simp [putEvStatuses] at hp; subst hp; exact h
  | cons sz szs ih =>
    intro k s s' h hp
    simp only [putEvStatuses] at hp
    cases h1 : putEvStatus c s k sz with
    | error e => rw [h1] at hp; cases hp
    | ok s1 => rw [h1] at hp; exact ih (k + 1) s1 s' (putEvStatus_ordered h h1) hp

theorem sweep_ordered {c : Cfg} (r : EvReq) : ∀ (es : List Ev) (s s' : ESt), OInv s →
    sweep c r es s = .ok s' → OInv s' := by
  intro es
  induction es with
  | nil => intro s s' h hp; simp [sweep] at hp; subst hp; exact h
  | cons e es ih =>
    intro s s' h hp
    simp only [sweep] at hp
    have hwr : ∀ t : ESt, OInv t → OInv (t.wr e) := fun t ht => writeEv_ordered (.data e.num e.size) ht
    repeat' split at hp
    all_goals first
      | exact ih _ s' (hwr _ h) hp
      | exact ih _ s' (hwr _ (flushEv_ordered h)) hp
      | exact ih _ s' h hp
      | exact ih { s with cursor := e.num } s' h hp
      | cases hp

theorem attrSection_ordered {c : Cfg} (hw : c.WF) {ra : Option (List AttrReq)} {s1 : ESt}
    (h : attrSection c ra = .ok s1) : OInv s1 := by
  cases ra with
  | none =>
    simp only [attrSection] at h
    injection h with h; subst h
    exact ⟨fun _ x hx => absurd hx List.not_mem_nil, trivial⟩
  | some as =>
    obtain ⟨s, _, hinv, hd, _, he, _⟩ := attrSection_some hw h
    apply ordered_of_no_events
    intro ch hch
    simp only [ESt.all, List.mem_append, List.mem_reverse, List.mem_singleton] at hch
    rcases hch with hch | rfl
    · rw [hd] at hch; exact (hinv.doneOk ch hch).2.2.2
    · simp [he]

theorem eventSection_ordered {c : Cfg} {s s2 : ESt} {re : Option EvReq} (h : OInv s)
    (hp : eventSection c s re = .ok s2) : OInv s2 := by
  cases re with
  | none => simp only [eventSection] at hp; injection hp with hp; subst hp; exact h
  | some r =>
    simp only [eventSection] at hp
    cases hx : expand c s.lim c.evOpen with
    | error e => rw [hx] at hp; cases hp
    | ok lim =>
      rw [hx] at hp
      simp only at hp
      split at hp
      · cases hst : putEvStatuses c 0 r.statuses { s with lim := lim, used := s.used + c.evOpen, base := s.used + c.evOpen, cursor := r.maxSeen } with
        | error e => rw [hst] at hp; cases hp
        | ok s3 =>
          rw [hst] at hp
          simp only at hp
          have o3 : OInv s3 := putEvStatuses_ordered _ _ _ _ (show OInv { s with lim := lim, used := s.used + c.evOpen, base := s.used + c.evOpen, cursor := r.maxSeen } from h) hst
          rw [evLoop_eq_sweep c r r.buf [] s3 r.buf.length (Nat.le_refl _) (by simp) (by simp)] at hp
          cases hsw : sweep c r r.buf s3 with
          | error e => rw [hsw] at hp; cases hp
          | ok s4 =>
            rw [hsw] at hp
            simp only at hp
            have o4 := sweep_ordered r _ _ _ o3 hsw
            cases hx2 : expand c s4.lim c.close with
            | error e => rw [hx2] at hp; cases hp
            | ok lim' =>
              rw [hx2] at hp
              simp only at hp
              split at hp
              · injection hp with hp; subst hp; exact o4
              · cases hp
      · cases hp

end Chunk
