import RsMatterVerif.Generated.Consts
import RsMatterVerif.Model.Codec.Base38
/-!
# Model of the QR onboarding payload: `pairing/qr.rs` `QrPayload::emit_chars` / `as_str` and `QrPayload::parse`

The encoder's iterator of bits (`emit_all_bits`, LSB first) is represented by a pair
(value, number of bits): bit `i` of the stream is bit `i` of `value`. `PackedBitsIterator` cuts
it into chunks of up to 24 bits, each encoded by `base38::encode_bits`.
The decoder base-38-decodes the body into bytes and reads the fields with `BitReader::read`
(modelled bit by bit, as the Rust loop).
-/
namespace Codec.QrPayload
open Codec

/-- `QR_PREFIX = "MT:"` -/
def PREFIX : List Nat := [77, 84, 58]

def VERSION_BITS : Nat := Consts.c17QrVersionBits
def VID_BITS : Nat := Consts.c17QrVidBits
def PID_BITS : Nat := Consts.c17QrPidBits
def FLOW_BITS : Nat := Consts.c17QrFlowBits
def RENDEZVOUS_BITS : Nat := Consts.c17QrRendezvousBits
def DISC_BITS : Nat := Consts.c17QrDiscBits
def PASS_BITS : Nat := Consts.c17QrPassBits
def PADDING_BITS : Nat := Consts.c17QrPaddingBits
def TOTAL_BITS : Nat :=
  VERSION_BITS + VID_BITS + PID_BITS + FLOW_BITS + RENDEZVOUS_BITS + DISC_BITS + PASS_BITS + PADDING_BITS
/-- `TOTAL_PAYLOAD_DATA_SIZE_IN_BYTES` -/
def TOTAL_BYTES : Nat := TOTAL_BITS / 8

structure Qr where
  version : Nat
  vid : Nat
  pid : Nat
  flow : Nat          -- CommFlowType discriminant
  rendezvous : Nat    -- DiscoveryCapabilities::bits()
  disc : Nat
  pass : Nat
  /-- the optional-TLV bytes exactly as emitted / as returned by `optional_data()` -/
  tlv : List Nat
deriving DecidableEq, Repr

/-- a stream of bits, LSB first: (value, length) -/
abbrev Bits := Nat × Nat

/-- `emit_bits(input, len)` appended to a stream: `(0..len).map(|i| (input >> i) & 1)` -/
def emit (s : Bits) (input len : Nat) : Bits := (s.1 + 2 ^ s.2 * (input % 2 ^ len), s.2 + len)

/-- `emit_all_bits` -/
def allBits (q : Qr) : Bits :=
  let s : Bits := (0, 0)
  let s := emit s q.version VERSION_BITS
  let s := emit s q.vid VID_BITS
  let s := emit s q.pid PID_BITS
  let s := emit s q.flow FLOW_BITS
  let s := emit s q.rendezvous RENDEZVOUS_BITS
  let s := emit s q.disc DISC_BITS
  let s := emit s q.pass PASS_BITS
  let s := emit s 0 PADDING_BITS
  q.tlv.foldl (fun s b => emit s b 8) s

/-- `PackedBitsIterator` + `encode_bits`: chunks of up to 24 bits; `assert!(packed_bits % 8 == 0)` -/
def packEncode : Nat → Bits → Except Err (List Nat)
  | 0, _ => .error .panic   -- fuel exhausted (never: fuel = number of bits + 1)
  | fuel + 1, (v, n) =>
    if n = 0 then .ok []
    else
      let k := min 24 n
      if k % 8 ≠ 0 then .error .panic
      else do
        let h ← Base38.encodeBits (v % 2 ^ k) k
        let t ← packEncode fuel (v / 2 ^ k, n - k)
        pure (h ++ t)

/-- `emit_chars` collected (`as_str` with a large enough buffer) -/
def encode (q : Qr) : Except Err (List Nat) := do
  let s := allBits q
  let body ← packEncode (s.2 + 1) s
  pure (PREFIX ++ body)

/-- the optional-TLV bytes the encoder produces from a serial number and extra (pre-encoded) TLV data:
nothing if both are empty, else an anonymous structure { [0: utf8 serial,] extra… } -/
def tlvTail (serial extra : List Nat) : List Nat :=
  if serial.isEmpty && extra.isEmpty then []
  else
    [0x15]
    ++ (if serial.isEmpty then []
        else if serial.length ≤ 255 then [0x2C, 0x00, serial.length] ++ serial
        else [0x2D, 0x00] ++ le16 serial.length ++ serial)
    ++ extra ++ [0x18]

/-- one iteration of the `BitReader::read` loop: `value |= ((data[bit_pos / 8] >> (bit_pos % 8)) & 1) << i`
with `bit_pos = pos + i`; `data[..]` is a checked index -/
def readStep (data : List Nat) (pos : Nat) (value i : Nat) : Except Err Nat :=
  match data[(pos + i) / 8]? with
  | none => .error .panic
  | some byte => .ok (value + 2 ^ i * (byte / 2 ^ ((pos + i) % 8) % 2))

/-- `BitReader::read(len)` at absolute bit position `pos`: checked length, then the loop -/
def readBits (data : List Nat) (pos len : Nat) : Except Err Nat :=
  if pos + len > data.length * 8 then .error .invalidData
  else (List.range len).foldlM (readStep data pos) 0

/-- `strip_prefix("MT:")` -/
def stripPrefix (s : List Nat) : Option (List Nat) :=
  match s with
  | 77 :: 84 :: 58 :: r => some r
  | _ => none

/-- `QrPayload::parse(qr, buf)` with `buf.len() = cap` -/
def parse (qr : List Nat) (cap : Nat) : Except Err Qr := do
  let body ← match stripPrefix qr with
    | some b => pure b
    | none => .error .invalidData
  let (bytes, err) := Base38.decode body
  -- the loop writes the bytes decoded before the first error into `buf`, then meets the error
  if bytes.length > cap then .error .bufferTooSmall else
  match err with
  | some e => .error e
  | none =>
    if bytes.length < TOTAL_BYTES then .error .invalidData else do
    let version ← readBits bytes 0 VERSION_BITS
    if version ≠ 0 then .error .invalidData else do  -- not a v1 payload (fix C17-qr-version-accepted)
    let vid ← readBits bytes 3 VID_BITS
    let pid ← readBits bytes 19 PID_BITS
    let flow ← readBits bytes 35 FLOW_BITS
    if flow > 2 then .error .invalidData else do    -- CommFlowType::from_bits
    let rdv ← readBits bytes 37 RENDEZVOUS_BITS
    let disc ← readBits bytes 45 DISC_BITS
    let pass ← readBits bytes 57 PASS_BITS
    let _ ← readBits bytes 84 PADDING_BITS
    pure { version := version, vid := vid, pid := pid, flow := flow
           rendezvous := rdv % 8               -- DiscoveryCapabilities::from_bits_truncate (3 defined bits)
           disc := disc, pass := pass, tlv := bytes.drop TOTAL_BYTES }

def WF (q : Qr) : Prop :=
  q.version < 8 ∧ q.vid < 65536 ∧ q.pid < 65536 ∧ q.flow < 3 ∧ q.rendezvous < 8 ∧ q.disc < 4096 ∧
  q.pass < 134217728 ∧ ∀ b ∈ q.tlv, b < 256

end Codec.QrPayload
