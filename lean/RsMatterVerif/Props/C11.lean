/-! # C11 — property theorems (not built yet) -/
