import RsMatterVerif.Model.RxPath
import RsMatterVerif.Lemmas.TableInv
/-!
# Invariants of the receive-path transition system (`Model/RxPath.lean`), proved over all histories

`Inv` holds in every reachable state (`inv_reach`):
* the table is well-shaped (`TInv`): internal ids unique, receive keys (local session id, peer) unique,
  capacities respected, allocators in range, (exchange id, role) unique on every session;
* `pend`: every accept-pending exchange is the owner of the message that waits in the RX slot, and
  carries that message's arrival stamp (`recvAt = some arrivedAt`) — in particular there is no
  accept-pending exchange while the slot is empty;
* the arrival stamp of the waiting message is not in the future.
-/
namespace RxPath
open Transport

/-! ## (exchange id, role) unique on a session
(the statements of `Props/C15.lean` section 4, re-proved here so that C10 does not depend on C15's file) -/

def ExchUniq (s : Sess) : Prop :=
  ∀ i j e f, s.slot i = some e → s.slot j = some f → e.id = f.id →
    e.role.isResponder = f.role.isResponder → i = j

theorem exchUniq_of_keys (s y : Sess) (hu : ExchUniq s)
    (hk : ∀ k e', y.slot k = some e' → ∃ e, s.slot k = some e ∧ e.id = e'.id ∧ e.role.isResponder = e'.role.isResponder) :
    ExchUniq y := by
  intro i j e f hi hj hid hrole
  obtain ⟨e0, he0, h1, h2⟩ := hk i e hi
  obtain ⟨f0, hf0, h3, h4⟩ := hk j f hj
  exact hu i j e0 f0 he0 hf0 (by rw [h1, h3, hid]) (by rw [h2, h4, hrole])

theorem exchUniq_of_slots (s y : Sess) (hu : ExchUniq s) (h : ∀ k, y.slot k = s.slot k) : ExchUniq y :=
  exchUniq_of_keys s y hu (fun k e' hk => ⟨e', by rw [← h k]; exact hk, rfl, rfl⟩)

/-- the header's owner slot is unique ⇒ `get_exch_for_rx` finds exactly it -/
theorem getExchForRx_of_slot (s : Sess) (hu : ExchUniq s) (h : RxHdr) (i : Nat) (e : Exch)
    (hs : s.slot i = some e) (hf : e.isForRx h = true) : s.getExchForRx h = some i := by
  simp only [Exch.isForRx, Bool.and_eq_true, beq_iff_eq] at hf
  cases hg : s.getExchForRx h with
  | none => exact absurd ⟨hf.1, hf.2.symm⟩ (getExchForRx_none s h hg i e hs)
  | some j =>
    obtain ⟨f, hsj, hid, hrole, _⟩ := getExchForRx_some s h j hg
    rw [hu j i f e hsj hs (by rw [hid, hf.1]) (by rw [hrole, hf.2])]

theorem getExchForRx_slot (s : Sess) (h : RxHdr) (i : Nat) (hg : s.getExchForRx h = some i) :
    ∃ e, s.slot i = some e ∧ e.isForRx h = true := by
  obtain ⟨e, hs, hid, hrole, _⟩ := getExchForRx_some s h i hg
  exact ⟨e, hs, by simp [Exch.isForRx, hid, hrole]⟩

/-! ## what stays the same when a session is updated -/

/-- the identity of a session as the receive path sees it -/
structure Same (s y : Sess) : Prop where
  uid : y.uid = s.uid
  lsid : y.localSid = s.localSid
  port : y.port = s.port
  mode : y.mode = s.mode
  rsv : y.reserved = s.reserved

theorem Same.refl (s : Sess) : Same s s := ⟨rfl, rfl, rfl, rfl, rfl⟩
theorem Same.trans {a b c : Sess} (h1 : Same a b) (h2 : Same b c) : Same a c :=
  ⟨h2.uid.trans h1.uid, h2.lsid.trans h1.lsid, h2.port.trans h1.port, h2.mode.trans h1.mode, h2.rsv.trans h1.rsv⟩

theorem Same.isForRx {s y : Sess} (h : Same s y) (port sid : Nat) : y.isForRx port sid = s.isForRx port sid := by
  simp only [Sess.isForRx, h.lsid, h.port, h.mode, h.rsv]

theorem same_setMrp (s : Sess) (i : Nat) (m : Mrp) : Same s (s.setMrp i m) ∧ (s.setMrp i m).exchs.length = s.exchs.length := by
  unfold Sess.setMrp
  split
  · exact ⟨⟨rfl, rfl, rfl, rfl, rfl⟩, by simp⟩
  · exact ⟨Same.refl s, rfl⟩

theorem same_addExch (s y : Sess) (id : Nat) (role : RoleSt) (i : Nat) (h : s.addExch id role = some (y, i))
    (hl : s.exchs.length ≤ Consts.maxExchanges) : Same s y ∧ y.exchs.length ≤ Consts.maxExchanges := by
  unfold Sess.addExch at h
  simp only at h
  split at h
  · simp only [Option.some.injEq, Prod.mk.injEq] at h
    obtain ⟨h1, _⟩ := h
    subst h1
    exact ⟨⟨rfl, rfl, rfl, rfl, rfl⟩, by simp; omega⟩
  · split at h
    · simp only [Option.some.injEq, Prod.mk.injEq] at h
      obtain ⟨h1, _⟩ := h
      subst h1
      exact ⟨⟨rfl, rfl, rfl, rfl, rfl⟩, by simpa using hl⟩
    · simp at h

/-- `post_recv` keeps the identity of the session and the capacity of its exchange table -/
theorem postRecv_same (s : Sess) (h : RxHdr) (now : Nat) (hl : s.exchs.length ≤ Consts.maxExchanges) :
    Same s (s.postRecv h now).1 ∧ (s.postRecv h now).1.exchs.length ≤ Consts.maxExchanges := by
  unfold Sess.postRecv
  simp only
  split
  · exact ⟨⟨rfl, rfl, rfl, rfl, rfl⟩, hl⟩
  · generalize hs0 : ({ s with rx := (Dedup.postRecv s.rx h.ctr s.mode.enc false).1 } : Sess) = s0
    have h0 : Same s s0 := by subst hs0; exact ⟨rfl, rfl, rfl, rfl, rfl⟩
    have hl0 : s0.exchs.length ≤ Consts.maxExchanges := by subst hs0; exact hl
    split
    · split
      · rename_i e he
        generalize e.mrp.postRecv h.ctr h.ack h.reliable now = P
        obtain ⟨m, err⟩ := P
        have := same_setMrp s0 ‹Nat› m
        cases err <;> exact ⟨h0.trans this.1, by rw [this.2]; exact hl0⟩
      · exact ⟨h0, hl0⟩
    · split
      · exact ⟨h0, hl0⟩
      · split
        · exact ⟨h0, hl0⟩
        · split
          · rename_i s' i ha
            have hadd := same_addExch s0 s' h.exch .rp i ha hl0
            generalize ({} : Mrp).postRecv h.ctr h.ack h.reliable now = P
            obtain ⟨m, err⟩ := P
            have := same_setMrp s' i m
            cases err <;> exact ⟨(h0.trans hadd.1).trans this.1, by rw [this.2]; exact hadd.2⟩
          · exact ⟨h0, hl0⟩

theorem mrp_postRecv_stamp (m : Mrp) (c : Nat) (a : Option Nat) (rel : Bool) (now : Nat)
    (hok : (m.postRecv c a rel now).2 = none) : (m.postRecv c a rel now).1.recvAt = some now := by
  unfold Mrp.postRecv at hok ⊢
  cases a with
  | none => cases rel <;> simp
  | some av =>
    cases hm : m.retrans with
    | none => cases rel <;> simp
    | some r =>
      simp only [hm] at hok ⊢
      by_cases hne : r.ctr = av
      · cases rel <;> simp [hne]
      · simp [hne] at hok

/-- `post_recv` answering `Ok`: the exchange the message was delivered to / that was opened for it
carries the arrival stamp; an opened one is accept-pending; all other slots are untouched -/
theorem postRecv_ok (s : Sess) (h : RxHdr) (now : Nat) (b : Bool) (hr : (s.postRecv h now).2 = .ok b) :
    ∃ i e, (s.postRecv h now).1.slot i = some e ∧ e.isForRx h = true ∧ e.mrp.recvAt = some now ∧
      (∀ j, j ≠ i → (s.postRecv h now).1.slot j = s.slot j) ∧
      (b = false → ∃ e0, s.slot i = some e0 ∧ e.id = e0.id ∧ e.role = e0.role) ∧
      (b = true → s.slot i = none ∧ e.role = .rp ∧ h.newOk = true ∧ s.getExchForRx h = none) := by
  unfold Sess.postRecv at hr ⊢
  simp only at hr ⊢
  split at hr
  · simp at hr
  · rename_i hdd
    rw [if_neg hdd]
    generalize hs0 : ({ s with rx := (Dedup.postRecv s.rx h.ctr s.mode.enc false).1 } : Sess) = s0 at hr ⊢
    have hsl : ∀ j, s0.slot j = s.slot j := by subst hs0; intro j; rfl
    have hget : s0.getExchForRx h = s.getExchForRx h := by subst hs0; rfl
    split at hr
    · rename_i i hgi
      obtain ⟨e0, he0, hfor⟩ := getExchForRx_slot s0 h i hgi
      simp only [he0] at hr ⊢
      have hst := mrp_postRecv_stamp e0.mrp h.ctr h.ack h.reliable now
      generalize e0.mrp.postRecv h.ctr h.ack h.reliable now = P at hr hst ⊢
      obtain ⟨m, err⟩ := P
      cases err with
      | some er => simp at hr
      | none =>
        simp only [Except.ok.injEq] at hr
        subst hr
        simp only
        refine ⟨i, { e0 with mrp := m }, ?_, ?_, hst rfl, ?_, ?_, fun hb => by simp at hb⟩
        · rw [setMrp_slot]; simp [he0]
        · simpa [Exch.isForRx] using hfor
        · intro j hj
          rw [setMrp_slot]
          have : ¬ i = j := fun h => hj h.symm
          simp [this, hsl]
        · intro _; exact ⟨e0, by rw [← hsl]; exact he0, rfl, rfl⟩
    · rename_i hgn
      split at hr
      · simp at hr
      · rename_i hgate
        simp only [hgate]
        split at hr
        · simp at hr
        · rename_i hexp
          simp only [hexp]
          split at hr
          · rename_i s' i ha
            have hadd := addExch_slot s0 s' h.exch .rp i ha
            have hfresh := mrp_postRecv_fresh_ok h.ctr h.ack h.reliable now
            have hst := mrp_postRecv_stamp ({} : Mrp) h.ctr h.ack h.reliable now
            generalize ({} : Mrp).postRecv h.ctr h.ack h.reliable now = P at hr hfresh hst ⊢
            obtain ⟨m, err⟩ := P
            simp only at hfresh
            subst hfresh
            simp only [Except.ok.injEq] at hr
            subst hr
            have hg : h.initiator = true ∧ h.newOk = true := by
              simp only [Bool.or_eq_true, Bool.not_eq_true', not_or, Bool.not_eq_false] at hgate
              exact hgate
            simp only [Bool.false_eq_true, ↓reduceIte]
            refine ⟨i, { id := h.exch, role := .rp, mrp := m }, ?_, ?_, hst rfl, ?_, fun hb => by simp at hb, ?_⟩
            · rw [setMrp_slot]; simp [hadd.2.2 i]
            · simp [Exch.isForRx, RoleSt.isResponder, hg.1]
            · intro j hj
              rw [setMrp_slot]
              have : ¬ i = j := fun h => hj h.symm
              simp only [this, ↓reduceIte]
              rw [hadd.2.2 j]
              simp [hj, hsl]
            · intro _
              exact ⟨by rw [← hsl]; exact hadd.1, rfl, hg.2, by rw [← hget]; exact hgn⟩
          · simp at hr

/-! ## the invariants -/

/-- well-shaped session table -/
structure TInv (t : Table) : Prop where
  uidN : UidNodup t
  /-- the id allocator stays inside its 28 bits -/
  uidR : t.nextUid ≤ 0x0fffffff
  /-- the receive key (local session id, peer) identifies the session -/
  keyI : ∀ a ∈ t.sessions, ∀ b ∈ t.sessions, a.localSid = b.localSid → a.port = b.port → a.uid = b.uid
  /-- no reserved session (see the header of `Model/RxPath.lean`); secure ⇔ local session id ≠ 0 -/
  shape : ∀ s ∈ t.sessions, s.reserved = false ∧ s.mode.enc = (s.localSid != 0)
  nSess : t.sessions.length ≤ Consts.maxSessions
  nExch : ∀ s ∈ t.sessions, s.exchs.length ≤ Consts.maxExchanges
  sidR : 1 ≤ t.nextSid ∧ t.nextSid ≤ 65535
  xidR : 1 ≤ t.nextExch ∧ t.nextExch ≤ 65535
  uniq : ∀ s ∈ t.sessions, ExchUniq s

/-- every accept-pending exchange owns the message waiting in the RX slot and carries its stamp -/
def Pend (t : Table) (rx : Option Held) : Prop :=
  ∀ s ∈ t.sessions, ∀ i e, s.slot i = some e → e.role = .rp →
    ∃ r, rx = some r ∧ s.isForRx r.m.port r.m.sid = true ∧ e.isForRx r.m.hdr = true ∧
      e.mrp.recvAt = some r.arrivedAt

def NoPending (t : Table) : Prop := ∀ s ∈ t.sessions, ∀ i e, s.slot i = some e → e.role ≠ .rp

theorem pend_none_iff (t : Table) : Pend t none ↔ NoPending t := by
  constructor
  · intro h s hs i e he hr
    obtain ⟨r, h1, _⟩ := h s hs i e he hr
    cases h1
  · intro h s hs i e he hr
    exact absurd hr (h s hs i e he)

theorem NoPending.pend {t : Table} (h : NoPending t) (rx : Option Held) : Pend t rx :=
  fun s hs i e he hr => absurd hr (h s hs i e he)

structure Inv (n : Node) : Prop where
  tinv : TInv n.t
  pend : Pend n.t n.rx
  time : ∀ r, n.rx = some r → r.arrivedAt ≤ n.now

/-! ### generic preservation lemmas -/

theorem setSess_nextSid (t : Table) (x : Sess) : (t.setSess x).nextSid = t.nextSid := by
  unfold Table.setSess; cases t.find x.uid <;> rfl
theorem setSess_nextExch (t : Table) (x : Sess) : (t.setSess x).nextExch = t.nextExch := by
  unfold Table.setSess; cases t.find x.uid <;> rfl

theorem setSess_length (t : Table) (x : Sess) : (t.setSess x).sessions.length = t.sessions.length := by
  have := congrArg List.length (setSess_map_uid t x)
  simpa using this

theorem remove_nextSid (t : Table) (uid : Nat) : (t.remove uid).1.nextSid = t.nextSid := by
  unfold Table.remove; cases t.find uid <;> rfl
theorem remove_nextExch (t : Table) (uid : Nat) : (t.remove uid).1.nextExch = t.nextExch := by
  unfold Table.remove; cases t.find uid <;> rfl

theorem remove_length_le (t : Table) (uid : Nat) : (t.remove uid).1.sessions.length ≤ t.sessions.length := by
  rw [remove_sessions]
  cases hf : t.find uid with
  | none => exact Nat.le_refl _
  | some i =>
    obtain ⟨s, hs, _⟩ := find_some_index t uid i hf
    have hi : i < t.sessions.length := (List.getElem?_eq_some_iff.1 hs).1
    simp only
    rw [(swapRemove_perm _ _ hi).length_eq, List.length_eraseIdx]
    split <;> omega

/-- writing back an updated session keeps the table well-shaped -/
theorem tinv_setSess {t : Table} (ht : TInv t) {s y : Sess} (hs : s ∈ t.sessions) (hsame : Same s y)
    (hl : y.exchs.length ≤ Consts.maxExchanges) (hu : ExchUniq y) : TInv (t.setSess y) := by
  have hmem := mem_setSess t ht.uidN y ⟨s, hs, hsame.uid.symm⟩
  have hsh := ht.shape s hs
  refine ⟨setSess_uidNodup t y ht.uidN, ?_, ?_, ?_, ?_, ?_, ?_, ?_, ?_⟩
  · rw [setSess_nextUid]; exact ht.uidR
  · intro a ha b hb h1 h2
    rcases (hmem a).1 ha with ea | ⟨ma, _⟩ <;> rcases (hmem b).1 hb with eb | ⟨mb, _⟩
    · rw [ea, eb]
    · rw [ea] at h1 h2 ⊢
      rw [hsame.uid]
      exact ht.keyI s hs b mb (by rw [← hsame.lsid]; exact h1) (by rw [← hsame.port]; exact h2)
    · rw [eb] at h1 h2 ⊢
      rw [hsame.uid]
      exact ht.keyI a ma s hs (by rw [← hsame.lsid]; exact h1) (by rw [← hsame.port]; exact h2)
    · exact ht.keyI a ma b mb h1 h2
  · intro z hz
    rcases (hmem z).1 hz with h | ⟨h, _⟩
    · rw [h, hsame.rsv, hsame.mode, hsame.lsid]; exact hsh
    · exact ht.shape z h
  · rw [setSess_length]; exact ht.nSess
  · intro z hz
    rcases (hmem z).1 hz with h | ⟨h, _⟩
    · rw [h]; exact hl
    · exact ht.nExch z h
  · rw [setSess_nextSid]; exact ht.sidR
  · rw [setSess_nextExch]; exact ht.xidR
  · intro z hz
    rcases (hmem z).1 hz with h | ⟨h, _⟩
    · rw [h]; exact hu
    · exact ht.uniq z h

theorem mem_setSess_self {t : Table} (hn : UidNodup t) {s y : Sess} (hs : s ∈ t.sessions) (hu : y.uid = s.uid) :
    y ∈ (t.setSess y).sessions :=
  (mem_setSess t hn y ⟨s, hs, hu.symm⟩ y).2 (Or.inl rfl)

/-- … and keeps `Pend` if the update creates no accept-pending exchange -/
theorem pend_setSess {t : Table} (hn : UidNodup t) {rx : Option Held} (hp : Pend t rx) {s y : Sess}
    (hs : s ∈ t.sessions) (hsame : Same s y)
    (hrp : ∀ i e, y.slot i = some e → e.role = .rp → s.slot i = some e) : Pend (t.setSess y) rx := by
  intro z hz i e he hr
  rcases (mem_setSess t hn y ⟨s, hs, hsame.uid.symm⟩ z).1 hz with h | ⟨h, _⟩
  · subst h
    obtain ⟨r, h1, h2, h3⟩ := hp s hs i e (hrp i e he hr) hr
    exact ⟨r, h1, by rw [hsame.isForRx]; exact h2, h3⟩
  · exact hp z h i e he hr

theorem tinv_remove {t : Table} (ht : TInv t) (uid : Nat) : TInv (t.remove uid).1 := by
  have hmem := mem_remove t ht.uidN uid
  refine ⟨remove_uidNodup t uid ht.uidN, ?_, ?_, ?_, ?_, ?_, ?_, ?_, ?_⟩
  · rw [remove_nextUid]; exact ht.uidR
  · intro a ha b hb; exact ht.keyI a ((hmem a).1 ha).1 b ((hmem b).1 hb).1
  · intro z hz; exact ht.shape z ((hmem z).1 hz).1
  · exact Nat.le_trans (remove_length_le t uid) ht.nSess
  · intro z hz; exact ht.nExch z ((hmem z).1 hz).1
  · rw [remove_nextSid]; exact ht.sidR
  · rw [remove_nextExch]; exact ht.xidR
  · intro z hz; exact ht.uniq z ((hmem z).1 hz).1

theorem pend_remove {t : Table} (hn : UidNodup t) {rx : Option Held} (hp : Pend t rx) (uid : Nat) :
    Pend (t.remove uid).1 rx :=
  fun z hz => hp z ((mem_remove t hn uid z).1 hz).1

/-- only the allocator positions changed -/
theorem tinv_congr {t t' : Table} (ht : TInv t) (hs : t'.sessions = t.sessions) (hu : t'.nextUid ≤ 0x0fffffff)
    (h1 : 1 ≤ t'.nextSid ∧ t'.nextSid ≤ 65535) (h2 : 1 ≤ t'.nextExch ∧ t'.nextExch ≤ 65535) : TInv t' := by
  refine ⟨?_, ?_, ?_, ?_, ?_, ?_, h1, h2, ?_⟩
  · unfold UidNodup; rw [hs]; exact ht.uidN
  · exact hu
  · rw [hs]; exact ht.keyI
  · rw [hs]; exact ht.shape
  · rw [hs]; exact ht.nSess
  · rw [hs]; exact ht.nExch
  · rw [hs]; exact ht.uniq

theorem nextExchId_sessions (t : Table) : t.nextExchId.1.sessions = t.sessions := rfl
theorem nextExchId_nextUid (t : Table) : t.nextExchId.1.nextUid = t.nextUid := rfl
theorem nextExchId_nextSid (t : Table) : t.nextExchId.1.nextSid = t.nextSid := rfl

theorem tinv_nextExchId {t : Table} (ht : TInv t) : TInv t.nextExchId.1 :=
  tinv_congr ht rfl ht.uidR ht.sidR (by unfold Table.nextExchId; exact allocLoop_next_range _ _ _)

theorem tinv_nextSessId {t : Table} (ht : TInv t) : TInv t.nextSessId.1 :=
  tinv_congr ht rfl ht.uidR (by unfold Table.nextSessId; exact allocLoop_next_range _ _ _) ht.xidR

/-! ### `get` / `get_for_rx` -/

/-- `last_use` refreshed -/
def touch (s : Sess) (now : Nat) : Sess := { s with lastUse := now }

theorem touch_same (s : Sess) (now : Nat) : Same s (touch s now) := ⟨rfl, rfl, rfl, rfl, rfl⟩
theorem touch_slot (s : Sess) (now : Nat) (j : Nat) : (touch s now).slot j = s.slot j := rfl
theorem touch_getExch (s : Sess) (now : Nat) (h : RxHdr) : (touch s now).getExchForRx h = s.getExchForRx h := rfl
theorem touch_uniq {s : Sess} (now : Nat) (h : ExchUniq s) : ExchUniq (touch s now) :=
  exchUniq_of_slots s _ h (fun _ => rfl)

theorem get_mem {t : Table} (hn : UidNodup t) {s : Sess} (hs : s ∈ t.sessions) (now : Nat) :
    t.get s.uid now = (t.setSess (touch s now), some (touch s now)) := by
  have : t.sess s.uid = some s := (sess_eq_some_iff t hn s.uid s).2 ⟨hs, rfl⟩
  unfold Table.get
  rw [this]
  rfl

theorem get_absent {t : Table} {uid : Nat} (h : t.sess uid = none) (now : Nat) : t.get uid now = (t, none) := by
  unfold Table.get; rw [h]

/-- the effect of a successful `get`, packaged -/
theorem get_inv {t : Table} (ht : TInv t) {rx : Option Held} (hp : Pend t rx) {s : Sess} (hs : s ∈ t.sessions)
    (now : Nat) :
    TInv (t.setSess (touch s now)) ∧ Pend (t.setSess (touch s now)) rx ∧
    touch s now ∈ (t.setSess (touch s now)).sessions :=
  ⟨tinv_setSess ht hs (touch_same s now) (ht.nExch s hs) (touch_uniq now (ht.uniq s hs)),
   pend_setSess ht.uidN hp hs (touch_same s now) (fun _ _ he _ => he),
   mem_setSess_self ht.uidN hs rfl⟩

/-- under unique receive keys the first match of `get_for_rx` is the only one -/
theorem find_isForRx {t : Table} (ht : TInv t) {s : Sess} (hs : s ∈ t.sessions) {port sid : Nat}
    (hf : s.isForRx port sid = true) : t.sessions.find? (fun z => z.isForRx port sid) = some s := by
  cases hfd : t.sessions.find? (fun z => z.isForRx port sid) with
  | none =>
    have := List.find?_eq_none.1 hfd s hs
    simp [hf] at this
  | some z =>
    have hz := List.mem_of_find?_eq_some hfd
    have hzf : z.isForRx port sid = true := by simpa using List.find?_some hfd
    simp only [Sess.isForRx, Bool.and_eq_true, beq_iff_eq] at hf hzf
    have hu := ht.keyI z hz s hs (by rw [hzf.1.1.1, hf.1.1.1]) (by rw [hzf.1.1.2, hf.1.1.2])
    rw [nodup_map_inj (fun (x : Sess) => x.uid) t.sessions ht.uidN z hz s hs hu]

theorem getForRx_mem {t : Table} (ht : TInv t) {s : Sess} (hs : s ∈ t.sessions) {port sid : Nat}
    (hf : s.isForRx port sid = true) (now : Nat) :
    t.getForRx port sid now = (t.setSess (touch s now), some (touch s now)) := by
  unfold Table.getForRx
  rw [find_isForRx ht hs hf]
  exact get_mem ht.uidN hs now

theorem getForRx_cases (t : Table) (ht : TInv t) (port sid now : Nat) :
    (∃ s ∈ t.sessions, s.isForRx port sid = true ∧
        t.getForRx port sid now = (t.setSess (touch s now), some (touch s now))) ∨
    ((∀ s ∈ t.sessions, s.isForRx port sid = false) ∧ t.getForRx port sid now = (t, none)) := by
  cases hfd : t.sessions.find? (fun z => z.isForRx port sid) with
  | none =>
    right
    refine ⟨fun s hs => by simpa using List.find?_eq_none.1 hfd s hs, ?_⟩
    unfold Table.getForRx; rw [hfd]
  | some z =>
    left
    have hz := List.mem_of_find?_eq_some hfd
    have hzf : z.isForRx port sid = true := by simpa using List.find?_some hfd
    exact ⟨z, hz, hzf, getForRx_mem ht hz hzf now⟩

/-- two claimants of the same message coincide -/
theorem claim_unique {t : Table} (ht : TInv t) {a b : Sess} (ha : a ∈ t.sessions) (hb : b ∈ t.sessions)
    {port sid : Nat} (hfa : a.isForRx port sid = true) (hfb : b.isForRx port sid = true)
    {h : RxHdr} {i j : Nat} {e f : Exch} (hi : a.slot i = some e) (hj : b.slot j = some f)
    (he : e.isForRx h = true) (hf : f.isForRx h = true) : a = b ∧ i = j := by
  simp only [Sess.isForRx, Bool.and_eq_true, beq_iff_eq] at hfa hfb
  have hu := ht.keyI a ha b hb (by rw [hfa.1.1.1, hfb.1.1.1]) (by rw [hfa.1.1.2, hfb.1.1.2])
  have hab := nodup_map_inj (fun (x : Sess) => x.uid) t.sessions ht.uidN a ha b hb hu
  subst hab
  simp only [Exch.isForRx, Bool.and_eq_true, beq_iff_eq] at he hf
  exact ⟨rfl, ht.uniq a ha i j e f hi hj (by rw [he.1, hf.1]) (by rw [← he.2, ← hf.2])⟩

/-! ## allocators -/

theorem sum_le_mul (l : List Nat) (k : Nat) (h : ∀ x ∈ l, x ≤ k) : l.sum ≤ l.length * k := by
  induction l with
  | nil => simp
  | cons a as ih =>
    simp only [List.sum_cons, List.length_cons]
    have h1 := h a (List.mem_cons_self ..)
    have h2 := ih (fun x hx => h x (List.mem_cons_of_mem _ hx))
    rw [Nat.succ_mul]; omega

theorem liveInit_length {t : Table} (ht : TInv t) : t.liveInitExchIds.length < 65535 := by
  unfold Table.liveInitExchIds
  rw [List.length_flatMap]
  have h1 : ((t.sessions.map (fun s => (liveInitIds s).length)).sum) ≤
      (t.sessions.map (fun s => (liveInitIds s).length)).length * Consts.maxExchanges := by
    apply sum_le_mul
    intro x hx
    obtain ⟨s, hs, rfl⟩ := List.mem_map.1 hx
    exact Nat.le_trans (by unfold liveInitIds; exact List.length_filterMap_le _ _) (ht.nExch s hs)
  rw [List.length_map] at h1
  have h2 := ht.nSess
  have h3 : t.sessions.length * Consts.maxExchanges ≤ Consts.maxSessions * Consts.maxExchanges :=
    Nat.mul_le_mul_right _ h2
  have h4 : Consts.maxSessions * Consts.maxExchanges < 65535 := by decide
  exact Nat.lt_of_le_of_lt (Nat.le_trans h1 h3) h4

theorem mem_liveInitIds (s : Sess) (j : Nat) (f : Exch) (hs : s.slot j = some f)
    (hr : f.role.isResponder = false) : f.id ∈ liveInitIds s := by
  unfold liveInitIds
  rw [List.mem_filterMap]
  refine ⟨some f, List.mem_of_getElem? ((slot_eq_some s j f).1 hs), ?_⟩
  simp [hr]

/-- `get_next_exch_id` avoids the ids of all live initiator-role exchanges of the table -/
theorem nextExchId_fresh {t : Table} (ht : TInv t) {s : Sess} (hs : s ∈ t.sessions) (j : Nat) (f : Exch)
    (hf : s.slot j = some f) (hr : f.role.isResponder = false) : f.id ≠ t.nextExchId.2 := by
  intro heq
  have hin : f.id ∈ t.liveInitExchIds := by
    unfold Table.liveInitExchIds
    exact List.mem_flatMap.2 ⟨s, hs, mem_liveInitIds s j f hf hr⟩
  have := allocLoop_fresh t.liveInitExchIds t.nextExch ht.xidR.1 ht.xidR.2 (liveInit_length ht)
  apply this
  have heq2 : f.id = (allocLoop t.liveInitExchIds 65536 t.nextExch).1 := heq
  rw [← heq2]; exact hin

theorem allocLoop_fst_range (live : List Nat) : ∀ (fuel cur : Nat), 1 ≤ cur → cur ≤ 65535 →
    1 ≤ (allocLoop live fuel cur).1 ∧ (allocLoop live fuel cur).1 ≤ 65535 := by
  intro fuel
  induction fuel with
  | zero => intro cur h1 h2; simpa [allocLoop] using ⟨h1, h2⟩
  | succ fuel ih =>
    intro cur h1 h2
    unfold allocLoop
    split
    · exact ⟨h1, h2⟩
    · exact ih (bump cur) (bump_range cur).1 (bump_range cur).2

/-- `get_next_sess_id` answers a non-zero id that no session of the table uses -/
theorem nextSessId_fresh {t : Table} (ht : TInv t) :
    1 ≤ t.nextSessId.2 ∧ ∀ s ∈ t.sessions, s.localSid ≠ t.nextSessId.2 := by
  unfold Table.nextSessId
  refine ⟨(allocLoop_fst_range _ _ _ ht.sidR.1 ht.sidR.2).1, ?_⟩
  intro s hs heq
  have hlen : t.liveSessIds.length < 65535 := by
    unfold Table.liveSessIds
    rw [List.length_map]
    have := ht.nSess
    have h4 : Consts.maxSessions < 65535 := by decide
    omega
  apply allocLoop_fresh t.liveSessIds t.nextSid ht.sidR.1 ht.sidR.2 hlen
  simp only at heq
  rw [← heq]
  unfold Table.liveSessIds
  exact List.mem_map_of_mem hs

/-! ## the steps keep the invariants -/

theorem inv_tick {n : Node} (h : Inv n) (d : Nat) : Inv { n with now := n.now + d } :=
  ⟨h.tinv, h.pend, fun r hr => Nat.le_trans (h.time r hr) (Nat.le_add_right _ _)⟩

theorem inv_removeSess {n : Node} (h : Inv n) (uid : Nat) : Inv { n with t := (n.t.remove uid).1 } :=
  ⟨tinv_remove h.tinv uid, pend_remove h.tinv.uidN h.pend uid, h.time⟩

/-- a table step that keeps the shape and creates no accept-pending exchange -/
def Quiet (t t' : Table) : Prop := ∀ rx, TInv t → Pend t rx → TInv t' ∧ Pend t' rx

theorem Quiet.refl (t : Table) : Quiet t t := fun _ h1 h2 => ⟨h1, h2⟩
theorem Quiet.trans {a b c : Table} (h1 : Quiet a b) (h2 : Quiet b c) : Quiet a c :=
  fun rx ha hp => h2 rx (h1 rx ha hp).1 (h1 rx ha hp).2

theorem quiet_inv {n : Node} (h : Inv n) {t' : Table} (hq : Quiet n.t t') : Inv { n with t := t' } :=
  ⟨(hq n.rx h.tinv h.pend).1, (hq n.rx h.tinv h.pend).2, h.time⟩

theorem quiet_remove (t : Table) (uid : Nat) : Quiet t (t.remove uid).1 :=
  fun _ ht hp => ⟨tinv_remove ht uid, pend_remove ht.uidN hp uid⟩

theorem quiet_nextExchId (t : Table) : Quiet t t.nextExchId.1 :=
  fun _ ht hp => ⟨tinv_nextExchId ht, hp⟩

/-- writing back an update of a member that creates no accept-pending exchange -/
theorem quiet_setSess {t : Table} {s y : Sess} (hs : s ∈ t.sessions) (hsame : Same s y)
    (hl : s.exchs.length ≤ Consts.maxExchanges → y.exchs.length ≤ Consts.maxExchanges)
    (hu : TInv t → ExchUniq y)
    (hrp : ∀ i e, y.slot i = some e → e.role = .rp → s.slot i = some e) : Quiet t (t.setSess y) :=
  fun _ ht hp => ⟨tinv_setSess ht hs hsame (hl (ht.nExch s hs)) (hu ht), pend_setSess ht.uidN hp hs hsame hrp⟩

theorem quiet_get (t : Table) (uid now : Nat) : Quiet t (t.get uid now).1 := by
  intro rx ht hp
  cases hs : t.sess uid with
  | none => rw [get_absent hs]; exact ⟨ht, hp⟩
  | some s =>
    obtain ⟨hm, hu⟩ := sess_some_mem t uid s hs
    subst hu
    rw [get_mem ht.uidN hm]
    exact ⟨(get_inv ht hp hm now).1, (get_inv ht hp hm now).2.1⟩

theorem quiet_getForRx (t : Table) (port sid now : Nat) : Quiet t (t.getForRx port sid now).1 := by
  unfold Table.getForRx
  split
  · exact quiet_get t _ now
  · exact Quiet.refl t

/-! ### `initiate` -/

theorem exchUniq_addInit (s y : Sess) (id i : Nat) (hu : ExchUniq s)
    (hfresh : ∀ j f, s.slot j = some f → f.role.isResponder = false → f.id ≠ id)
    (ha : s.addExch id .io = some (y, i)) : ExchUniq y := by
  obtain ⟨_, _, hsl⟩ := addExch_slot s y id .io i ha
  intro a b e f hsa hsb hid hrole
  rw [hsl a] at hsa
  rw [hsl b] at hsb
  by_cases h1 : a = i <;> by_cases h2 : b = i
  · rw [h1, h2]
  · exfalso
    simp only [h1, ↓reduceIte, Option.some.injEq] at hsa
    simp only [h2, ↓reduceIte] at hsb
    subst hsa
    exact hfresh b f hsb (by rw [← hrole]; rfl) hid.symm
  · exfalso
    simp only [h2, ↓reduceIte, Option.some.injEq] at hsb
    simp only [h1, ↓reduceIte] at hsa
    subst hsb
    exact hfresh a e hsa (by rw [hrole]; rfl) hid
  · simp only [h1, ↓reduceIte] at hsa
    simp only [h2, ↓reduceIte] at hsb
    exact hu a b e f hsa hsb hid hrole

theorem quiet_initiate (t : Table) (uid now : Nat) : Quiet t (t.initiate uid now).1 := by
  intro rx ht hp
  cases hs : t.sess uid with
  | none =>
    unfold Table.initiate
    rw [get_absent hs now]
    exact ⟨ht, hp⟩
  | some s =>
    obtain ⟨hm, hu⟩ := sess_some_mem t uid s hs
    subst hu
    obtain ⟨ht1, hp1, hm1⟩ := get_inv ht hp hm now
    unfold Table.initiate
    rw [get_mem ht.uidN hm]
    simp only
    split
    · exact ⟨ht1, hp1⟩
    · have hq : (t.setSess (touch s now)).nextExchId =
          ((t.setSess (touch s now)).nextExchId.1, (t.setSess (touch s now)).nextExchId.2) := rfl
      rw [hq]
      simp only
      cases ha : (touch s now).addExch (t.setSess (touch s now)).nextExchId.2 .io with
      | none => exact ⟨tinv_nextExchId ht1, hp1⟩
      | some p =>
        obtain ⟨y, i⟩ := p
        simp only
        have hadd := addExch_slot _ _ _ _ _ ha
        refine quiet_setSess (t := (t.setSess (touch s now)).nextExchId.1) hm1
          (same_addExch _ _ _ _ _ ha (ht1.nExch _ hm1)).1
          (fun hl => (same_addExch _ _ _ _ _ ha hl).2) ?_ ?_ rx (tinv_nextExchId ht1) hp1
        · intro _
          exact exchUniq_addInit _ _ _ _ (ht1.uniq _ hm1)
            (fun j f hf hr => nextExchId_fresh ht1 hm1 j f hf hr) ha
        · intro j e he hr
          rw [hadd.2.2 j] at he
          split at he
          · simp only [Option.some.injEq] at he
            subst he
            cases hr
          · exact he

/-! ### sending on an owned exchange -/

theorem preSend_shape (s : Sess) (i : Nat) (e : Exch) (hs : s.slot i = some e) (rel : Bool) (ha sai : Option Nat) :
    ∃ m, Same s (s.preSend (some i) rel ha sai).1 ∧
      (s.preSend (some i) rel ha sai).1.exchs.length = s.exchs.length ∧
      ∀ j, (s.preSend (some i) rel ha sai).1.slot j = if i = j then some { e with mrp := m } else s.slot j := by
  -- what holds of `s1.setMrp i m` (and of its `expired` variant) for a copy `s1` of `s` with another counter
  have tail : ∀ (s1 : Sess) (m : Mrp), Same s s1 → s1.exchs.length = s.exchs.length → (∀ j, s1.slot j = s.slot j) →
      (Same s (s1.setMrp i m) ∧ (s1.setMrp i m).exchs.length = s.exchs.length ∧
        ∀ j, (s1.setMrp i m).slot j = if i = j then some { e with mrp := m } else s.slot j) ∧
      (Same s { s1.setMrp i m with expired := true } ∧
        ({ s1.setMrp i m with expired := true } : Sess).exchs.length = s.exchs.length ∧
        ∀ j, ({ s1.setMrp i m with expired := true } : Sess).slot j = if i = j then some { e with mrp := m } else s.slot j) := by
    intro s1 m h1 h1l h1s
    have h2 := same_setMrp s1 i m
    have h3 : ∀ j, (s1.setMrp i m).slot j = if i = j then some { e with mrp := m } else s.slot j := by
      intro j
      rw [setMrp_slot]
      split
      · rw [h1s i, hs]; rfl
      · exact h1s j
    have hS := h1.trans h2.1
    exact ⟨⟨hS, by rw [h2.2, h1l], h3⟩, ⟨⟨hS.uid, hS.lsid, hS.port, hS.mode, hS.rsv⟩, by simp only; rw [h2.2, h1l], h3⟩⟩
  unfold Sess.preSend
  simp only [hs]
  cases hrt : e.mrp.retrans with
  | none =>
    simp only [Option.map_none]
    have T := tail { s with ctr := s.ctr + 1 } (e.mrp.preSend s.ctr rel ha sai).1 ⟨rfl, rfl, rfl, rfl, rfl⟩ rfl (fun _ => rfl)
    refine ⟨(e.mrp.preSend s.ctr rel ha sai).1, ?_⟩
    split
    · split <;> first | exact T.2 | exact T.1
    · exact T.1
    · exact T.1
  | some r =>
    simp only [Option.map_some]
    have T := tail s (e.mrp.preSend r.ctr rel ha sai).1 (Same.refl s) rfl (fun _ => rfl)
    refine ⟨(e.mrp.preSend r.ctr rel ha sai).1, ?_⟩
    split
    · split <;> first | exact T.2 | exact T.1
    · exact T.1
    · exact T.1

/-- an update that only rewrites the reliability state of slot `i` (which is not accept-pending) -/
theorem quiet_mrpUpdate {t : Table} {s y : Sess} (hs : s ∈ t.sessions) (hsame : Same s y)
    (hlen : y.exchs.length = s.exchs.length) {i : Nat} {e : Exch} {m : Mrp} (he : s.slot i = some e)
    (hne : e.role ≠ .rp)
    (hsl : ∀ j, y.slot j = if i = j then some { e with mrp := m } else s.slot j) : Quiet t (t.setSess y) := by
  refine quiet_setSess hs hsame (fun hl => by rw [hlen]; exact hl) ?_ ?_
  · intro ht
    apply exchUniq_of_keys s y (ht.uniq s hs)
    intro k e' hk
    rw [hsl k] at hk
    split at hk
    · rename_i hik
      subst hik
      simp only [Option.some.injEq] at hk
      subst hk
      exact ⟨e, he, rfl, rfl⟩
    · exact ⟨e', hk, rfl, rfl⟩
  · intro j e' he' hr
    rw [hsl j] at he'
    split at he'
    · simp only [Option.some.injEq] at he'
      subst he'
      exact absurd hr hne
    · exact he'

/-! ### `Exchange::drop` -/

theorem setDropped_isResponder (r : RoleSt) : r.setDropped.isResponder = r.isResponder := by
  cases r <;> rfl

theorem removeExch_shape (s : Sess) (i : Nat) (e : Exch) (hs : s.slot i = some e) :
    Same s (s.removeExch i).1 ∧ (s.removeExch i).1.exchs.length = s.exchs.length ∧
    ∀ j, (s.removeExch i).1.slot j =
      if i = j then (if e.mrp.isRetransPending || e.mrp.isAckPending then some { e with role := e.role.setDropped } else none)
      else s.slot j := by
  have hlt := slot_lt s i e hs
  unfold Sess.removeExch
  simp only [hs]
  split
  · refine ⟨⟨rfl, rfl, rfl, rfl, rfl⟩, by simp, fun j => ?_⟩
    rw [slot_set]
    split <;> simp
  · refine ⟨⟨rfl, rfl, rfl, rfl, rfl⟩, by simp, fun j => ?_⟩
    rw [slot_set]
    split <;> simp

/-- an update that frees slot `i` or moves it to a dropped state -/
theorem quiet_dropUpdate {t : Table} {s y : Sess} (hs : s ∈ t.sessions) (hsame : Same s y)
    (hlen : y.exchs.length = s.exchs.length) {i : Nat} {e : Exch} (he : s.slot i = some e)
    (hsl : ∀ j, j ≠ i → y.slot j = s.slot j)
    (hi : y.slot i = none ∨ ∃ e', y.slot i = some e' ∧ e'.id = e.id ∧ e'.role.isResponder = e.role.isResponder ∧
        e'.role ≠ .rp) : Quiet t (t.setSess y) := by
  refine quiet_setSess hs hsame (fun hl => by rw [hlen]; exact hl) ?_ ?_
  · intro ht
    apply exchUniq_of_keys s y (ht.uniq s hs)
    intro k e' hk
    by_cases hki : k = i
    · subst hki
      rcases hi with h | ⟨e2, h, h1, h2, _⟩
      · rw [h] at hk; cases hk
      · rw [h] at hk
        simp only [Option.some.injEq] at hk
        subst hk
        exact ⟨e, he, h1.symm, h2.symm⟩
    · exact ⟨e', by rw [← hsl k hki]; exact hk, rfl, rfl⟩
  · intro j e' he' hr
    by_cases hji : j = i
    · subst hji
      rcases hi with h | ⟨e2, h, _, _, h3⟩
      · rw [h] at he'; cases he'
      · rw [h] at he'
        simp only [Option.some.injEq] at he'
        subst he'
        exact absurd hr h3
    · rw [← hsl j hji]; exact he'

theorem quiet_dropExchange (t : Table) (uid i now : Nat) : Quiet t (t.dropExchange uid i now).1 := by
  intro rx ht hp
  cases hs : t.sess uid with
  | none =>
    unfold Table.dropExchange
    rw [get_absent hs now]
    exact ⟨ht, hp⟩
  | some s =>
    obtain ⟨hm, hu⟩ := sess_some_mem t uid s hs
    subst hu
    obtain ⟨ht1, hp1, hm1⟩ := get_inv ht hp hm now
    unfold Table.dropExchange
    rw [get_mem ht.uidN hm]
    simp only
    cases he : (touch s now).slot i with
    | none =>
      have : ((touch s now).removeExch i).1 = touch s now := by
        unfold Sess.removeExch; rw [he]
      rw [this]
      exact quiet_setSess hm1 (Same.refl _) (fun h => h) (fun ht' => ht'.uniq _ hm1) (fun _ _ h _ => h) rx ht1 hp1
    | some e =>
      obtain ⟨h1, h2, h3⟩ := removeExch_shape (touch s now) i e he
      refine quiet_dropUpdate hm1 h1 h2 he (fun j hj => ?_) ?_ rx ht1 hp1
      · rw [h3 j]; simp [Ne.symm hj]
      · rw [h3 i]
        simp only [↓reduceIte]
        split
        · right
          refine ⟨_, rfl, rfl, setDropped_isResponder e.role, ?_⟩
          cases e.role <;> simp [RoleSt.setDropped]
        · left; rfl

/-! ### `accept_if` -/

theorem quiet_accept (t : Table) (uid i now : Nat) : Quiet t (t.accept uid i now).1 := by
  intro rx ht hp
  cases hs : t.sess uid with
  | none =>
    unfold Table.accept
    rw [get_absent hs now]
    exact ⟨ht, hp⟩
  | some s =>
    obtain ⟨hm, hu⟩ := sess_some_mem t uid s hs
    subst hu
    obtain ⟨ht1, hp1, hm1⟩ := get_inv ht hp hm now
    unfold Table.accept
    rw [get_mem ht.uidN hm]
    simp only
    cases he : (touch s now).slot i with
    | none => exact ⟨ht1, hp1⟩
    | some e =>
      simp only
      split
      · have hlt := slot_lt _ i e he
        refine quiet_dropUpdate (y := { touch s now with exchs := (touch s now).exchs.set i (some { e with role := .ro }) })
          hm1 ⟨rfl, rfl, rfl, rfl, rfl⟩ (by simp) he (fun j hj => ?_) ?_ rx ht1 hp1
        · rw [slot_set]; simp [Ne.symm hj]
        · right
          rename_i hrole
          refine ⟨{ e with role := .ro }, by rw [slot_set]; simp [hlt], rfl, by rw [hrole]; rfl, by simp⟩
      · exact ⟨ht1, hp1⟩

/-! ### node steps: `send`, `dropEx`, `initiate`, `accept` -/

theorem owned_ne_rp {r : RoleSt} (h : (!RoleSt.isOwned r) = false) : r ≠ .rp := by
  cases r <;> simp [RoleSt.isOwned] at h ⊢

theorem quiet_send (n : Node) (uid idx : Nat) (rel : Bool) : Quiet n.t (send n uid idx rel).1.t := by
  intro rx ht hp
  unfold send
  cases hs : n.t.sess uid with
  | none => rw [get_absent hs]; exact ⟨ht, hp⟩
  | some s =>
    obtain ⟨hm, hu⟩ := sess_some_mem n.t uid s hs
    subst hu
    obtain ⟨ht1, hp1, hm1⟩ := get_inv ht hp hm n.now
    rw [get_mem ht.uidN hm]
    simp only
    cases he : (touch s n.now).slot idx with
    | none => exact ⟨ht, hp⟩
    | some e =>
      simp only
      split
      · exact ⟨ht, hp⟩
      · rename_i hown
        obtain ⟨m, h1, h2, h3⟩ := preSend_shape (touch s n.now) idx e he rel none none
        exact quiet_mrpUpdate hm1 h1 h2 he (owned_ne_rp (by simpa using hown)) h3 rx ht1 hp1

theorem send_rx (n : Node) (uid idx : Nat) (rel : Bool) : (send n uid idx rel).1.rx = n.rx ∧
    (send n uid idx rel).1.now = n.now := by
  unfold send
  simp only
  split
  · exact ⟨rfl, rfl⟩
  · split
    · exact ⟨rfl, rfl⟩
    · split <;> exact ⟨rfl, rfl⟩

theorem inv_send {n : Node} (h : Inv n) (uid idx : Nat) (rel : Bool) : Inv (send n uid idx rel).1 := by
  have hq := quiet_send n uid idx rel n.rx h.tinv h.pend
  have hr := send_rx n uid idx rel
  exact ⟨hq.1, by rw [hr.1]; exact hq.2, by rw [hr.1, hr.2]; exact h.time⟩

theorem inv_dropEx {n : Node} (h : Inv n) (uid idx : Nat) : Inv (dropEx n uid idx).1 := by
  unfold dropEx
  split
  · exact h
  · split
    · exact h
    · exact quiet_inv h (quiet_dropExchange n.t uid idx n.now)

theorem inv_initiate {n : Node} (h : Inv n) (uid : Nat) : Inv (initiate n uid).1 :=
  quiet_inv h (quiet_initiate n.t uid n.now)

theorem inv_accept {n : Node} (h : Inv n) : Inv (accept n).1 := by
  unfold accept
  split
  · exact h
  · rename_i r hr
    have hq := quiet_getForRx n.t r.m.port r.m.sid n.now
    dsimp only
    split
    · exact quiet_inv h hq
    · split
      · exact quiet_inv h hq
      · exact quiet_inv h (hq.trans (quiet_accept _ _ _ _))

/-! ### `recv` -/

theorem inv_recv {n : Node} (h : Inv n) (uid idx : Nat) : Inv (recv n uid idx).1 := by
  unfold recv
  cases hs : n.t.sess uid with
  | none => rw [get_absent hs]; exact h
  | some s =>
    obtain ⟨hm, hu⟩ := sess_some_mem n.t uid s hs
    subst hu
    obtain ⟨ht1, hp1, hm1⟩ := get_inv h.tinv h.pend hm n.now
    rw [get_mem h.tinv.uidN hm]
    simp only
    cases he : (touch s n.now).slot idx with
    | none => exact h
    | some e =>
      simp only
      split
      · exact h
      · rename_i hown
        split
        · exact ⟨ht1, hp1, h.time⟩
        · cases hrx : n.rx with
          | none =>
            rw [hrx] at hp1
            exact ⟨ht1, hp1, by intro r hr; simp at hr⟩
          | some r =>
            rw [hrx] at hp1
            have htime := h.time
            rw [hrx] at htime
            simp only
            split
            · rename_i hmatch
              refine ⟨ht1, ?_, fun r hr => by cases hr⟩
              simp only
              rw [pend_none_iff]
              intro z hz j f hf hrole
              obtain ⟨r', hr', h1, h2, _⟩ := hp1 z hz j f hf hrole
              cases hr'
              simp only [recvMatch, Bool.and_eq_true] at hmatch
              obtain ⟨hzs, hji⟩ := claim_unique ht1 hz hm1 h1 hmatch.1 hf he h2 hmatch.2
              subst hzs; subst hji
              rw [he] at hf
              cases hf
              exact owned_ne_rp (by simpa using hown) hrole
            · exact ⟨ht1, hp1, htime⟩

/-! ### the sweeps -/

theorem isDropped_ne_rp {r : RoleSt} (h : r = .rp) : r.isDropped = false := by subst h; rfl

theorem sweepAccept_spec {t : Table} (ht : TInv t) (r : Held) (hp : Pend t (some r)) (now : Nat) :
    TInv (t.sweepAccept r.m.port r.m.sid r.m.hdr now).1 ∧
    ((t.sweepAccept r.m.port r.m.sid r.m.hdr now).2 = false → Pend (t.sweepAccept r.m.port r.m.sid r.m.hdr now).1 (some r)) ∧
    ((t.sweepAccept r.m.port r.m.sid r.m.hdr now).2 = true → NoPending (t.sweepAccept r.m.port r.m.sid r.m.hdr now).1) := by
  unfold Table.sweepAccept
  rcases getForRx_cases t ht r.m.port r.m.sid now with ⟨s, hs, hf, hg⟩ | ⟨_, hg⟩
  · rw [hg]
    obtain ⟨ht1, hp1, hm1⟩ := get_inv ht hp hs now
    simp only
    cases hx : (touch s now).getExchForRx r.m.hdr with
    | none => exact ⟨ht1, (fun _ => hp1), (fun h => by cases h)⟩
    | some i =>
      simp only
      obtain ⟨e, he, hfor⟩ := getExchForRx_slot _ _ _ hx
      rw [he]
      simp only
      split
      · rename_i hc
        have hrp : e.role = .rp := by
          simp only [Bool.and_eq_true, decide_eq_true_eq] at hc; exact hc.1
        have hlt := slot_lt _ i e he
        have hq := quiet_dropUpdate
          (y := { touch s now with exchs := (touch s now).exchs.set i (some { e with role := .rd }) })
          hm1 ⟨rfl, rfl, rfl, rfl, rfl⟩ (by simp) he
          (fun j hj => by rw [slot_set]; simp [Ne.symm hj])
          (Or.inr ⟨{ e with role := .rd }, by rw [slot_set]; simp [hlt], rfl,
            by (rw [hrp]; rfl), by simp⟩)
          (some r) ht1 hp1
        refine ⟨hq.1, (fun h => by cases h), fun _ => ?_⟩
        intro z hz j f hf' hrole
        obtain ⟨r', hr', h1, h2, _⟩ := hq.2 z hz j f hf' hrole
        cases hr'
        have hy := mem_setSess_self (y := { touch s now with exchs := (touch s now).exchs.set i (some { e with role := .rd }) })
          ht1.uidN hm1 rfl
        have hyf : ({ touch s now with exchs := (touch s now).exchs.set i (some { e with role := .rd }) } : Sess).isForRx
            r.m.port r.m.sid = true := hf
        have hys : ({ touch s now with exchs := (touch s now).exchs.set i (some { e with role := .rd }) } : Sess).slot i
            = some { e with role := .rd } := by rw [slot_set]; simp [hlt]
        have hye : ({ e with role := .rd } : Exch).isForRx r.m.hdr = true := by
          simp only [Exch.isForRx] at hfor ⊢
          rw [hrp] at hfor
          exact hfor
        obtain ⟨hzs, hji⟩ := claim_unique hq.1 hz hy h1 hyf hf' hys h2 hye
        subst hzs; subst hji
        rw [hys] at hf'
        cases hf'
        cases hrole
      · exact ⟨ht1, (fun _ => hp1), (fun h => by cases h)⟩
  · rw [hg]
    exact ⟨ht, (fun _ => hp), (fun h => by cases h)⟩

theorem sweepOrphan_spec {t : Table} (ht : TInv t) (r : Held) (hp : Pend t (some r)) (now : Nat) :
    TInv (t.sweepOrphan r.m.port r.m.sid r.m.hdr now).1 ∧
    Pend (t.sweepOrphan r.m.port r.m.sid r.m.hdr now).1 (some r) ∧
    ((t.sweepOrphan r.m.port r.m.sid r.m.hdr now).2 = true → NoPending (t.sweepOrphan r.m.port r.m.sid r.m.hdr now).1) := by
  unfold Table.sweepOrphan
  rcases getForRx_cases t ht r.m.port r.m.sid now with ⟨s, hs, hf, hg⟩ | ⟨hnone, hg⟩
  · rw [hg]
    obtain ⟨ht1, hp1, hm1⟩ := get_inv ht hp hs now
    simp only
    have key : ∀ z ∈ (t.setSess (touch s now)).sessions, ∀ j f, z.slot j = some f → f.role = .rp →
        z = touch s now ∧ (touch s now).getExchForRx r.m.hdr = some j := by
      intro z hz j f hf' hrole
      obtain ⟨r', hr', h1, h2, _⟩ := hp1 z hz j f hf' hrole
      cases hr'
      have hzs : z = touch s now := by
        simp only [Sess.isForRx, Bool.and_eq_true, beq_iff_eq] at h1 hf
        have hu := ht1.keyI z hz _ hm1 (by rw [h1.1.1.1]; exact hf.1.1.1.symm) (by rw [h1.1.1.2]; exact hf.1.1.2.symm)
        exact nodup_map_inj (fun (x : Sess) => x.uid) _ ht1.uidN z hz _ hm1 hu
      subst hzs
      exact ⟨rfl, getExchForRx_of_slot _ (ht1.uniq _ hm1) _ j f hf' h2⟩
    cases hx : (touch s now).getExchForRx r.m.hdr with
    | none =>
      refine ⟨ht1, hp1, fun _ => ?_⟩
      intro z hz j f hf' hrole
      have := (key z hz j f hf' hrole).2
      rw [hx] at this; cases this
    | some i =>
      simp only
      cases he : (touch s now).slot i with
      | none =>
        refine ⟨ht1, hp1, fun _ => ?_⟩
        intro z hz j f hf' hrole
        obtain ⟨hzs, hj⟩ := key z hz j f hf' hrole
        subst hzs
        rw [hx] at hj; cases hj
        rw [he] at hf'; cases hf'
      | some e =>
        simp only
        refine ⟨ht1, hp1, fun hd => ?_⟩
        intro z hz j f hf' hrole
        obtain ⟨hzs, hj⟩ := key z hz j f hf' hrole
        subst hzs
        rw [hx] at hj; cases hj
        rw [he] at hf'; cases hf'
        rw [isDropped_ne_rp hrole] at hd
        cases hd
  · rw [hg]
    refine ⟨ht, hp, fun _ => ?_⟩
    intro z hz j f hf' hrole
    obtain ⟨r', hr', h1, _⟩ := hp z hz j f hf' hrole
    cases hr'
    rw [hnone z hz] at h1
    cases h1

theorem inv_sweepAccept {n : Node} (h : Inv n) : Inv (sweepAccept n).1 := by
  unfold sweepAccept
  cases hrx : n.rx with
  | none => exact h
  | some r =>
    have hp : Pend n.t (some r) := by rw [← hrx]; exact h.pend
    have htime := h.time
    rw [hrx] at htime
    simp only
    obtain ⟨h1, h2, h3⟩ := sweepAccept_spec h.tinv r hp n.now
    cases hw : (n.t.sweepAccept r.m.port r.m.sid r.m.hdr n.now).2 with
    | true => exact ⟨h1, (h3 hw).pend _, fun r hr => by cases hr⟩
    | false => exact ⟨h1, h2 hw, htime⟩

theorem inv_sweepOrphan {n : Node} (h : Inv n) : Inv (sweepOrphan n).1 := by
  unfold sweepOrphan
  cases hrx : n.rx with
  | none => exact h
  | some r =>
    have hp : Pend n.t (some r) := by rw [← hrx]; exact h.pend
    have htime := h.time
    rw [hrx] at htime
    simp only
    obtain ⟨h1, h2, h3⟩ := sweepOrphan_spec h.tinv r hp n.now
    cases hw : (n.t.sweepOrphan r.m.port r.m.sid r.m.hdr n.now).2 with
    | true => exact ⟨h1, (h3 hw).pend _, fun r hr => by cases hr⟩
    | false => exact ⟨h1, h2, htime⟩

/-! ### the dropped-exchange closer -/

theorem quiet_sweepDropped (t : Table) (now : Nat) : Quiet t (t.sweepDropped now).1 := by
  intro rx ht hp
  unfold Table.sweepDropped
  cases h1 : findDropped true t.sessions with
  | some p =>
    obtain ⟨uid, i0⟩ := p
    simp only
    have e1 : t.get uid now = ((t.get uid now).1, (t.get uid now).2) := rfl
    rw [e1]
    simp only
    have e2 : (t.get uid now).1.nextExchId = ((t.get uid now).1.nextExchId.1, (t.get uid now).1.nextExchId.2) := rfl
    rw [e2]
    simp only
    have q12 := (quiet_get t uid now).trans (quiet_nextExchId _)
    split
    · have e3 : (t.get uid now).1.nextExchId.1.remove uid =
        (((t.get uid now).1.nextExchId.1.remove uid).1, ((t.get uid now).1.nextExchId.1.remove uid).2) := rfl
      rw [e3]
      exact (q12.trans (quiet_remove _ uid)) rx ht hp
    · exact q12 rx ht hp
  | none =>
    simp only
    cases h2 : findDropped false t.sessions with
    | none => exact ⟨ht, hp⟩
    | some p =>
      obtain ⟨uid, i⟩ := p
      simp only
      cases hs : t.sess uid with
      | none => rw [get_absent hs]; exact ⟨ht, hp⟩
      | some s =>
        obtain ⟨hm, hu⟩ := sess_some_mem t uid s hs
        subst hu
        obtain ⟨ht1, hp1, hm1⟩ := get_inv ht hp hm now
        rw [get_mem ht.uidN hm]
        simp only
        cases he : (touch s now).slot i with
        | none => exact ⟨ht1, hp1⟩
        | some e =>
          simp only
          have hlt := slot_lt _ i e he
          split
          · obtain ⟨m, k1, k2, k3⟩ := preSend_shape (touch s now) i e he false none none
            have hq := quiet_dropUpdate
              (y := { ((touch s now).preSend (some i) false none none).1 with
                exchs := ((touch s now).preSend (some i) false none none).1.exchs.set i none })
              hm1 ⟨k1.uid, k1.lsid, k1.port, k1.mode, k1.rsv⟩ (by simp only [List.length_set]; exact k2) he
              (fun j hj => by rw [slot_set]; simp only [Ne.symm hj, ↓reduceIte]; rw [k3 j]; simp [Ne.symm hj])
              (Or.inl (by rw [slot_set]; simp [k2, hlt])) rx ht1 hp1
            split <;> exact hq
          · exact quiet_dropUpdate
              (y := { touch s now with exchs := (touch s now).exchs.set i none })
              hm1 ⟨rfl, rfl, rfl, rfl, rfl⟩ (by simp) he
              (fun j hj => by rw [slot_set]; simp [Ne.symm hj])
              (Or.inl (by rw [slot_set]; simp [hlt])) rx ht1 hp1

theorem inv_closer {n : Node} (h : Inv n) : Inv (closer n).1 :=
  quiet_inv h (quiet_sweepDropped n.t n.now)

/-! ### a new session enters the table -/

/-- the session `Sessions::add` creates -/
def freshSess (uid ctr now port : Nat) (r : Bool) : Sess :=
  { uid := uid, ctr := ctr % (Consts.msgCtrRange + 1), reserved := r, lastUse := now, port := port }

def incIter : Nat → Nat → Nat
  | 0, c => c
  | i + 1, c => incIter i (incUid c)

theorem incUid_range (c : Nat) : incUid c ≤ 0x0fffffff := by
  unfold incUid; split <;> omega

theorem incUid_closed (c : Nat) (h : c ≤ 0x0fffffff) : incUid c = (c + 1) % 0x10000000 := by
  unfold incUid; split <;> omega

theorem incIter_closed (i : Nat) : ∀ c, c ≤ 0x0fffffff → incIter i c = (c + i) % 0x10000000 := by
  induction i with
  | zero => intro c h; simp only [incIter]; omega
  | succ i ih =>
    intro c h
    simp only [incIter]
    rw [ih (incUid c) (incUid_range c), incUid_closed c h]
    omega

theorem incIter_inj (c : Nat) (h : c ≤ 0x0fffffff) (i j : Nat) (hi : i < 0x10000000) (hj : j < 0x10000000)
    (he : incIter i c = incIter j c) : i = j := by
  rw [incIter_closed i c h, incIter_closed j c h] at he
  omega

theorem skipLive_live_imp (live : List Nat) : ∀ (fuel c : Nat), skipLive live fuel c ∈ live →
    ∀ i, i ≤ fuel → incIter i c ∈ live := by
  intro fuel
  induction fuel with
  | zero =>
    intro c h i hi
    have : i = 0 := by omega
    subst this
    simpa [skipLive, incIter] using h
  | succ fuel ih =>
    intro c h i hi
    unfold skipLive at h
    split at h
    · rename_i hall
      have : (c != c) = true := (List.all_eq_true.1 hall) c h
      simp at this
    · rename_i hall
      cases i with
      | zero =>
        simp only [incIter]
        apply Classical.byContradiction
        intro hn
        apply hall
        rw [List.all_eq_true]
        intro x hx
        simp only [bne_iff_ne, ne_eq]
        intro hxc
        exact hn (hxc ▸ hx)
      | succ i =>
        simp only [incIter]
        exact ih (incUid c) h i (by omega)

theorem skipLive_fresh (live : List Nat) (c : Nat) (h : c ≤ 0x0fffffff) (fuel : Nat) (hlen : live.length ≤ fuel)
    (hf : fuel < 0x0fffffff) : skipLive live fuel c ∉ live := by
  intro hin
  have hall := skipLive_live_imp live fuel c hin
  have := pigeon (fun i => incIter i c) (fuel + 1) live
    (fun i j hi hj he => incIter_inj c h i j (by omega) (by omega) he)
    (fun i hi => hall i (by omega))
  omega

theorem skipLive_range (live : List Nat) : ∀ (fuel c : Nat), c ≤ 0x0fffffff → skipLive live fuel c ≤ 0x0fffffff := by
  intro fuel
  induction fuel with
  | zero => intro c h; simpa [skipLive] using h
  | succ fuel ih =>
    intro c h
    unfold skipLive
    split
    · exact h
    · exact ih _ (incUid_range c)

/-! ### the repaired `Sessions::add` (`addSess`) -/

/-- the id `addSess` hands out -/
def newUid (t : Table) : Nat := skipLive (t.sessions.map (·.uid)) t.sessions.length t.nextUid

theorem newUid_fresh {t : Table} (hr : t.nextUid ≤ 0x0fffffff) (hcap : t.sessions.length ≤ Consts.maxSessions) :
    ∀ s ∈ t.sessions, s.uid ≠ newUid t := by
  intro s hs heq
  have h16 : Consts.maxSessions < 0x0fffffff := by decide
  apply skipLive_fresh (t.sessions.map (·.uid)) t.nextUid hr t.sessions.length (by simp) (by omega)
  show newUid t ∈ _
  rw [← heq]
  exact List.mem_map_of_mem hs

theorem addSess_eq (t : Table) (ctr : Nat) (r : Bool) (now port : Nat) :
    addSess t ctr r now port = Table.add { t with nextUid := newUid t } ctr r now port := rfl

theorem addSess_ok_sessions (t : Table) (ctr : Nat) (r : Bool) (now port uid : Nat)
    (h : (addSess t ctr r now port).2 = .ok uid) :
    uid = newUid t ∧ t.sessions.length < Consts.maxSessions ∧
    (addSess t ctr r now port).1.sessions = t.sessions ++ [freshSess uid ctr now port r] := by
  rw [addSess_eq] at h ⊢
  exact add_ok_sessions { t with nextUid := newUid t } ctr r now port uid h

theorem addSess_err_sessions (t : Table) (ctr : Nat) (r : Bool) (now port : Nat) (e : Err)
    (h : (addSess t ctr r now port).2 = .error e) : (addSess t ctr r now port).1.sessions = t.sessions := by
  rw [addSess_eq] at h ⊢
  exact add_err_sessions { t with nextUid := newUid t } ctr r now port e h

/-- membership after `addSess` succeeded -/
theorem mem_add_ok {t : Table} {ctr : Nat} {r : Bool} {now port uid : Nat}
    (h : (addSess t ctr r now port).2 = .ok uid) (z : Sess) :
    z ∈ (addSess t ctr r now port).1.sessions ↔ z ∈ t.sessions ∨ z = freshSess uid ctr now port r := by
  rw [(addSess_ok_sessions t ctr r now port uid h).2.2]
  simp

theorem add_counters (t : Table) (ctr : Nat) (r : Bool) (now port : Nat) :
    (addSess t ctr r now port).1.nextSid = t.nextSid ∧ (addSess t ctr r now port).1.nextExch = t.nextExch := by
  rw [addSess_eq]
  unfold Table.add
  by_cases hc : t.sessions.length ≥ Consts.maxSessions <;> simp [hc]

theorem addSess_nextUid_range (t : Table) (ctr : Nat) (r : Bool) (now port : Nat) :
    (addSess t ctr r now port).1.nextUid ≤ 0x0fffffff := by
  rw [addSess_eq]
  unfold Table.add
  by_cases hc : t.sessions.length ≥ Consts.maxSessions <;> simp [hc] <;> split <;> omega

/-- `addSess` keeps the internal ids unique — also after the 28-bit counter has wrapped -/
theorem addSess_uidNodup {t : Table} (hn : UidNodup t) (hr : t.nextUid ≤ 0x0fffffff)
    (hcap : t.sessions.length ≤ Consts.maxSessions) (ctr : Nat) (r : Bool) (now port : Nat) :
    UidNodup (addSess t ctr r now port).1 := by
  cases hres : (addSess t ctr r now port).2 with
  | error e =>
    unfold UidNodup; rw [addSess_err_sessions t ctr r now port e hres]; exact hn
  | ok uid =>
    obtain ⟨hu, _, hs⟩ := addSess_ok_sessions t ctr r now port uid hres
    unfold UidNodup
    rw [hs, List.map_append, List.nodup_append]
    refine ⟨hn, by simp, ?_⟩
    intro a ha b hb
    simp only [List.map_cons, List.map_nil, List.mem_singleton] at hb
    obtain ⟨s, hsm, rfl⟩ := List.mem_map.1 ha
    rw [hb]
    show s.uid ≠ uid
    rw [hu]
    exact newUid_fresh hr hcap s hsm

/-- a table that consists of the sessions of `t` and one new session `y` with a fresh uid and a fresh
receive key is well-shaped -/
theorem tinv_insert {t t' : Table} (ht : TInv t) (y : Sess)
    (hmem : ∀ z, z ∈ t'.sessions ↔ z ∈ t.sessions ∨ z = y)
    (hn : UidNodup t') (hb : t'.nextUid ≤ 0x0fffffff) (hlen : t'.sessions.length ≤ Consts.maxSessions)
    (h1 : 1 ≤ t'.nextSid ∧ t'.nextSid ≤ 65535) (h2 : 1 ≤ t'.nextExch ∧ t'.nextExch ≤ 65535)
    (hyk : ∀ s ∈ t.sessions, s.localSid = y.localSid → s.port ≠ y.port)
    (hys : y.reserved = false ∧ y.mode.enc = (y.localSid != 0)) (hye : y.exchs = []) : TInv t' := by
  have hyslot : ∀ i, y.slot i = none := by intro i; simp [Sess.slot, hye]
  refine ⟨hn, hb, ?_, ?_, hlen, ?_, h1, h2, ?_⟩
  · intro a ha b hb' k1 k2
    rcases (hmem a).1 ha with ma | ea <;> rcases (hmem b).1 hb' with mb | eb
    · exact ht.keyI a ma b mb k1 k2
    · rw [eb] at k1 k2; exact absurd k2 (hyk a ma k1)
    · rw [ea] at k1 k2; exact absurd k2.symm (hyk b mb k1.symm)
    · rw [ea, eb]
  · intro z hz
    rcases (hmem z).1 hz with mz | ez
    · exact ht.shape z mz
    · rw [ez]; exact hys
  · intro z hz
    rcases (hmem z).1 hz with mz | ez
    · exact ht.nExch z mz
    · rw [ez, hye]; simp
  · intro z hz
    rcases (hmem z).1 hz with mz | ez
    · exact ht.uniq z mz
    · rw [ez]; intro i j e f hi; rw [hyslot i] at hi; cases hi

theorem pend_insert {t t' : Table} {rx : Option Held} (hp : Pend t rx) (y : Sess)
    (hmem : ∀ z, z ∈ t'.sessions ↔ z ∈ t.sessions ∨ z = y) (hye : y.exchs = []) : Pend t' rx := by
  intro z hz i e he hr
  rcases (hmem z).1 hz with mz | ez
  · exact hp z mz i e he hr
  · rw [ez] at he; simp [Sess.slot, hye] at he

/-- `addSess` refused: only the id allocator moved -/
theorem tinv_add_err {t : Table} (ht : TInv t) {ctr : Nat} {r : Bool} {now port : Nat} {e : Err}
    (h : (addSess t ctr r now port).2 = .error e) : TInv (addSess t ctr r now port).1 :=
  tinv_congr ht (addSess_err_sessions t ctr r now port e h) (addSess_nextUid_range t ctr r now port)
    (by rw [(add_counters t ctr r now port).1]; exact ht.sidR) (by rw [(add_counters t ctr r now port).2]; exact ht.xidR)

/-- the secure session `establish` puts into the table -/
def secSess (uid ctr now port sid : Nat) (mode : Mode) : Sess :=
  { freshSess uid ctr now port false with localSid := sid, mode := mode }

theorem quiet_establish (n : Node) (port : Nat) (mode : Mode) (ctr : Nat) :
    Quiet n.t (establish n port mode ctr).1.t := by
  intro rx ht hp
  unfold establish
  split
  · exact ⟨ht, hp⟩
  · rename_i henc
    simp only
    have hta := tinv_nextSessId ht
    have hfresh := nextSessId_fresh ht
    have hnb := addSess_uidNodup hta.uidN hta.uidR hta.nSess ctr false n.now port
    have hbb := addSess_nextUid_range n.t.nextSessId.1 ctr false n.now port
    split
    · rename_i uid hok
      obtain ⟨hu, hlt, hss⟩ := addSess_ok_sessions _ _ _ _ _ _ hok
      have hfu := newUid_fresh hta.uidR hta.nSess
      have hmemb := mem_add_ok hok
      have hm0 := (hmemb (freshSess uid ctr n.now port false)).2 (Or.inr rfl)
      have hs0 : (addSess n.t.nextSessId.1 ctr false n.now port).1.sess uid = some (freshSess uid ctr n.now port false) :=
        (sess_eq_some_iff _ hnb uid _).2 ⟨hm0, rfl⟩
      rw [hs0]
      simp only
      have hmem := mem_setSess _ hnb (secSess uid ctr n.now port n.t.nextSessId.2 mode) ⟨_, hm0, rfl⟩
      have hmem2 : ∀ z, z ∈ ((addSess n.t.nextSessId.1 ctr false n.now port).1.setSess
          (secSess uid ctr n.now port n.t.nextSessId.2 mode)).sessions ↔
          z ∈ n.t.nextSessId.1.sessions ∨ z = secSess uid ctr n.now port n.t.nextSessId.2 mode := by
        intro z
        rw [hmem z]
        constructor
        · rintro (hz | ⟨hz, hne⟩)
          · exact Or.inr hz
          · rcases (hmemb z).1 hz with mz | ez
            · exact Or.inl mz
            · rw [ez] at hne; exact absurd rfl hne
        · rintro (hz | hz)
          · right
            refine ⟨(hmemb z).2 (Or.inl hz), ?_⟩
            show z.uid ≠ uid
            rw [hu]; exact hfu z hz
          · exact Or.inl hz
      show TInv ((addSess n.t.nextSessId.1 ctr false n.now port).1.setSess (secSess uid ctr n.now port n.t.nextSessId.2 mode)) ∧
        Pend ((addSess n.t.nextSessId.1 ctr false n.now port).1.setSess (secSess uid ctr n.now port n.t.nextSessId.2 mode)) rx
      refine ⟨?_, ?_⟩
      · refine tinv_insert hta _ hmem2 (setSess_uidNodup _ _ hnb) ?_ ?_ ?_ ?_ ?_ ?_ rfl
        · rw [setSess_nextUid]; exact hbb
        · rw [setSess_length, hss]; simp; omega
        · rw [setSess_nextSid, (add_counters _ _ _ _ _).1]; exact hta.sidR
        · rw [setSess_nextExch, (add_counters _ _ _ _ _).2]; exact hta.xidR
        · intro z hz hk
          exact absurd hk (hfresh.2 z hz)
        · refine ⟨rfl, ?_⟩
          have h1 := hfresh.1
          have : (n.t.nextSessId.2 != 0) = true := by simp; omega
          show mode.enc = (n.t.nextSessId.2 != 0)
          rw [this]
          simpa using henc
      · exact pend_insert hp _ hmem2 rfl
    · rename_i er herr
      exact ⟨tinv_add_err hta herr, by
        intro z hz; rw [addSess_err_sessions _ _ _ _ _ _ herr] at hz; exact hp z hz⟩

theorem establish_rx (n : Node) (port : Nat) (mode : Mode) (ctr : Nat) :
    (establish n port mode ctr).1.rx = n.rx ∧ (establish n port mode ctr).1.now = n.now := by
  unfold establish
  split
  · exact ⟨rfl, rfl⟩
  · simp only
    split
    · split <;> exact ⟨rfl, rfl⟩
    · exact ⟨rfl, rfl⟩

theorem inv_establish {n : Node} (h : Inv n) (port : Nat) (mode : Mode) (ctr : Nat) :
    Inv (establish n port mode ctr).1 := by
  have hq := quiet_establish n port mode ctr n.rx h.tinv h.pend
  have hr := establish_rx n port mode ctr
  exact ⟨hq.1, by rw [hr.1]; exact hq.2, by rw [hr.1, hr.2]; exact h.time⟩

/-! ### a datagram arrives -/

theorem exchUniq_postRecv (s : Sess) (h : RxHdr) (now : Nat) (hu : ExchUniq s) : ExchUniq (s.postRecv h now).1 := by
  cases hr : (s.postRecv h now).2 with
  | error er =>
    have := (postRecv_effect s h now).2.2 er hr
    exact exchUniq_of_slots s _ hu this
  | ok b =>
    obtain ⟨i, e, hsl, hfor, _, hrest, hold, hnew⟩ := postRecv_ok s h now b hr
    cases b with
    | false =>
      obtain ⟨e0, he0, hid, hrole⟩ := hold rfl
      apply exchUniq_of_keys s _ hu
      intro k e' hk
      by_cases hki : k = i
      · subst hki
        rw [hsl] at hk
        simp only [Option.some.injEq] at hk
        subst hk
        exact ⟨e0, he0, hid.symm, by rw [hrole]⟩
      · exact ⟨e', by rw [← hrest k hki]; exact hk, rfl, rfl⟩
    | true =>
      obtain ⟨hfree, _, _, hgn⟩ := hnew rfl
      have hnone := getExchForRx_none s h hgn
      simp only [Exch.isForRx, Bool.and_eq_true, beq_iff_eq] at hfor
      intro a b x y hxa hyb hid hrole
      by_cases h1 : a = i <;> by_cases h2 : b = i
      · rw [h1, h2]
      · exfalso
        subst h1
        rw [hsl] at hxa
        simp only [Option.some.injEq] at hxa
        subst hxa
        rw [hrest b h2] at hyb
        exact hnone b y hyb ⟨by rw [← hid]; exact hfor.1, by rw [← hrole]; exact hfor.2.symm⟩
      · exfalso
        subst h2
        rw [hsl] at hyb
        simp only [Option.some.injEq] at hyb
        subst hyb
        rw [hrest a h1] at hxa
        exact hnone a x hxa ⟨by rw [hid]; exact hfor.1, by rw [hrole]; exact hfor.2.symm⟩
      · rw [hrest a h1] at hxa
        rw [hrest b h2] at hyb
        exact hu a b x y hxa hyb hid hrole

theorem noPending_setSess {t : Table} (hn : UidNodup t) (hnp : NoPending t) {s y : Sess} (hs : s ∈ t.sessions)
    (hu : y.uid = s.uid) (hy : ∀ i e, y.slot i = some e → e.role ≠ .rp) : NoPending (t.setSess y) := by
  intro z hz i e he
  rcases (mem_setSess t hn y ⟨s, hs, hu.symm⟩ z).1 hz with h | ⟨h, _⟩
  · subst h; exact hy i e he
  · exact hnp z h i e he

theorem noPending_remove {t : Table} (hn : UidNodup t) (hnp : NoPending t) (uid : Nat) : NoPending (t.remove uid).1 :=
  fun z hz => hnp z ((mem_remove t hn uid z).1 hz).1

theorem inv_finishArrive {n : Node} (hrx : n.rx = none) {t : Table} (ht : TInv t) (hnp : NoPending t)
    {s : Sess} (hs : s ∈ t.sessions) (m : Msg) (hf : s.isForRx m.port m.sid = true) :
    Inv (finishArrive n t s m).1 := by
  unfold finishArrive
  simp only
  have hsame := postRecv_same s m.hdr n.now (ht.nExch s hs)
  have hu := exchUniq_postRecv s m.hdr n.now (ht.uniq s hs)
  have ht1 : TInv (t.setSess (s.postRecv m.hdr n.now).1) := tinv_setSess ht hs hsame.1 hsame.2 hu
  have hy := mem_setSess_self (y := (s.postRecv m.hdr n.now).1) ht.uidN hs hsame.1.uid
  have hmem := mem_setSess t ht.uidN (s.postRecv m.hdr n.now).1 ⟨s, hs, hsame.1.uid.symm⟩
  have hnone : ∀ r, (none : Option Held) = some r → r.arrivedAt ≤ n.now := fun r hr => by cases hr
  -- the table after an outcome that opened nothing has no accept-pending exchange
  have quietNP : (∀ i e, (s.postRecv m.hdr n.now).1.slot i = some e → e.role ≠ .rp) →
      NoPending (t.setSess (s.postRecv m.hdr n.now).1) :=
    fun h => noPending_setSess ht.uidN hnp hs hsame.1.uid h
  have errNP : ∀ er, (s.postRecv m.hdr n.now).2 = .error er →
      NoPending (t.setSess (s.postRecv m.hdr n.now).1) := by
    intro er hr
    apply quietNP
    intro i e he
    rw [(postRecv_effect s m.hdr n.now).2.2 er hr i] at he
    exact hnp s hs i e he
  split
  · rename_i new hr
    obtain ⟨i, e, hsl, hfor, hstamp, hrest, hold, hnew⟩ := postRecv_ok s m.hdr n.now new hr
    have oldNP : new = false → NoPending (t.setSess (s.postRecv m.hdr n.now).1) := by
      intro hb
      apply quietNP
      intro j f hj
      by_cases hji : j = i
      · subst hji
        rw [hsl] at hj
        simp only [Option.some.injEq] at hj
        subst hj
        obtain ⟨e0, he0, _, hrole⟩ := hold hb
        rw [hrole]; exact hnp s hs j e0 he0
      · rw [hrest j hji] at hj; exact hnp s hs j f hj
    have newOk : new = true → m.kind.newOk = true := fun hb => (hnew hb).2.2.1
    split
    · rename_i hk
      have hb : new = false := by
        cases new with
        | false => rfl
        | true => have := newOk rfl; rw [hk] at this; cases this
      exact ⟨ht1, by rw [hrx]; exact (oldNP hb).pend _, by rw [hrx]; exact hnone⟩
    · split
      · rename_i hk
        have hb : new = false := by
          cases new with
          | false => rfl
          | true => have := newOk rfl; rw [hk] at this; cases this
        exact ⟨tinv_remove ht1 _, by rw [hrx]; exact (noPending_remove ht1.uidN (oldNP hb) _).pend _,
          by rw [hrx]; exact hnone⟩
      · have hget := getExchForRx_of_slot _ hu m.hdr i e hsl hfor
        rw [hget]
        simp only
        refine ⟨ht1, ?_, fun r hr => by cases hr; exact Nat.le_refl _⟩
        intro z hz j f hj hrole
        refine ⟨{ m := m, arrivedAt := n.now }, rfl, ?_⟩
        rcases (hmem z).1 hz with hzy | ⟨hzt, _⟩
        · subst hzy
          by_cases hji : j = i
          · subst hji
            rw [hsl] at hj
            simp only [Option.some.injEq] at hj
            subst hj
            exact ⟨by rw [hsame.1.isForRx]; exact hf, hfor, hstamp⟩
          · rw [hrest j hji] at hj; exact absurd hrole (hnp s hs j f hj)
        · exact absurd hrole (hnp z hzt j f hj)
  · rename_i hr
    have := errNP _ hr
    exact ⟨tinv_remove (tinv_nextExchId ht1) _, by
      rw [hrx]; exact (noPending_remove (tinv_nextExchId ht1).uidN this _).pend _, by rw [hrx]; exact hnone⟩
  · rename_i hr
    split
    · exact ⟨ht1, by rw [hrx]; exact (errNP _ hr).pend _, by rw [hrx]; exact hnone⟩
    · -- the standalone ack for the duplicate consumes a message counter of the session
      have hslots : ∀ j, ((s.postRecv m.hdr n.now).1.preSend none false (some m.ctr) none).1.slot j = s.slot j := by
        intro j
        show (s.postRecv m.hdr n.now).1.slot j = s.slot j
        exact (postRecv_effect s m.hdr n.now).2.2 _ hr j
      have hsame2 : Same s ((s.postRecv m.hdr n.now).1.preSend none false (some m.ctr) none).1 :=
        ⟨hsame.1.uid, hsame.1.lsid, hsame.1.port, hsame.1.mode, hsame.1.rsv⟩
      refine ⟨tinv_setSess ht hs hsame2 hsame.2 (exchUniq_of_slots s _ (ht.uniq s hs) hslots), ?_, by rw [hrx]; exact hnone⟩
      rw [hrx]
      refine (noPending_setSess ht.uidN hnp hs hsame2.uid ?_).pend _
      intro i e he
      rw [hslots i] at he
      exact hnp s hs i e he
  · rename_i er _ _ hr
    exact ⟨ht1, by rw [hrx]; exact (errNP _ hr).pend _, by rw [hrx]; exact hnone⟩

theorem quiet_evictSome (t : Table) (now : Nat) : Quiet t (evictSome t now).1 := by
  unfold evictSome
  split
  · exact (quiet_nextExchId t).trans (quiet_remove _ _)
  · exact Quiet.refl t

theorem inv_arrive {n : Node} (h : Inv n) (m : Msg) (rnd : Nat) :
    Inv (arrive n m rnd).1 := by
  unfold arrive
  cases hrx : n.rx with
  | some r => exact h
  | none =>
    simp only
    have hp0 : Pend n.t none := by rw [← hrx]; exact h.pend
    have htime : ∀ r, (none : Option Held) = some r → r.arrivedAt ≤ n.now := fun r hr => by cases hr
    rcases getForRx_cases n.t h.tinv m.port m.sid n.now with ⟨s, hs, hf, hg⟩ | ⟨hnone, hg⟩
    · rw [hg]
      obtain ⟨ht1, hp1, hm1⟩ := get_inv h.tinv hp0 hs n.now
      simp only
      exact inv_finishArrive hrx ht1 ((pend_none_iff _).1 hp1) hm1 m (by rw [(touch_same s n.now).isForRx]; exact hf)
    · rw [hg]
      simp only
      split
      · rename_i hcond
        split
        · rename_i uid hok
          have hnb := addSess_uidNodup h.tinv.uidN h.tinv.uidR h.tinv.nSess rnd false n.now m.port
          have hbb := addSess_nextUid_range n.t rnd false n.now m.port
          obtain ⟨hu, hlt, hss⟩ := addSess_ok_sessions _ _ _ _ _ _ hok
          have hmemb := mem_add_ok hok
          have hm0 := (hmemb (freshSess uid rnd n.now m.port false)).2 (Or.inr rfl)
          have hs0 : (addSess n.t rnd false n.now m.port).1.sess uid = some (freshSess uid rnd n.now m.port false) :=
            (sess_eq_some_iff _ hnb uid _).2 ⟨hm0, rfl⟩
          rw [hs0]
          simp only
          have htb : TInv (addSess n.t rnd false n.now m.port).1 := by
            refine tinv_insert h.tinv (freshSess uid rnd n.now m.port false) hmemb hnb hbb ?_ ?_ ?_ ?_ ⟨rfl, rfl⟩ rfl
            · rw [hss]; simp; omega
            · rw [(add_counters _ _ _ _ _).1]; exact h.tinv.sidR
            · rw [(add_counters _ _ _ _ _).2]; exact h.tinv.xidR
            · intro z hz hk hport
              have hsh := h.tinv.shape z hz
              have : z.isForRx m.port m.sid = true := by
                have hk0 : z.localSid = 0 := hk
                have hp0' : z.port = m.port := hport
                simp [Sess.isForRx, hk0, hp0', hcond.1, hsh.1, hsh.2]
              rw [hnone z hz] at this
              cases this
          have hnpb : NoPending (addSess n.t rnd false n.now m.port).1 :=
            (pend_none_iff _).1 (pend_insert hp0 _ hmemb rfl)
          refine inv_finishArrive hrx htb hnpb hm0 m ?_
          simp [Sess.isForRx, freshSess, hcond.1, Mode.enc]
        · rename_i er herr
          have htb := tinv_add_err h.tinv herr
          have hpb : Pend (addSess n.t rnd false n.now m.port).1 n.rx := by
            intro z hz; rw [addSess_err_sessions _ _ _ _ _ _ herr] at hz; exact h.pend z hz
          have hq := quiet_evictSome (addSess n.t rnd false n.now m.port).1 n.now n.rx htb hpb
          exact ⟨hq.1, by rw [← hrx]; exact hq.2, by rw [← hrx]; exact h.time⟩
      · exact ⟨h.tinv, hp0, htime⟩

/-! ## all histories -/

theorem inv_step {n : Node} (h : Inv n) (op : Op) : Inv (step n op).1 := by
  cases op with
  | arrive m rnd => exact inv_arrive h m rnd
  | accept => exact inv_accept h
  | recv uid idx => exact inv_recv h uid idx
  | send uid idx rel => exact inv_send h uid idx rel
  | dropEx uid idx => exact inv_dropEx h uid idx
  | initiate uid => exact inv_initiate h uid
  | establish port mode ctr => exact inv_establish h port mode ctr
  | removeSess uid => exact inv_removeSess h uid
  | tick d => exact inv_tick h d
  | sweepAccept => exact inv_sweepAccept h
  | sweepOrphan => exact inv_sweepOrphan h
  | closer => exact inv_closer h

/-- the states a node can be in: started with an empty table and an empty RX slot, then ANY history
of steps (no side condition: since the repair of finding `C10-session-id-wrap` the internal session
ids stay unique also after the 28-bit counter has wrapped) -/
inductive Reach : Node → Prop
  | init (now : Nat) : Reach { now := now }
  | step {n : Node} (op : Op) : Reach n → Reach (step n op).1

theorem inv_init (now : Nat) : Inv { now := now } := by
  refine ⟨⟨?_, ?_, ?_, ?_, ?_, ?_, ?_, ?_, ?_⟩, ?_, ?_⟩
  · exact List.nodup_nil
  · exact Nat.zero_le _
  · intro a ha; cases ha
  · intro s hs; cases hs
  · exact Nat.zero_le _
  · intro s hs; cases hs
  · exact ⟨Nat.le_refl _, show 1 ≤ 65535 by decide⟩
  · exact ⟨Nat.le_refl _, show 1 ≤ 65535 by decide⟩
  · intro s hs; cases hs
  · intro s hs; cases hs
  · intro r hr; cases hr

theorem inv_reach {n : Node} (h : Reach n) : Inv n := by
  induction h with
  | init now => exact inv_init now
  | step op _ ih => exact inv_step ih op

theorem reach_run {n : Node} (h : Reach n) : ∀ (ops : List Op), Reach (run n ops).1 := by
  intro ops
  induction ops generalizing n with
  | nil => exact h
  | cons op rest ih => exact ih (Reach.step op h)

/-! ## how the slot, the clock and the accept-pending exchanges move in one step -/

/-- the RX slot is only ever filled when it was empty, and only ever emptied — never overwritten -/
macro "rx_same" : tactic =>
  `(tactic| first | rfl | assumption | exact Or.inl rfl | (apply Or.inl; assumption))

theorem rx_step (n : Node) (op : Op) :
    (step n op).1.rx = n.rx ∨ (step n op).1.rx = none ∨ n.rx = none := by
  cases hrx : n.rx with
  | none => exact Or.inr (Or.inr rfl)
  | some r =>
    cases op with
    | arrive m rnd => left; simp [step, arrive, hrx]
    | accept =>
      left
      simp only [step, accept, hrx]
      split
      · rx_same
      · split <;> rx_same
    | recv uid idx =>
      simp only [step, recv]
      split
      · rx_same
      · split
        · rx_same
        · split
          · rx_same
          · split
            · rx_same
            · rw [hrx]
              simp only
              split
              · exact Or.inr (Or.inl rfl)
              · rx_same
    | send uid idx rel =>
      left
      simp only [step, send]
      split
      · rx_same
      · split
        · rx_same
        · split <;> rx_same
    | dropEx uid idx =>
      left
      simp only [step, dropEx]
      split
      · rx_same
      · split <;> rx_same
    | initiate uid => rx_same
    | establish port mode ctr =>
      left
      simp only [step, establish]
      split
      · rx_same
      · split
        · split <;> rx_same
        · rx_same
    | removeSess uid => rx_same
    | tick d => rx_same
    | sweepAccept =>
      simp only [step, sweepAccept, hrx]
      split
      · exact Or.inr (Or.inl rfl)
      · rx_same
    | sweepOrphan =>
      simp only [step, sweepOrphan, hrx]
      split
      · exact Or.inr (Or.inl rfl)
      · rx_same
    | closer => rx_same

/-- the clock never runs backwards and only `tick` moves it -/
theorem now_step (n : Node) (op : Op) :
    n.now ≤ (step n op).1.now ∧ ((∀ d, op ≠ .tick d) → (step n op).1.now = n.now) := by
  cases op with
  | tick d => exact ⟨Nat.le_add_right _ _, fun h => absurd rfl (h d)⟩
  | arrive m rnd =>
    have : (arrive n m rnd).1.now = n.now := by
      unfold arrive
      split
      · rfl
      · simp only
        split
        · unfold finishArrive
          simp only
          split
          · split
            · rfl
            · split
              · rfl
              · split <;> rfl
          · rfl
          · split <;> rfl
          · rfl
        · split
          · split
            · split
              · unfold finishArrive
                simp only
                split
                · split
                  · rfl
                  · split
                    · rfl
                    · split <;> rfl
                · rfl
                · split <;> rfl
                · rfl
              · rfl
            · rfl
          · rfl
    exact ⟨Nat.le_of_eq this.symm, fun _ => this⟩
  | accept =>
    have : (accept n).1.now = n.now := by
      unfold accept
      split
      · rfl
      · simp only
        split
        · rfl
        · split <;> rfl
    exact ⟨Nat.le_of_eq this.symm, fun _ => this⟩
  | recv uid idx =>
    have : (recv n uid idx).1.now = n.now := by
      unfold recv
      simp only
      split
      · rfl
      · split
        · rfl
        · split
          · rfl
          · split
            · rfl
            · split
              · rfl
              · split <;> rfl
    exact ⟨Nat.le_of_eq this.symm, fun _ => this⟩
  | send uid idx rel =>
    have : (send n uid idx rel).1.now = n.now := by
      unfold send
      simp only
      split
      · rfl
      · split
        · rfl
        · split <;> rfl
    exact ⟨Nat.le_of_eq this.symm, fun _ => this⟩
  | dropEx uid idx =>
    have : (dropEx n uid idx).1.now = n.now := by
      unfold dropEx
      split
      · rfl
      · split <;> rfl
    exact ⟨Nat.le_of_eq this.symm, fun _ => this⟩
  | initiate uid => exact ⟨Nat.le_refl _, fun _ => rfl⟩
  | establish port mode ctr =>
    have : (establish n port mode ctr).1.now = n.now := by
      unfold establish
      split
      · rfl
      · simp only
        split
        · split <;> rfl
        · rfl
    exact ⟨Nat.le_of_eq this.symm, fun _ => this⟩
  | removeSess uid => exact ⟨Nat.le_refl _, fun _ => rfl⟩
  | sweepAccept =>
    have : (sweepAccept n).1.now = n.now := by unfold sweepAccept; split <;> rfl
    exact ⟨Nat.le_of_eq this.symm, fun _ => this⟩
  | sweepOrphan =>
    have : (sweepOrphan n).1.now = n.now := by unfold sweepOrphan; split <;> rfl
    exact ⟨Nat.le_of_eq this.symm, fun _ => this⟩
  | closer => exact ⟨Nat.le_refl _, fun _ => rfl⟩

theorem quiet_sweepAccept (t : Table) (port sid : Nat) (h : RxHdr) (now : Nat) :
    Quiet t (t.sweepAccept port sid h now).1 := by
  intro rx ht hp
  unfold Table.sweepAccept
  rcases getForRx_cases t ht port sid now with ⟨s, hs, hf, hg⟩ | ⟨_, hg⟩
  · rw [hg]
    obtain ⟨ht1, hp1, hm1⟩ := get_inv ht hp hs now
    simp only
    split
    · exact ⟨ht1, hp1⟩
    · rename_i i hx
      cases he : (touch s now).slot i with
      | none => exact ⟨ht1, hp1⟩
      | some e =>
        simp only
        split
        · rename_i hc
          have hrp : e.role = .rp := by
            simp only [Bool.and_eq_true, decide_eq_true_eq] at hc; exact hc.1
          have hlt := slot_lt _ i e he
          exact quiet_dropUpdate
            (y := { touch s now with exchs := (touch s now).exchs.set i (some { e with role := .rd }) })
            hm1 ⟨rfl, rfl, rfl, rfl, rfl⟩ (by simp) he
            (fun j hj => by rw [slot_set]; simp [Ne.symm hj])
            (Or.inr ⟨{ e with role := .rd }, by rw [slot_set]; simp [hlt], rfl, by (rw [hrp]; rfl), by simp⟩)
            rx ht1 hp1
        · exact ⟨ht1, hp1⟩
  · rw [hg]; exact ⟨ht, hp⟩

theorem sweepOrphan_fst (t : Table) (port sid : Nat) (h : RxHdr) (now : Nat) :
    (t.sweepOrphan port sid h now).1 = (t.getForRx port sid now).1 := by
  unfold Table.sweepOrphan
  have e1 : t.getForRx port sid now = ((t.getForRx port sid now).1, (t.getForRx port sid now).2) := rfl
  rw [e1]
  simp only
  split
  · rfl
  · split
    · rfl
    · split <;> rfl

theorem quiet_sweepOrphan (t : Table) (port sid : Nat) (h : RxHdr) (now : Nat) :
    Quiet t (t.sweepOrphan port sid h now).1 := by
  rw [sweepOrphan_fst]; exact quiet_getForRx t port sid now

theorem quiet_recv (n : Node) (uid idx : Nat) : Quiet n.t (recv n uid idx).1.t := by
  have hg := quiet_get n.t uid n.now
  unfold recv
  simp only
  split
  · exact Quiet.refl _
  · split
    · exact Quiet.refl _
    · split
      · exact Quiet.refl _
      · split
        · exact hg
        · split
          · exact hg
          · split <;> exact hg

theorem quiet_acceptNode (n : Node) : Quiet n.t (accept n).1.t := by
  unfold accept
  split
  · exact Quiet.refl _
  · rename_i r _
    have hq := quiet_getForRx n.t r.m.port r.m.sid n.now
    dsimp only
    split
    · exact hq
    · split
      · exact hq
      · exact hq.trans (quiet_accept _ _ _ _)

theorem quiet_dropExNode (n : Node) (uid idx : Nat) : Quiet n.t (dropEx n uid idx).1.t := by
  unfold dropEx
  split
  · exact Quiet.refl _
  · split
    · exact Quiet.refl _
    · exact quiet_dropExchange n.t uid idx n.now

theorem quiet_sweepAcceptNode (n : Node) : Quiet n.t (sweepAccept n).1.t := by
  unfold sweepAccept
  split
  · exact Quiet.refl _
  · exact quiet_sweepAccept _ _ _ _ _

theorem quiet_sweepOrphanNode (n : Node) : Quiet n.t (sweepOrphan n).1.t := by
  unfold sweepOrphan
  split
  · exact Quiet.refl _
  · exact quiet_sweepOrphan _ _ _ _ _

/-- while a message waits, no step creates an accept-pending exchange -/
theorem quiet_step (n : Node) (hrx : n.rx ≠ none) (op : Op) :
    Quiet n.t (step n op).1.t := by
  cases op with
  | arrive m rnd =>
    have : (arrive n m rnd).1 = n := by
      unfold arrive
      cases h : n.rx with
      | none => exact absurd h hrx
      | some r => rfl
    show Quiet n.t (arrive n m rnd).1.t
    rw [this]; exact Quiet.refl _
  | accept => exact quiet_acceptNode n
  | recv uid idx => exact quiet_recv n uid idx
  | send uid idx rel => exact quiet_send n uid idx rel
  | dropEx uid idx => exact quiet_dropExNode n uid idx
  | initiate uid => exact quiet_initiate n.t uid n.now
  | establish port mode ctr => exact quiet_establish n port mode ctr
  | removeSess uid => exact quiet_remove n.t uid
  | tick d => exact Quiet.refl _
  | sweepAccept => exact quiet_sweepAcceptNode n
  | sweepOrphan => exact quiet_sweepOrphanNode n
  | closer => exact quiet_sweepDropped n.t n.now

theorem noPending_step {n : Node} (h : Inv n) (hrx : n.rx ≠ none)
    (hnp : NoPending n.t) (op : Op) : NoPending (step n op).1.t :=
  (pend_none_iff _).1 (quiet_step n hrx op none h.tinv ((pend_none_iff _).2 hnp)).2

/-! ## when the sweeps, `accept_if` and `recv` fire -/

/-- the verdict of the orphan sweep in terms of the (unique) session the message addresses -/
theorem sweepOrphan_eval {t : Table} (ht : TInv t) {s : Sess} (hs : s ∈ t.sessions) {port sid : Nat}
    (hf : s.isForRx port sid = true) (h : RxHdr) (now : Nat) :
    (t.sweepOrphan port sid h now).2 = true ↔
      ∀ i e, s.getExchForRx h = some i → s.slot i = some e → e.role.isDropped = true := by
  unfold Table.sweepOrphan
  rw [getForRx_mem ht hs hf now]
  simp only
  rw [touch_getExch]
  cases hx : s.getExchForRx h with
  | none => simp
  | some i =>
    simp only
    rw [touch_slot]
    cases he : s.slot i with
    | none =>
      simp only [true_iff]
      intro j e hj hsj
      cases hj
      rw [he] at hsj; cases hsj
    | some e =>
      simp only
      constructor
      · intro hd j f hj hsj
        cases hj
        rw [he] at hsj; cases hsj
        exact hd
      · intro hall; exact hall i e rfl he

theorem sweepOrphan_eval_none {t : Table} (ht : TInv t) {port sid : Nat}
    (hn : ∀ s ∈ t.sessions, s.isForRx port sid = false) (h : RxHdr) (now : Nat) :
    (t.sweepOrphan port sid h now).2 = true := by
  unfold Table.sweepOrphan
  rcases getForRx_cases t ht port sid now with ⟨s, hs, hf, _⟩ | ⟨_, hg⟩
  · rw [hn s hs] at hf; cases hf
  · rw [hg]

/-- the accept sweep fires on the accept-pending owner of the message once the deadline has passed -/
theorem sweepAccept_fires {t : Table} (ht : TInv t) {s : Sess} (hs : s ∈ t.sessions) {port sid : Nat}
    (hf : s.isForRx port sid = true) {h : RxHdr} {i : Nat} {e : Exch} (he : s.slot i = some e)
    (hfor : e.isForRx h = true) (hrp : e.role = .rp) {now : Nat}
    (hto : e.mrp.hasRxTimedOut Consts.acceptTimeoutMs now = true) :
    (t.sweepAccept port sid h now).2 = true := by
  unfold Table.sweepAccept
  rw [getForRx_mem ht hs hf now]
  simp only
  rw [touch_getExch, getExchForRx_of_slot s (ht.uniq s hs) h i e he hfor]
  simp only
  rw [touch_slot, he]
  simp [hrp, hto]

/-- … and does nothing before -/
theorem sweepAccept_waits {t : Table} (ht : TInv t) {s : Sess} (hs : s ∈ t.sessions) {port sid : Nat}
    (hf : s.isForRx port sid = true) {h : RxHdr} {i : Nat} {e : Exch} (he : s.slot i = some e)
    (hfor : e.isForRx h = true) {now : Nat}
    (hto : e.role ≠ .rp ∨ e.mrp.hasRxTimedOut Consts.acceptTimeoutMs now = false) :
    (t.sweepAccept port sid h now).2 = false := by
  unfold Table.sweepAccept
  rw [getForRx_mem ht hs hf now]
  simp only
  rw [touch_getExch, getExchForRx_of_slot s (ht.uniq s hs) h i e he hfor]
  simp only
  rw [touch_slot, he]
  rcases hto with h1 | h1 <;> simp [h1]

/-- `accept_if` succeeds on the accept-pending owner -/
theorem accept_fires {n : Node} (h : Inv n) {r : Held} (hrx : n.rx = some r) {s : Sess} (hs : s ∈ n.t.sessions)
    (hf : s.isForRx r.m.port r.m.sid = true) {i : Nat} {e : Exch} (he : s.slot i = some e)
    (hfor : e.isForRx r.m.hdr = true) (hrp : e.role = .rp) : (accept n).2 = .accepted s.uid i := by
  unfold accept
  rw [hrx]
  simp only
  rw [getForRx_mem h.tinv hs hf n.now]
  simp only
  rw [touch_getExch, getExchForRx_of_slot s (h.tinv.uniq s hs) _ i e he hfor]
  simp only
  obtain ⟨ht1, _, hm1⟩ := get_inv h.tinv h.pend hs n.now
  have : ((n.t.setSess (touch s n.now)).accept (touch s n.now).uid i n.now).2 = true := by
    unfold Table.accept
    rw [get_mem ht1.uidN hm1]
    simp only
    rw [touch_slot, touch_slot, he]
    simp [hrp]
  rw [this]
  rfl

/-- `recv` of the live owner delivers the waiting message and empties the slot -/
theorem recv_fires {n : Node} (h : Inv n) {r : Held} (hrx : n.rx = some r) {s : Sess} (hs : s ∈ n.t.sessions)
    (hf : s.isForRx r.m.port r.m.sid = true) {i : Nat} {e : Exch} (he : s.slot i = some e)
    (hfor : e.isForRx r.m.hdr = true) (hown : RoleSt.isOwned e.role = true)
    (hnr : e.mrp.isRetransPending = false) :
    (recv n s.uid i).2 = .delivered s.uid i r.m ∧ (recv n s.uid i).1.rx = none := by
  unfold recv
  rw [get_mem h.tinv.uidN hs]
  simp only
  rw [touch_slot, he]
  simp only [hown, hnr, hrx]
  have : recvMatch (touch s n.now) e r.m = true := by
    simp only [recvMatch, Bool.and_eq_true]
    exact ⟨by rw [(touch_same s n.now).isForRx]; exact hf, hfor⟩
  simp [this]

/-- after the owner dropped its exchange the orphan sweep fires -/
theorem orphan_after_drop {n : Node} (h : Inv n) {r : Held} (hrx : n.rx = some r) {s : Sess} (hs : s ∈ n.t.sessions)
    (hf : s.isForRx r.m.port r.m.sid = true) {i : Nat} {e : Exch} (he : s.slot i = some e)
    (hfor : e.isForRx r.m.hdr = true) (hown : RoleSt.isOwned e.role = true) :
    (sweepOrphan (dropEx n s.uid i).1).2 = .swept true ∧ (sweepOrphan (dropEx n s.uid i).1).1.rx = none := by
  have hsess : n.t.sess s.uid = some s := (sess_eq_some_iff _ h.tinv.uidN _ _).2 ⟨hs, rfl⟩
  have hd : (dropEx n s.uid i).1 = { n with t := (n.t.dropExchange s.uid i n.now).1 } := by
    unfold dropEx
    rw [hsess]
    simp only [Option.bind_some, he, hown]
    rfl
  obtain ⟨ht1, hp1, hm1⟩ := get_inv h.tinv h.pend hs n.now
  have he1 : (touch s n.now).slot i = some e := he
  obtain ⟨k1, k2, k3⟩ := removeExch_shape (touch s n.now) i e he1
  have htab : (n.t.dropExchange s.uid i n.now).1 =
      (n.t.setSess (touch s n.now)).setSess ((touch s n.now).removeExch i).1 := by
    unfold Table.dropExchange
    rw [get_mem h.tinv.uidN hs]
  have ht2 : TInv (n.t.dropExchange s.uid i n.now).1 := (quiet_dropExchange n.t s.uid i n.now n.rx h.tinv h.pend).1
  have hy : ((touch s n.now).removeExch i).1 ∈ (n.t.dropExchange s.uid i n.now).1.sessions := by
    rw [htab]; exact mem_setSess_self ht1.uidN hm1 k1.uid
  have hyf : ((touch s n.now).removeExch i).1.isForRx r.m.port r.m.sid = true := by
    rw [k1.isForRx, (touch_same s n.now).isForRx]; exact hf
  have hfire : ((n.t.dropExchange s.uid i n.now).1.sweepOrphan r.m.port r.m.sid r.m.hdr n.now).2 = true := by
    rw [sweepOrphan_eval ht2 hy hyf]
    intro j f hj hsj
    obtain ⟨f', hsj', hff⟩ := getExchForRx_slot _ _ _ hj
    rw [hsj] at hsj'
    cases hsj'
    by_cases hji : j = i
    · subst hji
      rw [k3 j] at hsj
      simp only [↓reduceIte] at hsj
      split at hsj
      · simp only [Option.some.injEq] at hsj
        subst hsj
        cases e.role <;> rfl
      · cases hsj
    · exfalso
      rw [k3 j] at hsj
      simp only [Ne.symm hji, ↓reduceIte] at hsj
      exact hji (h.tinv.uniq s hs j i f e hsj he
        (by simp only [Exch.isForRx, Bool.and_eq_true, beq_iff_eq] at hff hfor; rw [hff.1, hfor.1])
        (by simp only [Exch.isForRx, Bool.and_eq_true, beq_iff_eq] at hff hfor; rw [← hff.2, ← hfor.2]))
  rw [hd]
  unfold sweepOrphan
  simp only [hrx, hfire]
  simp

/-! ## the dropped-exchange closer: what it finds and what it does -/

/-- the exchange at (session uid, slot i) is in a dropped state -/
def DroppedAt (t : Table) (uid i : Nat) : Prop :=
  ∃ s ∈ t.sessions, s.uid = uid ∧ ∃ e, s.slot i = some e ∧ e.role.isDropped = true

theorem findDropped_go_some (want : Bool) : ∀ (es : List (Option Exch)) (k i : Nat),
    findDropped.go want es k = some i →
    k ≤ i ∧ ∃ e, es[i - k]? = some (some e) ∧ e.role.isDropped = true ∧ e.mrp.isRetransPending = want := by
  intro es
  induction es with
  | nil => intro k i h; simp [findDropped.go] at h
  | cons y ys ih =>
    intro k i h
    cases y with
    | none =>
      simp only [findDropped.go] at h
      obtain ⟨h1, e, h2, h3⟩ := ih (k + 1) i h
      refine ⟨by omega, e, ?_, h3⟩
      have : i - k = (i - (k + 1)) + 1 := by omega
      rw [this, List.getElem?_cons_succ]; exact h2
    | some e0 =>
      simp only [findDropped.go] at h
      split at h
      · rename_i hc
        simp only [Option.some.injEq] at h
        subst h
        simp only [Bool.and_eq_true, beq_iff_eq] at hc
        exact ⟨Nat.le_refl _, e0, by simp, hc.1, hc.2⟩
      · obtain ⟨h1, e, h2, h3⟩ := ih (k + 1) i h
        refine ⟨by omega, e, ?_, h3⟩
        have : i - k = (i - (k + 1)) + 1 := by omega
        rw [this, List.getElem?_cons_succ]; exact h2

/-- `Sessions::get_exch(pred)` answers a dropped exchange of the wanted kind -/
theorem findDropped_some (want : Bool) : ∀ (l : List Sess) (uid i : Nat), findDropped want l = some (uid, i) →
    ∃ s ∈ l, s.uid = uid ∧ ∃ e, s.slot i = some e ∧ e.role.isDropped = true ∧ e.mrp.isRetransPending = want := by
  intro l
  induction l with
  | nil => intro uid i h; simp [findDropped] at h
  | cons x xs ih =>
    intro uid i h
    simp only [findDropped] at h
    split at h
    · rename_i j hj
      simp only [Option.some.injEq, Prod.mk.injEq] at h
      obtain ⟨h1, h2⟩ := h
      subst h1; subst h2
      obtain ⟨_, e, he, hd, hr⟩ := findDropped_go_some want x.exchs 0 j hj
      exact ⟨x, List.mem_cons_self .., rfl, e, (slot_eq_some x j e).2 (by simpa using he), hd, hr⟩
    · obtain ⟨s, hs, rest⟩ := ih uid i h
      exact ⟨s, List.mem_cons_of_mem _ hs, rest⟩

theorem findDropped_go_none (want : Bool) : ∀ (es : List (Option Exch)) (k : Nat), findDropped.go want es k = none →
    ∀ (j : Nat) (e : Exch), es[j]? = some (some e) → ¬ (e.role.isDropped = true ∧ e.mrp.isRetransPending = want) := by
  intro es
  induction es with
  | nil => intro k _ j e hj; simp at hj
  | cons y ys ihy =>
    intro k hk j e hj ⟨h1, h2⟩
    cases y with
    | none =>
      simp only [findDropped.go] at hk
      cases j with
      | zero => simp at hj
      | succ j => rw [List.getElem?_cons_succ] at hj; exact ihy (k + 1) hk j e hj ⟨h1, h2⟩
    | some e0 =>
      simp only [findDropped.go] at hk
      split at hk
      · simp at hk
      · rename_i hnot
        cases j with
        | zero =>
          simp only [List.getElem?_cons_zero, Option.some.injEq] at hj
          subst hj
          simp [h1, h2] at hnot
        | succ j => rw [List.getElem?_cons_succ] at hj; exact ihy (k + 1) hk j e hj ⟨h1, h2⟩

/-- `get_exch(pred)` misses nothing -/
theorem findDropped_none (want : Bool) : ∀ (l : List Sess), findDropped want l = none →
    ∀ s ∈ l, ∀ i e, s.slot i = some e → ¬ (e.role.isDropped = true ∧ e.mrp.isRetransPending = want) := by
  intro l
  induction l with
  | nil => intro _ s hs; simp at hs
  | cons x xs ih =>
    intro hf s hs i e hsl hd
    simp only [findDropped] at hf
    split at hf
    · simp at hf
    · rename_i hx
      rcases List.mem_cons.1 hs with h1 | h1
      · subst h1
        exact findDropped_go_none want s.exchs 0 hx i e ((slot_eq_some s i e).1 hsl) hd
      · exact ih hf s h1 i e hsl hd

theorem preSend_unreliable_ok (s : Sess) (i : Nat) (e : Exch) (hs : s.slot i = some e) (ha sai : Option Nat) :
    ∃ o, (s.preSend (some i) false ha sai).2 = .ok o := by
  unfold Sess.preSend
  simp only [hs]
  unfold Mrp.preSend
  simp

theorem get_tinv {t : Table} (ht : TInv t) {s : Sess} (hs : s ∈ t.sessions) (now : Nat) :
    TInv (t.setSess (touch s now)) ∧ touch s now ∈ (t.setSess (touch s now)).sessions :=
  ⟨tinv_setSess ht hs (touch_same s now) (ht.nExch s hs) (touch_uniq now (ht.uniq s hs)),
   mem_setSess_self ht.uidN hs rfl⟩

/-- sessions after `get` + writing back an update `y` of the touched session -/
theorem mem_get_setSess {t : Table} (ht : TInv t) {s y : Sess} (hs : s ∈ t.sessions) (now : Nat)
    (hu : y.uid = s.uid) (z : Sess) :
    z ∈ ((t.setSess (touch s now)).setSess y).sessions ↔ z = y ∨ (z ∈ t.sessions ∧ z.uid ≠ s.uid) := by
  obtain ⟨ht1, hm1⟩ := get_tinv ht hs now
  rw [mem_setSess _ ht1.uidN y ⟨_, hm1, hu.symm⟩, mem_setSess t ht.uidN (touch s now) ⟨s, hs, rfl⟩]
  constructor
  · rintro (h | ⟨h | ⟨h1, h2⟩, h3⟩)
    · exact Or.inl h
    · rw [h] at h3; exact absurd hu.symm h3
    · exact Or.inr ⟨h1, h2⟩
  · rintro (h | ⟨h1, h2⟩)
    · exact Or.inl h
    · exact Or.inr ⟨Or.inr ⟨h1, h2⟩, by rw [hu]; exact h2⟩

/-- **What one run of the closer does** (`handle_dropped_exchange`), for every well-shaped table:
* it answers `nothing` only if no exchange of the table is in a dropped state;
* `closedSession uid`: some dropped exchange of that session still had a retransmission pending; the
  session is gone afterwards; no other session changed its dropped exchanges;
* `closedExchange uid i _ ack`: that exchange was dropped without a pending retransmission; a
  standalone ack was written iff one was owed; the slot is free afterwards; nothing else became dropped. -/
def CloserSpec (t t' : Table) : SweepOut → Prop
  | .nothing => ∀ uid i, ¬ DroppedAt t uid i
  | .closedSession uid _ _ =>
    (∃ s ∈ t.sessions, s.uid = uid ∧ ∃ i e, s.slot i = some e ∧ e.role.isDropped = true ∧ e.mrp.isRetransPending = true) ∧
    t'.sess uid = none ∧ ∀ u j, DroppedAt t' u j → DroppedAt t u j ∧ u ≠ uid
  | .closedExchange uid i _ ack =>
    (∃ s ∈ t.sessions, s.uid = uid ∧ ∃ e, s.slot i = some e ∧ e.role.isDropped = true ∧
        e.mrp.isRetransPending = false ∧ ack.isSome = e.mrp.isAckPending) ∧
    ¬ DroppedAt t' uid i ∧ ∀ u j, DroppedAt t' u j → DroppedAt t u j

theorem closer_effect {t : Table} (ht : TInv t) (now : Nat) :
    CloserSpec t (t.sweepDropped now).1 (t.sweepDropped now).2 := by
  unfold Table.sweepDropped
  cases h1 : findDropped true t.sessions with
  | some p =>
    obtain ⟨uid, i0⟩ := p
    obtain ⟨s, hs, hu, e, he, hd, hr⟩ := findDropped_some true _ _ _ h1
    subst hu
    simp only
    rw [get_mem ht.uidN hs]
    simp only
    have e2 : (t.setSess (touch s now)).nextExchId =
        ((t.setSess (touch s now)).nextExchId.1, (t.setSess (touch s now)).nextExchId.2) := rfl
    rw [e2]
    simp only
    obtain ⟨ht1, hm1⟩ := get_tinv ht hs now
    have ht2 := tinv_nextExchId ht1
    have hsess : (t.setSess (touch s now)).nextExchId.1.sess s.uid = some (touch s now) :=
      (sess_eq_some_iff _ ht2.uidN _ _).2 ⟨hm1, rfl⟩
    rw [hsess]
    simp only
    have e3 : (t.setSess (touch s now)).nextExchId.1.remove s.uid =
        (((t.setSess (touch s now)).nextExchId.1.remove s.uid).1, ((t.setSess (touch s now)).nextExchId.1.remove s.uid).2) := rfl
    rw [e3]
    simp only [CloserSpec]
    refine ⟨⟨s, hs, rfl, i0, e, he, hd, hr⟩, remove_sess_none _ ht2.uidN _, ?_⟩
    intro u j ⟨z, hz, hzu, f, hf, hfd⟩
    obtain ⟨hz1, hne⟩ := (mem_remove _ ht2.uidN s.uid z).1 hz
    have hz1' : z ∈ (t.setSess (touch s now)).sessions := hz1
    rcases (mem_setSess t ht.uidN (touch s now) ⟨s, hs, rfl⟩ z).1 hz1' with hzt | ⟨hzt, _⟩
    · rw [hzt] at hne; exact absurd rfl hne
    · exact ⟨⟨z, hzt, hzu, f, hf, hfd⟩, by rw [← hzu]; exact hne⟩
  | none =>
    simp only
    cases h2 : findDropped false t.sessions with
    | none =>
      simp only [CloserSpec]
      intro uid i ⟨z, hz, _, f, hf, hfd⟩
      cases hr : f.mrp.isRetransPending with
      | true => exact findDropped_none true _ h1 z hz i f hf ⟨hfd, hr⟩
      | false => exact findDropped_none false _ h2 z hz i f hf ⟨hfd, hr⟩
    | some p =>
      obtain ⟨uid, i⟩ := p
      obtain ⟨s, hs, hu, e, he, hd, hr⟩ := findDropped_some false _ _ _ h2
      subst hu
      simp only
      rw [get_mem ht.uidN hs]
      simp only
      have he1 : (touch s now).slot i = some e := he
      rw [he1]
      simp only
      have hlt := slot_lt _ i e he1
      -- the shared part: the table after writing back an update `y` of the session with slot `i` freed
      have fin : ∀ (y : Sess), y.uid = s.uid → y.slot i = none → (∀ j, j ≠ i → y.slot j = s.slot j) →
          ¬ DroppedAt ((t.setSess (touch s now)).setSess y) s.uid i ∧
          ∀ u j, DroppedAt ((t.setSess (touch s now)).setSess y) u j → DroppedAt t u j := by
        intro y hyu hyi hyj
        have hmem := mem_get_setSess ht hs now hyu
        constructor
        · intro ⟨z, hz, hzu, f, hf, _⟩
          rcases (hmem z).1 hz with hzy | ⟨_, hne⟩
          · rw [hzy, hyi] at hf; cases hf
          · exact hne hzu
        · intro u j ⟨z, hz, hzu, f, hf, hfd⟩
          rcases (hmem z).1 hz with hzy | ⟨hzt, _⟩
          · subst hzy
            by_cases hji : j = i
            · rw [hji, hyi] at hf; cases hf
            · rw [hyj j hji] at hf
              exact ⟨s, hs, by rw [← hzu, hyu], f, hf, hfd⟩
          · exact ⟨z, hzt, hzu, f, hf, hfd⟩
      split
      · rename_i hack
        obtain ⟨o, ho⟩ := preSend_unreliable_ok (touch s now) i e he1 none none
        obtain ⟨m, k1, k2, k3⟩ := preSend_shape (touch s now) i e he1 false none none
        rw [ho]
        simp only [CloserSpec]
        refine ⟨⟨s, hs, rfl, e, he, hd, hr, by simp [hack]⟩, ?_⟩
        apply fin
        · exact k1.uid
        · rw [slot_set]; simp [k2, hlt]
        · intro j hj
          rw [slot_set]
          simp only [Ne.symm hj, ↓reduceIte]
          rw [k3 j]
          simp [Ne.symm hj, touch_slot]
      · rename_i hack
        simp only [CloserSpec]
        refine ⟨⟨s, hs, rfl, e, he, hd, hr, by simp [hack]⟩, ?_⟩
        apply fin
        · rfl
        · rw [slot_set]; simp [hlt]
        · intro j hj
          rw [slot_set]
          simp [Ne.symm hj, touch_slot]

/-- **The closer acts whenever a dropped exchange exists** (the direction the property needs) -/
theorem closer_acts {t : Table} (ht : TInv t) (now : Nat) (h : ∃ uid i, DroppedAt t uid i) :
    (t.sweepDropped now).2 ≠ .nothing := by
  intro hn
  have := closer_effect ht now
  rw [hn] at this
  obtain ⟨uid, i, hd⟩ := h
  exact this uid i hd

/-! ## node-level readings -/

theorem sweepOrphan_node {n : Node} {r : Held} (hrx : n.rx = some r)
    (hw : (n.t.sweepOrphan r.m.port r.m.sid r.m.hdr n.now).2 = true) :
    (sweepOrphan n).2 = .swept true ∧ (sweepOrphan n).1.rx = none := by
  unfold sweepOrphan
  simp [hrx, hw]

theorem sweepAccept_node {n : Node} {r : Held} (hrx : n.rx = some r)
    (hw : (n.t.sweepAccept r.m.port r.m.sid r.m.hdr n.now).2 = true) :
    (sweepAccept n).2 = .swept true ∧ (sweepAccept n).1.rx = none := by
  unfold sweepAccept
  simp [hrx, hw]

theorem ownerOf_eq {t : Table} (ht : TInv t) {s : Sess} (hs : s ∈ t.sessions) {m : Msg}
    (hf : s.isForRx m.port m.sid = true) : ownerOf t m = (s.getExchForRx m.hdr).map (fun i => (s.uid, i)) := by
  unfold ownerOf
  rw [find_isForRx ht hs hf]

theorem ownerOf_none {t : Table} {m : Msg} (hn : ∀ s ∈ t.sessions, s.isForRx m.port m.sid = false) :
    ownerOf t m = none := by
  unfold ownerOf
  have : t.sessions.find? (fun s => s.isForRx m.port m.sid) = none := by
    rw [List.find?_eq_none]; intro s hs; simp [hn s hs]
  rw [this]

/-! ## traffic of other exchanges keeps flowing -/

theorem mrp_postRecv_noretrans (m : Mrp) (c : Nat) (a : Option Nat) (rel : Bool) (now : Nat) (h : m.retrans = none) :
    (m.postRecv c a rel now).2 = none ∧ (m.postRecv c a rel now).1.retrans = none := by
  unfold Mrp.postRecv
  cases a <;> cases rel <;> simp [h]

/-- `post_recv` of a fresh message for an owner that is not waiting for an acknowledgement -/
theorem postRecv_owner_eval (z : Sess) (h : RxHdr) (now : Nat) (i : Nat) (e : Exch)
    (hd : (Dedup.postRecv z.rx h.ctr z.mode.enc false).2 = true) (hg : z.getExchForRx h = some i)
    (he : z.slot i = some e) (hnr : e.mrp.retrans = none) :
    (z.postRecv h now).2 = .ok false ∧
    ∃ m', (z.postRecv h now).1.slot i = some { e with mrp := m' } ∧ m'.retrans = none := by
  obtain ⟨h1, h2⟩ := mrp_postRecv_noretrans e.mrp h.ctr h.ack h.reliable now hnr
  unfold Sess.postRecv
  simp only [hd, Bool.not_true, Bool.false_eq_true, ↓reduceIte]
  generalize hs0 : ({ z with rx := (Dedup.postRecv z.rx h.ctr z.mode.enc false).1 } : Sess) = s0
  have hget : s0.getExchForRx h = some i := by subst hs0; exact hg
  have hsl : s0.slot i = some e := by subst hs0; exact he
  simp only [hget, hsl, h1]
  refine ⟨trivial, (e.mrp.postRecv h.ctr h.ack h.reliable now).1, ?_, h2⟩
  rw [setMrp_slot]; simp [hsl]

theorem arrive_owner_eval {n : Node} (hi : Inv n) (hrx : n.rx = none) {s : Sess} (hs : s ∈ n.t.sessions)
    {i : Nat} {e : Exch} (he : s.slot i = some e) (hnr : e.mrp.retrans = none) (m : Msg) (rnd : Nat)
    (hf : s.isForRx m.port m.sid = true) (hfor : e.isForRx m.hdr = true)
    (hk1 : m.kind ≠ .sack) (hk2 : m.kind ≠ .close)
    (hfresh : (Dedup.postRecv s.rx m.ctr s.mode.enc false).2 = true) :
    arrive n m rnd =
      ({ n with t := (n.t.setSess (touch s n.now)).setSess ((touch s n.now).postRecv m.hdr n.now).1,
                rx := some { m := m, arrivedAt := n.now } }, .kept s.uid i false) ∧
    ∃ m', ((touch s n.now).postRecv m.hdr n.now).1.slot i = some { e with mrp := m' } ∧ m'.retrans = none := by
  have hg : (touch s n.now).getExchForRx m.hdr = some i :=
    getExchForRx_of_slot s (hi.tinv.uniq s hs) _ i e he hfor
  obtain ⟨hok, m', hsl, hm'⟩ := postRecv_owner_eval (touch s n.now) m.hdr n.now i e hfresh hg he hnr
  refine ⟨?_, m', hsl, hm'⟩
  unfold arrive
  rw [hrx]
  simp only
  rw [getForRx_mem hi.tinv hs hf]
  simp only
  unfold finishArrive
  simp only [hok, hk1, hk2, ↓reduceIte]
  have hu := exchUniq_postRecv (touch s n.now) m.hdr n.now (touch_uniq n.now (hi.tinv.uniq s hs))
  have hfor' : ({ e with mrp := m' } : Exch).isForRx m.hdr = true := hfor
  rw [getExchForRx_of_slot _ hu m.hdr i _ hsl hfor']
  rfl

/-! ## the closer drains the dropped exchanges (a counting argument) -/

theorem count_range_flip (f g : Nat → Bool) (i : Nat) : ∀ n, i < n → f i = false → g i = true →
    (∀ j, j ≠ i → f j = g j) →
    ((List.range n).filter f).length + 1 = ((List.range n).filter g).length := by
  intro n
  induction n with
  | zero => intro h; omega
  | succ n ih =>
    intro hin hf hg hrest
    rw [List.range_succ, List.filter_append, List.filter_append, List.length_append, List.length_append]
    by_cases hi : i = n
    · subst hi
      have hsame : (List.range i).filter f = (List.range i).filter g := by
        apply List.filter_congr
        intro j hj
        exact hrest j (by have := List.mem_range.1 hj; omega)
      simp [hsame, hf, hg]
    · have := ih (by omega) hf hg hrest
      have hn : f n = g n := hrest n (fun h => hi h.symm)
      simp only [List.filter_cons, List.filter_nil, hn]
      split <;> simp <;> omega

theorem count_range_same (f g : Nat → Bool) (n : Nat) (h : ∀ j, j < n → f j = g j) :
    ((List.range n).filter f).length = ((List.range n).filter g).length := by
  have : (List.range n).filter f = (List.range n).filter g :=
    List.filter_congr (fun j hj => h j (List.mem_range.1 hj))
  rw [this]

/-- same slots (as far as "dropped" goes) ⇒ same count -/
theorem droppedIn_congr {s y : Sess} (hl : y.exchs.length = s.exchs.length)
    (h : ∀ j, slotDropped (y.slot j) = slotDropped (s.slot j)) : droppedIn y = droppedIn s := by
  unfold droppedIn
  rw [hl]
  exact count_range_same _ _ _ (fun j _ => h j)

/-- one dropped slot freed ⇒ one less -/
theorem droppedIn_freed {s y : Sess} (hl : y.exchs.length = s.exchs.length) {i : Nat} {e : Exch}
    (he : s.slot i = some e) (hd : e.role.isDropped = true) (hi : y.slot i = none)
    (h : ∀ j, j ≠ i → y.slot j = s.slot j) : droppedIn y + 1 = droppedIn s := by
  unfold droppedIn
  rw [hl]
  apply count_range_flip _ _ i _ (slot_lt s i e he)
  · show slotDropped (y.slot i) = false
    rw [hi]; rfl
  · show slotDropped (s.slot i) = true
    rw [he]; exact hd
  · intro j hj
    show slotDropped (y.slot j) = slotDropped (s.slot j)
    rw [h j hj]

theorem droppedIn_pos {s : Sess} {i : Nat} {e : Exch} (he : s.slot i = some e) (hd : e.role.isDropped = true) :
    0 < droppedIn s := by
  unfold droppedIn
  apply List.length_pos_of_mem (a := i)
  rw [List.mem_filter]
  exact ⟨List.mem_range.2 (slot_lt s i e he), by show slotDropped (s.slot i) = true; rw [he]; exact hd⟩

theorem sum_eq_zero_of_all (l : List Nat) (h : ∀ x ∈ l, x = 0) : l.sum = 0 := by
  induction l with
  | nil => rfl
  | cons a as ih =>
    simp only [List.sum_cons]
    rw [h a (List.mem_cons_self ..), ih (fun x hx => h x (List.mem_cons_of_mem _ hx))]

theorem le_sum_of_mem (l : List Nat) (a : Nat) (h : a ∈ l) : a ≤ l.sum := by
  induction l with
  | nil => cases h
  | cons x xs ih =>
    simp only [List.sum_cons]
    rcases List.mem_cons.1 h with h1 | h1
    · subst h1; omega
    · have := ih h1; omega

theorem droppedIn_zero_of (z : Sess) (h : ∀ j f, z.slot j = some f → f.role.isDropped = false) : droppedIn z = 0 := by
  unfold droppedIn
  rw [List.length_eq_zero_iff, List.filter_eq_nil_iff]
  intro j _
  show ¬ slotDropped (z.slot j) = true
  cases hsl : z.slot j with
  | none => simp [slotDropped]
  | some f => simp [slotDropped, h j f hsl]

theorem sum_map_set {α : Type} (f : α → Nat) : ∀ (l : List α) (i : Nat) (a y : α), l[i]? = some a →
    ((l.set i y).map f).sum + f a = (l.map f).sum + f y := by
  intro l
  induction l with
  | nil => intro i a y h; simp at h
  | cons x xs ih =>
    intro i a y h
    cases i with
    | zero =>
      simp only [List.getElem?_cons_zero, Option.some.injEq] at h
      subst h
      simp only [List.set_cons_zero, List.map_cons, List.sum_cons]
      omega
    | succ i =>
      rw [List.getElem?_cons_succ] at h
      have := ih i a y h
      simp only [List.set_cons_succ, List.map_cons, List.sum_cons]
      omega

theorem sum_map_eraseIdx {α : Type} (f : α → Nat) : ∀ (l : List α) (i : Nat) (a : α), l[i]? = some a →
    ((l.eraseIdx i).map f).sum + f a = (l.map f).sum := by
  intro l
  induction l with
  | nil => intro i a h; simp at h
  | cons x xs ih =>
    intro i a h
    cases i with
    | zero =>
      simp only [List.getElem?_cons_zero, Option.some.injEq] at h
      subst h
      simp only [List.eraseIdx_cons_zero, List.map_cons, List.sum_cons]
      omega
    | succ i =>
      rw [List.getElem?_cons_succ] at h
      have := ih i a h
      simp only [List.eraseIdx_cons_succ, List.map_cons, List.sum_cons]
      omega

/-- writing back an update `y` of the member `s` changes the count by the difference of the two -/
theorem droppedCount_setSess {t : Table} (hn : UidNodup t) {s y : Sess} (hs : s ∈ t.sessions) (hu : y.uid = s.uid) :
    droppedCount (t.setSess y) + droppedIn s = droppedCount t + droppedIn y := by
  unfold droppedCount
  rw [setSess_sessions]
  obtain ⟨i, hf⟩ := find_isSome_of_mem t s hs
  rw [← hu] at hf
  rw [hf]
  obtain ⟨s0, hs0, hu0⟩ := find_some_index t y.uid i hf
  have : s0 = s := nodup_map_inj (fun (x : Sess) => x.uid) t.sessions hn s0 (List.mem_of_getElem? hs0) s hs (by rw [hu0, hu])
  subst this
  exact sum_map_set droppedIn t.sessions i s0 y hs0

theorem droppedCount_remove {t : Table} (hn : UidNodup t) {s : Sess} (hs : s ∈ t.sessions) :
    droppedCount (t.remove s.uid).1 + droppedIn s = droppedCount t := by
  unfold droppedCount
  rw [remove_sessions]
  obtain ⟨i, hf⟩ := find_isSome_of_mem t s hs
  rw [hf]
  obtain ⟨s0, hs0, hu0⟩ := find_some_index t s.uid i hf
  have : s0 = s := nodup_map_inj (fun (x : Sess) => x.uid) t.sessions hn s0 (List.mem_of_getElem? hs0) s hs hu0
  subst this
  have hi : i < t.sessions.length := (List.getElem?_eq_some_iff.1 hs0).1
  simp only
  rw [((swapRemove_perm t.sessions i hi).map droppedIn).sum_nat]
  exact sum_map_eraseIdx droppedIn t.sessions i s0 hs0

theorem droppedCount_touch {t : Table} (hn : UidNodup t) {s : Sess} (hs : s ∈ t.sessions) (now : Nat) :
    droppedCount (t.setSess (touch s now)) = droppedCount t := by
  have := droppedCount_setSess hn hs (y := touch s now) rfl
  have h2 : droppedIn (touch s now) = droppedIn s := droppedIn_congr rfl (fun _ => rfl)
  omega

/-- **Every run of the closer that finds something reduces the number of dropped exchanges** -/
theorem closer_decreases {t : Table} (ht : TInv t) (now : Nat) (hpos : 0 < droppedCount t) :
    droppedCount (t.sweepDropped now).1 < droppedCount t := by
  unfold Table.sweepDropped
  cases h1 : findDropped true t.sessions with
  | some p =>
    obtain ⟨uid, i0⟩ := p
    obtain ⟨s, hs, hu, e, he, hd, _⟩ := findDropped_some true _ _ _ h1
    subst hu
    simp only
    rw [get_mem ht.uidN hs]
    simp only
    have e2 : (t.setSess (touch s now)).nextExchId =
        ((t.setSess (touch s now)).nextExchId.1, (t.setSess (touch s now)).nextExchId.2) := rfl
    rw [e2]
    simp only
    obtain ⟨ht1, hm1⟩ := get_tinv ht hs now
    have ht2 := tinv_nextExchId ht1
    have hsess : (t.setSess (touch s now)).nextExchId.1.sess s.uid = some (touch s now) :=
      (sess_eq_some_iff _ ht2.uidN _ _).2 ⟨hm1, rfl⟩
    rw [hsess]
    simp only
    have e3 : (t.setSess (touch s now)).nextExchId.1.remove s.uid =
        (((t.setSess (touch s now)).nextExchId.1.remove s.uid).1, ((t.setSess (touch s now)).nextExchId.1.remove s.uid).2) := rfl
    rw [e3]
    simp only
    have hrm := droppedCount_remove (t := (t.setSess (touch s now)).nextExchId.1) ht2.uidN (s := touch s now) hm1
    have htc : droppedCount (t.setSess (touch s now)).nextExchId.1 = droppedCount t := droppedCount_touch ht.uidN hs now
    have hp : 0 < droppedIn (touch s now) := droppedIn_pos (i := i0) (e := e) he hd
    have hu : (touch s now).uid = s.uid := rfl
    rw [hu] at hrm
    omega
  | none =>
    simp only
    cases h2 : findDropped false t.sessions with
    | none =>
      -- nothing dropped at all: contradiction with `hpos`
      exfalso
      have hz : droppedCount t = 0 := by
        unfold droppedCount
        apply sum_eq_zero_of_all
        intro x hx
        obtain ⟨z, hz, rfl⟩ := List.mem_map.1 hx
        apply droppedIn_zero_of
        intro j f hsl
        cases hd : f.role.isDropped with
        | false => rfl
        | true =>
          exfalso
          cases hr : f.mrp.isRetransPending with
          | true => exact findDropped_none true _ h1 z hz j f hsl ⟨hd, hr⟩
          | false => exact findDropped_none false _ h2 z hz j f hsl ⟨hd, hr⟩
      omega
    | some p =>
      obtain ⟨uid, i⟩ := p
      obtain ⟨s, hs, hu, e, he, hd, _⟩ := findDropped_some false _ _ _ h2
      subst hu
      simp only
      rw [get_mem ht.uidN hs]
      simp only
      have he1 : (touch s now).slot i = some e := he
      rw [he1]
      simp only
      have hlt := slot_lt _ i e he1
      obtain ⟨ht1, hm1⟩ := get_tinv ht hs now
      have htc := droppedCount_touch ht.uidN hs now
      have fin : ∀ (y : Sess), y.uid = s.uid → y.exchs.length = (touch s now).exchs.length → y.slot i = none →
          (∀ j, j ≠ i → slotDropped (y.slot j) = slotDropped ((touch s now).slot j)) →
          droppedCount ((t.setSess (touch s now)).setSess y) < droppedCount t := by
        intro y hyu hyl hyi hyj
        have h3 := droppedCount_setSess ht1.uidN hm1 (y := y) hyu
        have h4 : droppedIn y + 1 = droppedIn (touch s now) := by
          unfold droppedIn
          rw [hyl]
          apply count_range_flip _ _ i _ hlt
          · show slotDropped (y.slot i) = false
            rw [hyi]; rfl
          · show slotDropped ((touch s now).slot i) = true
            rw [he1]; exact hd
          · intro j hj
            exact hyj j hj
        omega
      split
      · obtain ⟨m, k1, k2, k3⟩ := preSend_shape (touch s now) i e he1 false none none
        have hres := fin { ((touch s now).preSend (some i) false none none).1 with
            exchs := ((touch s now).preSend (some i) false none none).1.exchs.set i none }
          k1.uid (by simp only [List.length_set]; exact k2) (by rw [slot_set]; simp [k2, hlt])
          (fun j hj => by rw [slot_set]; simp only [Ne.symm hj, ↓reduceIte]; rw [k3 j]; simp [Ne.symm hj])
        split <;> exact hres
      · exact fin { touch s now with exchs := (touch s now).exchs.set i none } rfl (by simp)
          (by rw [slot_set]; simp [hlt]) (fun j hj => by rw [slot_set]; simp [Ne.symm hj])

theorem droppedCount_zero_iff (t : Table) : droppedCount t = 0 ↔ ∀ uid i, ¬ DroppedAt t uid i := by
  constructor
  · intro hz uid i ⟨s, hs, _, e, he, hd⟩
    have hp := droppedIn_pos he hd
    have : droppedIn s ≤ droppedCount t := by
      unfold droppedCount
      exact le_sum_of_mem _ _ (List.mem_map_of_mem hs)
    omega
  · intro h
    unfold droppedCount
    apply sum_eq_zero_of_all
    intro x hx
    obtain ⟨z, hz, rfl⟩ := List.mem_map.1 hx
    apply droppedIn_zero_of
    intro j f hsl
    cases hd : f.role.isDropped with
    | false => rfl
    | true => exact absurd ⟨z, hz, rfl, f, hsl, hd⟩ (h z.uid j)

/-- after as many runs of the closer as there are dropped exchanges, none is left -/
theorem closer_drains : ∀ (k : Nat) (n : Node), Inv n → droppedCount n.t ≤ k →
    droppedCount (closerRuns k n).t = 0 := by
  intro k
  induction k with
  | zero => intro n _ h; simpa [closerRuns] using Nat.le_zero.1 h
  | succ k ih =>
    intro n hi h
    simp only [closerRuns]
    apply ih _ (inv_closer hi)
    by_cases hz : droppedCount n.t = 0
    · have : droppedCount (closer n).1.t ≤ droppedCount n.t := by
        have hq := closer_effect hi.tinv n.now
        have hno := (droppedCount_zero_iff n.t).1 hz
        apply Nat.le_of_eq
        rw [hz, droppedCount_zero_iff]
        intro u j hdj
        show False
        cases ho : (n.t.sweepDropped n.now).2 with
        | nothing =>
          have : (n.t.sweepDropped n.now).1 = n.t := by
            unfold Table.sweepDropped
            have h1 : findDropped true n.t.sessions = none := by
              cases hf : findDropped true n.t.sessions with
              | none => rfl
              | some p =>
                obtain ⟨a, b⟩ := p
                obtain ⟨s, hs, hu, e, he, hd, _⟩ := findDropped_some true _ _ _ hf
                exact absurd ⟨s, hs, hu, e, he, hd⟩ (hno a b)
            have h2 : findDropped false n.t.sessions = none := by
              cases hf : findDropped false n.t.sessions with
              | none => rfl
              | some p =>
                obtain ⟨a, b⟩ := p
                obtain ⟨s, hs, hu, e, he, hd, _⟩ := findDropped_some false _ _ _ hf
                exact absurd ⟨s, hs, hu, e, he, hd⟩ (hno a b)
            simp [h1, h2]
          have hdj' : DroppedAt (n.t.sweepDropped n.now).1 u j := hdj
          rw [this] at hdj'
          exact hno u j hdj'
        | closedSession a b c =>
          rw [ho] at hq
          exact hno u j ((hq.2.2 u j hdj).1)
        | closedExchange a b c d =>
          rw [ho] at hq
          exact hno u j (hq.2.2 u j hdj)
      omega
    · have := closer_decreases hi.tinv n.now (Nat.pos_of_ne_zero hz)
      have h' : droppedCount (closer n).1.t < droppedCount n.t := this
      omega

end RxPath
