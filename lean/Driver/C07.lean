import Driver.Util
/-! Driver for C07: not built yet. -/
namespace Driver.C07

def run : IO UInt32 := do
  IO.eprintln "C07: driver not built yet"
  return 2

end Driver.C07
