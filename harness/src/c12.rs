//! C12: durable counters never hand out the same value twice, across restarts too.
//!
//! Streams (one case = one lifetime of a device's storage, with power losses anywhere):
//!  `g <d0>`           Global Group Encrypted Data Message Counter: the real `Sessions`
//!                     (`load_persist` from a recording KV store, `reserve_global_group_data_ctr`,
//!                     `get_or_init_global_group_data_ctr` through `verif` hooks) + the caller
//!                     protocol of `Exchange::initiate_group` step by step (reserve / store / stash /
//!                     use), so that a crash can be placed before or after every single store.
//!  `G <d0>`           the same, but the `Sessions` live in a real `Matter` object re-hydrated by the real
//!                     `Matter::startup` (`verif_sessions` hook)
//!  `e <d0>`           event numbers: the real `Events::push` with a recording KV store
//!                     (`load_persist` through a `verif` hook); outputs run-length encoded.
//!  `k <d0> <epoch> <init>`  Check-In counter: the real `CheckInCounter`, the harness is the application
//!                     that owns the storage (one `Option<u32>`).
//!  `i <d0> <epoch> <init>`  Check-In counter through the real `Icd` storage wrappers (`load_counter`,
//!                     `persist_counter`, `advance_counter`, `invalidate_counter`, `next_counter`)
//!                     over a recording KV store.
//! `d0` = `none` or the boundary found in storage at the start of the case.
//! crash = every in-memory object is dropped and rebuilt from the recorded store by the real
//! start-up functions.
use crate::proto::{parse_cases, Case, Out};
use crate::rng::Rng;
use crate::Args;

use std::cell::RefCell;
use std::collections::HashMap;
use std::panic::{catch_unwind, AssertUnwindSafe};

use rs_matter::crypto::{default_crypto, Crypto};
use rs_matter::dm::clusters::icd_mgmt::{Icd, IcdModeConfig};
use rs_matter::dm::devices::test::{DAC_PRIVKEY, TEST_DEV_ATT, TEST_DEV_COMM, TEST_DEV_DET};
use rs_matter::error::Error;
use rs_matter::im::events::Events;
use rs_matter::im::EventPriority;
use rs_matter::persist::{
    KvBlobStore, KvBlobStoreAccess, Persist, EVENT_EPOCH_KEY, GROUP_DATA_COUNTER_KEY, ICD_CHECK_IN_COUNTER_KEY,
};
use rs_matter::sc::checkin::CheckInCounter;
use rs_matter::tlv::TLVElement;
use rs_matter::transport::session::Sessions;
use rs_matter::Matter;

#[path = "c12_wire.rs"]
mod wire;
#[path = "c12_icd.rs"]
mod icd;

const MASK: u64 = 0x0fff_ffff;
const U32M: u64 = 1 << 32;

// ---------------------------------------------------------------- recording KV store

#[derive(Default)]
struct MemKv {
    map: HashMap<u16, Vec<u8>>,
    /// every `store` in order
    log: Vec<(u16, Vec<u8>)>,
    /// power loss right after the next `store` has become durable
    die_after_store: bool,
    /// power loss right before the next `store` becomes durable (nothing is written)
    die_before_store: bool,
    /// `Some(n)`: the next `n` `store`s succeed, every later one FAILS with an error (nothing is
    /// written; no power loss)
    fail_after: Option<u32>,
}

impl KvBlobStore for MemKv {
    fn load<'a>(&mut self, key: u16, buf: &'a mut [u8]) -> Result<Option<&'a [u8]>, Error> {
        Ok(self.map.get(&key).map(|v| {
            buf[..v.len()].copy_from_slice(v);
            &buf[..v.len()]
        }))
    }
    fn store(&mut self, key: u16, data: &[u8], _buf: &mut [u8]) -> Result<(), Error> {
        match self.fail_after {
            Some(0) => return Err(rs_matter::error::ErrorCode::StdIoError.into()),
            Some(n) => self.fail_after = Some(n - 1),
            None => {}
        }
        if self.die_before_store {
            self.die_before_store = false;
            panic!("power loss");
        }
        self.map.insert(key, data.to_vec());
        self.log.push((key, data.to_vec()));
        if self.die_after_store {
            self.die_after_store = false;
            panic!("power loss");
        }
        Ok(())
    }
    fn remove(&mut self, key: u16, _buf: &mut [u8]) -> Result<(), Error> {
        self.map.remove(&key);
        Ok(())
    }
}

struct KvAcc<'a> {
    kv: &'a RefCell<MemKv>,
    buf: RefCell<[u8; 128]>,
}

impl<'a> KvAcc<'a> {
    fn new(kv: &'a RefCell<MemKv>) -> Self {
        KvAcc { kv, buf: RefCell::new([0; 128]) }
    }
}

impl KvBlobStoreAccess for KvAcc<'_> {
    fn access<F, R>(&self, f: F) -> R
    where
        F: FnOnce(&mut dyn KvBlobStore, &mut [u8]) -> R,
    {
        let mut kv = self.kv.borrow_mut();
        let mut buf = self.buf.borrow_mut();
        f(&mut *kv, &mut *buf)
    }
}

fn le32(b: &[u8]) -> String {
    match <[u8; 4]>::try_from(b) {
        Ok(a) => u32::from_le_bytes(a).to_string(),
        Err(_) => "badlen".into(),
    }
}

fn opt(o: Option<u32>) -> String {
    o.map(|b| b.to_string()).unwrap_or_else(|| "-".into())
}

fn parse_d0(s: Option<&str>) -> Option<u64> {
    match s {
        None | Some("none") => None,
        Some(x) => x.parse().ok(),
    }
}

// ---------------------------------------------------------------- fixed-draw RNG for the first-use seed

struct FixedRng(u32);
impl rand_core::RngCore for FixedRng {
    fn next_u32(&mut self) -> u32 {
        self.0
    }
    fn next_u64(&mut self) -> u64 {
        self.0 as u64 | ((self.0 as u64) << 32)
    }
    fn fill_bytes(&mut self, dest: &mut [u8]) {
        for (i, d) in dest.iter_mut().enumerate() {
            *d = self.0.to_le_bytes()[i % 4];
        }
    }
    fn try_fill_bytes(&mut self, dest: &mut [u8]) -> Result<(), rand_core::Error> {
        self.fill_bytes(dest);
        Ok(())
    }
}
impl rand_core::CryptoRng for FixedRng {}

// ---------------------------------------------------------------- g: group data counter

/// `g`: a bare `Sessions` re-hydrated by `Sessions::load_persist`;
/// `G`: a whole `Matter` object re-hydrated by the real `Matter::startup` (ties the start-up wiring)
enum GBack {
    Plain(Sessions),
    Full(Box<Matter<'static>>),
}

impl GBack {
    fn with<R>(&mut self, f: impl FnOnce(&mut Sessions) -> R) -> R {
        match self {
            GBack::Plain(s) => f(s),
            GBack::Full(m) => m.with_state(|st| f(st.verif_sessions_mut())),
        }
    }
}

fn g_boot(kv: &mut MemKv, full: bool) -> GBack {
    if full {
        let m = Box::new(Matter::new(&TEST_DEV_DET, TEST_DEV_COMM, &TEST_DEV_ATT, 0));
        let _ = m.startup(m.kv(&mut *kv));
        GBack::Full(m)
    } else {
        let mut s = Sessions::new();
        let mut buf = [0u8; 64];
        let _ = s.load_persist(&mut *kv, &mut buf);
        GBack::Plain(s)
    }
}

fn run_g(out: &mut Out, case: &Case, words: &[&str], full: bool) {
    let mut kv = MemKv::default();
    if let Some(d) = parse_d0(words.get(1).copied()) {
        kv.map.insert(GROUP_DATA_COUNTER_KEY, (d as u32).to_le_bytes().to_vec());
    }
    let mut sess = g_boot(&mut kv, full);
    // `initiate_group`'s critical section between the reservation that returned a boundary and the
    // outcome of its store
    let mut inflight: Option<(u32, u32)> = None;
    // values in the local variables of `initiate_group` calls past their critical section (several =
    // several calls in progress, `sync-mutex` builds), newest first
    let mut held: Vec<u32> = Vec::new();
    let mut ready: Vec<u32> = Vec::new();
    let (mut n_crash, mut n_use, mut n_store) = (0u32, 0u32, 0u32);
    for op in &case.ops {
        let w: Vec<&str> = op.split_whitespace().collect();
        let idx = |w: &[&str]| -> usize { w.get(1).and_then(|x| x.parse().ok()).unwrap_or(0) };
        let res: String = match w.first().copied().unwrap_or("") {
            "reserve" => {
                if inflight.is_some() {
                    // the state lock is held until the store has succeeded or failed
                    "busy".into()
                } else {
                    let rand: u32 = w.get(1).and_then(|x| x.parse().ok()).unwrap_or(0);
                    let crypto = default_crypto(FixedRng(rand), DAC_PRIVKEY);
                    let r = catch_unwind(AssertUnwindSafe(|| sess.with(|s| s.verif_reserve_global_group_data_ctr(&crypto))));
                    match r {
                        Ok(Ok((v, b))) => {
                            match b {
                                Some(b) => inflight = Some((v, b)),
                                None => held.insert(0, v),
                            }
                            let (l, bd) = sess.with(|s| s.verif_group_data_ctr_state());
                            out.stat(if b.is_some() { "g_reserve_some" } else { "g_reserve_none" }, 1);
                            format!("{} {} {} {}", v, opt(b), l, bd)
                        }
                        Ok(Err(_)) => "err".into(),
                        Err(_) => "panic".into(),
                    }
                }
            }
            // exchange.rs: `kv.access(|store, buf| store.store(KEY, &boundary.to_le_bytes(), buf))` succeeds
            "store" => match inflight {
                Some((v, b)) => {
                    let mut buf = [0u8; 64];
                    let _ = kv.store(GROUP_DATA_COUNTER_KEY, &b.to_le_bytes(), &mut buf);
                    inflight = None;
                    held.insert(0, v);
                    n_store += 1;
                    le32(kv.map.get(&GROUP_DATA_COUNTER_KEY).map(|x| x.as_slice()).unwrap_or(&[]))
                }
                None => "-".into(),
            },
            // exchange.rs: the store FAILS: `state.sessions.unreserve_global_group_data_ctr(ctr); return Err(e)`
            "storefail" => match inflight {
                Some((v, _)) => {
                    inflight = None;
                    out.stat("g_storefail", 1);
                    sess.with(|s| s.verif_unreserve_global_group_data_ctr(v));
                    let (l, bd) = sess.with(|s| s.verif_group_data_ctr_state());
                    format!("{} {}", l, bd)
                }
                None => "-".into(),
            },
            // exchange.rs: `exch.group_data_ctr = Some(group_data_ctr)` — reached only after the store
            "stash" => {
                let i = idx(&w);
                if i < held.len() {
                    let v = held.remove(i);
                    ready.insert(0, v);
                    v.to_string()
                } else {
                    "-".into()
                }
            }
            // exchange.rs: `initiate_for_session(..)?` fails after the critical section: the value is dropped
            "abandon" => {
                let i = idx(&w);
                if i < held.len() {
                    held.remove(i).to_string()
                } else {
                    "-".into()
                }
            }
            // session.rs `pre_send`: `group_data_ctr.take()` -> `tx_header.plain.ctr`
            "use" => {
                let i: usize = w.get(1).and_then(|x| x.parse().ok()).unwrap_or(0);
                if i < ready.len() {
                    n_use += 1;
                    ready.remove(i).to_string()
                } else {
                    "-".into()
                }
            }
            "peek" => {
                let rand: u32 = w.get(1).and_then(|x| x.parse().ok()).unwrap_or(0);
                let crypto = default_crypto(FixedRng(rand), DAC_PRIVKEY);
                match catch_unwind(AssertUnwindSafe(|| sess.with(|s| s.verif_get_or_init_global_group_data_ctr(&crypto)))) {
                    Ok(Ok(v)) => {
                        let (l, bd) = sess.with(|s| s.verif_group_data_ctr_state());
                        format!("{} {} {}", v, l, bd)
                    }
                    Ok(Err(_)) => "err".into(),
                    Err(_) => "panic".into(),
                }
            }
            "crash" => {
                n_crash += 1;
                inflight = None;
                held.clear();
                ready.clear();
                sess = g_boot(&mut kv, full);
                let (l, bd) = sess.with(|s| s.verif_group_data_ctr_state());
                format!("{} {}", l, bd)
            }
            _ => "badop".into(),
        };
        out.op(op, &res);
    }
    if n_crash >= 1 && n_use >= 2 && n_store >= 1 {
        out.buf.push_str("#nt\n");
    }
}

// ---------------------------------------------------------------- e: event numbers

type Ev = Events<64>;

fn e_boot(kv: &RefCell<MemKv>) -> Ev {
    let ev = Ev::new();
    let mut buf = [0u8; 64];
    let _ = ev.verif_load_persist(&mut *kv.borrow_mut(), &mut buf);
    ev
}

fn tlv_u64(b: &[u8]) -> String {
    match TLVElement::new(b).u64() {
        Ok(v) => v.to_string(),
        Err(_) => "badtlv".into(),
    }
}

/// drains the store log into `s<v>` tokens
fn drain_stores(kv: &RefCell<MemKv>, toks: &mut Vec<String>) {
    let log: Vec<(u16, Vec<u8>)> = std::mem::take(&mut kv.borrow_mut().log);
    for (k, data) in log {
        if k == EVENT_EPOCH_KEY {
            toks.push(format!("s{}", tlv_u64(&data)));
        } else {
            toks.push(format!("s?{}", k));
        }
    }
}

fn run_e(out: &mut Out, case: &Case, words: &[&str]) {
    let kvc = RefCell::new(MemKv::default());
    if let Some(d) = parse_d0(words.get(1).copied()) {
        // the same encoding path the code uses for this key
        let acc = KvAcc::new(&kvc);
        let _ = Persist::new(&acc).store_tlv(EVENT_EPOCH_KEY, d);
        kvc.borrow_mut().log.clear();
    }
    let mut ev = e_boot(&kvc);
    let (mut n_crash, mut n_push, mut n_store) = (0u32, 0u64, 0u32);
    for op in &case.ops {
        let w: Vec<&str> = op.split_whitespace().collect();
        let res: String = match w.first().copied().unwrap_or("") {
            "push" => {
                let k: u64 = w.get(1).and_then(|x| x.parse().ok()).unwrap_or(1).min(200_000);
                let mut toks: Vec<String> = Vec::new();
                let mut run: Option<(u64, u64)> = None;
                for _ in 0..k {
                    let acc = KvAcc::new(&kvc);
                    let r = catch_unwind(AssertUnwindSafe(|| ev.push(0, 0x28, 0, EventPriority::Info, &acc, |_tw| Ok(()))));
                    let before = toks.len();
                    // a store of this push precedes the number it returned
                    if !kvc.borrow().log.is_empty() {
                        if let Some((a, b)) = run.take() {
                            toks.push(format!("r{}-{}", a, b));
                        }
                        drain_stores(&kvc, &mut toks);
                        n_store += (toks.len() - before) as u32;
                    }
                    match r {
                        Ok(Ok(n)) => {
                            n_push += 1;
                            run = match run {
                                Some((a, b)) if b.wrapping_add(1) == n => Some((a, n)),
                                Some((a, b)) => {
                                    toks.push(format!("r{}-{}", a, b));
                                    Some((n, n))
                                }
                                None => Some((n, n)),
                            };
                        }
                        Ok(Err(_)) => {
                            if let Some((a, b)) = run.take() {
                                toks.push(format!("r{}-{}", a, b));
                            }
                            toks.push("err".into());
                        }
                        Err(_) => {
                            if let Some((a, b)) = run.take() {
                                toks.push(format!("r{}-{}", a, b));
                            }
                            toks.push("panic".into());
                            break;
                        }
                    }
                }
                if let Some((a, b)) = run.take() {
                    toks.push(format!("r{}-{}", a, b));
                }
                if toks.is_empty() {
                    "-".into()
                } else {
                    toks.join(" ")
                }
            }
            // `push` while the KV store FAILS (an error, no power loss)
            "pushfail" => {
                kvc.borrow_mut().fail_after = Some(0);
                let r = {
                    let acc = KvAcc::new(&kvc);
                    catch_unwind(AssertUnwindSafe(|| ev.push(0, 0x28, 0, EventPriority::Info, &acc, |_tw| Ok(()))))
                };
                kvc.borrow_mut().fail_after = None;
                out.stat("e_pushfail", 1);
                match r {
                    Ok(Ok(n)) => {
                        n_push += 1;
                        format!("r{}-{}", n, n)
                    }
                    Ok(Err(_)) => "err".into(),
                    Err(_) => "panic".into(),
                }
            }
            // power loss inside `push`, right after its store became durable (if it stores at all;
            // otherwise the push completes normally and the power loss follows it)
            "pushcrash" => {
                kvc.borrow_mut().die_after_store = true;
                let mut toks: Vec<String> = Vec::new();
                let r = {
                    let acc = KvAcc::new(&kvc);
                    catch_unwind(AssertUnwindSafe(|| ev.push(0, 0x28, 0, EventPriority::Info, &acc, |_tw| Ok(()))))
                };
                // (unwinding dropped the borrow guards of the aborted `push` frame)
                let died = r.is_err();
                kvc.borrow_mut().die_after_store = false;
                let before = toks.len();
                drain_stores(&kvc, &mut toks);
                n_store += (toks.len() - before) as u32;
                if let Ok(Ok(n)) = r {
                    n_push += 1;
                    toks.push(format!("r{}-{}", n, n));
                }
                toks.push(if died { "died".into() } else { "done".into() });
                // restart on the surviving storage
                n_crash += 1;
                ev = e_boot(&kvc);
                toks.push(ev.verif_next_event_number().to_string());
                toks.join(" ")
            }
            "crash" => {
                n_crash += 1;
                ev = e_boot(&kvc);
                ev.verif_next_event_number().to_string()
            }
            _ => "badop".into(),
        };
        out.op(op, &res);
    }
    if n_crash >= 1 && n_push >= 2 && n_store >= 1 {
        out.buf.push_str("#nt\n");
    }
}

// ---------------------------------------------------------------- k / i: Check-In counter

fn icd_mode() -> IcdModeConfig {
    IcdModeConfig {
        idle_mode_duration_s: 3600,
        active_mode_duration_ms: 1000,
        active_mode_threshold_ms: 300,
        user_active_mode_trigger_hint: 0,
        user_active_mode_trigger_instruction: "",
    }
}

fn run_k(out: &mut Out, case: &Case, words: &[&str]) {
    let mut durable: Option<u32> = parse_d0(words.get(1).copied()).map(|d| d as u32);
    let epoch: u32 = words.get(2).and_then(|x| x.parse().ok()).unwrap_or(10).max(1);
    let init: u32 = words.get(3).and_then(|x| x.parse().ok()).unwrap_or(0);
    let mut ctr = CheckInCounter::new(durable.unwrap_or(init), epoch);
    let (mut n_crash, mut n_use, mut n_store) = (0u32, 0u32, 0u32);
    for op in &case.ops {
        let w: Vec<&str> = op.split_whitespace().collect();
        let res: String = match w.first().copied().unwrap_or("") {
            "boot" => {
                n_crash += 1;
                let i: u32 = w.get(1).and_then(|x| x.parse().ok()).unwrap_or(0);
                ctr = CheckInCounter::new(durable.unwrap_or(i), epoch);
                format!("{} {}", ctr.next(), ctr.persist_value())
            }
            "persist" => {
                durable = Some(ctr.persist_value());
                n_store += 1;
                opt(durable)
            }
            "use" => {
                n_use += 1;
                ctr.next().to_string()
            }
            "adv" => opt(ctr.advance()),
            "advst" => {
                let r = ctr.advance();
                if let Some(b) = r {
                    durable = Some(b);
                    n_store += 1;
                }
                opt(r)
            }
            "jump" => {
                let d: u32 = w.get(1).and_then(|x| x.parse().ok()).unwrap_or(0);
                opt(ctr.advance_by(d))
            }
            _ => "badop".into(),
        };
        out.op(op, &res);
    }
    if n_crash >= 1 && n_use >= 2 && n_store >= 1 {
        out.buf.push_str("#nt\n");
    }
}

fn i_boot(kv: &mut MemKv, init: u32, epoch: u32) -> Icd {
    let icd = Icd::new(CheckInCounter::new(init, epoch), icd_mode());
    let mut buf = [0u8; 64];
    let _ = icd.load_counter(&mut *kv, epoch, &mut buf);
    icd
}

fn run_i(out: &mut Out, case: &Case, words: &[&str]) {
    let mut kv = MemKv::default();
    if let Some(d) = parse_d0(words.get(1).copied()) {
        kv.map.insert(ICD_CHECK_IN_COUNTER_KEY, (d as u32).to_le_bytes().to_vec());
    }
    let epoch: u32 = words.get(2).and_then(|x| x.parse().ok()).unwrap_or(10).max(1);
    let init: u32 = words.get(3).and_then(|x| x.parse().ok()).unwrap_or(0);
    let mut icd = i_boot(&mut kv, init, epoch);
    let (mut n_crash, mut n_use, mut n_store) = (0u32, 0u32, 0u32);
    let stored = |kv: &mut MemKv| -> String {
        let l = std::mem::take(&mut kv.log);
        match l.last() {
            Some((k, d)) if *k == ICD_CHECK_IN_COUNTER_KEY => le32(d),
            Some(_) => "wrongkey".into(),
            None => "-".into(),
        }
    };
    for op in &case.ops {
        let w: Vec<&str> = op.split_whitespace().collect();
        let mut buf = [0u8; 64];
        let res: String = match w.first().copied().unwrap_or("") {
            "boot" => {
                n_crash += 1;
                let i: u32 = w.get(1).and_then(|x| x.parse().ok()).unwrap_or(0);
                icd = i_boot(&mut kv, i, epoch);
                icd.next_counter().to_string()
            }
            "persist" => {
                let _ = icd.persist_counter(&mut kv, &mut buf);
                n_store += 1;
                stored(&mut kv)
            }
            "persistfail" => {
                kv.fail_after = Some(0);
                let r = icd.persist_counter(&mut kv, &mut buf);
                kv.fail_after = None;
                if r.is_err() { "err".into() } else { "ok".into() }
            }
            "advstfail" => {
                kv.fail_after = Some(0);
                let r = icd.advance_counter(&mut kv, &mut buf);
                kv.fail_after = None;
                out.stat("i_advstfail", 1);
                if r.is_err() { "err".into() } else { "-".into() }
            }
            "use" => {
                n_use += 1;
                icd.next_counter().to_string()
            }
            "advst" => {
                let _ = icd.advance_counter(&mut kv, &mut buf);
                let s = stored(&mut kv);
                if s != "-" {
                    n_store += 1;
                }
                s
            }
            "jump" => {
                let d: u32 = w.get(1).and_then(|x| x.parse().ok()).unwrap_or(0);
                if icd.invalidate_counter(d) {
                    "y".into()
                } else {
                    "-".into()
                }
            }
            _ => "badop".into(),
        };
        out.op(op, &res);
    }
    if n_crash >= 1 && n_use >= 2 && n_store >= 1 {
        out.buf.push_str("#nt\n");
    }
}

// ---------------------------------------------------------------- dispatch

fn run_case(out: &mut Out, case: &Case) {
    out.case(case.id, &case.kind);
    let words: Vec<&str> = case.kind.split_whitespace().collect();
    match words.first().copied().unwrap_or("") {
        "g" => run_g(out, case, &words, false),
        "G" => run_g(out, case, &words, true),
        "W" => wire::run_w(out, case, &words),
        "C" => icd::run_c(out, case, &words),
        "e" => run_e(out, case, &words),
        "k" => run_k(out, case, &words),
        "i" => run_i(out, case, &words),
        _ => {
            for op in &case.ops {
                out.op(op, "badkind");
            }
        }
    }
}

// ---------------------------------------------------------------- generators

fn d0_str(d: Option<u64>) -> String {
    d.map(|x| x.to_string()).unwrap_or_else(|| "none".into())
}

/// stored boundary at the start of a `g` case: concentrated at the wrap-around of the 28-bit range
fn gen_g_d0(r: &mut Rng, out: &mut Out) -> Option<u64> {
    match r.below(100) {
        0..=7 => { out.stat("g_d0_none", 1); None }
        8..=47 => { out.stat("g_d0_near_top", 1); Some(MASK - r.below(2101)) }
        48..=55 => { out.stat("g_d0_top_exact", 1); Some(*r.pick(&[MASK, MASK - 1, MASK - 999, MASK - 1000, MASK - 1001, MASK - 998])) }
        56..=63 => { out.stat("g_d0_zero", 1); Some(0) }
        64..=75 => { out.stat("g_d0_low", 1); Some(*r.pick(&[1u64, 2, 3, 999, 1000, 1001, 1002, 2001])) }
        _ => { out.stat("g_d0_uniform", 1); Some(1 + r.below(MASK)) }
    }
}

fn gen_g_rand(r: &mut Rng) -> u64 {
    match r.below(10) {
        0 => 0,
        1 => 1 << 28,                      // masks to 0 -> 1
        2 => (r.below(16) << 28) | MASK,   // masks to the top of the range
        3 => (r.below(16) << 28) | (MASK - r.below(1200)),
        4 => 1,
        _ => r.below(U32M),
    }
}

fn gen_g(r: &mut Rng, out: &mut Out, sends: u64) -> Vec<String> {
    let mut ops: Vec<String> = Vec::new();
    let p_crash = *r.pick(&[0u64, 2, 5, 10, 25]);
    let p_defer = *r.pick(&[0u64, 10, 40]);
    // failing stores: none, rare, frequent, bursts (the store keeps failing for a while)
    let p_fail = *r.pick(&[0u64, 0, 3, 15, 40]);
    // several `initiate_group` calls in progress at once (values held, released in any order)
    let p_overlap = *r.pick(&[0u64, 0, 10, 35]);
    let mut ready = 0u64; // generator's estimates, only used to pick indices
    let mut held = 0u64;
    let crash = |ops: &mut Vec<String>, ready: &mut u64, held: &mut u64, out: &mut Out, at: &str| {
        out.stat(&format!("g_crash_{}", at), 1);
        ops.push("crash".into());
        *ready = 0;
        *held = 0;
    };
    for _ in 0..sends {
        if r.chance(p_crash, 100) { crash(&mut ops, &mut ready, &mut held, out, "before_reserve"); }
        if r.chance(3, 100) { ops.push(format!("peek {}", gen_g_rand(r))); }
        ops.push(format!("reserve {}", gen_g_rand(r)));
        if r.chance(p_crash, 100) { crash(&mut ops, &mut ready, &mut held, out, "after_reserve"); continue; }
        if r.chance(2, 100) { ops.push("stash".into()); } // nothing is held before the store (unless calls overlap)
        if r.chance(p_fail, 100) {
            // the store fails (a no-op when this reservation needed none); the caller gives up
            out.stat("g_gen_storefail", 1);
            ops.push("storefail".into());
            if r.chance(1, 3) { crash(&mut ops, &mut ready, &mut held, out, "after_storefail"); }
            // (when no store was needed the value is held: release it below like any other)
            ops.push("store".into());
        } else {
            ops.push("store".into());
        }
        held += 1;
        if r.chance(p_crash, 100) { crash(&mut ops, &mut ready, &mut held, out, "after_store"); continue; }
        if r.chance(p_overlap, 100) && held < 4 { out.stat("g_gen_overlap", 1); continue; }
        while held > 0 {
            if r.chance(4, 100) {
                ops.push(format!("abandon {}", r.below(held)));
            } else {
                ops.push(format!("stash {}", r.below(held)));
                ready += 1;
            }
            held -= 1;
            if r.chance(1, 4) { break; }
        }
        if r.chance(p_crash, 100) { crash(&mut ops, &mut ready, &mut held, out, "after_stash"); continue; }
        if r.chance(p_defer, 100) { out.stat("g_use_deferred", 1); continue; }
        while ready > 0 {
            ops.push(format!("use {}", r.below(ready)));
            ready -= 1;
            if r.chance(p_crash, 200) { crash(&mut ops, &mut ready, &mut held, out, "after_use"); }
            if r.chance(1, 3) { break; }
        }
    }
    while held > 0 {
        ops.push(format!("stash {}", r.below(held)));
        held -= 1;
        ready += 1;
    }
    while ready > 0 {
        ops.push(format!("use {}", r.below(ready)));
        ready -= 1;
    }
    ops
}

/// `W`: the real group transmit path. Power losses before / after the store inside `initiate_group`,
/// between open and send, after sends; several exchanges waiting, sent in any order; sometimes more
/// waiting exchanges than a session has slots (`initiate_group` then fails after its store).
fn gen_w(r: &mut Rng, out: &mut Out, sends: u64) -> Vec<String> {
    let mut ops: Vec<String> = Vec::new();
    let p_crash = *r.pick(&[0u64, 3, 8, 20]);
    let p_defer = *r.pick(&[0u64, 15, 50]);
    // failing stores inside `initiate_group`: none, rare, frequent
    let p_fail = *r.pick(&[0u64, 0, 4, 15, 40]);
    let mut waiting = 0u64; // generator's estimate, only used to pick indices
    for _ in 0..sends {
        if r.chance(p_crash, 100) {
            out.stat("w_gen_crash_between", 1);
            ops.push("crash".into());
            waiting = 0;
        }
        if r.chance(p_fail, 100) {
            // (an `openfail` that needs no store is an ordinary open: the exchange waits)
            out.stat("w_gen_openfail", 1);
            ops.push(format!("openfail {}", gen_g_rand(r)));
            if r.chance(1, 2) {
                continue;
            }
        }
        if r.chance(p_crash, 100) {
            let how = if r.chance(1, 2) { "a" } else { "b" };
            ops.push(format!("opencrash {} {}", how, gen_g_rand(r)));
            waiting = 0;
            continue;
        }
        ops.push(format!("open {}", gen_g_rand(r)));
        if waiting < 5 {
            waiting += 1;
        }
        if r.chance(p_defer, 100) {
            out.stat("w_gen_send_deferred", 1);
            continue;
        }
        while waiting > 0 {
            ops.push(format!("send {}", r.below(waiting)));
            waiting -= 1;
            if r.chance(p_crash, 200) {
                ops.push("crash".into());
                waiting = 0;
            }
            if r.chance(1, 3) {
                break;
            }
        }
    }
    while waiting > 0 {
        ops.push(format!("send {}", r.below(waiting)));
        waiting -= 1;
    }
    ops
}

/// `W`, slots full at an epoch crossing: all `MAX_EXCHANGES` group exchanges stay open (never
/// dropped) while reservations go on -- each further `initiate_group` consumes a value and fails
/// with `NoSpaceExchanges` AFTER its store -- until the reservation that crosses the stored boundary
/// happens with no free slot; then send, open and send again, restart within the epoch, send again.
fn gen_w_full(r: &mut Rng, out: &mut Out) -> Vec<String> {
    let mut ops: Vec<String> = Vec::new();
    let slots = 5u64;
    for _ in 0..slots {
        ops.push("open 0".into());
    }
    // the first reservation after a start crosses the boundary; the next crossing is the 1001st
    // (1000th across the wrap); go a little short of / beyond it
    let target = 1000 + r.below(4);
    let mut reserved = slots;
    while reserved < target {
        if r.chance(1, 60) {
            // free one slot and take it again: the slots are full again at the next reservation
            ops.push(format!("send {}", r.below(slots)));
            ops.push("open 0".into());
            reserved += 1;
        } else {
            ops.push("open 0".into());
            reserved += 1;
        }
    }
    out.stat("w_gen_full_at_crossing", 1);
    if r.chance(1, 3) {
        ops.push("openfail 0".into());
    }
    let mut waiting = slots;
    for _ in 0..r.range(1, 4) {
        ops.push(format!("send {}", r.below(waiting)));
        waiting -= 1;
        if r.chance(2, 3) {
            ops.push("open 0".into());
            waiting += 1;
        }
    }
    if r.chance(1, 2) {
        ops.push("crash".into());
    } else {
        ops.push(format!("opencrash {} 0", if r.chance(1, 2) { "a" } else { "b" }));
    }
    for _ in 0..r.range(1, 5) {
        ops.push("open 0".into());
        ops.push("send 0".into());
    }
    ops
}

fn gen_e_d0(r: &mut Rng, out: &mut Out) -> Option<u64> {
    match r.below(100) {
        0..=24 => { out.stat("e_d0_none", 1); None }
        25..=59 => { out.stat("e_d0_small", 1); Some(10000 * r.range(1, 5)) }
        60..=79 => { out.stat("e_d0_mid", 1); Some(10000 * *r.pick(&[429496u64, 429497, 1 << 20, 1 << 40, 922337203685477])) }
        80..=96 => { out.stat("e_d0_u64_high", 1); Some(10000 * (1844674407370955 - r.range(120, 400))) }
        // next to the wrap of the u64: model correspondence only (the oracle is off there)
        _ => { out.stat("e_d0_u64_wrapzone", 1); Some(10000 * (1844674407370955 - r.range(0, 3))) }
    }
}

fn gen_e(r: &mut Rng, out: &mut Out, budget: u64) -> Vec<String> {
    let mut ops: Vec<String> = Vec::new();
    let mut left = budget;
    let n = r.range(2, 14);
    for _ in 0..n {
        match r.below(100) {
            0..=19 => { out.stat("e_crash", 1); ops.push("crash".into()); }
            20..=26 => { out.stat("e_pushcrash", 1); ops.push("pushcrash".into()); }
            27..=29 => { out.stat("e_gen_pushfail", 1); for _ in 0..r.range(1, 3) { ops.push("pushfail".into()); } }
            30..=59 => { let k = r.range(1, 5); ops.push(format!("push {}", k)); left = left.saturating_sub(k); }
            60..=84 => {
                // to just before / onto / past the next epoch boundary
                let k = (*r.pick(&[9990u64, 9995, 9998, 9999, 10000, 10001, 10005])).min(left);
                if k > 0 { out.stat("e_push_epoch", 1); ops.push(format!("push {}", k)); left -= k; }
                if r.chance(1, 4) { out.stat("e_gen_pushfail", 1); ops.push("pushfail".into()); }
            }
            _ => { let k = r.range(1, 3000).min(left); if k > 0 { ops.push(format!("push {}", k)); left -= k; } }
        }
    }
    ops
}

fn gen_k_epoch(r: &mut Rng) -> u64 {
    match r.below(10) {
        0 => 1,
        1 => 2,
        2 => 3,
        3..=5 => *r.pick(&[4u64, 10, 16, 100]),
        6..=7 => 1000,
        8 => 65536,
        _ => *r.pick(&[1u64 << 31, U32M - 1, (1 << 31) + 1, 1 << 24]),
    }
}

fn gen_k_start(r: &mut Rng, epoch: u64) -> u64 {
    match r.below(10) {
        0..=4 => (U32M - 1 - r.below(2 * epoch.min(2000) + 3)) % U32M,
        5 => *r.pick(&[0u64, 1, 2, U32M - 1, U32M - 2]),
        6 => (U32M - epoch) % U32M,
        7 => (U32M - epoch - 1) % U32M,
        _ => r.below(U32M),
    }
}

/// `icd` = the ops available through `Icd` only; `well` = the application obeys the interface
fn gen_k(r: &mut Rng, out: &mut Out, icd: bool, well: bool, len: u64, epoch: u64) -> Vec<String> {
    let mut ops: Vec<String> = Vec::new();
    // the application's view of the protocol (only used to generate well-behaved histories)
    let mut pending = true;
    let mut peeked = false;
    let mut spent: u64 = 0; // positions consumed, to stay within one cycle in well-behaved cases
    let big_ok = epoch < (1 << 20);
    for _ in 0..len {
        let c = r.below(100);
        if c < 10 {
            out.stat("k_boot", 1);
            ops.push(format!("boot {}", gen_k_start(r, epoch)));
            pending = true;
            peeked = false;
            spent += epoch;
        } else if c < 30 {
            if pending || r.chance(1, 6) {
                ops.push("persist".into());
                pending = false;
            }
        } else if c < 65 {
            if well && (pending || peeked) {
                // obey: store first / advance first
                if pending { ops.push("persist".into()); pending = false; }
                if peeked { ops.push(if icd || r.chance(1, 2) { "advst".into() } else { "adv".into() }); peeked = false; spent += 1; if ops.last().map(|s| s == "adv").unwrap_or(false) { ops.push("persist".into()); } }
            }
            if !well && (pending || peeked) { out.stat("k_use_disobeying", 1); }
            ops.push("use".into());
            peeked = true;
        } else if c < 90 {
            if icd && r.chance(1, 8) {
                // the store of `advance_counter` fails (if one is due): the application is told by the
                // error; well-behaved = it stores before it sends again (retrying while that fails too)
                out.stat("k_gen_advstfail", 1);
                ops.push("advstfail".into());
                if well {
                    while r.chance(1, 3) { ops.push("persistfail".into()); }
                    ops.push("persist".into());
                    pending = false;
                } else {
                    pending = true;
                }
            } else if icd || r.chance(2, 3) {
                ops.push("advst".into());
            } else {
                ops.push("adv".into());
                // the application may not know whether a boundary was returned: well-behaved = store whenever told;
                // the generator cannot see the answer, so it stores unconditionally half of the time and
                // otherwise marks the state as possibly pending
                if well || r.chance(1, 2) { ops.push("persist".into()); pending = false; } else { pending = true; }
            }
            peeked = false;
            spent += 1;
        } else {
            let d = match r.below(6) {
                0 => 0,
                1 => r.range(1, epoch.min(50)),
                2 => epoch,
                3 => epoch + r.below(3),
                4 if big_ok && spent < (1 << 30) => *r.pick(&[(U32M - 1) / 2, 1 << 31, 1 << 30]),
                _ => r.below(5000),
            };
            let d = d.min(U32M - 1);
            if well && spent + d + 4 * epoch >= U32M - 1 { continue; }
            out.stat("k_jump", 1);
            ops.push(format!("jump {}", d));
            spent += d;
            if well || r.chance(1, 2) { ops.push("persist".into()); pending = false; } else { pending = true; }
        }
    }
    ops
}

/// `C`: the real `Icd::send_check_in`; `well` = the application obeys the interface (persist after
/// every (re)start and after a jump that moved the boundary)
fn gen_c(r: &mut Rng, out: &mut Out, well: bool, len: u64, epoch: u64) -> Vec<String> {
    let mut ops: Vec<String> = Vec::new();
    // failing stores: none, rare, frequent, mostly (small epochs make every other store fail)
    let p_fail = *r.pick(&[0u64, 0, 5, 20, 60]);
    let mut pending = true;
    let mut spent: u64 = 0;
    let big_ok = epoch < (1 << 20);
    for _ in 0..len {
        match r.below(100) {
            0..=7 => {
                out.stat("c_gen_boot", 1);
                ops.push(format!("boot {}", gen_k_start(r, epoch)));
                pending = true;
                spent += epoch;
            }
            8..=17 => {
                if pending || r.chance(1, 6) {
                    ops.push("persist".into());
                    pending = false;
                }
            }
            18..=74 => {
                if well && pending {
                    ops.push("persist".into());
                    pending = false;
                }
                if !well && pending {
                    out.stat("c_gen_checkin_disobeying", 1);
                }
                if r.chance(p_fail, 100) {
                    // failing stores inside `send_check_in`: the first n succeed (n = 0: the retry of a due
                    // boundary fails and nothing is sent; n = 1 with a due boundary: the retry succeeds, the
                    // store of `advance_counter` fails again)
                    out.stat("c_gen_checkinfail", 1);
                    ops.push(format!("checkinfail {}", r.below(2)));
                } else {
                    ops.push("checkin".into());
                }
                spent += 1;
            }
            75..=86 => {
                if well && pending {
                    ops.push("persist".into());
                }
                let how = if r.chance(1, 2) { "a" } else { "b" };
                ops.push(format!("checkincrash {} {}", how, gen_k_start(r, epoch)));
                pending = true;
                spent += 1 + epoch;
            }
            _ => {
                let d = match r.below(6) {
                    0 => 0,
                    1 => r.range(1, epoch.min(50)),
                    2 => epoch,
                    3 => epoch + r.below(3),
                    4 if big_ok && spent < (1 << 30) => *r.pick(&[(U32M - 1) / 2, 1 << 31, 1 << 30]),
                    _ => r.below(5000),
                };
                let d = d.min(U32M - 1);
                if well && spent + d + 4 * epoch >= U32M - 1 {
                    continue;
                }
                out.stat("c_gen_jump", 1);
                ops.push(format!("jump {}", d));
                spent += d;
                if well || r.chance(1, 2) {
                    ops.push("persist".into());
                    pending = false;
                } else {
                    pending = true;
                }
            }
        }
    }
    ops
}

pub fn gen(a: &Args) -> String {
    let mut r = Rng::new(a.seed);
    let mut out = Out::default();
    out.buf.push_str("#rule one case = one lifetime of a device's storage: a start boundary (absent, 0, 1, next to the wrap-around of the counter range, or uniform) and a history of reservations / stores / uses with power losses placed before or after every individual store; streams W (the real group transmit path: a real Matter re-hydrated by Matter::startup from a recording / crash-injecting KV store, Exchange::initiate_group + group_invoke_with, the counter read from the datagram handed to the network; plus all W histories of length 4 (quick) / 6 (thorough) over {open, send, power loss before / after the store inside initiate_group, power loss}), g (group data counter through the real Sessions + initiate_group's caller protocol; plus all g histories of length 6 (quick) / 7 (thorough) over {reserve, store, stash, use, crash} from start values at the wrap), e (Events::push with a recording KV store), C (the real Icd::send_check_in on a real Matter, the harness answering the mDNS resolve; the counter decrypted from the Check-In datagram handed to the network; power loss before / after the store of advance_counter), k (CheckInCounter, harness = application), i (Icd storage wrappers); non-trivial = at least one power loss, at least two values used and at least one store in the case (cases not reaching that are still counted when they produced two different outputs); distinct = by start boundary + operation list\n");
    // all `g` histories of a fixed length over the caller's alphabet, from start values at the wrap
    // (shorter histories are prefixes of these)
    let alphabet = ["reserve 0", "store", "storefail", "stash", "use 0", "crash"];
    let (exh_len, exh_starts): (u32, &[Option<u64>]) = if a.thorough {
        (7, &[Some(MASK), Some(MASK - 1), Some(MASK - 999), Some(MASK - 998), Some(0), None])
    } else {
        (6, &[Some(MASK), Some(MASK - 999), Some(0), None])
    };
    let mut exh_id: u64 = 1_000_000;
    for d0 in exh_starts {
        for code in 0..(alphabet.len() as u64).pow(exh_len) {
            let mut c = code;
            let mut ops: Vec<String> = Vec::with_capacity(exh_len as usize);
            for _ in 0..exh_len {
                ops.push(alphabet[(c % alphabet.len() as u64) as usize].to_string());
                c /= alphabet.len() as u64;
            }
            out.stat("kind_g_exhaustive", 1);
            run_case(&mut out, &Case { id: exh_id, kind: format!("g {}", d0_str(*d0)), ops });
            exh_id += 1;
        }
    }
    // the same for the REAL transmit path (`W`): all histories of a fixed length over
    // {open, send, power loss before / after the store inside initiate_group, power loss}
    let w_alphabet = ["open 0", "openfail 0", "send 0", "opencrash b 0", "opencrash a 0", "crash"];
    let (w_len, w_starts): (u32, &[Option<u64>]) = if a.thorough {
        (6, &[Some(MASK), Some(MASK - 999), Some(MASK - 1), Some(0), None])
    } else {
        (4, &[Some(MASK), Some(MASK - 999), Some(0), None])
    };
    let mut w_id: u64 = 2_000_000;
    for d0 in w_starts {
        for code in 0..(w_alphabet.len() as u64).pow(w_len) {
            let mut c = code;
            let mut ops: Vec<String> = Vec::with_capacity(w_len as usize);
            for _ in 0..w_len {
                ops.push(w_alphabet[(c % w_alphabet.len() as u64) as usize].to_string());
                c /= w_alphabet.len() as u64;
            }
            out.stat("kind_W_exhaustive", 1);
            run_case(&mut out, &Case { id: w_id, kind: format!("W {}", d0_str(*d0)), ops });
            w_id += 1;
        }
    }
    let n_w: u64 = if a.thorough { 4000 } else { 300 };
    for _ in 0..n_w {
        let mut cr = r.fork();
        let d0 = gen_g_d0(&mut cr, &mut out);
        let sends = match cr.below(100) {
            0..=59 => cr.range(1, 12),
            60..=91 => cr.range(12, 60),
            _ => cr.range(900, 1200),
        };
        out.stat("kind_W", 1);
        // one in ten: the slots-full-at-an-epoch-crossing shape
        let ops = if cr.chance(1, 10) { gen_w_full(&mut cr, &mut out) } else { gen_w(&mut cr, &mut out, sends) };
        run_case(&mut out, &Case { id: w_id, kind: format!("W {}", d0_str(d0)), ops });
        w_id += 1;
    }
    // the real `Icd::send_check_in` (`C`)
    let n_c: u64 = if a.thorough { 4000 } else { 300 };
    for _ in 0..n_c {
        let mut cr = r.fork();
        let epoch = gen_k_epoch(&mut cr);
        let d0 = if cr.chance(1, 6) { None } else { Some(gen_k_start(&mut cr, epoch)) };
        let init = gen_k_start(&mut cr, epoch);
        let well = cr.chance(4, 5);
        let len = if cr.chance(1, 12) { cr.range(200, 900) } else { cr.range(3, 50) };
        out.stat("kind_C", 1);
        out.stat(if well { "c_wellbehaved_cases" } else { "c_disobeying_cases" }, 1);
        let ops = gen_c(&mut cr, &mut out, well, len, epoch);
        run_case(&mut out, &Case { id: w_id, kind: format!("C {} {} {}", d0_str(d0), epoch, init), ops });
        w_id += 1;
    }
    let n_cases: u64 = if a.thorough { 60000 } else { 3000 };
    let mut e_budget: u64 = if a.thorough { 60_000_000 } else { 2_500_000 };
    for id in 0..n_cases {
        let mut cr = r.fork();
        let sel = cr.below(100);
        let (kind, ops) = if sel < 45 {
            let d0 = gen_g_d0(&mut cr, &mut out);
            // mostly short; some long enough to run through a whole epoch and the wrap
            let sends = match cr.below(100) {
                0..=59 => cr.range(1, 12),
                60..=89 => cr.range(12, 80),
                90..=96 => cr.range(900, 1300),
                _ => cr.range(2000, if a.thorough { 6000 } else { 3200 }),
            };
            // one in five through a whole `Matter` object and the real `Matter::startup` (short ones only)
            let full = sends <= 80 && cr.chance(1, 5);
            out.stat(if full { "kind_G_matter_startup" } else { "kind_g" }, 1);
            (format!("{} {}", if full { "G" } else { "g" }, d0_str(d0)), gen_g(&mut cr, &mut out, sends))
        } else if sel < 60 {
            let d0 = gen_e_d0(&mut cr, &mut out);
            let per_case = if e_budget > 30000 { 30000 } else { e_budget.min(50) };
            let ops = gen_e(&mut cr, &mut out, per_case);
            let spent: u64 = ops.iter().filter_map(|o| o.strip_prefix("push ").and_then(|x| x.parse::<u64>().ok())).sum();
            e_budget = e_budget.saturating_sub(spent);
            out.stat("kind_e", 1);
            (format!("e {}", d0_str(d0)), ops)
        } else {
            let icd = sel >= 82;
            let epoch = gen_k_epoch(&mut cr);
            let d0 = if cr.chance(1, 6) { None } else { Some(gen_k_start(&mut cr, epoch)) };
            let init = gen_k_start(&mut cr, epoch);
            let well = cr.chance(4, 5);
            let len = if cr.chance(1, 10) { cr.range(200, 1500) } else { cr.range(3, 60) };
            out.stat(if icd { "kind_i" } else { "kind_k" }, 1);
            out.stat(if well { "k_wellbehaved_cases" } else { "k_disobeying_cases" }, 1);
            (format!("{} {} {} {}", if icd { "i" } else { "k" }, d0_str(d0), epoch, init), gen_k(&mut cr, &mut out, icd, well, len, epoch))
        };
        run_case(&mut out, &Case { id, kind, ops });
    }
    out.finish()
}

pub fn replay(a: &Args) -> String {
    let text = std::fs::read_to_string(a.input.as_ref().expect("--in")).expect("read input");
    let mut out = Out::default();
    for c in parse_cases(&text) {
        run_case(&mut out, &c);
    }
    out.finish()
}

#[allow(unused)]
fn _crypto_is_used<C: Crypto>(_c: C) {}
