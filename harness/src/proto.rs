//! Line protocol shared with the Lean driver (see lean/Driver/Util.lean).
//!
//! `gen` writes, per case, `case <id> <kind..>` followed by `<op> => <impl out>` lines.
//! `replay` re-executes the op part of such a file on the implementation and rewrites the outputs.
use std::collections::BTreeMap;
use std::fmt::Write as _;

#[derive(Default)]
pub struct Out {
    pub buf: String,
    pub stats: BTreeMap<String, u64>,
    pub cases: u64,
    pub ops: u64,
}

impl Out {
    pub fn case(&mut self, id: u64, kind: &str) {
        self.cases += 1;
        let _ = writeln!(self.buf, "case {} {}", id, kind);
    }
    pub fn op(&mut self, op: &str, out: &str) {
        self.ops += 1;
        let _ = writeln!(self.buf, "{} => {}", op, out);
    }
    pub fn stat(&mut self, key: &str, n: u64) {
        *self.stats.entry(key.to_string()).or_insert(0) += n;
    }
    pub fn finish(mut self) -> String {
        let _ = writeln!(self.buf, "#stat cases {}", self.cases);
        let _ = writeln!(self.buf, "#stat ops {}", self.ops);
        for (k, v) in &self.stats {
            let _ = writeln!(self.buf, "#stat {} {}", k, v);
        }
        self.buf
    }
}

/// A parsed replay/corpus file: cases with their op strings (implementation outputs stripped).
pub struct Case {
    pub id: u64,
    pub kind: String,
    pub ops: Vec<String>,
}

pub fn parse_cases(text: &str) -> Vec<Case> {
    let mut cases: Vec<Case> = Vec::new();
    for line in text.lines() {
        let line = line.trim();
        if line.is_empty() || line.starts_with('#') {
            continue;
        }
        let op = line.split(" => ").next().unwrap_or("").trim().to_string();
        if let Some(rest) = op.strip_prefix("case ") {
            let mut it = rest.splitn(2, ' ');
            let id = it.next().and_then(|s| s.parse().ok()).unwrap_or(0);
            let kind = it.next().unwrap_or("").to_string();
            cases.push(Case { id, kind, ops: Vec::new() });
        } else if let Some(c) = cases.last_mut() {
            c.ops.push(op);
        }
    }
    cases
}

pub fn hex(b: &[u8]) -> String {
    let mut s = String::with_capacity(b.len() * 2);
    for x in b {
        let _ = write!(s, "{:02x}", x);
    }
    if s.is_empty() {
        s.push('-');
    }
    s
}

pub fn unhex(s: &str) -> Vec<u8> {
    if s == "-" {
        return Vec::new();
    }
    (0..s.len() / 2)
        .map(|i| u8::from_str_radix(&s[2 * i..2 * i + 2], 16).unwrap_or(0))
        .collect()
}
