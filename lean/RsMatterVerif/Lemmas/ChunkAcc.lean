import RsMatterVerif.Lemmas.Chunk
/-!
# Size accounting and per-message progress for answers that carry events (C14)

`Accounts c a e ch`: the length of message `ch` is header + (attribute array, if the message has one:
`a`) + (event array, if it has one: `e`) + one `end_container` per array that ends inside the
message by a structural write + trailer (the trailer of a non-final message contains the end of the
array that is still open).  `XInv`: the invariant of the event section that carries it, and the
count of report-less messages (`bare`): while the open message still contains the attribute array
no finished message is bare; afterwards at most one is — the message in which the attribute array
ended, when the first event report did not fit behind it.
-/
namespace Chunk

theorem sumEv_reverse (ps : List EvPiece) : sumEv ps.reverse = sumEv ps := by
  simp [sumEv, List.sum_reverse]

/-- the message carries no report -/
def ChunkOut.bare (ch : ChunkOut) : Bool := ch.pieces.isEmpty && ch.events.isEmpty

def bareCount (l : List ChunkOut) : Nat := (l.filter ChunkOut.bare).length

theorem bareCount_cons (ch : ChunkOut) (l : List ChunkOut) :
    bareCount (ch :: l) = (if ch.bare then 1 else 0) + bareCount l := by
  unfold bareCount
  simp only [List.filter_cons]
  split <;> simp <;> omega

/-- **size accounting of one message**; `a`: the message contains the attribute array (or its
continuation), `e`: it contains the event array (or its continuation) -/
def Accounts (c : Cfg) (a e : Bool) (ch : ChunkOut) : Prop :=
  ch.size = c.hdr + (if a then c.arrOpen + sumSizes ch.pieces else 0) +
      (if e then c.evOpen + sumEv ch.events else 0) +
      (if a && (e || !ch.more) then c.close else 0) + (if e && !ch.more then c.close else 0) +
      (if ch.more then c.trailerMore else c.trailerDone) ∧
    (a = false → ch.pieces = []) ∧ (e = false → ch.events = [])

/-- a finished message: accounted for; a bare one closes the attribute array and opens the event array -/
def DoneOk (c : Cfg) (hasAttrs hasEv : Bool) (ch : ChunkOut) : Prop :=
  ch.more = true ∧ ∃ a e, (a = true → hasAttrs = true) ∧ (e = true → hasEv = true) ∧ Accounts c a e ch ∧
    (ch.bare = true → a = true ∧ e = true)

/-- invariant of the event section for accounting and progress -/
structure XInv (c : Cfg) (hasAttrs : Bool) (s : ESt) : Prop where
  used : s.used = s.base + sumEv s.evs
  baseF : s.fresh = true → s.base = c.hdr + c.evOpen ∧ s.attrs = []
  baseN : s.fresh = false → hasAttrs = true ∧ s.base = c.hdr + c.arrOpen + sumSizes s.attrs + c.close + c.evOpen
  done : ∀ ch ∈ s.done, DoneOk c hasAttrs true ch
  bareF : s.fresh = true → bareCount s.done ≤ (if hasAttrs then 1 else 0)
  bareN : s.fresh = false → bareCount s.done = 0
  /-- the buffer limit while the open message still contains the attribute array -/
  limN : s.fresh = false → s.lim = c.limit + c.close + c.evOpen
  /-- when the attribute array start is not longer than the event array start (the real encoding:
  both 2 bytes) no finished message is bare -/
  bare0 : c.arrOpen ≤ c.evOpen → bareCount s.done = 0

theorem xinv_cursor {c : Cfg} {t : Bool} {s : ESt} (h : XInv c t s) (k : Nat) : XInv c t { s with cursor := k } :=
  ⟨h.used, h.baseF, h.baseN, h.done, h.bareF, h.bareN, h.limN, h.bare0⟩

theorem xinv_writeEv {c : Cfg} {t : Bool} {s : ESt} (h : XInv c t s) (p : EvPiece) : XInv c t (s.writeEv p) := by
  refine ⟨?_, h.baseF, h.baseN, h.done, h.bareF, h.bareN, h.limN, h.bare0⟩
  show s.used + p.size = s.base + sumEv (p :: s.evs)
  rw [sumEv_cons, h.used]; omega

theorem xinv_wr {c : Cfg} {t : Bool} {s : ESt} (h : XInv c t s) (e : Ev) : XInv c t (s.wr e) :=
  xinv_cursor (xinv_writeEv h (.data e.num e.size)) e.num

/-- sending the open message: allowed when it carries an event report or still contains the
attribute array -/
theorem xinv_flushEv {c : Cfg} {t : Bool} {s : ESt} (h : XInv c t s) (hne : s.fresh = true → s.evs ≠ [])
    (hnb : c.arrOpen ≤ c.evOpen → s.fresh = false → s.attrs ≠ [] ∨ s.evs ≠ []) :
    XInv c t (s.flushEv c) := by
  have hnew : DoneOk c t true { pieces := s.attrs.reverse, events := s.evs.reverse, size := s.used + c.trailerMore, more := true } ∧
      (s.fresh = true → ({ pieces := s.attrs.reverse, events := s.evs.reverse, size := s.used + c.trailerMore, more := true } : ChunkOut).bare = false) := by
    cases hf : s.fresh with
    | true =>
      obtain ⟨hb, ha⟩ := h.baseF hf
      have hnb : ({ pieces := s.attrs.reverse, events := s.evs.reverse, size := s.used + c.trailerMore, more := true } : ChunkOut).bare = false := by
        have := hne hf
        simp [ChunkOut.bare, this]
      refine ⟨⟨rfl, false, true, (fun h0 => by cases h0), (fun _ => rfl), ⟨?_, (fun _ => by simp [ha]), (fun h0 => by cases h0)⟩, ?_⟩, (fun _ => hnb)⟩
      · simp only [Bool.false_eq_true, if_false, if_true, Bool.false_and, Bool.not_true, Bool.and_false, sumEv_reverse]
        rw [h.used, hb]; omega
      · intro hbare
        rw [hnb] at hbare; cases hbare
    | false =>
      obtain ⟨ht, hb⟩ := h.baseN hf
      refine ⟨⟨rfl, true, true, (fun _ => ht), (fun _ => rfl), ⟨?_, (fun h0 => by cases h0), (fun h0 => by cases h0)⟩, (fun _ => ⟨rfl, rfl⟩)⟩, (fun h0 => by cases h0)⟩
      simp only [if_true, Bool.true_or, Bool.and_self, Bool.not_true, Bool.and_false, Bool.false_eq_true, if_false,
        sumEv_reverse, sumSizes_reverse]
      rw [h.used, hb]; omega
  refine ⟨by simp [ESt.flushEv, sumEv], (fun _ => ⟨rfl, rfl⟩), (fun h0 => by simp [ESt.flushEv] at h0), ?_, (fun _ => ?_), (fun h0 => by simp [ESt.flushEv] at h0),
    (fun h0 => by simp [ESt.flushEv] at h0), ?_⟩
  rotate_left 2
  · intro hle
    show bareCount (_ :: s.done) = 0
    rw [bareCount_cons, h.bare0 hle]
    cases hf : s.fresh with
    | true => rw [hnew.2 hf]; rfl
    | false =>
      have : ({ pieces := s.attrs.reverse, events := s.evs.reverse, size := s.used + c.trailerMore, more := true } : ChunkOut).bare = false := by
        rcases hnb hle hf with h1 | h1 <;> simp [ChunkOut.bare, h1]
      rw [this]; rfl
  · intro ch hch
    simp only [ESt.flushEv, List.mem_cons] at hch
    rcases hch with rfl | hch
    · exact hnew.1
    · exact h.done ch hch
  · show bareCount (_ :: s.done) ≤ _
    rw [bareCount_cons]
    cases hf : s.fresh with
    | true =>
      rw [hnew.2 hf]
      have := h.bareF hf
      simpa using this
    | false =>
      have h0 := h.bareN hf
      obtain ⟨ht, _⟩ := h.baseN hf
      rw [h0, ht]
      split <;> simp

theorem xinv_putEvStatus {c : Cfg} {t : Bool} {s s' : ESt} {k sz : Nat} (h : XInv c t s) (he : EInv c s)
    (hp : putEvStatus c s k sz = .ok s') : XInv c t s' := by
  unfold putEvStatus at hp
  split at hp
  · injection hp with hp; subst hp
    exact xinv_writeEv h _
  · rename_i hnofit
    split at hp
    · rename_i hfit
      injection hp with hp; subst hp
      refine xinv_writeEv (xinv_flushEv h ?_ ?_) _
      · intro hf hev
        -- an empty event message would have had room for the status
        obtain ⟨hb, hl⟩ := he.freshOk hf
        have hu := h.used
        rw [hev] at hu
        simp only [sumEv, List.map_nil, List.sum_nil, Nat.add_zero] at hu
        simp only [ESt.flushEv] at hfit
        omega
      · intro hle hf
        -- behind an empty attribute array there is as much room as in an empty event message
        apply Classical.byContradiction
        intro hno
        have ha : s.attrs = [] := Classical.byContradiction fun h1 => hno (.inl h1)
        have hev : s.evs = [] := Classical.byContradiction fun h1 => hno (.inr h1)
        have hu := h.used
        obtain ⟨_, hb⟩ := h.baseN hf
        have hl := h.limN hf
        rw [hev] at hu
        rw [ha] at hb
        simp only [sumEv, sumSizes, List.map_nil, List.sum_nil, Nat.add_zero] at hu hb
        simp only [ESt.flushEv] at hfit
        omega
    · cases hp

theorem xinv_putEvStatuses {c : Cfg} {t : Bool} (hw : c.WF) : ∀ (szs : List Nat) (k : Nat) (s s' : ESt), XInv c t s →
    EInv c s → putEvStatuses c k szs s = .ok s' → XInv c t s' := by
  intro szs
  induction szs with
  | nil => intro k s s' h _ hp; simp [putEvStatuses] at hp; subst hp; exact h
  | cons sz szs ih =>
    intro k s s' h he hp
    simp only [putEvStatuses] at hp
    cases h1 : putEvStatus c s k sz with
    | error e => rw [h1] at hp; cases hp
    | ok s1 =>
      rw [h1] at hp
      exact ih (k + 1) s1 s' (xinv_putEvStatus h he h1) (putEvStatus_ok hw he h1).1 hp

theorem xinv_sweep {c : Cfg} {t : Bool} (hw : c.WF) (r : EvReq) : ∀ (es : List Ev) (s s' : ESt), XInv c t s → EInv c s →
    sweep c r es s = .ok s' → XInv c t s' := by
  intro es
  induction es with
  | nil => intro s s' h _ hp; simp [sweep] at hp; subst hp; exact h
  | cons e es ih =>
    intro s s' h he hp
    simp only [sweep] at hp
    split at hp
    · split at hp
      · split at hp
        · rename_i hfit
          exact ih _ s' (xinv_wr h e) (wr_ok e he hfit).1 hp
        · split at hp
          · cases hp
          · rename_i hnf
            split at hp
            · rename_i hfit
              rename_i hnofit
              have hfl : XInv c t (s.flushEv c) := by
                refine xinv_flushEv h ?_ ?_
                · intro hf hev
                  apply hnf
                  have hu := h.used
                  rw [hev] at hu
                  simp only [sumEv, List.map_nil, List.sum_nil, Nat.add_zero] at hu
                  simp [hf, hu]
                · intro hle hf
                  apply Classical.byContradiction
                  intro hno
                  have ha : s.attrs = [] := Classical.byContradiction fun h1 => hno (.inl h1)
                  have hev : s.evs = [] := Classical.byContradiction fun h1 => hno (.inr h1)
                  have hu := h.used
                  obtain ⟨_, hb⟩ := h.baseN hf
                  have hl := h.limN hf
                  rw [hev] at hu
                  rw [ha] at hb
                  simp only [sumEv, sumSizes, List.map_nil, List.sum_nil, Nat.add_zero] at hu hb
                  simp only [ESt.flushEv] at hfit
                  omega
              exact ih _ s' (xinv_wr hfl e) (wr_ok e (flushEv_ok hw he).1 hfit).1 hp
            · cases hp
      · exact ih _ s' (xinv_cursor h e.num) ⟨he.usedLe, he.limLe, he.doneOk, he.freshOk⟩ hp
    · exact ih _ s' h he hp

/-! ## the sections -/

theorem DoneOk.mono {c : Cfg} {t : Bool} {ch : ChunkOut} (h : DoneOk c t false ch) : DoneOk c t true ch := by
  obtain ⟨h1, a, e, h2, _, h4, h5⟩ := h
  exact ⟨h1, a, e, h2, (fun _ => rfl), h4, h5⟩

/-- what `report_attributes` leaves behind, for the accounting -/
structure XPre (c : Cfg) (t : Bool) (s : ESt) : Prop where
  evs : s.evs = []
  usedF : s.fresh = true → t = false ∧ s.used = c.hdr ∧ s.attrs = []
  usedN : s.fresh = false → t = true ∧ s.used = c.hdr + c.arrOpen + sumSizes s.attrs + c.close
  done : ∀ ch ∈ s.done, DoneOk c t false ch
  bare0 : bareCount s.done = 0
  limN : s.fresh = false → s.lim = c.limit + c.close

theorem bareCount_zero_of (l : List ChunkOut) (h : ∀ ch ∈ l, ch.pieces ≠ []) : bareCount l = 0 := by
  induction l with
  | nil => rfl
  | cons ch l ih =>
    rw [bareCount_cons, ih (fun x hx => h x (List.mem_cons_of_mem _ hx))]
    have := h ch List.mem_cons_self
    simp [ChunkOut.bare, this]

theorem attrSection_acc {c : Cfg} (hw : c.WF) {ra : Option (List AttrReq)} {s1 : ESt}
    (h : attrSection c ra = .ok s1) : XPre c ra.isSome s1 := by
  cases ra with
  | none =>
    simp only [attrSection] at h
    injection h with h; subst h
    exact ⟨rfl, (fun _ => ⟨rfl, rfl, rfl⟩), (fun h0 => by cases h0), (fun ch hch => by cases hch), rfl, (fun h0 => by cases h0)⟩
  | some as =>
    obtain ⟨s, _, hinv, hd, ha, he, hu, hlim, hf, _⟩ := attrSection_some hw h
    refine ⟨he, (fun h0 => by rw [hf] at h0; cases h0), (fun _ => ⟨rfl, ?_⟩), ?_, ?_, (fun _ => hlim)⟩
    · rw [hu, ha, hinv.usedEq]
    · intro ch hch
      rw [hd] at hch
      obtain ⟨m1, _, m3, m4⟩ := hinv.doneOk ch hch
      have hne := hinv.doneNonempty ch hch
      refine ⟨m1, true, false, (fun _ => rfl), (fun h0 => by cases h0), ⟨?_, (fun h0 => by cases h0), (fun _ => m4)⟩, ?_⟩
      · rw [m3, m1]; simp; omega
      · intro hb
        simp [ChunkOut.bare, hne] at hb
    · rw [hd]; exact bareCount_zero_of _ hinv.doneNonempty

/-- what `send(Done)` finds, for the accounting -/
structure XFin (c : Cfg) (t ev : Bool) (s : ESt) : Prop where
  fin : Accounts c (!s.fresh) ev
    { pieces := s.attrs.reverse, events := s.evs.reverse, size := s.used + c.trailerDone, more := false }
  freshT : s.fresh = false → t = true
  done : ∀ ch ∈ s.done, DoneOk c t ev ch
  bare : bareCount s.done ≤ (if t && ev then 1 else 0)
  bare0 : c.arrOpen ≤ c.evOpen → bareCount s.done = 0

theorem eventSection_acc {c : Cfg} (hw : c.WF) {t : Bool} {s s2 : ESt} {re : Option EvReq} (hx : XPre c t s)
    (h : AInv c s) (hp : eventSection c s re = .ok s2) : XFin c t re.isSome s2 := by
  cases re with
  | none =>
    simp only [eventSection] at hp
    injection hp with hp; subst hp
    refine ⟨?_, (fun hf => (hx.usedN hf).1), hx.done, by rw [hx.bare0]; exact Nat.zero_le _, (fun _ => hx.bare0)⟩
    cases hf : s.fresh with
    | true =>
      obtain ⟨_, hu, ha⟩ := hx.usedF hf
      refine ⟨?_, (fun _ => by simp [ha]), (fun _ => by simp [hx.evs])⟩
      simp [hu]
    | false =>
      obtain ⟨_, hu⟩ := hx.usedN hf
      refine ⟨?_, (fun h0 => by cases h0), (fun _ => by simp [hx.evs])⟩
      simp [hu, sumSizes_reverse]; omega
  | some r =>
    simp only [eventSection] at hp
    cases hxp : expand c s.lim c.evOpen with
    | error e => rw [hxp] at hp; cases hp
    | ok lim =>
      rw [hxp] at hp
      simp only at hp
      obtain rfl := expand_ok hxp
      split at hp
      · rename_i hfit
        have i1 : EInv c { s with lim := s.lim + c.evOpen, used := s.used + c.evOpen, base := s.used + c.evOpen, cursor := r.maxSeen } := by
          refine ⟨hfit, by have := h.limLe; simp only; omega, h.doneOk, ?_⟩
          intro hf
          obtain ⟨h1, h2⟩ := h.freshOk hf
          simp only; omega
        have x1 : XInv c t { s with lim := s.lim + c.evOpen, used := s.used + c.evOpen, base := s.used + c.evOpen, cursor := r.maxSeen } := by
          refine ⟨by simp [hx.evs, sumEv], ?_, ?_, (fun ch hch => (hx.done ch hch).mono), ?_, (fun _ => hx.bare0),
            (fun hf => by show s.lim + c.evOpen = _; rw [hx.limN hf]), (fun _ => hx.bare0)⟩
          · intro hf
            obtain ⟨_, hu, ha⟩ := hx.usedF hf
            exact ⟨by simp only; rw [hu], ha⟩
          · intro hf
            obtain ⟨ht, hu⟩ := hx.usedN hf
            exact ⟨ht, by simp only; rw [hu]⟩
          · intro _
            show bareCount s.done ≤ _
            rw [hx.bare0]; exact Nat.zero_le _
        cases hst : putEvStatuses c 0 r.statuses { s with lim := s.lim + c.evOpen, used := s.used + c.evOpen, base := s.used + c.evOpen, cursor := r.maxSeen } with
        | error e => rw [hst] at hp; cases hp
        | ok s3 =>
          rw [hst] at hp
          simp only at hp
          obtain ⟨i2, _⟩ := putEvStatuses_ok hw _ _ _ _ i1 hst
          have x2 := xinv_putEvStatuses hw _ _ _ _ x1 i1 hst
          rw [evLoop_eq_sweep c r r.buf [] s3 r.buf.length (Nat.le_refl _) (by simp) (by simp)] at hp
          cases hsw : sweep c r r.buf s3 with
          | error e => rw [hsw] at hp; cases hp
          | ok s4 =>
            rw [hsw] at hp
            simp only at hp
            have x3 := xinv_sweep hw r _ _ _ x2 i2 hsw
            cases hx2 : expand c s4.lim c.close with
            | error e => rw [hx2] at hp; cases hp
            | ok lim' =>
              rw [hx2] at hp
              simp only at hp
              split at hp
              · injection hp with hp; subst hp
                refine ⟨?_, (fun hf => (x3.baseN hf).1), x3.done, ?_, x3.bare0⟩
                · show Accounts c (!s4.fresh) true
                    { pieces := s4.attrs.reverse, events := s4.evs.reverse, size := s4.used + c.close + c.trailerDone, more := false }
                  cases hf : s4.fresh with
                  | true =>
                    obtain ⟨hb, ha⟩ := x3.baseF hf
                    refine ⟨?_, (fun _ => by simp [ha]), (fun h0 => by cases h0)⟩
                    simp [x3.used, hb, sumEv_reverse]; omega
                  | false =>
                    obtain ⟨_, hb⟩ := x3.baseN hf
                    refine ⟨?_, (fun h0 => by cases h0), (fun h0 => by cases h0)⟩
                    simp [x3.used, hb, sumEv_reverse, sumSizes_reverse]; omega
                · show bareCount s4.done ≤ _
                  cases hf : s4.fresh with
                  | true => have := x3.bareF hf; simpa using this
                  | false => rw [x3.bareN hf]; exact Nat.zero_le _
              · cases hp
      · cases hp

end Chunk
