/-! # C17 — property theorems (not built yet) -/
