import RsMatterVerif.Lemmas.SecureMsg
/-!
# C03 — secured messages are accepted only if authentic for that session and direction

Theorems over `Model/SecureMsg` (ideal AEAD: the table `Aead` of `Enc key nonce aad pt` terms with
their wire bytes; `dec` opens a cipher text only as the term it stands for).

* `roundtrip` — what `s.encode` produces, the mirrored session decodes to the identical header
  (every field) and payload, for every well-formed header shape and every payload.
* `accept_only_authentic`, `handed_on_only_if_authentic` — a datagram reaches `post_recv` / an
  exchange of a secure session only if it is `AuthenticFor` that session: bit-identical to the wire
  form of an encryption under the session's receive key, nonce = (security flags, counter, the peer
  node id the session was established with), AAD = the complete plain header.
* `accepted_was_encoded_for_me` — with a table filled by `Session.encode` only: the accepted datagram
  was encoded by a session whose send key is my receive key and whose node id is my peer node id,
  with exactly the header and payload that were decoded.
* `aad_covers_header` — the same cipher text behind a header that differs in any field is never
  handed to a secure session.
* `reject_preserves_state`, `inauthentic_preserves_session`, `receive_keeps_keys` — a rejected
  datagram leaves the whole table untouched; a datagram that is not authentic for a secure session
  leaves that session (receive window, send counter, exchanges, keys) untouched whatever else it
  causes; no delivery ever changes keys, identifiers or the send counter of any session.
-/
namespace C03
open SecureMsg

theorem take_len_append (a b : Bytes) : (a ++ b).take ((a ++ b).length - b.length) = a := by
  simp

/-- the `Enc` term an encoding produces -/
def mkRec (s : Session) (h : PacketHdr) (payload ct : Bytes) : EncRec :=
  { key := s.encKey, nonce := nonce h.plain.secFlags h.plain.ctr s.localNode, aad := h.plain.encode,
    pt := h.proto.encode ++ payload, ct := ct }

theorem encode_secure (s : Session) (h : PacketHdr) (payload ct : Bytes) (hs : s.isEncrypted = true) :
    s.encode h payload ct = (h.plain.encode ++ ct, some (mkRec s h payload ct)) := by
  simp [Session.encode, Session.getEncKey, hs, mkRec]

theorem encode_plain (s : Session) (h : PacketHdr) (payload ct : Bytes) (hs : s.isEncrypted = false) :
    s.encode h payload ct = (h.plain.encode ++ (h.proto.encode ++ payload), none) := by
  simp [Session.encode, Session.getEncKey, hs]

/-- **Round trip.** -/
theorem roundtrip (t : Aead) (n : Node) (from_ idx : Nat) (s r : Session) (h : PacketHdr)
    (payload ct : Bytes)
    (hs : s.isEncrypted = true) (hr : r.isEncrypted = true)
    (hkey : r.decKey = s.encKey) (hnode : r.peerNode.getD 0 = s.localNode)
    (hpl : h.plain.WF) (hpr : h.proto.WF)
    (hfind : findRx n from_ h.plain = some idx) (hidx : n[idx]? = some r) :
    decodeStage (mkRec s h payload ct :: t) n from_ (s.encode h payload ct).1 = .decoded idx h payload := by
  rw [encode_secure s h payload ct hs]
  simp only
  unfold decodeStage
  rw [PlainHdr.decode_encode _ hpl]
  simp only [take_len_append, hfind, hidx]
  unfold Session.decodeRemaining Session.getDecKey
  simp only [hr, if_true]
  have hd : Aead.dec (mkRec s h payload ct :: t) r.decKey
      (nonce h.plain.secFlags h.plain.ctr (r.peerNode.getD 0)) h.plain.encode ct
      = some (h.proto.encode ++ payload) := by
    have := Aead.dec_head (mkRec s h payload ct) t
    rw [hkey, hnode]
    exact this
  rw [hd]
  simp only [ProtoHdr.decode_encode _ hpr]
/-- **Round trip through `decode_packet`**: the clean datagram is handed to `post_recv` of the mirrored
session with the identical header and payload; what `receive` answers is what `post_recv` says about
that header (new / existing exchange, duplicate, no exchange). -/
theorem roundtrip_receive (t : Aead) (n : Node) (from_ idx : Nat) (s r : Session) (h : PacketHdr)
    (payload ct : Bytes)
    (hs : s.isEncrypted = true) (hr : r.isEncrypted = true)
    (hkey : r.decKey = s.encKey) (hnode : r.peerNode.getD 0 = s.localNode)
    (hpl : h.plain.WF) (hpr : h.proto.WF)
    (hfind : findRx n from_ h.plain = some idx) (hidx : n[idx]? = some r) :
    receive (mkRec s h payload ct :: t) n from_ (s.encode h payload ct).1 =
      (match (r.postRecv h).1 with
        | .error e => Outcome.err e
        | .ok nw => Outcome.ok idx nw h payload,
       n.set idx (r.postRecv h).2) := by
  unfold receive
  rw [roundtrip t n from_ idx s r h payload ct hs hr hkey hnode hpl hpr hfind hidx]
  simp only [hidx]
  cases (r.postRecv h).1 <;> rfl

/-- what `decodeStage` did when it answered `decoded` -/
theorem decoded_inv {t : Aead} {n : Node} {from_ idx : Nat} {dg p : Bytes} {h : PacketHdr}
    (hb : BytesOK dg) (hd : decodeStage t n from_ dg = .decoded idx h p) :
    ∃ rest r, dg = h.plain.encode ++ rest ∧ h.plain.WF ∧ findRx n from_ h.plain = some idx ∧
      n[idx]? = some r ∧ r.decodeRemaining t h.plain h.plain.encode rest = .ok (h.proto, p) := by
  unfold decodeStage at hd
  cases e : PlainHdr.decode dg with
  | error x => rw [e] at hd; cases hd
  | ok v =>
    obtain ⟨hp, rest⟩ := v
    rw [e] at hd
    obtain ⟨hdg, hwf, _⟩ := PlainHdr.decode_sound hb e
    simp only at hd
    cases ef : findRx n from_ hp with
    | none =>
      rw [ef] at hd
      simp only at hd
      split at hd
      · split at hd
        · cases hd
        · split at hd <;> cases hd
      · split at hd
        · repeat (first | cases hd | split at hd)
        · cases hd
    | some i =>
      rw [ef] at hd
      simp only at hd
      cases ei : n[i]? with
      | none => rw [ei] at hd; cases hd
      | some s =>
        rw [ei] at hd
        simp only at hd
        cases er : s.decodeRemaining t hp (dg.take (dg.length - rest.length)) rest with
        | error x => rw [er] at hd; cases hd
        | ok v =>
          obtain ⟨pp, pay⟩ := v
          rw [er] at hd
          simp only [Stage.decoded.injEq] at hd
          obtain ⟨h1, h2, h3⟩ := hd
          subst h1 h2 h3
          rw [hdg, take_len_append] at er
          exact ⟨rest, s, hdg, hwf, ef, ei, er⟩

theorem accept_only_authentic {t : Aead} {n : Node} {from_ idx : Nat} {dg p : Bytes} {h : PacketHdr}
    {r : Session} (hb : BytesOK dg) (hd : decodeStage t n from_ dg = .decoded idx h p)
    (hidx : n[idx]? = some r) (hr : r.isEncrypted = true) : AuthenticFor t r dg := by
  obtain ⟨rest, r', hdg, hwf, _, hi, hrem⟩ := decoded_inv hb hd
  rw [hidx] at hi
  injection hi with hi
  subst hi
  unfold Session.decodeRemaining Session.getDecKey at hrem
  simp only [hr, if_true] at hrem
  cases e : Aead.dec t r.decKey (nonce h.plain.secFlags h.plain.ctr (r.peerNode.getD 0)) h.plain.encode rest with
  | none => rw [e] at hrem; cases hrem
  | some pt =>
    obtain ⟨rec, hm, hk, hn, ha, hc, _⟩ := Aead.dec_some e
    exact ⟨rec, hm, h.plain, hk, ha, by rw [ha, hc]; exact hdg, hn⟩

/-- **Handed on only if authentic** (the statement at the level of `decode_packet`). -/
theorem handed_on_only_if_authentic {t : Aead} {n n' : Node} {from_ idx : Nat} {dg p : Bytes}
    {h : PacketHdr} {nw : Bool} {r : Session} (hb : BytesOK dg)
    (hrecv : receive t n from_ dg = (.ok idx nw h p, n')) (hidx : n[idx]? = some r)
    (hr : r.isEncrypted = true) : AuthenticFor t r dg := by
  unfold receive at hrecv
  cases e : decodeStage t n from_ dg with
  | rej x => rw [e] at hrecv; simp at hrecv
  | decoded i hh pp =>
    rw [e] at hrecv
    simp only at hrecv
    cases ei : n[i]? with
    | none => rw [ei] at hrecv; simp at hrecv
    | some s =>
      rw [ei] at hrecv
      simp only at hrecv
      split at hrecv
      · simp at hrecv
      · simp only [Prod.mk.injEq, Outcome.ok.injEq] at hrecv
        obtain ⟨⟨h1, _, _, _⟩, _⟩ := hrecv
        subst h1
        exact accept_only_authentic hb e hidx hr
  | newPlain hh pp =>
    rw [e] at hrecv
    simp only at hrecv
    split at hrecv
    · split at hrecv
      · simp at hrecv
      · simp only [Prod.mk.injEq, Outcome.ok.injEq] at hrecv
        obtain ⟨⟨h1, _, _, _⟩, _⟩ := hrecv
        -- the new session sits behind the table: `idx = n.length` is no existing session
        subst h1
        simp at hidx
    · simp at hrecv

/-- a table filled by `Session.encode` calls of the sessions `S` only -/
def ProducedBy (t : Aead) (S : List Session) : Prop :=
  ∀ rec ∈ t, ∃ s ∈ S, ∃ (h : PacketHdr) (payload : Bytes),
    s.isEncrypted = true ∧ s.localNode < 256 ^ 8 ∧ h.plain.WF ∧ h.proto.WF ∧ rec = mkRec s h payload rec.ct

/-- **Accepted ⇒ encoded for me.** With only honest encryptions in the table, a datagram that reaches
`post_recv` of the secure session `r` is the output of `s.encode h p` for a session `s` whose send key
is `r`'s receive key and whose node id is the peer node id `r` expects — and `h`, `p` are exactly
the header and payload the receiver decoded. -/
theorem accepted_was_encoded_for_me {t : Aead} {S : List Session} {n : Node} {from_ idx : Nat}
    {dg p : Bytes} {h : PacketHdr} {r : Session} (hprod : ProducedBy t S) (hb : BytesOK dg)
    (hd : decodeStage t n from_ dg = .decoded idx h p) (hidx : n[idx]? = some r)
    (hr : r.isEncrypted = true) (hnode : r.peerNode.getD 0 < 256 ^ 8) :
    ∃ s ∈ S, ∃ ct, s.encKey = r.decKey ∧ s.localNode = r.peerNode.getD 0 ∧
      dg = (s.encode h p ct).1 ∧ mkRec s h p ct ∈ t := by
  obtain ⟨rest, r', hdg, hwf, _, hi, hrem⟩ := decoded_inv hb hd
  rw [hidx] at hi
  injection hi with hi
  subst hi
  unfold Session.decodeRemaining Session.getDecKey at hrem
  simp only [hr, if_true] at hrem
  cases e : Aead.dec t r.decKey (nonce h.plain.secFlags h.plain.ctr (r.peerNode.getD 0)) h.plain.encode rest with
  | none => rw [e] at hrem; cases hrem
  | some pt =>
    rw [e] at hrem
    simp only at hrem
    obtain ⟨rec, hm, hk, hn, ha, hc, hpt⟩ := Aead.dec_some e
    obtain ⟨s, hs, h', payload, hse, hsn, hw', hpw', hrec⟩ := hprod rec hm
    have hkey : s.encKey = r.decKey := by rw [← hk, hrec]; rfl
    have haad : h'.plain.encode = h.plain.encode := by rw [← ha, hrec]; rfl
    have hpl : h'.plain = h.plain := PlainHdr.encode_injective hw' hwf haad
    have hnonce : nonce h'.plain.secFlags h'.plain.ctr s.localNode
        = nonce h.plain.secFlags h.plain.ctr (r.peerNode.getD 0) := by rw [← hn, hrec]; rfl
    have hsn' : s.localNode = r.peerNode.getD 0 :=
      (nonce_injective (secflags_lt hw'.secFlags) hw'.ctr hsn (secflags_lt hwf.secFlags) hwf.ctr hnode hnonce).2.2
    have hpt' : pt = h'.proto.encode ++ payload := by rw [← hpt, hrec]; rfl
    rw [hpt', ProtoHdr.decode_encode _ hpw'] at hrem
    simp only [Except.ok.injEq, Prod.mk.injEq] at hrem
    obtain ⟨hpr, hpay⟩ := hrem
    have hh : h' = h := by
      cases h'; cases h; simp only [PacketHdr.mk.injEq] at *; exact ⟨hpl, hpr⟩
    subst hh hpay
    refine ⟨s, hs, rec.ct, hkey, hsn', ?_, ?_⟩
    · rw [encode_secure s h' payload rec.ct hse, hdg, hc]
    · rw [← hrec]; exact hm

/-- ideal AEAD, second half: distinct encryptions have distinct cipher texts (the tag binds key,
nonce and associated data); checked on the real AES-CCM outputs by the driver on every run -/
def CtInjective (t : Aead) : Prop := ∀ r ∈ t, ∀ r' ∈ t, r.ct = r'.ct → r = r'

/-- **The associated data cover the whole header.** Take a datagram that was really encoded
(`mkRec s h payload ct ∈ t`) and put its cipher text behind *any* other well-formed header `h'`
— a change of any field: flags, session id, security flags, counter, source, destination. The
result is never decoded for a secure session, on any node, from any address. -/
theorem aad_covers_header {t : Aead} {n : Node} {from_ : Nat} {s : Session} {h : PacketHdr}
    {payload ct : Bytes} (hin : mkRec s h payload ct ∈ t) (hinj : CtInjective t)
    (hw : h.plain.WF) (hct : BytesOK ct) (h' : PlainHdr) (hw' : h'.WF) (hne : h' ≠ h.plain)
    {idx : Nat} {hh : PacketHdr} {p : Bytes} {r : Session}
    (hd : decodeStage t n from_ (h'.encode ++ ct) = .decoded idx hh p) (hidx : n[idx]? = some r) :
    r.isEncrypted = false := by
  cases hr : r.isEncrypted with
  | false => rfl
  | true =>
    exfalso
    have hb : BytesOK (h'.encode ++ ct) := (PlainHdr.encode_bytesOK h').append hct
    obtain ⟨rest, r', hdg, hwf, _, hi, hrem⟩ := decoded_inv hb hd
    rw [hidx] at hi
    injection hi with hi
    subst hi
    -- parsing is deterministic: the decoded header is `h'`, the rest is `ct`
    have e1 := PlainHdr.decode_encode h' hw' ct
    rw [hdg, PlainHdr.decode_encode _ hwf] at e1
    simp only [Except.ok.injEq, Prod.mk.injEq] at e1
    obtain ⟨e1, e2⟩ := e1
    unfold Session.decodeRemaining Session.getDecKey at hrem
    simp only [hr, if_true] at hrem
    cases e : Aead.dec t r.decKey (nonce hh.plain.secFlags hh.plain.ctr (r.peerNode.getD 0)) hh.plain.encode rest with
    | none => rw [e] at hrem; cases hrem
    | some pt =>
      obtain ⟨rec, hm, _, _, ha, hc, _⟩ := Aead.dec_some e
      have : rec = mkRec s h payload ct := hinj rec hm _ hin (by rw [hc, e2]; rfl)
      rw [this] at ha
      have : h.plain.encode = h'.encode := by rw [← e1]; exact ha
      exact hne (PlainHdr.encode_injective hw' hw this.symm)

theorem reject_preserves_state {t : Aead} {n : Node} {from_ : Nat} {dg : Bytes} {e : Err}
    (h : decodeStage t n from_ dg = .rej e) : receive t n from_ dg = (.err e, n) := by
  simp [receive, h]

/-- everything of a session that receiving must never touch -/
def fixedPart (s : Session) :=
  (s.addr, s.localNode, s.peerNode, s.decKey, s.encKey, s.localSid, s.peerSid, s.txCtr, s.mode, s.expired, s.reserved)

theorem postRecv_fixed (s : Session) (h : PacketHdr) : fixedPart (s.postRecv h).2 = fixedPart s := by
  unfold Session.postRecv
  simp only
  split
  · rfl
  · split
    · split
      · rfl
      · split <;> rfl
    · split
      · rfl
      · split
        · rfl
        · split
          · split <;> rfl
          · rfl

/-- the table after a delivery: unchanged, one session replaced by its `postRecv`, or one appended -/
theorem receive_shape (t : Aead) (n : Node) (from_ : Nat) (dg : Bytes) :
    (receive t n from_ dg).2 = n ∨
    (∃ idx h p s, decodeStage t n from_ dg = .decoded idx h p ∧ n[idx]? = some s ∧
        (receive t n from_ dg).2 = n.set idx (s.postRecv h).2) ∨
    (∃ s', (receive t n from_ dg).2 = n ++ [s']) := by
  unfold receive
  cases e : decodeStage t n from_ dg with
  | rej x => left; rfl
  | decoded idx h p =>
    simp only
    cases ei : n[idx]? with
    | none => left; rfl
    | some s =>
      right; left
      refine ⟨idx, h, p, s, rfl, ei, ?_⟩
      simp only
      split <;> rfl
  | newPlain h p =>
    simp only
    split
    · right; right
      refine ⟨(({ addr := from_, peerNode := h.plain.srcNode } : Session).postRecv h).2, ?_⟩
      split <;> rfl
    · left; rfl

/-- **A datagram that is not authentic for a secure session leaves that session untouched** —
receive window, send counter, exchanges and keys — whatever else the datagram causes (rejection,
delivery to another session, a new unsecured session). -/
theorem inauthentic_preserves_session {t : Aead} {n : Node} {from_ i : Nat} {dg : Bytes} {r : Session}
    (hb : BytesOK dg) (hi : n[i]? = some r) (hr : r.isEncrypted = true)
    (hna : ¬ AuthenticFor t r dg) : (receive t n from_ dg).2[i]? = some r := by
  rcases receive_shape t n from_ dg with h | ⟨idx, h, p, s, hd, hs, hn⟩ | ⟨s', hn⟩
  · rw [h]; exact hi
  · rw [hn]
    by_cases hii : idx = i
    · subst hii
      rw [hs] at hi
      injection hi with hi
      subst hi
      exact absurd (accept_only_authentic hb hd hs hr) hna
    · rw [List.getElem?_set_ne hii]; exact hi
  · rw [hn, List.getElem?_append_left (by
      have := List.getElem?_eq_some_iff.mp hi
      exact this.1)]
    exact hi

/-- **No delivery changes keys, identifiers, mode or the send counter of any session.** -/
theorem receive_keeps_keys {t : Aead} {n : Node} {from_ i : Nat} {dg : Bytes} {r : Session}
    (hi : n[i]? = some r) :
    ∃ r', (receive t n from_ dg).2[i]? = some r' ∧ fixedPart r' = fixedPart r := by
  rcases receive_shape t n from_ dg with h | ⟨idx, h, p, s, _, hs, hn⟩ | ⟨s', hn⟩
  · exact ⟨r, by rw [h]; exact hi, rfl⟩
  · rw [hn]
    have hlt := (List.getElem?_eq_some_iff.mp hi).1
    by_cases hii : idx = i
    · subst hii
      rw [hs] at hi
      injection hi with hi
      subst hi
      exact ⟨_, by rw [List.getElem?_set_self hlt], postRecv_fixed _ _⟩
    · exact ⟨r, by rw [List.getElem?_set_ne hii]; exact hi, rfl⟩
  · have hlt := (List.getElem?_eq_some_iff.mp hi).1
    exact ⟨r, by rw [hn, List.getElem?_append_left hlt]; exact hi, rfl⟩

/-- a duplicate (an authentic datagram whose counter was already received) changes nothing either -/
theorem duplicate_preserves_state {s : Session} {h : PacketHdr}
    (hd : (Dedup.postRecvPlain s.rx h.plain.ctr s.isEncrypted).2 = false) :
    s.postRecv h = (.error .Duplicate, s) := by
  unfold Session.postRecv
  simp [hd]

/-! ## Non-vacuity: a concrete mirrored pair -/
namespace Ex
def s : Session := { addr := 9, localNode := 5, peerNode := some 7, encKey := 1, decKey := 2, localSid := 10, peerSid := 20, mode := .case }
def r : Session := { addr := 1, localNode := 7, peerNode := some 5, decKey := 1, encKey := 2, localSid := 20, peerSid := 10, mode := .case }
def u : Session := { addr := 1 }
def h : PacketHdr := { plain := { sessId := 20, ctr := 3 }, proto := { exchFlags := 5, opcode := 2, exchId := 77, protoId := 1 } }
def h' : PlainHdr := { sessId := 20, ctr := 4 }
def h0 : PlainHdr := { sessId := 0, ctr := 3 }
def pay : Bytes := [1, 2, 3]
def ct : Bytes := [5, 2, 77, 0, 1, 0, 200, 201, 202]
def t : Aead := [mkRec s h pay ct]

theorem hplain : h.plain.WF := ⟨by decide, by decide, by decide, by decide, by decide, by decide⟩
theorem hproto : h.proto.WF := ⟨by decide, by decide, by decide, by decide, by decide, by decide⟩

/-- the hypotheses of `roundtrip` hold for the pair, and its conclusion computes -/
example : decodeStage t [r] 1 (s.encode h pay ct).1 = .decoded 0 h pay :=
  roundtrip [] [r] 1 0 s r h pay ct (by decide) (by decide) (by decide) (by decide) hplain hproto (by decide) (by decide)

example : receive t [r] 1 (s.encode h pay ct).1 = (.ok 0 true h pay, [(r.postRecv h).2]) := by decide

/-- `accept_only_authentic` / `handed_on_only_if_authentic`: their hypotheses are met by that delivery -/
example : AuthenticFor t r (s.encode h pay ct).1 :=
  accept_only_authentic (n := [r]) (from_ := 1) (idx := 0) (h := h) (p := pay) (by decide) (by decide) (by decide) (by decide)

/-- the counter bumped in the header (`h'`), same cipher text: rejected at decryption -/
example : decodeStage t [r] 1 (h'.encode ++ ct) = .rej .InvalidData := by decide
/-- `aad_covers_header`: its hypotheses are satisfiable (here the forged header addresses an unsecured
session, which does take the bytes — and the theorem's conclusion, *not a secure session*, holds) -/
example : ∃ idx hh p, decodeStage t [r, u] 1 (h0.encode ++ ct) = .decoded idx hh p ∧ [r, u][idx]? = some u :=
  ⟨1, { plain := h0, proto := { exchFlags := 5, opcode := 2, exchId := 77, protoId := 1 } }, [200, 201, 202],
    by decide, by decide⟩
/-- the reflected datagram (what `r` itself would send) is not accepted by `r` -/
example : decodeStage [mkRec r h pay ct] [r] 1 (r.encode h pay ct).1 = .rej .InvalidData := by decide
/-- another source node id: rejected -/
example : decodeStage [mkRec { s with localNode := 6 } h pay ct] [r] 1 (s.encode h pay ct).1 = .rej .InvalidData := by decide
/-- `inauthentic_preserves_session` / `reject_preserves_state`: a datagram that is not authentic exists -/
example : ¬ AuthenticFor [] r (s.encode h pay ct).1 := by rintro ⟨_, hm, _⟩; cases hm
example : receive [] [r] 1 (s.encode h pay ct).1 = (.err .InvalidData, [r]) := by decide
/-- `ProducedBy` and `CtInjective` hold of the example table -/
example : ProducedBy t [s] := by
  intro rec hm
  simp only [t, List.mem_singleton] at hm
  exact ⟨s, by simp, h, pay, by decide, by decide, hplain, hproto, by rw [hm]; rfl⟩
example : CtInjective t := by
  intro a ha b hb _
  simp only [t, List.mem_singleton] at ha hb
  rw [ha, hb]
end Ex

end C03
