import RsMatterVerif.Model.Codec.Base38
/-! # Lemmas about `Model/Codec/Base38.lean`
The encoder and the decoder are mutually inverse (on byte strings / on canonical strings), the decoder is
total, its only failure is `InvalidData` (never a panic), and invalid characters / length classes are refused. -/
namespace Codec.Base38

def okIs (r : Except Err Nat) (v : Nat) : Bool := match r with | .ok x => x == v | .error _ => false

theorem okIs_iff {r : Except Err Nat} {v : Nat} : okIs r v = true ↔ r = .ok v := by
  cases r <;> simp [okIs]

theorem alphabet_decChar_all : (List.range 38).all (fun i => match alphabet[i]? with
    | some c => okIs (decChar c) i | none => false) = true := by decide

theorem alphabet_decChar (i : Nat) (h : i < 38) : ∃ c, alphabet[i]? = some c ∧ decChar c = .ok i := by
  have := List.all_eq_true.mp alphabet_decChar_all i (List.mem_range.mpr h)
  split at this
  · rename_i c hc; exact ⟨c, hc, okIs_iff.mp this⟩
  · simp at this

theorem decChar_alphabet_all : (List.range 91).all (fun c => match decChar c with
    | .ok d => d < 38 && alphabet[d]? == some c | .error e => e == .invalidData) = true := by decide

theorem decChar_cases (c : Nat) : (∃ d, decChar c = .ok d ∧ d < 38 ∧ alphabet[d]? = some c) ∨ decChar c = .error .invalidData := by
  by_cases h : c < 91
  · have := List.all_eq_true.mp decChar_alphabet_all c (List.mem_range.mpr h)
    split at this
    · rename_i d hd; left; simp at this; exact ⟨d, hd, this.1, this.2⟩
    · rename_i e he; right; simp at this; rw [he, this]
  · right; simp [decChar]; omega

end Codec.Base38

namespace Codec.Base38

theorem encChunk_spec (n : Nat) : ∀ v, ∃ cs, encChunk v n = .ok cs ∧ cs.length = n ∧ decValue cs = .ok (v % 38 ^ n) := by
  induction n with
  | zero => intro v; exact ⟨[], rfl, rfl, by simp [decValue, Nat.mod_one]⟩
  | succ n ih =>
    intro v
    obtain ⟨c, hc, hd⟩ := alphabet_decChar (v % 38) (Nat.mod_lt _ (by omega))
    obtain ⟨r, hr, hl, hv⟩ := ih ((v - v % 38) / 38)
    refine ⟨c :: r, ?_, by simp [hl], ?_⟩
    · simp [encChunk, RADIX, hc, hr, bind, Except.bind, pure, Except.pure]
    · have e : (v - v % 38) / 38 = v / 38 := by omega
      simp [decValue, hd, hv, RADIX, bind, Except.bind, pure, Except.pure, e]
      rw [Nat.pow_succ', Nat.mod_mul]

theorem decValue_encChunk : ∀ (cs : List Nat) (v : Nat), decValue cs = .ok v → encChunk v cs.length = .ok cs ∧ v < 38 ^ cs.length := by
  intro cs
  induction cs with
  | nil => intro v h; simp [decValue] at h; subst h; simp [encChunk]
  | cons c r ih =>
    intro v h
    simp only [decValue, bind, Except.bind] at h
    rcases decChar_cases c with ⟨d, hd, hlt, ha⟩ | he
    · rw [hd] at h
      cases hr : decValue r with
      | error e => rw [hr] at h; simp at h
      | ok hi =>
        rw [hr] at h
        simp [pure, Except.pure, RADIX] at h
        subst h
        obtain ⟨ih1, ih2⟩ := ih hi hr
        have e1 : (d + 38 * hi) % 38 = d := by omega
        have e2 : (d + 38 * hi - d) / 38 = hi := by omega
        constructor
        · simp [encChunk, RADIX, e1, ha, ih1, bind, Except.bind, pure, Except.pure]
        · simp [Nat.pow_succ]; omega
    · rw [he] at h; simp at h

end Codec.Base38

namespace Codec.Base38

theorem decode_cons5 (a b c d e : Nat) (r : List Nat) :
    decode (a :: b :: c :: d :: e :: r) =
      match decChunk [a, b, c, d, e] with
      | .ok bs => (bs ++ (decode r).1, (decode r).2)
      | .error err => ([], some err) := by
  rw [decode]; cases decChunk [a, b, c, d, e] <;> rfl

theorem decode_short (s : List Nat) (h : s.length < 5) :
    decode s = match decChunk s with
      | .ok bs => (bs, none)
      | .error err => ([], some err) := by
  match s, h with
  | [], _ | [_], _ | [_, _], _ | [_, _, _], _ | [_, _, _, _], _ =>
    rw [decode]
    · rfl
    · intro a b c d e r h; cases h

theorem decode_append5 (cs t : List Nat) (h : cs.length = 5) :
    decode (cs ++ t) = match decChunk cs with
      | .ok bs => (bs ++ (decode t).1, (decode t).2)
      | .error err => ([], some err) := by
  match cs, h with
  | [a, b, c, d, e], _ => exact decode_cons5 a b c d e t

theorem leBytes3 (a b c : Nat) (ha : a < 256) (hb : b < 256) (hc : c < 256) :
    leBytes (a + 256 * b + 65536 * c) 3 = [a, b, c] := by
  have e1 : (a + 256 * b + 65536 * c) % 256 = a := by omega
  have e2 : (a + 256 * b + 65536 * c) / 256 % 256 = b := by omega
  have e3 : (a + 256 * b + 65536 * c) / 256 / 256 % 256 = c := by omega
  simp only [leBytes, e1, e2, e3]

theorem leBytes2 (a b : Nat) (ha : a < 256) (hb : b < 256) : leBytes (a + 256 * b) 2 = [a, b] := by
  have e1 : (a + 256 * b) % 256 = a := by omega
  have e2 : (a + 256 * b) / 256 % 256 = b := by omega
  simp only [leBytes, e1, e2]

theorem leBytes1 (a : Nat) (ha : a < 256) : leBytes a 1 = [a] := by
  have e1 : a % 256 = a := by omega
  simp only [leBytes, e1]

theorem decChunk_of_value (cs : List Nat) (v k : Nat) (hv : decValue cs = .ok v)
    (hk : (cs.length = 5 ∧ k = 3) ∨ (cs.length = 4 ∧ k = 2) ∨ (cs.length = 2 ∧ k = 1) ∨ (cs.length = 0 ∧ k = 0)) :
    decChunk cs = .ok (leBytes v k) := by
  rcases hk with ⟨h, rfl⟩ | ⟨h, rfl⟩ | ⟨h, rfl⟩ | ⟨h, rfl⟩ <;>
    simp [decChunk, repOf, h, hv]

/-- **base38: decode ∘ encode = id** on byte strings -/
theorem decode_encode : ∀ (bs : List Nat), (∀ b ∈ bs, b < 256) →
    ∃ cs, encode bs = .ok cs ∧ decode cs = (bs, none)
  | a :: b :: c :: r, h => by
    have ha := h a (by simp); have hb := h b (by simp); have hc := h c (by simp)
    obtain ⟨t, ht, hdt⟩ := decode_encode r (fun x hx => h x (by simp [hx]))
    obtain ⟨cs, hcs, hl, hv⟩ := encChunk_spec 5 (a + 256 * b + 65536 * c)
    refine ⟨cs ++ t, by simp [encode, hcs, ht, bind, Except.bind, pure, Except.pure], ?_⟩
    have : (a + 256 * b + 65536 * c) % 38 ^ 5 = a + 256 * b + 65536 * c := by
      apply Nat.mod_eq_of_lt; simp; omega
    rw [this] at hv
    rw [decode_append5 _ _ hl, decChunk_of_value cs _ 3 hv (Or.inl ⟨hl, rfl⟩), leBytes3 a b c ha hb hc, hdt]
    rfl
  | [a, b], h => by
    have ha := h a (by simp); have hb := h b (by simp)
    obtain ⟨cs, hcs, hl, hv⟩ := encChunk_spec 4 (a + 256 * b)
    refine ⟨cs, by simp [encode, hcs], ?_⟩
    have : (a + 256 * b) % 38 ^ 4 = a + 256 * b := by apply Nat.mod_eq_of_lt; simp; omega
    rw [this] at hv
    rw [decode_short _ (by omega), decChunk_of_value cs _ 2 hv (Or.inr (Or.inl ⟨hl, rfl⟩)), leBytes2 a b ha hb]
  | [a], h => by
    have ha := h a (by simp)
    obtain ⟨cs, hcs, hl, hv⟩ := encChunk_spec 2 a
    refine ⟨cs, by simp [encode, hcs], ?_⟩
    have : a % 38 ^ 2 = a := by apply Nat.mod_eq_of_lt; simp; omega
    rw [this] at hv
    rw [decode_short _ (by omega), decChunk_of_value cs _ 1 hv (Or.inr (Or.inr (Or.inl ⟨hl, rfl⟩))), leBytes1 a ha]
  | [], _ => ⟨[], rfl, by rw [decode_short _ (by simp)]; rfl⟩

end Codec.Base38

namespace Codec.Base38

theorem decValue_no_panic : ∀ (cs : List Nat), decValue cs ≠ .error .panic := by
  intro cs
  induction cs with
  | nil => simp [decValue]
  | cons c r ih =>
    simp only [decValue, bind, Except.bind]
    rcases decChar_cases c with ⟨d, hd, _, _⟩ | he
    · rw [hd]; cases hr : decValue r with
      | error e => simp; intro h; exact ih (by rw [hr, h])
      | ok hi => simp [pure, Except.pure]
    · rw [he]; simp

/-- every error of the decoder is `InvalidData` -/
theorem decValue_error (cs : List Nat) (e : Err) (h : decValue cs = .error e) : e = .invalidData := by
  induction cs with
  | nil => simp [decValue] at h
  | cons c r ih =>
    simp only [decValue, bind, Except.bind] at h
    rcases decChar_cases c with ⟨d, hd, _, _⟩ | he
    · rw [hd] at h; cases hr : decValue r with
      | error e' => rw [hr] at h; simp at h; subst h; exact ih hr
      | ok hi => rw [hr] at h; simp [pure, Except.pure] at h
    · rw [he] at h; simp at h; exact h.symm

theorem decChunk_error (cs : List Nat) (e : Err) (h : decChunk cs = .error e) : e = .invalidData := by
  unfold decChunk at h
  cases hr : repOf cs.length with
  | none => rw [hr] at h; simp at h; exact h.symm
  | some k =>
    rw [hr] at h
    cases hv : decValue cs with
    | error e' => rw [hv] at h; simp at h; subst h; exact decValue_error _ _ hv
    | ok v => rw [hv] at h; simp at h

/-- **base38: the decoder is total and its only failure is `InvalidData`** (in particular the table
index `DECODE_BASE38[c - 45]` is always in range: no panic). -/
theorem decode_error : ∀ (s : List Nat) (e : Err), (decode s).2 = some e → e = .invalidData
  | a :: b :: c :: d :: f :: r, e, h => by
    rw [decode_cons5] at h
    cases hc : decChunk [a, b, c, d, f] with
    | ok bs => rw [hc] at h; exact decode_error r e h
    | error e' => rw [hc] at h; simp at h; subst h; exact decChunk_error _ _ hc
  | [], e, h | [_], e, h | [_, _], e, h | [_, _, _], e, h | [_, _, _, _], e, h => by
    rw [decode_short _ (by simp)] at h
    split at h
    · simp at h
    · rename_i e' hc; simp at h; subst h; exact decChunk_error _ _ hc

theorem decValue_invalid_char (cs : List Nat) (c : Nat) (hc : c ∈ cs) (hbad : decChar c = .error .invalidData) :
    decValue cs = .error .invalidData := by
  induction cs with
  | nil => simp at hc
  | cons x r ih =>
    simp only [decValue, bind, Except.bind]
    rcases List.mem_cons.mp hc with rfl | hr
    · rw [hbad]
    · rcases decChar_cases x with ⟨d, hd, _, _⟩ | he
      · rw [hd, ih hr]
      · rw [he]

theorem decChunk_invalid_char (cs : List Nat) (c : Nat) (hc : c ∈ cs) (hbad : decChar c = .error .invalidData) :
    decChunk cs = .error .invalidData := by
  unfold decChunk
  cases repOf cs.length with
  | none => rfl
  | some k => simp [decValue_invalid_char cs c hc hbad]

/-- **base38: a string containing a character outside the alphabet is refused** -/
theorem decode_rejects_invalid_char : ∀ (s : List Nat) (c : Nat), c ∈ s → decChar c = .error .invalidData →
    (decode s).2 = some .invalidData
  | a :: b :: c' :: d :: f :: r, c, hc, hbad => by
    rw [decode_cons5]
    by_cases hin : c ∈ [a, b, c', d, f]
    · rw [decChunk_invalid_char _ c hin hbad]
    · have hr : c ∈ r := by
        simp only [List.mem_cons, List.not_mem_nil, or_false, not_or] at hc hin
        rcases hc with h | h | h | h | h | h <;> simp_all
      cases hch : decChunk [a, b, c', d, f] with
      | ok bs => simp; exact decode_rejects_invalid_char r c hr hbad
      | error e => simp; exact decChunk_error _ _ hch
  | [], c, hc, hbad | [_], c, hc, hbad | [_, _], c, hc, hbad | [_, _, _], c, hc, hbad | [_, _, _, _], c, hc, hbad => by
    rw [decode_short _ (by simp), decChunk_invalid_char _ c hc hbad]

/-- **base38: a string whose length is 1 or 3 modulo 5 is refused** -/
theorem decode_rejects_bad_length : ∀ (s : List Nat), (s.length % 5 = 1 ∨ s.length % 5 = 3) →
    (decode s).2 = some .invalidData
  | a :: b :: c :: d :: f :: r, h => by
    rw [decode_cons5]
    cases hch : decChunk [a, b, c, d, f] with
    | ok bs => simp; apply decode_rejects_bad_length r; simp at h; omega
    | error e => simp; exact decChunk_error _ _ hch
  | [], h => by simp at h
  | [_], _ => by rw [decode_short _ (by simp)]; simp [decChunk, repOf]
  | [_, _], h => by simp at h
  | [_, _, _], _ => by rw [decode_short _ (by simp)]; simp [decChunk, repOf]
  | [_, _, _, _], h => by simp at h

end Codec.Base38

namespace Codec.Base38

theorem leBytes3_eq (v : Nat) : leBytes v 3 = [v % 256, v / 256 % 256, v / 65536 % 256] := by
  have : v / 256 / 256 = v / 65536 := by omega
  simp only [leBytes, this]

theorem chunkCanon_elim (cs : List Nat) (h : chunkCanon cs = true) :
    ∃ v, decValue cs = .ok v ∧ ((cs.length = 5 ∧ v < 16777216) ∨ (cs.length = 4 ∧ v < 65536) ∨
      (cs.length = 2 ∧ v < 256) ∨ cs.length = 0) := by
  unfold chunkCanon at h
  cases hv : decValue cs with
  | error e => rw [hv] at h; simp at h
  | ok v =>
    rw [hv] at h
    simp only [Bool.or_eq_true, Bool.and_eq_true, decide_eq_true_eq] at h
    exact ⟨v, rfl, by omega⟩

theorem encode_cons3 (a b c : Nat) (r : List Nat) :
    encode (a :: b :: c :: r) = (do
      let h ← encChunk (a + 256 * b + 65536 * c) 5
      let t ← encode r
      pure (h ++ t)) := by rw [encode]

/-- **base38: encode ∘ decode = id on canonical strings** (valid characters, legal length class,
every chunk value within the range of the bytes it stands for) -/
theorem encode_decode : ∀ (s : List Nat), canonical s = true →
    (decode s).2 = none ∧ encode (decode s).1 = .ok s
  | a :: b :: c :: d :: f :: r, h => by
    rw [canonical] at h
    simp only [Bool.and_eq_true] at h
    obtain ⟨v, hv, hcase⟩ := chunkCanon_elim _ h.1
    have hlt : v < 16777216 := by simp at hcase; exact hcase
    obtain ⟨ih1, ih2⟩ := encode_decode r h.2
    rw [decode_cons5, decChunk_of_value _ v 3 hv (Or.inl ⟨rfl, rfl⟩)]
    refine ⟨ih1, ?_⟩
    have hv' := (decValue_encChunk _ v hv).1
    simp only [List.length_cons, List.length_nil] at hv'
    have e : v % 256 + 256 * (v / 256 % 256) + 65536 * (v / 65536 % 256) = v := by omega
    simp only [leBytes3_eq, List.cons_append, List.nil_append, encode_cons3, e]
    simp [hv', ih2, bind, Except.bind, pure, Except.pure]
  | [], _ => by rw [decode_short _ (by simp)]; simp [decChunk, repOf, decValue, leBytes, encode]
  | [x], h => by
    rw [canonical] at h
    · obtain ⟨v, _, hcase⟩ := chunkCanon_elim _ h; simp at hcase
    · intro a b c d e r hh; cases hh
  | [x, y], h => by
    rw [canonical] at h
    · obtain ⟨v, hv, hcase⟩ := chunkCanon_elim _ h
      have hlt : v < 256 := by simp at hcase; exact hcase
      rw [decode_short _ (by simp), decChunk_of_value _ v 1 hv (by simp)]
      have hv' := (decValue_encChunk _ v hv).1
      have e : v % 256 = v := by omega
      simp only [leBytes, e, encode]
      exact ⟨trivial, hv'⟩
    · intro a b c d e r hh; cases hh
  | [x, y, z], h => by
    rw [canonical] at h
    · obtain ⟨v, _, hcase⟩ := chunkCanon_elim _ h; simp at hcase
    · intro a b c d e r hh; cases hh
  | [x, y, z, w], h => by
    rw [canonical] at h
    · obtain ⟨v, hv, hcase⟩ := chunkCanon_elim _ h
      have hlt : v < 65536 := by simp at hcase; exact hcase
      rw [decode_short _ (by simp), decChunk_of_value _ v 2 hv (by simp)]
      have hv' := (decValue_encChunk _ v hv).1
      have e : v % 256 + 256 * (v / 256 % 256) = v := by omega
      simp only [leBytes, encode, e]
      exact ⟨trivial, hv'⟩
    · intro a b c d e r hh; cases hh

example : canonical [45, 77, 79, 65, 53, 55, 48] = true := by decide

end Codec.Base38
