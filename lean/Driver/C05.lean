import RsMatterVerif.Model.AclOps
import Driver.Util
/-! Driver for C05 (first-generation ops `fab` … `reload` run the functions of `Model/Acl.lean`; the
history ops `faba`, `hw`, `ainit`, … , `dump`, `sq`, `sr` are parsed into an `Acl.CfgOp` and executed by
`Acl.CfgOp.apply` — the function the history theorems of `Props/C05Ops` are about — with every
answer and the canonical dump of the whole fabric table compared).
Driver for C05: replays configuration + query lines on `Model/Acl` (DIS = the model answers
differently from the real `AccessReq::allow`) and evaluates the declarative specification
`Acl.grantedB` / `Acl.reachesB` on the same inputs against the implementation's decision (ORA). -/
namespace Driver.C05
open Acl

/-- the fabric table (`fabrics`, also read by the C06 driver) and the fabric records of the
key-value store (`store`): `Acl.Cfg` -/
structure St extends Cfg

def modeOf (s : String) : Option (Option AuthMode) :=
  if s = "p" then some (some .pase) else if s = "c" then some (some .case)
  else if s = "g" then some (some .group) else if s = "n" then some none else none

def optNum (s : String) : Option (Option Nat) :=
  if s = "*" ∨ s = "-" then some none else s.toNat?.map some

def natList (s : String) : Option (List Nat) :=
  if s = "-" then some [] else (s.splitOn ",").mapM (·.toNat?)

def parseTarget (s : String) : Option Target :=
  match s.splitOn "/" with
  | [e, c, d] =>
    match optNum e, optNum c, optNum d with
    | some e, some c, some d => some { endpoint := e, cluster := c, deviceType := d }
    | _, _, _ => none
  | _ => none

/-- `build_entry` of the harness: `AclEntry::new` + `add_subject`* + `add_target`*;
outer `none` = unparsable, inner `none` = the API refused (capacity). -/
def buildEntry (pb : Nat) (mode : AuthMode) (subjects targets : String) (stamp : Option Nat := none) :
    Option (Option Entry) := do
  let e0 : Entry := { privilege := pb, authMode := mode, subjects := none, targets := none, fabIdx := stamp }
  let e1 : Option Entry ←
    if subjects = "null" then pure (some e0)
    else if subjects = "e" then pure (some { e0 with subjects := some [] })
    else do
      let ss ← (subjects.splitOn ",").mapM (·.toNat?)
      pure (ss.foldl (fun (acc : Option Entry) s => acc.bind (·.addSubject s)) (some e0))
  match e1 with
  | none => pure none
  | some e1 =>
    if targets = "null" then pure (some e1)
    else if targets = "e" then pure (some { e1 with targets := some [] })
    else do
      let ts ← (targets.splitOn ";").mapM parseTarget
      pure (ts.foldl (fun (acc : Option Entry) t => acc.bind (·.addTarget t)) (some e1))

def bits (l : List Bool) : String :=
  if l.isEmpty then "-" else String.ofList (l.map (fun b => if b then '1' else '0'))

def canonicalPriv (b : Nat) : Bool := (privOfBits b).isSome

/-- `-` = absent -/
def optField (s : String) : Option (Option Nat) := if s = "-" then some none else s.toNat?.map some

/-- a wire entry `<priv|->~<auth|->~<subjects>~<targets>~<aux|->` -/
def parseWire (s : String) : Option EntryIn :=
  match s.splitOn "~" with
  | [p, a, ss, ts, x] => do
    let p ← optField p
    let a ← optField a
    let x ← optField x
    let ss : Option (Option (List Nat)) ←
      if ss = "-" then pure none else if ss = "null" then pure (some none) else if ss = "e" then pure (some (some []))
      else ((ss.splitOn ",").mapM (fun (x : String) => x.toNat?)).map (fun l => some (some l))
    let ts : Option (Option (List Target)) ←
      if ts = "-" then pure none else if ts = "null" then pure (some none) else if ts = "e" then pure (some (some []))
      else ((ts.splitOn ";").mapM parseTarget).map (fun l => some (some l))
    pure { privilege := p, authMode := a, subjects := ss, targets := ts, auxiliaryType := x }
  | _ => none

def fabOk (fab : Nat) : Bool := decide (1 ≤ fab) && decide (fab ≤ 255)

/-- the initializer of an `acli` / `aclui` line -/
def parseInit (ws : List String) : Option EntryInit :=
  match ws with
  | ["r", stamp, pb, mode, subjects, targets] =>
    match optNum stamp, pb.toNat?, modeOf mode with
    | some stamp, some pb, some (some mode) =>
      match buildEntry pb mode subjects targets stamp with
      | none => none
      | some none => some (.fails .resourceExhausted)
      | some (some e) => some (.raw e)
    | _, _, _ => none
  | ["t", ifab, wire] =>
    match ifab.toNat?, parseWire wire with
    | some ifab, some w => if fabOk ifab then some (.wire ifab w) else none
    | _, _ => none
  | _ => none

def showEntry (e : Entry) : String :=
  let subj := match e.subjects with
    | none => "null"
    | some [] => "e"
    | some l => ",".intercalate (l.map toString)
  let showOpt (o : Option Nat) : String := match o with | some v => toString v | none => "-"
  let targ := match e.targets with
    | none => "null"
    | some [] => "e"
    | some l => "+".intercalate (l.map (fun (t : Target) => s!"{showOpt t.endpoint}/{showOpt t.cluster}/{showOpt t.deviceType}"))
  let m := match e.authMode with | .pase => "p" | .case => "c" | .group => "g"
  s!"{e.privilege}.{m}.{subj}.{targ}.{showOpt e.fabIdx}"

def showGroup (x : GroupMapping) : String :=
  let eps := if x.endpoints.isEmpty then "-" else ",".intercalate (x.endpoints.map toString)
  let aux := match x.hasAuxAcl with | none => "n" | some false => "0" | some true => "1"
  s!"{x.groupId}:{eps}:{aux}:{if x.managed then 1 else 0}"

/-- the canonical text of the fabric table (`c05_ops::dump` of the harness) -/
def showTable (s : List Fabric) : String :=
  if s.isEmpty then "-"
  else " ".intercalate (s.map (fun f =>
    "F" ++ toString f.fabIdx ++ "{" ++ ";".intercalate (f.acl.map showEntry) ++ "|" ++
      ";".intercalate (f.groups.map showGroup) ++ "}"))

/-- `Display for AccessorSubjects` with the blanks removed -/
def showSubjects (l : List Nat) : String :=
  "[" ++ String.join (l.map (fun i =>
    if isNocCat i then s!"CAT({getNocCatId i}-{getNocCatVersion i})"
    else if i != 0 then s!"{i}," else "")) ++ "]"

/-- run a mutator and compare its answer; `render` turns the model's answer into the harness's text -/
def runOp (st : St) (o : CfgOp) (out : String) (render : Res → String) : St × String :=
  let r := o.apply st.toCfg
  let m := render r.2
  ({ toCfg := r.1 }, if m = out then "ok" else s!"DIS {m}")

def renderStd (yes no : String) : Res → String
  | .ok => "ok"
  | .idx n => toString n
  | .flag b => if b then yes else no
  | .err e => e.name
  | .panic => "panic"

/-- the outputs of the first-generation ops: every error is `err` -/
def renderOld (yes no : String) : Res → String
  | .err _ => "err"
  | r => renderStd yes no r

def allowLine (st : St) (acc : Accessor) (ep cl leaf : Option Nat) (opb : Nat) (perms : Option Nat)
    (dts : List Nat) : AccessReq :=
  let _ := st
  { accessor := acc, object := {
      path := { endpoint := ep, cluster := cl, leaf := leaf }, targetPerms := perms,
      operation := opb, deviceTypes := dts } }

def step (st : St) (line : String) : St × String :=
  let (op, out) := splitArrow line
  match words op with
  | "case" :: _ => ({}, "case")
  | ["caps", f, a, s, t, g, e, c] =>
    let mine := [Consts.maxFabrics, Consts.maxAclEntriesPerFabric, Consts.maxSubjectsPerAclEntry,
      Consts.maxTargetsPerAclEntry, Consts.maxGroupsPerFabric, Consts.groupEndpointsPerFabric,
      Consts.maxCatIdsPerNoc]
    let theirs := [f, a, s, t, g, e, c].map (fun x => x.toNat?.getD 0)
    if out ≠ "ok" then (st, s!"BAD harness built with other capacities: {out}")
    else if mine = theirs then (st, "ok") else (st, s!"DIS caps {mine}")
  | ["enums", v, p, o, m, a, pp, cc, gg] =>
    -- the wire values `privOfEnum` / `authOfEnum` / `privToEnum` assume
    let ok := privOfEnum (v.toNat?.getD 0) = some PRIV_VIEW && privOfEnum (p.toNat?.getD 0) = some PRIV_PROXYVIEW
      && privOfEnum (o.toNat?.getD 0) = some PRIV_OPERATE && privOfEnum (m.toNat?.getD 0) = some PRIV_MANAGE
      && privOfEnum (a.toNat?.getD 0) = some PRIV_ADMIN && authOfEnum (pp.toNat?.getD 0) = some AuthMode.pase
      && authOfEnum (cc.toNat?.getD 0) = some AuthMode.case && authOfEnum (gg.toNat?.getD 0) = some AuthMode.group
    if out ≠ "ok" then (st, s!"BAD harness built with other enumeration values: {out}")
    else if ok then (st, "ok") else (st, "DIS enums")
  | ["dump"] =>
    let m := showTable st.fabrics
    if m = out then (st, "ok") else (st, s!"DIS {m}")
  | ["aupd", fab, idx, pb, mode, subjects, targets] =>
    match fab.toNat?, idx.toNat?, pb.toNat?, modeOf mode with
    | some fab, some idx, some pb, some (some mode) =>
      match buildEntry pb mode subjects targets with
      | some (some e) => if fabOk fab then runOp st (.aclUpdate fab idx e) out (renderStd "yes" "no") else (st, "BAD fab")
      | _ => (st, "BAD entry")
    | _, _, _, _ => (st, "BAD aupd")
  | "ainit" :: fab :: rest =>
    match fab.toNat?, parseInit rest with
    | some fab, some ini => if fabOk fab then runOp st (.aclAddInit fab ini) out (renderStd "yes" "no") else (st, "BAD fab")
    | _, _ => (st, "BAD ainit")
  | "uinit" :: fab :: idx :: rest =>
    match fab.toNat?, idx.toNat?, parseInit rest with
    | some fab, some idx, some ini =>
      if fabOk fab then runOp st (.aclUpdateInit fab idx ini) out (renderStd "yes" "no") else (st, "BAD fab")
    | _, _, _ => (st, "BAD uinit")
  | ["arm", fab, idx] =>
    match fab.toNat?, idx.toNat? with
    | some fab, some idx => if fabOk fab then runOp st (.aclRemove fab idx) out (renderStd "yes" "no") else (st, "BAD fab")
    | _, _ => (st, "BAD arm")
  | ["aclr", fab] =>
    match fab.toNat? with
    | some fab => if fabOk fab then runOp st (.aclRemoveAll fab) out (renderStd "yes" "no") else (st, "BAD fab")
    | none => (st, "BAD aclr")
  | "hw" :: fab :: rest =>
    let w : Option AclWrite := match rest with
      | ["replace", l] => if l = "-" then some (.replace []) else ((l.splitOn "|").mapM parseWire).map .replace
      | ["add", e] => (parseWire e).map .add
      | ["upd", idx, e] => match idx.toNat?, parseWire e with
        | some idx, some e => some (.update idx e)
        | _, _ => none
      | ["rm", idx] => idx.toNat?.map .remove
      | _ => none
    match fab.toNat?, w with
    | some fab, some w => if fabOk fab then runOp st (.handlerWrite fab w) out (renderStd "yes" "no") else (st, "BAD fab")
    | _, _ => (st, "BAD hw")
  | ["gadd", fab, gid, ep] =>
    match fab.toNat?, gid.toNat?, ep.toNat? with
    | some fab, some gid, some ep =>
      if fabOk fab && decide (gid ≤ 65535) && decide (ep ≤ 65535) then runOp st (.grpAdd fab ep gid) out (renderStd "member" "new")
      else (st, "BAD range")
    | _, _, _ => (st, "BAD gadd")
  | ["grm", fab, ep, gid] =>
    match fab.toNat?, ep.toNat?, optNum gid with
    | some fab, some ep, some gid =>
      if fabOk fab && decide (ep ≤ 65535) then runOp st (.grpRemove fab ep gid) out (renderStd "yes" "no") else (st, "BAD range")
    | _, _, _ => (st, "BAD grm")
  | ["join", fab, gid, eps, replace, _policy] =>
    match fab.toNat?, gid.toNat?, natList eps with
    | some fab, some gid, some eps =>
      if fabOk fab && decide (gid ≤ 65535) then runOp st (.grpJoin fab gid eps (replace = "1")) out (renderStd "yes" "no")
      else (st, "BAD range")
    | _, _, _ => (st, "BAD join")
  | ["gcrm", fab, gid] =>
    match fab.toNat?, gid.toNat? with
    | some fab, some gid =>
      if fabOk fab && decide (gid ≤ 65535) then runOp st (.grpCastRemove fab gid) out (renderStd "yes" "no") else (st, "BAD range")
    | _, _ => (st, "BAD gcrm")
  | ["gauxr", fab, gid, v] =>
    match fab.toNat?, gid.toNat? with
    | some fab, some gid =>
      if fabOk fab && decide (gid ≤ 65535) then runOp st (.grpSetAux fab gid (v = "1")) out (renderStd "yes" "no") else (st, "BAD range")
    | _, _ => (st, "BAD gauxr")
  | ["st", fab] =>
    match fab.toNat? with
    | some fab => if fabOk fab then runOp st (.persistStore fab) out (renderStd "yes" "no") else (st, "BAD fab")
    | none => (st, "BAD st")
  | ["strm", fab] =>
    match fab.toNat? with
    | some fab => if fabOk fab then runOp st (.persistRemove fab) out (renderStd "yes" "no") else (st, "BAD fab")
    | none => (st, "BAD strm")
  | ["faba", subject] =>
    match subject.toNat? with
    | some subject => runOp st (.fabAdd (some subject)) out (renderStd "yes" "no")
    | none => (st, "BAD faba")
  | ["wipe"] => runOp st .resetPersist out (renderStd "yes" "no")
  | ["load"] => runOp st .loadPersist out (renderStd "yes" "no")
  | ["rollback", fab] =>
    match fab.toNat? with
    | some fab => if fabOk fab then runOp st (.reload fab) out (renderStd "yes" "no") else (st, "BAD fab")
    | none => (st, "BAD rollback")
  | ["fab"] =>
    match fabricsAdd st.fabrics with
    | some (fs, i) => if out = toString i then ({ st with fabrics := fs }, "ok") else ({ st with fabrics := fs }, s!"DIS {i}")
    | none => if out = "err" then (st, "ok") else (st, "DIS err")
  | ["rmfab", i] =>
    match i.toNat? with
    | none => (st, "BAD num")
    | some i =>
      match (if i = 0 ∨ i > 255 then none else fabricsRemove st.fabrics i) with
      | some fs => if out = "ok" then ({ st with fabrics := fs }, "ok") else ({ st with fabrics := fs }, "DIS ok")
      | none => if out = "err" then (st, "ok") else (st, "DIS err")
  | ["acl", fab, pb, mode, subjects, targets] =>
    match fab.toNat?, pb.toNat?, modeOf mode with
    | some fab, some pb, some (some mode) =>
      match buildEntry pb mode subjects targets with
      | none => (st, "BAD entry")
      | some none => if out = "err" then (st, "ok") else (st, "DIS err")
      | some (some e) =>
        let r : Option (List Fabric × Nat) :=
          if fab = 0 ∨ fab > 255 then none else fabricsAclAdd st.fabrics fab e
        match r with
        | some (fs, i) => if out = toString i then ({ st with fabrics := fs }, "ok") else ({ st with fabrics := fs }, s!"DIS {i}")
        | none => if out = "err" then (st, "ok") else (st, "DIS err")
    | _, _, _ => (st, "BAD acl")
  | ["grp", fab, gid, ep] =>
    match fab.toNat?, gid.toNat?, ep.toNat? with
    | some fab, some gid, some ep =>
      let r : Option (List Fabric) :=
        if fab = 0 ∨ fab > 255 ∨ gid > 65535 ∨ ep > 65535 then none
        else fabricsGroupAdd st.fabrics fab ep gid
      match r with
      | some fs => if out = "ok" then ({ st with fabrics := fs }, "ok") else ({ st with fabrics := fs }, "DIS ok")
      | none => if out = "err" then (st, "ok") else (st, "DIS err")
    | _, _, _ => (st, "BAD grp")
  | ["gaux", fab, gid, v] =>
    match fab.toNat?, gid.toNat? with
    | some fab, some gid =>
      let r : Option (List Fabric × Bool) :=
        if fab = 0 ∨ fab > 255 ∨ gid > 65535 then none else fabricsSetHasAux st.fabrics fab gid (v = "1")
      match r with
      | some (fs, ch) =>
        let m := if ch then "changed" else "same"
        if out = m then ({ st with fabrics := fs }, "ok") else ({ st with fabrics := fs }, s!"DIS {m}")
      | none => if out = "err" then (st, "ok") else (st, "DIS err")
    | _, _ => (st, "BAD gaux")
  | ["acli", fab, pb, mode, subjects, targets] =>
    match fab.toNat?, pb.toNat?, modeOf mode with
    | some fab, some pb, some (some mode) =>
      match buildEntry pb mode subjects targets with
      | none => (st, "BAD entry")
      | some none => if out = "err" then (st, "ok") else (st, "DIS err")
      | some (some e) =>
        let r : Option (List Fabric × Nat) :=
          if fab = 0 ∨ fab > 255 then none else fabricsAclAddInit st.fabrics fab e
        match r with
        | some (fs, i) => if out = toString i then ({ st with fabrics := fs }, "ok") else ({ st with fabrics := fs }, s!"DIS {i}")
        | none => if out = "err" then (st, "ok") else (st, "DIS err")
    | _, _, _ => (st, "BAD acli")
  | [which, fab, idx, pb, mode, subjects, targets] =>
    if which ≠ "aclupd" ∧ which ≠ "aclupi" then (st, "BAD op") else
    match fab.toNat?, idx.toNat?, pb.toNat?, modeOf mode with
    | some fab, some idx, some pb, some (some mode) =>
      match buildEntry pb mode subjects targets with
      | none => (st, "BAD entry")
      | some none => if out = "err" then (st, "ok") else (st, "DIS err")
      | some (some e) =>
        let r : Option (List Fabric) :=
          if fab = 0 ∨ fab > 255 then none else fabricsAclUpdate st.fabrics fab idx e
        match r with
        | some fs => if out = "ok" then ({ st with fabrics := fs }, "ok") else ({ st with fabrics := fs }, "DIS ok")
        | none => if out = "err" then (st, "ok") else (st, "DIS err")
    | _, _, _, _ => (st, "BAD aclupd")
  | ["aclrm", fab, idx] =>
    match fab.toNat?, idx.toNat? with
    | some fab, some idx =>
      let r : Option (List Fabric) := if fab = 0 ∨ fab > 255 then none else fabricsAclRemove st.fabrics fab idx
      match r with
      | some fs => if out = "ok" then ({ st with fabrics := fs }, "ok") else ({ st with fabrics := fs }, "DIS ok")
      | none => if out = "err" then (st, "ok") else (st, "DIS err")
    | _, _ => (st, "BAD aclrm")
  | ["aclclr", fab] =>
    match fab.toNat? with
    | some fab =>
      let r : Option (List Fabric) := if fab = 0 ∨ fab > 255 then none else fabricsAclRemoveAll st.fabrics fab
      match r with
      | some fs => if out = "ok" then ({ st with fabrics := fs }, "ok") else ({ st with fabrics := fs }, "DIS ok")
      | none => if out = "err" then (st, "ok") else (st, "DIS err")
    | none => (st, "BAD aclclr")
  | ["grprm", fab, ep, gid] =>
    let gidO : Option (Option Nat) := if gid = "*" then some none else gid.toNat?.map some
    match fab.toNat?, ep.toNat?, gidO with
    | some fab, some ep, some gidO =>
      let gbad : Bool := match gidO with | some g => decide (g > 65535) | none => false
      let ok : Bool := !(decide (fab = 0) || decide (fab > 255) || decide (ep > 65535) || gbad)
      match (if ok then fabricsGet st.fabrics fab else none) with
      | none => if out = "err" then (st, "ok") else (st, "DIS err")
      | some f =>
        let r := groupsRemove f.groups ep gidO
        let fs := (fabricsGroupsMutate st.fabrics fab (fun gs => (groupsRemove gs ep gidO).1)).getD st.fabrics
        let m := if r.2 then "yes" else "no"
        if out = m then ({ st with fabrics := fs }, "ok") else ({ st with fabrics := fs }, s!"DIS {m}")
    | _, _, _ => (st, "BAD grprm")
  | ["gjoin", fab, gid, eps, replace] =>
    let epsO : Option (List Nat) :=
      if eps = "-" then some [] else (eps.splitOn ",").foldr (fun x acc => match x.toNat?, acc with
        | some v, some l => some (v :: l) | _, _ => none) (some [])
    match fab.toNat?, gid.toNat?, epsO with
    | some fab, some gid, some epsL =>
      let ok : Bool := !(decide (fab = 0) || decide (fab > 255) || decide (gid > 65535) || epsL.any (fun x => decide (x > 65535)))
      match (if ok then fabricsGet st.fabrics fab else none) with
      | none => if out = "err" then (st, "ok") else (st, "DIS err")
      | some f =>
        let r := groupsGroupcastJoin f.groups gid epsL (replace = "1")
        let fs := (fabricsGroupsMutate st.fabrics fab (fun gs => (groupsGroupcastJoin gs gid epsL (replace = "1")).1)).getD st.fabrics
        let m := if r.2 then "ok" else "fail"
        if out = m then ({ st with fabrics := fs }, "ok") else ({ st with fabrics := fs }, s!"DIS {m}")
    | _, _, _ => (st, "BAD gjoin")
  | ["gleave", fab, gid] =>
    match fab.toNat?, gid.toNat? with
    | some fab, some gid =>
      let ok : Bool := !(decide (fab = 0) || decide (fab > 255) || decide (gid > 65535))
      match (if ok then fabricsGet st.fabrics fab else none) with
      | none => if out = "err" then (st, "ok") else (st, "DIS err")
      | some f =>
        let fs := (fabricsGroupsMutate st.fabrics fab (fun gs => groupsGroupcastRemove gs gid)).getD st.fabrics
        let m := if f.groups.any (fun e => e.groupId == gid) then "yes" else "no"
        if out = m then ({ st with fabrics := fs }, "ok") else ({ st with fabrics := fs }, s!"DIS {m}")
    | _, _ => (st, "BAD gleave")
  | ["reload"] =>
    -- only meaningful for tables with the five privileges the Interaction Model can produce (the TLV
    -- encoding of a raw bit pattern is lossy / panics on the empty one): not a production state
    if st.fabrics.all (fun f => f.acl.all (fun e => canonicalPriv e.privilege)) then
      ({ st with fabrics := fabricsReload st.fabrics }, if out = "ok" then "ok" else "DIS ok")
    else (st, "BAD reload of a table with non-canonical privileges")
  | ["q", fab, mode, aux, id, cats, ep, cl, leaf, opb, perms, dts] =>
    match fab.toNat?, modeOf mode, id.toNat?, natList cats, optNum ep, optNum cl, optNum leaf,
        opb.toNat?, (if perms = "none" then some none else perms.toNat?.map some), natList dts with
    | some fab, some mode, some id, some cats, some ep, some cl, some leaf, some opb, some perms, some dts =>
      let subj := cats.foldl addCatid (subjectsNew id)
      let acc : Accessor := { fabIdx := fab, auxAclEnabled := aux = "1", subjects := subj, authMode := mode }
      let req : AccessReq := { accessor := acc, object := {
        path := { endpoint := ep, cluster := cl, leaf := leaf }, targetPerms := perms,
        operation := opb, deviceTypes := dts } }
      let m := allow st.fabrics req
      let own := if fab = 0 then none else fabricsGet st.fabrics fab
      let (ma, md) := match own with
        | none => ("-", "-")
        | some f => (bits (f.acl.map (fun e => matchAccessor e acc)),
                     bits (f.acl.map (fun e => matchAccessDesc e req.object acc.auxAclEnabled)))
      let mout := s!"{if m then "allow" else "deny"} {ma} {md}"
      let implAllow := out.startsWith "allow"
      -- oracle: the declarative specification on the same inputs; it speaks about the five
      -- privileges and the operations read / write only
      let inScope := (opOfBits opb).isSome &&
        (match own with | none => true | some f => f.acl.all (fun e => canonicalPriv e.privilege))
      if out = "panic" then (st, "ORA panic in allow()")
      else if inScope && grantedB st.fabrics req != implAllow then
        (st, s!"ORA spec={if grantedB st.fabrics req then "allow" else "deny"} impl={out}")
      else if mout = out then (st, "ok") else (st, s!"DIS {mout}")
    | _, _, _, _, _, _, _, _, _, _ => (st, "BAD q")
  | ["ep", fab, mode, id, endpoint] =>
    match fab.toNat?, modeOf mode, id.toNat?, endpoint.toNat? with
    | some fab, some mode, some id, some endpoint =>
      let acc : Accessor := { fabIdx := fab, auxAclEnabled := false, subjects := subjectsNew id, authMode := mode }
      let m := isEndpointAccessible st.fabrics acc endpoint
      let impl := out = "yes"
      if out = "panic" then (st, "ORA panic in is_endpoint_accessible()")
      else if reachesB st.fabrics acc endpoint != impl then
        (st, s!"ORA spec={if reachesB st.fabrics acc endpoint then "yes" else "no"} impl={out}")
      else if m = impl then (st, "ok") else (st, s!"DIS {if m then "yes" else "no"}")
    | _, _, _, _ => (st, "BAD ep")
  | ["sq", smode, sfab, peer, cats, gid, aux, ep, cl, leaf, opb, perms, dts] =>
    match sfab.toNat?, optNum peer, natList cats, gid.toNat?, optNum ep, optNum cl, optNum leaf,
        opb.toNat?, (if perms = "none" then some none else perms.toNat?.map some), natList dts with
    | some sfab, some peer, some cats, some gid, some ep, some cl, some leaf, some opb, some perms, some dts =>
      let mode : Option SessMode :=
        if smode = "c" then (if fabOk sfab then some (.case sfab cats) else none)
        else if smode = "p" then some (.pase sfab)
        else if smode = "g" then (if fabOk sfab then some (.group sfab gid) else none)
        else if smode = "x" then some .plainText else none
      match mode with
      | none => (st, "BAD session")
      | some mode =>
        let acc := accessorForSession mode peer (aux = "1")
        let req := allowLine st acc ep cl leaf opb perms dts
        let m := allow st.fabrics req
        let am := match acc.authMode with | some .pase => "p" | some .case => "c" | some .group => "g" | none => "n"
        let mout := s!"{if m then "allow" else "deny"} {acc.fabIdx} {am} {showSubjects acc.subjects}"
        let implAllow := out.startsWith "allow"
        let own := if acc.fabIdx = 0 then none else fabricsGet st.fabrics acc.fabIdx
        let inScope := (opOfBits opb).isSome &&
          (match own with | none => true | some f => f.acl.all (fun e => canonicalPriv e.privilege))
        if out = "panic" then (st, "ORA panic in allow()")
        -- an unauthenticated session is never granted anything
        else if smode = "x" && implAllow then (st, "ORA unauthenticated session granted")
        -- the accessor acts for the fabric of its session
        else if (words out).getD 1 "" ≠ toString mode.fabIdx then (st, s!"ORA accessor fabric {(words out).getD 1 ""} session fabric {mode.fabIdx}")
        else if inScope && grantedB st.fabrics req != implAllow then
          (st, s!"ORA spec={if grantedB st.fabrics req then "allow" else "deny"} impl={out}")
        else if mout = out then (st, "ok") else (st, s!"DIS {mout}")
    | _, _, _, _, _, _, _, _, _, _ => (st, "BAD sq")
  | ["sr", sfab, gid, endpoint] =>
    match sfab.toNat?, gid.toNat?, endpoint.toNat? with
    | some sfab, some gid, some endpoint =>
      if fabOk sfab && decide (gid ≤ 65535) then
        let acc := accessorForSession (.group sfab gid) none false
        let m := isEndpointAccessible st.fabrics acc endpoint
        let impl := out = "yes"
        if out = "panic" then (st, "ORA panic in is_endpoint_accessible()")
        -- the specification on the group id as it is (no narrowing)
        else if reachesIdB st.fabrics acc endpoint != impl then
          (st, s!"ORA spec={if reachesIdB st.fabrics acc endpoint then "yes" else "no"} impl={out}")
        else if m = impl then (st, "ok") else (st, s!"DIS {if m then "yes" else "no"}")
      else (st, "BAD range")
    | _, _, _ => (st, "BAD sr")
  | _ => (st, "BAD op")

def run : IO UInt32 := Driver.runLoop ({} : St) step

end Driver.C05
