/-! # C06 — property theorems (not built yet) -/
