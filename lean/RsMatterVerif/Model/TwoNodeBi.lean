import RsMatterVerif.Model.Transport
/-!
# Two nodes, ONE exchange, reliable traffic in BOTH directions (C09)

`Model/TwoNode.lean` has data flowing one way and stand-alone acknowledgements the other way. Here
both nodes are the same machine: each sends reliable application messages (stop-and-wait: the next
call starts when the previous one returned, nothing more after a failed call) whose headers carry
the piggy-backed acknowledgement `ReliableMessage::pre_send` writes, retransmits, gives up,
acknowledges through `Exchange::acknowledge`, and receives: receive window (secure session:
`Dedup.postRecvPlain … true`), then `ReliableMessage::post_recv` with the acknowledgement field of
the received header — a matching acknowledgement ends the pending call, a NON-matching one makes
`post_recv` answer `Duplicate` (the message is then treated like a window duplicate by
`handle_rx_packet`: not handed to the application, acknowledged with a fresh stand-alone
acknowledgement outside the exchange if it asked for one). The network is a multiset of datagrams;
the adversary drops, duplicates, delivers any of them at any time.

The nodes' send counters are shared between their data messages and their stand-alone
acknowledgements (as in the code), so a message number no longer determines its counter: `msgs`
remembers the counter each application message went out with.
Composed from the transliterated pieces of `Model/Transport.lean`; secure sessions only. Not replayed
against the running system (the system-level flows of the harness are one-directional).
Import-free apart from `Model/Transport`.
-/
namespace TwoNodeBi
open Transport Dedup

structure Node where
  /-- next send counter -/
  ctr : Nat
  /-- the exchange's reliability state -/
  mrp : Mrp := {}
  /-- the session's receive window -/
  rx : RxState := RxState.unsynced
  /-- number of the application message whose send call is in progress -/
  cur : Option Nat := none
  /-- counters of the application messages sent so far (message number = position) -/
  msgs : List Nat := []
  /-- finished send calls (message number, success), newest first -/
  res : List (Nat × Bool) := []
  /-- numbers of the peer's application messages handed to this node's application, newest first -/
  app : List Nat := []
deriving Repr, Inhabited

/-- a datagram in flight -/
structure Dg where
  /-- the sending node -/
  frm : Bool
  ctr : Nat
  /-- `some i`: the sender's reliable application message number `i`; `none`: a stand-alone acknowledgement -/
  idx : Option Nat
  /-- acknowledged-counter field -/
  ack : Option Nat
deriving DecidableEq, Repr, Inhabited

structure Sys where
  n : Bool → Node
  net : List Dg := []
  sai : Option Nat := none

def init (a0 b0 : Nat) (sai : Option Nat := none) : Sys :=
  { n := fun x => if x then { ctr := a0 } else { ctr := b0 }, sai := sai }

def upd (s : Sys) (x : Bool) (nd : Node) : Sys := { s with n := fun y => if y = x then nd else s.n y }

inductive Ev
  | send (x : Bool) | retx (x : Bool) | giveup (x : Bool)
  /-- the application of `x` calls `acknowledge()` -/
  | ackApp (x : Bool)
  | drop (d : Dg) | dup (d : Dg) | deliver (d : Dg)
deriving DecidableEq, Repr, Inhabited

def Node.allOk (nd : Node) : Bool := nd.res.all (·.2)

/-- first `pre_send` of a new reliable application message of node `x` -/
def sendStep (s : Sys) (x : Bool) : Option Sys :=
  let nd := s.n x
  if nd.cur.isSome || !nd.allOk || nd.mrp.retrans.isSome then none else
  let p := nd.mrp.preSend nd.ctr true none s.sai
  match p.2.2 with
  | some _ => none
  | none =>
    some { upd s x { nd with ctr := nd.ctr + 1, mrp := p.1, cur := some nd.msgs.length, msgs := nd.msgs ++ [nd.ctr] } with
           net := { frm := x, ctr := nd.ctr, idx := some nd.msgs.length, ack := p.2.1 } :: s.net }

/-- `pre_send` of the pending message again: retransmission or give-up -/
def resendStep (s : Sys) (x : Bool) (wantGiveup : Bool) : Option Sys :=
  let nd := s.n x
  match nd.cur, nd.mrp.retrans with
  | some i, some r =>
    let p := nd.mrp.preSend r.ctr true none s.sai
    match p.2.2 with
    | none =>
      if wantGiveup then none
      else some { upd s x { nd with mrp := p.1 } with net := { frm := x, ctr := r.ctr, idx := some i, ack := p.2.1 } :: s.net }
    | some .txTimeout =>
      if wantGiveup then some (upd s x { nd with mrp := p.1, cur := none, res := (i, false) :: nd.res }) else none
    | some _ => none
  | _, _ => none

/-- `Exchange::acknowledge`: a stand-alone acknowledgement through the exchange, if one is owed and
the exchange has no message of its own pending (with one pending the acknowledgement travels on its
retransmissions; `TxMessage::complete` would refuse the stand-alone one) -/
def ackStep (s : Sys) (x : Bool) : Option Sys :=
  let nd := s.n x
  if !nd.mrp.isAckPending || nd.mrp.retrans.isSome then none else
  let p := nd.mrp.preSend nd.ctr false none none
  some { upd s x { nd with ctr := nd.ctr + 1, mrp := p.1 } with
         net := { frm := x, ctr := nd.ctr, idx := none, ack := p.2.1 } :: s.net }

/-- `handle_rx_packet`, `Duplicate` (from the window or from `ReliableMessage::post_recv`): a message
that asked for an acknowledgement gets a fresh stand-alone one outside the exchange -/
def dupAck (s : Sys) (y : Bool) (nd : Node) (d : Dg) : Sys :=
  if d.idx.isSome then
    { upd s y { nd with ctr := nd.ctr + 1 } with net := { frm := y, ctr := nd.ctr, idx := none, ack := some d.ctr } :: s.net }
  else upd s y nd

/-- the stack of the other node takes `d` from the network -/
def recv (s : Sys) (d : Dg) : Sys :=
  let y := !d.frm
  let nd := s.n y
  let w := Dedup.postRecvPlain nd.rx d.ctr true
  if !w.2 then dupAck s y { nd with rx := w.1 } d
  else
    let p := nd.mrp.postRecv d.ctr d.ack d.idx.isSome 0
    match p.2 with
    | some _ => dupAck s y { nd with rx := w.1 } d
    | none =>
      let app' := match d.idx with
        | some i => i :: nd.app
        | none => nd.app
      let nd1 : Node := { nd with rx := w.1, mrp := p.1, app := app' }
      match nd.cur with
      | some j =>
        -- `wait_tx` answers `Done` once nothing is pending any more
        if p.1.retrans.isNone then upd s y { nd1 with cur := none, res := (j, true) :: nd.res } else upd s y nd1
      | none => upd s y nd1

def step (s : Sys) : Ev → Option Sys
  | .send x => sendStep s x
  | .retx x => resendStep s x false
  | .giveup x => resendStep s x true
  | .ackApp x => ackStep s x
  | .drop d => if s.net.contains d then some { s with net := s.net.erase d } else none
  | .dup d => if s.net.contains d then some { s with net := d :: s.net } else none
  | .deliver d => if s.net.contains d then some (recv { s with net := s.net.erase d } d) else none

def run : Sys → List Ev → Option Sys
  | s, [] => some s
  | s, e :: es =>
    match step s e with
    | some s' => run s' es
    | none => none

end TwoNodeBi
