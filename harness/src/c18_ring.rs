//! C18, ring stream: drives the REAL `rs_matter::utils::storage::RingBuf<N>` directly
//! (the receive buffer of the BTP session) with pushes / pops that wrap and overflow.
//!
//! case line:  `case <id> r <N>`
//! operations: `rpush <hex>` | `rpop <k>` | `rpushb <byte>` | `rpopb` | `rclear`
//! every answer: `<bytes handed out as hex, - if none> <len> <free> <is_full> <is_empty>`
use crate::proto::{hex, unhex};
use crate::rng::Rng;
use rs_matter::utils::storage::RingBuf;

pub trait RingDyn {
    fn push(&mut self, d: &[u8]) -> usize;
    fn pop(&mut self, k: usize) -> Vec<u8>;
    fn push_byte(&mut self, b: u8) -> usize;
    fn pop_byte(&mut self) -> Option<u8>;
    fn clear(&mut self);
    fn obs(&self) -> (usize, usize, bool, bool);
}

impl<const N: usize> RingDyn for RingBuf<N> {
    fn push(&mut self, d: &[u8]) -> usize {
        RingBuf::push(self, d)
    }
    fn pop(&mut self, k: usize) -> Vec<u8> {
        let mut out = vec![0u8; k];
        let n = RingBuf::pop(self, &mut out);
        out.truncate(n);
        out
    }
    fn push_byte(&mut self, b: u8) -> usize {
        RingBuf::push_byte(self, b)
    }
    fn pop_byte(&mut self) -> Option<u8> {
        RingBuf::pop_byte(self)
    }
    fn clear(&mut self) {
        RingBuf::clear(self)
    }
    fn obs(&self) -> (usize, usize, bool, bool) {
        (self.len(), self.free(), self.is_full(), self.is_empty())
    }
}

pub const SIZES: [usize; 12] = [1, 2, 3, 4, 5, 7, 8, 16, 61, 64, 256, 3166];

pub fn new_ring(n: usize) -> Option<Box<dyn RingDyn>> {
    Some(match n {
        1 => Box::new(RingBuf::<1>::new()),
        2 => Box::new(RingBuf::<2>::new()),
        3 => Box::new(RingBuf::<3>::new()),
        4 => Box::new(RingBuf::<4>::new()),
        5 => Box::new(RingBuf::<5>::new()),
        7 => Box::new(RingBuf::<7>::new()),
        8 => Box::new(RingBuf::<8>::new()),
        16 => Box::new(RingBuf::<16>::new()),
        61 => Box::new(RingBuf::<61>::new()),
        64 => Box::new(RingBuf::<64>::new()),
        256 => Box::new(RingBuf::<256>::new()),
        3166 => Box::new(RingBuf::<3166>::new()),
        _ => return None,
    })
}

/// Execute one ring operation on the real code; canonical output.
pub fn exec(r: &mut dyn RingDyn, w: &[&str]) -> String {
    let mut out: Vec<u8> = Vec::new();
    let mut ret: Option<usize> = None;
    match w[0] {
        "rpush" => ret = Some(r.push(&unhex(w.get(1).copied().unwrap_or("-")))),
        "rpop" => out = r.pop(w.get(1).and_then(|x| x.parse().ok()).unwrap_or(0usize).min(1 << 16)),
        "rpushb" => ret = Some(r.push_byte(w.get(1).and_then(|x| x.parse().ok()).unwrap_or(0u8))),
        "rpopb" => {
            if let Some(b) = r.pop_byte() {
                out.push(b)
            }
        }
        "rclear" => r.clear(),
        _ => return "bad".into(),
    }
    let (len, free, full, empty) = r.obs();
    if let Some(l) = ret {
        if l != len {
            return format!("push returned {} but len() = {}", l, len);
        }
    }
    format!("{} {} {} {} {}", hex(&out), len, free, full as u8, empty as u8)
}

/// generator: returns (kind, op lines, pushed bytes in total)
pub fn gen_ops(r: &mut Rng, thorough: bool) -> (String, Vec<String>) {
    let n = *r.pick(&SIZES);
    let steps = if thorough { r.range(20, 600) } else { r.range(10, 160) };
    // profiles: 0 balanced, 1 mostly full (overflow), 2 mostly empty, 3 large chunks
    let profile = r.below(4);
    let mut ops = Vec::new();
    let mut fill: usize = 0; // what a byte queue would hold (only to steer the generator)
    let big = if n > 256 { 1300 } else { 2 * n + 3 };
    for _ in 0..steps {
        let c = r.below(100);
        let push_w = match profile {
            1 => 60,
            2 => 35,
            _ => 47,
        };
        if c < push_w {
            let free = n - fill;
            let len = match r.below(9) {
                0 => 0,
                1 => 1,
                2 => free,
                3 => free + 1,
                4 => free.saturating_sub(1),
                5 => n,
                6 => r.range(0, big as u64) as usize,
                7 if profile == 3 => r.range((n / 2).min(big) as u64, big as u64) as usize,
                _ => r.range(0, (n.min(40) + 1) as u64) as usize,
            };
            let d = r.bytes(len);
            fill = (fill + len).min(n);
            ops.push(format!("rpush {}", hex(&d)));
        } else if c < 88 {
            let k = match r.below(7) {
                0 => 0,
                1 => 1,
                2 => fill,
                3 => fill + 1,
                4 => fill.saturating_sub(1),
                5 => n + 2,
                _ => r.range(0, (n.min(40) + 2) as u64) as usize,
            };
            fill -= k.min(fill);
            ops.push(format!("rpop {}", k));
        } else if c < 93 {
            fill = (fill + 1).min(n);
            ops.push(format!("rpushb {}", r.below(256)));
        } else if c < 98 {
            fill -= 1.min(fill);
            ops.push("rpopb".into());
        } else {
            fill = 0;
            ops.push("rclear".into());
        }
    }
    (format!("r {}", n), ops)
}
