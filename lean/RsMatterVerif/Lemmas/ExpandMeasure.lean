import RsMatterVerif.Lemmas.ExpandFull
/-!
# Termination of the path expander: the three cursors decrease lexicographically
(no hypothesis on the ACL state, the cache, or cluster / leaf ids; only: endpoints sorted by id)
-/
namespace C06
open Acl Expand

theorem leafLoop_found_index {ctx : Ctx} {op : Operation} {path : Path} {e : Endpoint} {c : Cluster}
    {la : Option (Nat × Nat × Nat)} {ls : List Leaf} {li li' : Nat} {leaf : Leaf}
    (h : leafLoop ctx op path e c la ls li = .found li' leaf) :
    li < li' ∧ li' ≤ li + ls.length ∧ ls[li' - li - 1]? = some leaf := by
  induction ls generalizing li with
  | nil => simp [leafLoop] at h
  | cons x xs ih =>
    unfold leafLoop at h
    have step : leafLoop ctx op path e c la xs (li + 1) = .found li' leaf →
        li < li' ∧ li' ≤ li + (x :: xs).length ∧ (x :: xs)[li' - li - 1]? = some leaf := by
      intro hh
      obtain ⟨a, b, c'⟩ := ih hh
      simp only [List.length_cons]
      refine ⟨by omega, by omega, ?_⟩
      have : li' - li - 1 = (li' - (li + 1) - 1) + 1 := by omega
      rw [this, List.getElem?_cons_succ]
      exact c'
    split at h
    · split at h
      · injection h with h1 h2; subst h1; subst h2; simp
      · split at h
        · cases h
        · exact step h
      · split at h
        · cases h
        · exact step h
    · exact step h

theorem mC_le_zero (op : Operation) (cs : List Cluster) (li : Nat) : mC op cs li ≤ mC op cs 0 := by
  cases cs with
  | nil => simp [mC]
  | cons c rest => simp only [mC]; omega

theorem mC_drop_le (op : Operation) (cs : List Cluster) (ci : Nat) : mC op (cs.drop ci) 0 ≤ mC op cs 0 := by
  induction cs generalizing ci with
  | nil => simp [mC]
  | cons c rest ih =>
    cases ci with
    | zero => simp
    | succ k =>
      simp only [List.drop_succ_cons]
      have := ih k
      simp only [mC]
      omega

theorem clusterLoop_found_measure {ctx : Ctx} {op : Operation} {path : Path} {e : Endpoint}
    {la : Option (Nat × Nat × Nat)} {cs : List Cluster} {ci li ci' li' : Nat} {c : Cluster} {leaf : Leaf}
    (h : clusterLoop ctx op path e la cs ci li = .found ci' li' c leaf) :
    ∃ j, ci' = ci + j ∧ mC op (cs.drop j) li' < mC op cs li ∧ (j = 0 → li < li') ∧
      cs[j]? = some c ∧ 0 < li' ∧ (c.leaves (op == .invoke))[li' - 1]? = some leaf := by
  induction cs generalizing ci li with
  | nil => simp [clusterLoop] at h
  | cons x xs ih =>
    unfold clusterLoop at h
    have step : ∀ li2, clusterLoop ctx op path e la xs (ci + 1) li2 = .found ci' li' c leaf →
        ∃ j, ci' = ci + j ∧ mC op ((x :: xs).drop j) li' < mC op (x :: xs) li ∧ (j = 0 → li < li') ∧
          (x :: xs)[j]? = some c ∧ 0 < li' ∧ (c.leaves (op == .invoke))[li' - 1]? = some leaf := by
      intro li2 hh
      obtain ⟨j, h1, h2, _, h4, h5, h6⟩ := ih hh
      refine ⟨j + 1, by omega, ?_, by omega, by simpa using h4, h5, h6⟩
      have := mC_le_zero op xs li2
      simp only [List.drop_succ_cons, mC]
      omega
    split at h
    · simp only at h
      split at h
      · rename_i li2 lf2 hl
        injection h with h1 h2 h3 h4
        subst h1; subst h2; subst h3; subst h4
        obtain ⟨a, b, d⟩ := leafLoop_found_index hl
        simp only [List.length_drop] at b
        refine ⟨0, rfl, ?_, fun _ => a, rfl, by omega, ?_⟩
        · simp only [List.drop_zero, mC]
          omega
        · rw [List.getElem?_drop] at d
          have : li + (li2 - li - 1) = li2 - 1 := by omega
          rw [this] at d
          exact d
      · cases h
      · cases h
      · split at h
        · cases h
        · exact step 0 h
    · exact step li h

theorem mE_le_zero (op : Operation) (es : List Endpoint) (ci li : Nat) : mE op es ci li ≤ mE op es 0 0 := by
  cases es with
  | nil => simp [mE]
  | cons e rest =>
    simp only [mE, List.drop_zero]
    have := mC_le_zero op (e.clusters.drop ci) li
    have := mC_drop_le op e.clusters ci
    omega

theorem mE_drop_le (op : Operation) (es : List Endpoint) (j : Nat) : mE op (es.drop j) 0 0 ≤ mE op es 0 0 := by
  induction es generalizing j with
  | nil => simp [mE]
  | cons e rest ih =>
    cases j with
    | zero => simp
    | succ k =>
      simp only [List.drop_succ_cons]
      have := ih k
      simp only [mE]
      omega

/-- where a yielded triple sits: cluster `ci'` of endpoint `e`, leaf `li' - 1` of that cluster's table -/
def AtPos (op : Operation) (e : Endpoint) (ci' li' : Nat) (ep cl lf : Nat) : Prop :=
  ∃ c l, e.clusters[ci']? = some c ∧ (c.leaves (op == .invoke))[li' - 1]? = some l ∧ 0 < li' ∧
    ep = e.id ∧ cl = c.id ∧ lf = l.id

/-- **the cursors increase lexicographically with every yield** (`mE` is that order flattened) -/
theorem endpointLoop_yield_measure {ctx : Ctx} {op : Operation} {path : Path}
    {la : Option (Nat × Nat × Nat)} {es : List Endpoint} {ci li ep cl lf : Nat} {arr : Bool} {cur : Cursor}
    (h : endpointLoop ctx op path la es ci li = .yield ep cl lf arr cur) :
    ∃ j e post, es.drop j = e :: post ∧
      cur = { endpointId := some e.id, clusterIndex := cur.clusterIndex, leafIndex := cur.leafIndex } ∧
      mE op (e :: post) cur.clusterIndex cur.leafIndex < mE op es ci li ∧
      (j = 0 → ci < cur.clusterIndex ∨ (ci = cur.clusterIndex ∧ li < cur.leafIndex)) ∧
      AtPos op e cur.clusterIndex cur.leafIndex ep cl lf := by
  induction es generalizing ci li with
  | nil => unfold endpointLoop at h; split at h <;> cases h
  | cons x xs ih =>
    unfold endpointLoop at h
    have step : ∀ ci2 li2, endpointLoop ctx op path la xs ci2 li2 = .yield ep cl lf arr cur →
        ∃ j e post, (x :: xs).drop j = e :: post ∧
          cur = { endpointId := some e.id, clusterIndex := cur.clusterIndex, leafIndex := cur.leafIndex } ∧
          mE op (e :: post) cur.clusterIndex cur.leafIndex < mE op (x :: xs) ci li ∧
          (j = 0 → ci < cur.clusterIndex ∨ (ci = cur.clusterIndex ∧ li < cur.leafIndex)) ∧
          AtPos op e cur.clusterIndex cur.leafIndex ep cl lf := by
      intro ci2 li2 hh
      obtain ⟨j, e, post, h1, h2, h3, _, h5⟩ := ih hh
      refine ⟨j + 1, e, post, by simpa using h1, h2, ?_, by omega, h5⟩
      have := mE_le_zero op xs ci2 li2
      simp only [mE] at h3 ⊢
      omega
    split at h
    · split at h
      · rename_i ci' li' c leaf hc
        injection h with g1 g2 g3 _ h5
        subst h5
        obtain ⟨j, h1, h2, h3, h4, h6, h7⟩ := clusterLoop_found_measure hc
        subst h1
        refine ⟨0, x, xs, rfl, rfl, ?_, fun _ => ?_, c, leaf, ?_, h7, h6, g1.symm, g2.symm, g3.symm⟩
        · simp only [List.drop_drop] at h2
          simp only [mE]
          omega
        · simp only
          by_cases hj : j = 0
          · right; exact ⟨by omega, h3 hj⟩
          · left; omega
        · simp only
          rw [List.getElem?_drop] at h4
          exact h4
      · cases h
      · cases h
      · split at h
        · cases h
        · exact step _ _ h
    · exact step _ _ h

/-- the measure of a cursor on a node: re-anchor (as `next_for_path` does), then weigh what is left -/
def curMeasure (op : Operation) (node : Node) (cur : Cursor) : Nat :=
  mE op (node.drop (resumeEndpointIndex node cur).1) (resumeEndpointIndex node cur).2.clusterIndex
    (resumeEndpointIndex node cur).2.leafIndex

theorem curMeasure_le (op : Operation) (node : Node) (cur : Cursor) : curMeasure op node cur ≤ mE op node 0 0 := by
  unfold curMeasure
  exact Nat.le_trans (mE_le_zero _ _ _ _) (mE_drop_le _ _ _)

theorem curMeasure_fresh (op : Operation) (node : Node) : curMeasure op node {} = mE op node 0 0 := rfl

theorem nextForPath_unfold (ctx : Ctx) (op : Operation) (node : Node) (path : Path) (cur : Cursor)
    (la : Option (Nat × Nat × Nat)) :
    nextForPath ctx op node path cur la =
      if op != .read && path.cluster.isNone then .err .unsupportedCluster
      else if op != .read && path.leaf.isNone then .err .unsupportedAttribute
      else endpointLoop ctx op path la (node.drop (resumeEndpointIndex node cur).1)
        (resumeEndpointIndex node cur).2.clusterIndex (resumeEndpointIndex node cur).2.leafIndex := rfl

theorem nextForPath_yield_measure {ctx : Ctx} {op : Operation} {node : Node} {path : Path} {cur cur' : Cursor}
    {la : Option (Nat × Nat × Nat)} {ep cl lf : Nat} {arr : Bool}
    (hs : (node.map (·.id)).Pairwise (· < ·))
    (h : nextForPath ctx op node path cur la = .yield ep cl lf arr cur') :
    curMeasure op node cur' < curMeasure op node cur := by
  rw [nextForPath_unfold] at h
  split at h
  · cases h
  · split at h
    · cases h
    · obtain ⟨j, e, post, h1, h2, h3, _, _⟩ := endpointLoop_yield_measure h
      rw [List.drop_drop] at h1
      have hnode : node = node.take ((resumeEndpointIndex node cur).1 + j) ++ e :: post := by
        rw [← h1, List.take_append_drop]
      have hs' := hs
      rw [hnode] at hs'
      have hres := resume_sorted cur'.clusterIndex cur'.leafIndex hs'
      rw [← hnode, ← h2] at hres
      unfold curMeasure
      rw [hres]
      simp only
      have hd : node.drop (node.take ((resumeEndpointIndex node cur).1 + j)).length = e :: post := by
        conv => lhs; arg 2; rw [hnode]
        simp
      rw [hd]
      exact h3

/-- the measure of an expander state: what the current path may still yield, plus a full scan for
every path not yet started -/
def stMeasure (op : Operation) (node : Node) (st : St) : Nat :=
  (match st.item with
   | some _ => curMeasure op node st.cur + 1
   | none => 0) + st.items.length * (mE op node 0 0 + 2)

theorem nextFrom_measure {ctx : Ctx} {op : Operation} {node : Node}
    (hs : (node.map (·.id)).Pairwise (· < ·)) (la : Option (Nat × Nat × Nat))
    (items : List Path) (p : Path) (cur : Cursor) {o : Out} {st' : St}
    (h : nextFrom ctx op node p cur la items = some (o, st')) :
    stMeasure op node st' < curMeasure op node cur + 1 + items.length * (mE op node 0 0 + 2) := by
  induction items generalizing p cur with
  | nil =>
    unfold nextFrom at h
    cases hn : nextForPath ctx op node p cur la with
    | yield ep cl lf arr cur' =>
      simp only [hn, Option.some.injEq, Prod.mk.injEq] at h
      obtain ⟨_, rfl⟩ := h
      have := nextForPath_yield_measure hs hn
      unfold stMeasure
      simp only
      split <;> simp only [List.length_nil] <;> omega
    | done => simp [hn] at h
    | err s =>
      simp only [hn, Option.some.injEq, Prod.mk.injEq] at h
      obtain ⟨_, rfl⟩ := h
      simp [stMeasure]
  | cons q rest ih =>
    unfold nextFrom at h
    cases hn : nextForPath ctx op node p cur la with
    | yield ep cl lf arr cur' =>
      simp only [hn, Option.some.injEq, Prod.mk.injEq] at h
      obtain ⟨_, rfl⟩ := h
      have := nextForPath_yield_measure hs hn
      unfold stMeasure
      simp only
      split <;> omega
    | done =>
      simp only [hn] at h
      have := ih q {} h
      rw [curMeasure_fresh] at this
      simp only [List.length_cons, Nat.add_mul]
      omega
    | err s =>
      simp only [hn, Option.some.injEq, Prod.mk.injEq] at h
      obtain ⟨_, rfl⟩ := h
      simp only [stMeasure]
      omega

/-- **every call of `next` that produces an output decreases the measure** -/
theorem next_measure {ctx : Ctx} {op : Operation} {node : Node}
    (hs : (node.map (·.id)).Pairwise (· < ·)) {st st' : St} {o : Out}
    (h : next ctx op node st = some (o, st')) : stMeasure op node st' < stMeasure op node st := by
  unfold next at h
  cases hi : st.item with
  | some path =>
    simp only [hi] at h
    have := nextFrom_measure hs _ _ _ _ h
    simp only [stMeasure, hi] at this ⊢
    omega
  | none =>
    simp only [hi] at h
    cases hit : st.items with
    | nil => simp [hit] at h
    | cons q rest =>
      simp only [hit] at h
      have := nextFrom_measure hs _ _ _ _ h
      rw [curMeasure_fresh] at this
      simp only [stMeasure, hi, hit, List.length_cons, Nat.add_mul] at this ⊢
      omega

/-- the number of outputs is bounded by the measure, whatever the fuel -/
theorem run_length_le {ctx : Ctx} {op : Operation} {node : Node}
    (hs : (node.map (·.id)).Pairwise (· < ·)) (fuel : Nat) (st : St) :
    (run ctx op node fuel st).length ≤ stMeasure op node st := by
  induction fuel generalizing st with
  | zero => simp [run]
  | succ n ih =>
    unfold run
    cases hn : next ctx op node st with
    | none => simp
    | some r =>
      obtain ⟨o, st'⟩ := r
      have := next_measure hs hn
      have := ih st'
      simp only [List.length_cons]
      omega

/-- once the fuel exceeds the measure, more fuel changes nothing: the run has ended -/
theorem run_stable {ctx : Ctx} {op : Operation} {node : Node}
    (hs : (node.map (·.id)).Pairwise (· < ·)) (n : Nat) (st : St) (hn : stMeasure op node st < n)
    (m : Nat) (hm : n ≤ m) : run ctx op node m st = run ctx op node n st := by
  induction n generalizing st m with
  | zero => omega
  | succ k ih =>
    cases m with
    | zero => omega
    | succ m' =>
      unfold run
      cases hx : next ctx op node st with
      | none => rfl
      | some r =>
        obtain ⟨o, st'⟩ := r
        have := next_measure hs hx
        simp only [List.cons.injEq, true_and]
        exact ih st' (by omega) m' (by omega)

end C06
