import Driver.AdminCommon
/-! Driver for C11: the shared administrative model + the C11 part of the oracle (see Driver/AdminCommon.lean). -/
namespace Driver.C11

def run : IO UInt32 := Driver.Adm.run "C11"

end Driver.C11
