//! C16 stream `s`: real derived (`#[derive(FromTLV, ToTLV)]`) wire structures round-tripped.
//!
//! A value is written as text: `-` (Option::None), `n` (Nullable null), a decimal number (unsigned integer,
//! flags, the bit pattern of a float), `+<n>` / `-<n>` (a signed integer, always with its sign), `T` / `F`,
//! `x<hex>` (octet / UTF-8 string), `{ slot … }` (structure, slots in field order), `[ value … ]`
//! (array). `enc <value>` builds the Rust value and runs the derived `to_tlv` with an anonymous tag
//! (for the structures that only derive `FromTLV` — the Sigma messages — the bytes are produced by a
//! schema-directed writer over the real `TLVWrite`, i.e. the layout the peer sends); `dec <hex>`
//! runs the derived `from_tlv` and prints the value back.
use crate::proto::{hex, unhex};
use crate::rng::Rng;

use core::num::NonZeroU8;

use rs_matter::acl::{AclEntry, AuthMode, Target};
use rs_matter::dm::clusters::acl::AccessControlAuxiliaryTypeEnum;
use rs_matter::dm::clusters::thread_diag::NeighborTable;
use rs_matter::dm::clusters::time_sync::DSTOffsetEntry;
use rs_matter::dm::Privilege;
use rs_matter::error::Error;
use rs_matter::im::{
    AttrData, AttrPath, AttrResp, AttrStatus, ClusterPath, CmdData, CmdPath, CmdResp, CmdStatus, DataVersionFilter, EventFilter, EventPath,
    IMStatusCode, Status, StatusResp, TimedReq,
};
use rs_matter::sc::VerifSessionParams as Sp;
use rs_matter::tlv::{FromTLV, Nullable, TLVElement, TLVTag, TLVWrite, ToTLV};
use rs_matter::utils::storage::WriteBuf;

#[path = "c16_derive_shapes.rs"]
mod shapes;

// ---------------------------------------------------------------------------------- values

#[derive(Clone, Debug, PartialEq)]
pub enum V {
    Absent,
    Null,
    Num(u64),
    /// a signed integer field (`iN`, `NonZeroIN`)
    Int(i64),
    Bool(bool),
    Bytes(Vec<u8>),
    Obj(Vec<V>),
    Arr(Vec<V>),
    /// a raw `TLVElement` field: the bytes of the element under the anonymous tag
    Raw(Vec<u8>),
    /// the empty `TLVElement` (field not present)
    Empty,
    /// variant `i` of an enum with payload
    Variant(usize, Box<V>),
}

fn parse_one(toks: &[&str], pos: &mut usize) -> Result<V, String> {
    let t = *toks.get(*pos).ok_or("BADSLOT")?;
    *pos += 1;
    Ok(match t {
        "-" => V::Absent,
        "n" => V::Null,
        "T" => V::Bool(true),
        "F" => V::Bool(false),
        "_" => V::Empty,
        "(" => {
            let i = toks.get(*pos).ok_or("BADSLOT")?.parse::<usize>().map_err(|_| "BADSLOT".to_string())?;
            *pos += 1;
            let v = parse_one(toks, pos)?;
            if toks.get(*pos) != Some(&")") {
                return Err("BADSLOT".into());
            }
            *pos += 1;
            V::Variant(i, Box::new(v))
        }
        x if x.starts_with("r:") => {
            let h = &x[2..];
            if h.is_empty() || h.len() % 2 != 0 || !h.bytes().all(|c| c.is_ascii_hexdigit()) {
                return Err("BADSLOT".into());
            }
            V::Raw(unhex(h))
        }
        "{" | "[" => {
            let close = if t == "{" { "}" } else { "]" };
            let mut items = Vec::new();
            loop {
                let n = *toks.get(*pos).ok_or("BADSLOT")?;
                if n == close {
                    *pos += 1;
                    break;
                }
                items.push(parse_one(toks, pos)?);
            }
            if t == "{" {
                V::Obj(items)
            } else {
                V::Arr(items)
            }
        }
        x if x.starts_with('x') => {
            let h = &x[1..];
            if h.len() % 2 != 0 || !h.bytes().all(|c| c.is_ascii_hexdigit()) {
                return Err("BADSLOT".into());
            }
            V::Bytes(if h.is_empty() { Vec::new() } else { unhex(h) })
        }
        x if x.len() > 1 && (x.starts_with('+') || x.starts_with('-')) && x[1..].bytes().all(|c| c.is_ascii_digit()) => {
            V::Int(x.parse::<i64>().map_err(|_| "BADSLOT".to_string())?)
        }
        x => V::Num(x.parse::<u64>().map_err(|_| "BADSLOT".to_string())?),
    })
}

pub fn parse(toks: &[&str]) -> Result<V, String> {
    let mut pos = 0;
    let v = parse_one(toks, &mut pos)?;
    if pos != toks.len() {
        return Err("BADSLOT".into());
    }
    Ok(v)
}

pub fn show(v: &V) -> String {
    match v {
        V::Absent => "-".into(),
        V::Null => "n".into(),
        V::Num(n) => n.to_string(),
        V::Int(i) => format!("{:+}", i),
        V::Bool(true) => "T".into(),
        V::Bool(false) => "F".into(),
        V::Bytes(b) => format!("x{}", if b.is_empty() { String::new() } else { hex(b) }),
        V::Obj(xs) => format!("{{{} }}", xs.iter().map(|x| format!(" {}", show(x))).collect::<String>()),
        V::Arr(xs) => format!("[{} ]", xs.iter().map(|x| format!(" {}", show(x))).collect::<String>()),
        V::Raw(b) => format!("r:{}", hex(b)),
        V::Empty => "_".into(),
        V::Variant(i, v) => format!("( {} {} )", i, show(v)),
    }
}

type R<T> = Result<T, String>;
fn bad<T>() -> R<T> {
    Err("BADSLOT".into())
}
fn obj(v: &V, n: usize) -> R<&[V]> {
    match v {
        V::Obj(xs) if xs.len() == n => Ok(xs),
        _ => bad(),
    }
}
fn num(v: &V) -> R<u64> {
    match v {
        V::Num(n) => Ok(*n),
        _ => bad(),
    }
}
fn int(v: &V) -> R<i64> {
    match v {
        V::Int(n) => Ok(*n),
        _ => bad(),
    }
}
fn i8v(v: &V) -> R<i8> {
    i8::try_from(int(v)?).or(bad())
}
fn i16v(v: &V) -> R<i16> {
    i16::try_from(int(v)?).or(bad())
}
fn i32v(v: &V) -> R<i32> {
    i32::try_from(int(v)?).or(bad())
}
fn vi<T: Into<i64>>(x: T) -> V {
    V::Int(x.into())
}
fn n8(v: &V) -> R<u8> {
    u8::try_from(num(v)?).or(bad())
}
fn n16(v: &V) -> R<u16> {
    u16::try_from(num(v)?).or(bad())
}
fn n32(v: &V) -> R<u32> {
    u32::try_from(num(v)?).or(bad())
}
fn boolean(v: &V) -> R<bool> {
    match v {
        V::Bool(b) => Ok(*b),
        _ => bad(),
    }
}
fn bytes(v: &V) -> R<&[u8]> {
    match v {
        V::Bytes(b) => Ok(b),
        _ => bad(),
    }
}
fn opt<'a, T>(v: &'a V, f: impl Fn(&'a V) -> R<T>) -> R<Option<T>> {
    match v {
        V::Absent => Ok(None),
        x => f(x).map(Some),
    }
}
fn vo<T>(o: Option<T>, f: impl Fn(T) -> V) -> V {
    o.map(f).unwrap_or(V::Absent)
}
fn vn<T: Into<u64>>(x: T) -> V {
    V::Num(x.into())
}
fn vb(b: &[u8]) -> V {
    V::Bytes(b.to_vec())
}

fn sp_of(v: &V) -> R<Sp> {
    let s = obj(v, 7)?;
    Ok((opt(&s[0], n32)?, opt(&s[1], n32)?, opt(&s[2], n16)?, opt(&s[3], n16)?, opt(&s[4], n16)?, opt(&s[5], n32)?, opt(&s[6], n16)?))
}
fn sp_v(s: Sp) -> V {
    V::Obj(vec![vo(s.0, vn), vo(s.1, vn), vo(s.2, vn), vo(s.3, vn), vo(s.4, vn), vo(s.5, vn), vo(s.6, vn)])
}

fn cluster_path_of(v: &V) -> R<ClusterPath> {
    let s = obj(v, 3)?;
    Ok(ClusterPath { node: opt(&s[0], num)?, endpoint: n16(&s[1])?, cluster: n32(&s[2])? })
}
fn cluster_path_v(p: &ClusterPath) -> V {
    V::Obj(vec![vo(p.node, vn), vn(p.endpoint), vn(p.cluster)])
}
fn target_of(v: &V) -> R<Target> {
    let s = obj(v, 3)?;
    Ok(Target { cluster: opt(&s[0], n32)?, endpoint: opt(&s[1], n16)?, device_type: opt(&s[2], n32)? })
}
fn target_v(t: &Target) -> V {
    V::Obj(vec![vo(t.cluster, vn), vo(t.endpoint, vn), vo(t.device_type, vn)])
}
fn status_code_of(v: &V) -> R<IMStatusCode> {
    // `FromPrimitive` is not re-exported: build the code from an anonymous 16-bit TLV integer
    let n = n16(v)?;
    IMStatusCode::from_tlv(&TLVElement::new(&[0x05, n as u8, (n >> 8) as u8])).or(bad())
}
fn privilege_of(n: u64) -> R<Privilege> {
    Ok(match n {
        1 => Privilege::VIEW,
        2 => Privilege::PROXYVIEW,
        3 => Privilege::OPERATE,
        4 => Privilege::MANAGE,
        5 => Privilege::ADMIN,
        _ => return bad(),
    })
}
fn privilege_n(p: Privilege) -> u64 {
    [Privilege::VIEW, Privilege::PROXYVIEW, Privilege::OPERATE, Privilege::MANAGE, Privilege::ADMIN]
        .iter()
        .position(|x| *x == p)
        .map(|i| i as u64 + 1)
        .unwrap_or(0x1000 + p.bits() as u64)
}

fn raw(v: &V) -> R<&[u8]> {
    match v {
        V::Raw(b) => Ok(b),
        _ => bad(),
    }
}
/// a raw element field observed as a consumer does: decoded to a tree with the public accessors
/// (`tag()`, `value()`, `container()?.iter()`, as stream w) and written again under the anonymous tag
fn raw_v(e: &TLVElement) -> R<V> {
    if e.is_empty() {
        return Ok(V::Empty);
    }
    let mut toks = Vec::new();
    super::decode_tree(e, super::DEPTH_CAP, &mut toks).map_err(|_| "e:RawElement".to_string())?;
    let mut node = super::parse_tree(&toks.join(" ")).ok_or("e:RawElement".to_string())?;
    match &mut node {
        super::Node::Leaf(t, _) | super::Node::Cont(t, _, _) => *t = TLVTag::Anonymous,
    }
    super::write_tree(&node, &mut Vec::new()).map(V::Raw).map_err(|_| "e:RawElement".to_string())
}
fn attr_path_of(v: &V) -> R<AttrPath> {
    let s = obj(v, 6)?;
    Ok(AttrPath {
        tag_compression: opt(&s[0], boolean)?,
        node: opt(&s[1], num)?,
        endpoint: opt(&s[2], n16)?,
        cluster: opt(&s[3], n32)?,
        attr: opt(&s[4], n32)?,
        list_index: match &s[5] {
            V::Absent => None,
            V::Null => Some(Nullable::none()),
            x => Some(Nullable::some(n16(x)?)),
        },
    })
}
fn attr_path_v(v: &AttrPath) -> V {
    let li = match &v.list_index {
        None => V::Absent,
        Some(n) => n.as_opt_ref().map(|x| vn(*x)).unwrap_or(V::Null),
    };
    V::Obj(vec![vo(v.tag_compression, V::Bool), vo(v.node, vn), vo(v.endpoint, vn), vo(v.cluster, vn), vo(v.attr, vn), li])
}
fn cmd_path_of(v: &V) -> R<CmdPath> {
    let s = obj(v, 3)?;
    Ok(CmdPath { endpoint: opt(&s[0], n16)?, cluster: opt(&s[1], n32)?, cmd: opt(&s[2], n32)? })
}
fn cmd_path_v(v: &CmdPath) -> V {
    V::Obj(vec![vo(v.endpoint, vn), vo(v.cluster, vn), vo(v.cmd, vn)])
}
fn status_of(v: &V) -> R<Status> {
    let s = obj(v, 2)?;
    Ok(Status { status: status_code_of(&s[0])?, cluster_status: opt(&s[1], n16)? })
}
fn status_v(v: &Status) -> V {
    V::Obj(vec![vn(v.status as u16), vo(v.cluster_status, vn)])
}
fn attr_status_of(v: &V) -> R<AttrStatus> {
    let s = obj(v, 2)?;
    Ok(AttrStatus { path: attr_path_of(&s[0])?, status: status_of(&s[1])? })
}
fn attr_status_v(v: &AttrStatus) -> V {
    V::Obj(vec![attr_path_v(&v.path), status_v(&v.status)])
}
fn attr_data_of(v: &V) -> R<AttrData<'_>> {
    let s = obj(v, 3)?;
    Ok(AttrData { data_ver: opt(&s[0], n32)?, path: attr_path_of(&s[1])?, data: TLVElement::new(raw(&s[2])?) })
}
fn attr_data_v(v: &AttrData) -> R<V> {
    Ok(V::Obj(vec![vo(v.data_ver, vn), attr_path_v(&v.path), raw_v(&v.data)?]))
}
fn cmd_status_of(v: &V) -> R<CmdStatus> {
    let s = obj(v, 3)?;
    Ok(CmdStatus { path: cmd_path_of(&s[0])?, status: status_of(&s[1])?, command_ref: opt(&s[2], n16)? })
}
fn cmd_status_v(v: &CmdStatus) -> V {
    V::Obj(vec![cmd_path_v(&v.path), status_v(&v.status), vo(v.command_ref, vn)])
}
fn cmd_data_of(v: &V) -> R<CmdData<'_>> {
    let s = obj(v, 3)?;
    Ok(CmdData { path: cmd_path_of(&s[0])?, data: TLVElement::new(raw(&s[1])?), command_ref: opt(&s[2], n16)? })
}
fn cmd_data_v(v: &CmdData) -> R<V> {
    Ok(V::Obj(vec![cmd_path_v(&v.path), raw_v(&v.data)?, vo(v.command_ref, vn)]))
}
fn okr(v: R<V>) -> String {
    v.map(okv).unwrap_or_else(|e| e)
}

fn enc_any<T: ToTLV>(v: &T) -> String {
    let mut buf = vec![0u8; 16384];
    let mut wb = WriteBuf::new(&mut buf);
    match v.to_tlv(&TLVTag::Anonymous, &mut wb) {
        Ok(()) => format!("ok:{}", hex(wb.as_slice())),
        Err(e) => format!("e:{:?}", e.code()),
    }
}
fn enc_hook(f: impl FnOnce(&mut [u8]) -> Result<usize, Error>) -> String {
    let mut buf = vec![0u8; 16384];
    match f(&mut buf) {
        Ok(n) => format!("ok:{}", hex(&buf[..n])),
        Err(e) => format!("e:{:?}", e.code()),
    }
}
fn err(e: Error) -> String {
    format!("e:{:?}", e.code())
}
fn okv(v: V) -> String {
    format!("ok:{}", show(&v))
}

// ---------------------------------------------------------------------------------- schemas (generator + layout writer)

#[derive(Clone)]
pub enum Dom {
    Any,
    NonZero,
    OneOf(Vec<u64>),
    /// `bitflags_tlv!`: the union of the declared flags
    Mask(u64),
}
#[derive(Clone)]
pub enum T {
    U(usize, Dom),
    /// `iN` (bytes, non-zero)
    I(usize, bool),
    /// bit patterns
    F32,
    F64,
    /// `[T; N]`
    Fix(usize, Box<T>),
    Bool,
    /// octet string: minimum length, capacity
    Oct(usize, Option<usize>),
    /// UTF-8 string with a capacity in bytes
    Utf8(usize),
    St(Vec<F>),
    Ls(Vec<F>),
    Arr(Option<usize>, Box<T>),
    /// raw `TLVElement`
    Any,
    /// enum with payload: (context tag, payload type) per variant
    Choice(Vec<(u8, T)>),
}
#[derive(Clone)]
pub struct F {
    tag: u8,
    opt: bool,
    nullable: bool,
    ty: T,
}
#[allow(non_upper_case_globals)]
const Oct: T = T::Oct(0, None);
fn key(n: usize) -> T {
    T::Oct(n, Some(n))
}
fn o(tag: u8, ty: T) -> F {
    F { tag, opt: true, nullable: false, ty }
}
fn r(tag: u8, ty: T) -> F {
    F { tag, opt: false, nullable: false, ty }
}
fn nl(tag: u8, ty: T) -> F {
    F { tag, opt: false, nullable: true, ty }
}
fn arr(cap: usize, ty: T) -> T {
    T::Arr(Some(cap), Box::new(ty))
}
fn attr_path() -> T {
    T::Ls(vec![o(0, T::Bool), o(1, u(8)), o(2, u(2)), o(3, u(4)), o(4, u(4)), F { tag: 5, opt: true, nullable: true, ty: u(2) }])
}
fn cmd_path() -> T {
    T::Ls(vec![o(0, u(2)), o(1, u(4)), o(2, u(4))])
}
fn status() -> T {
    T::St(vec![r(0, im_status()), o(1, u(2))])
}
fn attr_status() -> T {
    T::St(vec![r(0, attr_path()), r(1, status())])
}
fn attr_data() -> T {
    T::St(vec![o(0, u(4)), r(1, attr_path()), r(2, T::Any)])
}
fn cmd_status() -> T {
    T::St(vec![r(0, cmd_path()), r(1, status()), o(2, u(2))])
}
fn cmd_data() -> T {
    T::St(vec![r(0, cmd_path()), r(1, T::Any), o(2, u(2))])
}
fn acl_entry() -> T {
    T::St(vec![
        r(1, T::U(1, Dom::OneOf(vec![1, 2, 3, 4, 5]))),
        r(2, T::U(1, Dom::OneOf(vec![1, 2, 3]))),
        nl(3, arr(rs_matter::acl::MAX_SUBJECTS_PER_ACL_ENTRY, u(8))),
        nl(4, arr(rs_matter::acl::MAX_TARGETS_PER_ACL_ENTRY, target())),
        o(5, T::U(1, Dom::OneOf(vec![0, 1]))),
        o(0xfe, T::U(1, Dom::NonZero)),
    ])
}
fn groups() -> T {
    use rs_matter::fabric::{GROUP_ENDPOINTS_PER_FABRIC, MAX_GROUPS_PER_FABRIC, MAX_GROUP_KEYS_PER_FABRIC, MAX_GROUP_NAME_LEN};
    T::St(vec![
        r(0, arr(MAX_GROUP_KEYS_PER_FABRIC, T::St(vec![r(0, u(2)), r(1, u(1)), r(2, arr(rs_matter::group_keys::GROUP_MAX_EPOCH_KEYS, T::St(vec![r(0, key(16)), r(1, u(8))])))]))),
        r(1, arr(MAX_GROUPS_PER_FABRIC, T::St(vec![r(0, u(2)), r(1, u(2))]))),
        r(2, arr(MAX_GROUPS_PER_FABRIC, T::St(vec![r(0, u(2)), r(1, arr(GROUP_ENDPOINTS_PER_FABRIC, u(2))), r(2, T::Utf8(MAX_GROUP_NAME_LEN)), o(3, T::Bool), o(4, T::U(1, Dom::OneOf(vec![0, 1])))]))),
    ])
}
/// the persisted fabric blob (`Skippable<Groups>` at tag 13 is always written)
fn fabric() -> T {
    use rs_matter::cert::MAX_CERT_TLV_LEN;
    T::St(vec![
        r(0, T::U(1, Dom::NonZero)),
        r(1, u(8)),
        r(2, u(8)),
        r(3, u(2)),
        r(4, u(8)),
        r(5, key(32)),
        r(6, arr(MAX_CERT_TLV_LEN, u(1))),
        r(7, arr(MAX_CERT_TLV_LEN, u(1))),
        r(8, T::Bool),
        r(9, arr(MAX_CERT_TLV_LEN, u(1))),
        r(10, T::St(vec![r(0, key(16)), r(1, key(16))])),
        r(11, T::Utf8(32)),
        r(12, arr(rs_matter::acl::MAX_ACL_ENTRIES_PER_FABRIC, acl_entry())),
        r(13, groups()),
        r(14, arr(85, u(1))),
    ])
}
fn u(n: usize) -> T {
    T::U(n, Dom::Any)
}
fn sess_params() -> T {
    T::St(vec![o(1, u(4)), o(2, u(4)), o(3, u(2)), o(4, u(2)), o(5, u(2)), o(6, u(4)), o(7, u(2))])
}
fn cluster_path() -> T {
    T::Ls(vec![o(0, u(8)), r(1, u(2)), r(2, u(4))])
}
fn target() -> T {
    T::St(vec![o(0, u(4)), o(1, u(2)), o(2, u(4))])
}
fn im_status() -> T {
    T::U(
        2,
        Dom::OneOf(vec![
            0, 1, 0x7d, 0x7e, 0x7f, 0x80, 0x81, 0x85, 0x86, 0x87, 0x88, 0x89, 0x8b, 0x8c, 0x8d, 0x8f, 0x92, 0x94, 0x9b, 0x9c, 0x9d, 0xc3,
            0xc5, 0xc6, 0xc7, 0xc8, 0xc9, 0xca, 0xcb, 0xcc, 0xcd, 0xce, 0xcf, 0xd0, 0xd1,
        ]),
    )
}

pub fn schema(name: &str) -> Option<T> {
    Some(match name {
        "AttrPath" => attr_path(),
        "CmdPath" => cmd_path(),
        "AttrStatus" => attr_status(),
        "AttrData" => attr_data(),
        "AttrResp" => T::Choice(vec![(0, attr_status()), (1, attr_data())]),
        "CmdStatus" => cmd_status(),
        "CmdData" => cmd_data(),
        "CmdResp" => T::Choice(vec![(0, cmd_data()), (1, cmd_status())]),
        "EventPath" => T::Ls(vec![o(0, u(8)), o(1, u(2)), o(2, u(4)), o(3, u(4)), o(4, T::Bool)]),
        "ClusterPath" => cluster_path(),
        "EventFilter" => T::St(vec![o(0, u(8)), o(1, u(8))]),
        "TimedReq" => T::St(vec![r(0, u(2)), o(0xff, u(1))]),
        "Target" => target(),
        "DataVersionFilter" => T::St(vec![r(0, cluster_path()), r(1, u(4))]),
        "Status" => status(),
        "StatusResp" => T::St(vec![r(0, im_status()), o(0xff, u(1))]),
        "SessionParameters" => sess_params(),
        "PBKDFParamReq" => T::St(vec![r(1, Oct), r(2, u(2)), r(3, u(2)), r(4, T::Bool), o(5, sess_params())]),
        "PBKDFParamResp" => T::St(vec![r(1, Oct), r(2, Oct), r(3, u(2)), o(4, T::St(vec![r(1, u(4)), r(2, Oct)])), o(5, sess_params())]),
        "Pake1" | "Pake3" => T::St(vec![r(1, Oct)]),
        "Pake2" => T::St(vec![r(1, Oct), r(2, Oct)]),
        "Sigma1Req" => T::St(vec![r(1, Oct), r(2, u(2)), r(3, Oct), r(4, Oct), o(5, sess_params()), o(6, Oct), o(7, Oct)]),
        "Sigma2Resp" => T::St(vec![r(1, Oct), r(2, u(2)), r(3, Oct), r(4, Oct)]),
        "TBEData2Decrypt" => T::St(vec![r(1, Oct), o(2, Oct), r(3, Oct), r(4, Oct)]),
        "Sigma3Decrypt" => T::St(vec![r(1, Oct), o(2, Oct), r(3, Oct)]),
        "Sigma2ResumeMsg" => T::St(vec![r(1, Oct), r(2, Oct), r(3, u(2)), o(4, sess_params())]),
        "AclEntry" => acl_entry(),
        "Fabric" => fabric(),
        "DSTOffsetEntry" => T::St(vec![r(0, T::I(4, false)), r(1, u(8)), o(2, u(8))]),
        "TimeZoneOwned" => T::St(vec![r(0, T::I(4, false)), r(1, u(8)), o(2, T::Utf8(rs_matter::dm::clusters::time_sync::TIME_ZONE_NAME_MAX))]),
        "NeighborTable" => T::St(vec![
            r(0, u(8)),
            r(1, u(4)),
            r(2, u(2)),
            r(3, u(4)),
            r(4, u(4)),
            r(5, u(1)),
            o(6, T::I(1, false)),
            o(7, T::I(1, false)),
            r(8, u(1)),
            r(9, u(1)),
            r(10, T::Bool),
            r(11, T::Bool),
            r(12, T::Bool),
            r(13, T::Bool),
        ]),
        _ => return None,
    })
}

pub const NAMES: &[&str] = &[
    "AttrPath", "CmdPath", "EventPath", "ClusterPath", "EventFilter", "TimedReq", "Target", "DataVersionFilter", "Status", "StatusResp",
    "SessionParameters", "PBKDFParamReq", "PBKDFParamResp", "Pake1", "Pake2", "Pake3", "Sigma1Req", "Sigma2Resp", "TBEData2Decrypt",
    "Sigma3Decrypt", "Sigma2ResumeMsg", "AclEntry", "Fabric", "AttrStatus", "AttrData", "AttrResp", "CmdStatus", "CmdData", "CmdResp",
    "DSTOffsetEntry", "TimeZoneOwned", "NeighborTable",
];

/// structures that only derive `FromTLV`: `enc` is the layout writer below
const DEC_ONLY: &[&str] = &["Sigma1Req", "Sigma2Resp", "TBEData2Decrypt", "Sigma3Decrypt", "Sigma2ResumeMsg"];

/// `Fabric` has private fields and key-material types: its value is built by decoding the layout
/// writer's bytes, and observed by `reenc` = real `from_tlv` followed by real `to_tlv`
const REENC_ONLY: &[&str] = &["Fabric"];

/// the wire layout of a schema written with the real `TLVWrite`; `order` permutes the fields of the
/// outermost structure (the derived decoders tolerate any order)
fn layout_write(tw: &mut WriteBuf, tag: &TLVTag, ty: &T, v: &V, order: Option<&[usize]>) -> R<()> {
    let e = |e: Error| format!("e:{:?}", e.code());
    match (ty, v) {
        (T::U(1, _), V::Num(n)) => tw.u8(tag, u8::try_from(*n).or(bad())?).map_err(e),
        (T::U(2, _), V::Num(n)) => tw.u16(tag, u16::try_from(*n).or(bad())?).map_err(e),
        (T::U(4, _), V::Num(n)) => tw.u32(tag, u32::try_from(*n).or(bad())?).map_err(e),
        (T::U(_, _), V::Num(n)) => tw.u64(tag, *n).map_err(e),
        (T::I(1, _), V::Int(n)) => tw.i8(tag, i8::try_from(*n).or(bad())?).map_err(e),
        (T::I(2, _), V::Int(n)) => tw.i16(tag, i16::try_from(*n).or(bad())?).map_err(e),
        (T::I(4, _), V::Int(n)) => tw.i32(tag, i32::try_from(*n).or(bad())?).map_err(e),
        (T::I(_, _), V::Int(n)) => tw.i64(tag, *n).map_err(e),
        (T::F32, V::Num(n)) => tw.f32(tag, f32::from_bits(u32::try_from(*n).or(bad())?)).map_err(e),
        (T::F64, V::Num(n)) => tw.f64(tag, f64::from_bits(*n)).map_err(e),
        (T::Bool, V::Bool(b)) => tw.bool(tag, *b).map_err(e),
        (T::Oct(_, _), V::Bytes(b)) => tw.str(tag, b).map_err(e),
        (T::Utf8(_), V::Bytes(b)) => tw.utf8(tag, core::str::from_utf8(b).or(bad())?).map_err(e),
        (T::St(fs), V::Obj(xs)) | (T::Ls(fs), V::Obj(xs)) if fs.len() == xs.len() => {
            if matches!(ty, T::St(_)) {
                tw.start_struct(tag).map_err(e)?;
            } else {
                tw.start_list(tag).map_err(e)?;
            }
            let idx: Vec<usize> = match order {
                Some(p) if p.len() == fs.len() => p.to_vec(),
                _ => (0..fs.len()).collect(),
            };
            for i in idx {
                let (f, x) = (&fs[i], &xs[i]);
                let t = TLVTag::Context(f.tag);
                match x {
                    V::Absent if f.opt => {}
                    V::Null if f.nullable => tw.null(&t).map_err(e)?,
                    V::Absent | V::Null => return bad(),
                    x => layout_write(tw, &t, &f.ty, x, None)?,
                }
            }
            tw.end_container().map_err(e)
        }
        (T::Any, V::Raw(b)) => TLVElement::new(b).to_tlv(tag, &mut *tw).map_err(e),
        (T::Choice(alts), V::Variant(i, x)) => {
            let (t, ty) = alts.get(*i).ok_or("BADSLOT".to_string())?;
            tw.start_struct(tag).map_err(e)?;
            layout_write(tw, &TLVTag::Context(*t), ty, x, None)?;
            tw.end_container().map_err(e)
        }
        (T::Arr(_, el), V::Arr(xs)) | (T::Fix(_, el), V::Arr(xs)) => {
            tw.start_array(tag).map_err(e)?;
            for x in xs {
                layout_write(tw, &TLVTag::Anonymous, el, x, None)?;
            }
            tw.end_container().map_err(e)
        }
        _ => bad(),
    }
}

fn layout_enc(name: &str, v: &V, order: Option<&[usize]>) -> String {
    let Some(ty) = schema(name) else { return "BADNAME".into() };
    let mut buf = vec![0u8; 16384];
    let mut wb = WriteBuf::new(&mut buf);
    match layout_write(&mut wb, &TLVTag::Anonymous, &ty, v, order) {
        Ok(()) => format!("ok:{}", hex(wb.as_slice())),
        Err(e) => e,
    }
}

// ---------------------------------------------------------------------------------- the real derived codecs

fn enc_real(name: &str, v: &V) -> R<String> {
    use rs_matter::sc::pase::verif_tlv as pase;
    Ok(match name {
        "AttrPath" => enc_any(&attr_path_of(v)?),
        "CmdPath" => enc_any(&cmd_path_of(v)?),
        "AttrStatus" => enc_any(&attr_status_of(v)?),
        "AttrData" => enc_any(&attr_data_of(v)?),
        "AttrResp" => match v {
            V::Variant(0, x) => enc_any(&AttrResp::Status(attr_status_of(x)?)),
            V::Variant(1, x) => enc_any(&AttrResp::Data(attr_data_of(x)?)),
            _ => return bad(),
        },
        "CmdStatus" => enc_any(&cmd_status_of(v)?),
        "CmdData" => enc_any(&cmd_data_of(v)?),
        "CmdResp" => match v {
            V::Variant(0, x) => enc_any(&CmdResp::Cmd(cmd_data_of(x)?)),
            V::Variant(1, x) => enc_any(&CmdResp::Status(cmd_status_of(x)?)),
            _ => return bad(),
        },
        "EventPath" => {
            let s = obj(v, 5)?;
            enc_any(&EventPath {
                node: opt(&s[0], num)?,
                endpoint: opt(&s[1], n16)?,
                cluster: opt(&s[2], n32)?,
                event: opt(&s[3], n32)?,
                is_urgent: opt(&s[4], boolean)?,
            })
        }
        "ClusterPath" => enc_any(&cluster_path_of(v)?),
        "EventFilter" => {
            let s = obj(v, 2)?;
            enc_any(&EventFilter { node: opt(&s[0], num)?, event_min: opt(&s[1], num)? })
        }
        "TimedReq" => {
            let s = obj(v, 2)?;
            enc_any(&TimedReq { timeout: n16(&s[0])?, interaction_model_revision: opt(&s[1], n8)? })
        }
        "Target" => enc_any(&target_of(v)?),
        "DataVersionFilter" => {
            let s = obj(v, 2)?;
            enc_any(&DataVersionFilter { path: cluster_path_of(&s[0])?, data_ver: n32(&s[1])? })
        }
        "Status" => enc_any(&status_of(v)?),
        "StatusResp" => {
            let s = obj(v, 2)?;
            enc_any(&StatusResp { status: status_code_of(&s[0])?, interaction_model_revision: opt(&s[1], n8)? })
        }
        "SessionParameters" => {
            let sp = sp_of(v)?;
            enc_hook(|b| rs_matter::sc::verif_session_params_enc(sp, b))
        }
        "PBKDFParamReq" => {
            let s = obj(v, 5)?;
            let (a, b, c, d, e) = (bytes(&s[0])?, n16(&s[1])?, n16(&s[2])?, boolean(&s[3])?, opt(&s[4], sp_of)?);
            enc_hook(|buf| pase::enc_pbkdf_req(a, b, c, d, e, buf))
        }
        "PBKDFParamResp" => {
            let s = obj(v, 5)?;
            let params = opt(&s[3], |p| {
                let q = obj(p, 2)?;
                Ok((n32(&q[0])?, bytes(&q[1])?))
            })?;
            let (a, b, c, e) = (bytes(&s[0])?, bytes(&s[1])?, n16(&s[2])?, opt(&s[4], sp_of)?);
            enc_hook(|buf| pase::enc_pbkdf_resp(a, b, c, params, e, buf))
        }
        "Pake1" => {
            let a = bytes(&obj(v, 1)?[0])?;
            enc_hook(|buf| pase::enc_pake1(a, buf))
        }
        "Pake2" => {
            let s = obj(v, 2)?;
            let (a, b) = (bytes(&s[0])?, bytes(&s[1])?);
            enc_hook(|buf| pase::enc_pake2(a, b, buf))
        }
        "Pake3" => {
            let a = bytes(&obj(v, 1)?[0])?;
            enc_hook(|buf| pase::enc_pake3(a, buf))
        }
        "AclEntry" => {
            let s = obj(v, 6)?;
            let auth = match num(&s[1])? {
                1 => AuthMode::Pase,
                2 => AuthMode::Case,
                3 => AuthMode::Group,
                _ => return bad(),
            };
            let fab = opt(&s[5], |x| NonZeroU8::new(n8(x)?).ok_or("BADSLOT".to_string()))?;
            let mut e = AclEntry::new(fab, privilege_of(num(&s[0])?)?, auth);
            match &s[2] {
                V::Null => {}
                V::Arr(xs) => {
                    e.verif_set_empty_lists(true, false);
                    for x in xs {
                        e.add_subject(num(x)?).or(bad())?;
                    }
                }
                _ => return bad(),
            }
            match &s[3] {
                V::Null => {}
                V::Arr(xs) => {
                    e.verif_set_empty_lists(false, true);
                    for x in xs {
                        e.add_target(target_of(x)?).or(bad())?;
                    }
                }
                _ => return bad(),
            }
            e.verif_set_auxiliary_type(opt(&s[4], |x| {
                Ok(match num(x)? {
                    0 => AccessControlAuxiliaryTypeEnum::System,
                    1 => AccessControlAuxiliaryTypeEnum::Groupcast,
                    _ => return bad(),
                })
            })?);
            enc_any(&e)
        }
        "DSTOffsetEntry" => {
            let s = obj(v, 3)?;
            enc_any(&DSTOffsetEntry { offset: i32v(&s[0])?, valid_starting: num(&s[1])?, valid_until: opt(&s[2], num)? })
        }
        "TimeZoneOwned" => {
            let s = obj(v, 3)?;
            let (a, b) = (i32v(&s[0])?, num(&s[1])?);
            let name = opt(&s[2], |x| core::str::from_utf8(bytes(x)?).or(bad()))?;
            enc_hook(|buf| rs_matter::dm::clusters::time_sync::verif_tlv::enc_time_zone_owned(a, b, name, buf))
        }
        "NeighborTable" => {
            let s = obj(v, 14)?;
            enc_any(&NeighborTable {
                ext_address: num(&s[0])?,
                age: n32(&s[1])?,
                rloc16: n16(&s[2])?,
                link_frame_counter: n32(&s[3])?,
                mle_frame_counter: n32(&s[4])?,
                lqi: n8(&s[5])?,
                average_rssi: opt(&s[6], i8v)?,
                last_rssi: opt(&s[7], i8v)?,
                frame_error_rate: n8(&s[8])?,
                message_error_rate: n8(&s[9])?,
                rx_on_when_idle: boolean(&s[10])?,
                full_thread_device: boolean(&s[11])?,
                full_network_data: boolean(&s[12])?,
                is_child: boolean(&s[13])?,
            })
        }
        n if DEC_ONLY.contains(&n) || REENC_ONLY.contains(&n) => layout_enc(n, v, None),
        _ => "BADNAME".into(),
    })
}

fn dec_real(name: &str, data: &[u8]) -> String {
    use rs_matter::sc::case::verif_tlv as case;
    use rs_matter::sc::pase::verif_tlv as pase;
    let e = TLVElement::new(data);
    let ob = |o: Option<&[u8]>| vo(o, vb);
    match name {
        "AttrPath" => AttrPath::from_tlv(&e).map(|v| okv(attr_path_v(&v))).unwrap_or_else(err),
        "CmdPath" => CmdPath::from_tlv(&e).map(|v| okv(cmd_path_v(&v))).unwrap_or_else(err),
        "AttrStatus" => AttrStatus::from_tlv(&e).map(|v| okv(attr_status_v(&v))).unwrap_or_else(err),
        "AttrData" => AttrData::from_tlv(&e).map(|v| okr(attr_data_v(&v))).unwrap_or_else(err),
        "AttrResp" => AttrResp::from_tlv(&e)
            .map(|v| match &v {
                AttrResp::Status(x) => okv(V::Variant(0, Box::new(attr_status_v(x)))),
                AttrResp::Data(x) => okr(attr_data_v(x).map(|d| V::Variant(1, Box::new(d)))),
            })
            .unwrap_or_else(err),
        "CmdStatus" => CmdStatus::from_tlv(&e).map(|v| okv(cmd_status_v(&v))).unwrap_or_else(err),
        "CmdData" => CmdData::from_tlv(&e).map(|v| okr(cmd_data_v(&v))).unwrap_or_else(err),
        "CmdResp" => CmdResp::from_tlv(&e)
            .map(|v| match &v {
                CmdResp::Cmd(x) => okr(cmd_data_v(x).map(|d| V::Variant(0, Box::new(d)))),
                CmdResp::Status(x) => okv(V::Variant(1, Box::new(cmd_status_v(x)))),
            })
            .unwrap_or_else(err),
        "EventPath" => EventPath::from_tlv(&e)
            .map(|v| okv(V::Obj(vec![vo(v.node, vn), vo(v.endpoint, vn), vo(v.cluster, vn), vo(v.event, vn), vo(v.is_urgent, V::Bool)])))
            .unwrap_or_else(err),
        "ClusterPath" => ClusterPath::from_tlv(&e).map(|v| okv(cluster_path_v(&v))).unwrap_or_else(err),
        "EventFilter" => EventFilter::from_tlv(&e).map(|v| okv(V::Obj(vec![vo(v.node, vn), vo(v.event_min, vn)]))).unwrap_or_else(err),
        "TimedReq" => TimedReq::from_tlv(&e).map(|v| okv(V::Obj(vec![vn(v.timeout), vo(v.interaction_model_revision, vn)]))).unwrap_or_else(err),
        "Target" => Target::from_tlv(&e).map(|v| okv(target_v(&v))).unwrap_or_else(err),
        "DataVersionFilter" => DataVersionFilter::from_tlv(&e).map(|v| okv(V::Obj(vec![cluster_path_v(&v.path), vn(v.data_ver)]))).unwrap_or_else(err),
        "Status" => Status::from_tlv(&e).map(|v| okv(status_v(&v))).unwrap_or_else(err),
        "StatusResp" => StatusResp::from_tlv(&e).map(|v| okv(V::Obj(vec![vn(v.status as u16), vo(v.interaction_model_revision, vn)]))).unwrap_or_else(err),
        "SessionParameters" => rs_matter::sc::verif_session_params_dec(data).map(|s| okv(sp_v(s))).unwrap_or_else(err),
        "PBKDFParamReq" => pase::dec_pbkdf_req(data, |a, b, c, d, s| okv(V::Obj(vec![vb(a), vn(b), vn(c), V::Bool(d), vo(s, sp_v)]))).unwrap_or_else(err),
        "PBKDFParamResp" => pase::dec_pbkdf_resp(data, |a, b, c, p, s| {
            okv(V::Obj(vec![vb(a), vb(b), vn(c), vo(p, |(i, salt)| V::Obj(vec![vn(i), vb(salt)])), vo(s, sp_v)]))
        })
        .unwrap_or_else(err),
        "Pake1" => pase::dec_pake1(data, |a| okv(V::Obj(vec![vb(a)]))).unwrap_or_else(err),
        "Pake2" => pase::dec_pake2(data, |a, b| okv(V::Obj(vec![vb(a), vb(b)]))).unwrap_or_else(err),
        "Pake3" => pase::dec_pake3(data, |a| okv(V::Obj(vec![vb(a)]))).unwrap_or_else(err),
        "Sigma1Req" => case::verif_dec_sigma1(data, |a, b, c, d, s, f, g| okv(V::Obj(vec![vb(a), vn(b), vb(c), vb(d), vo(s, sp_v), ob(f), ob(g)]))).unwrap_or_else(err),
        "Sigma2Resp" => case::verif_dec_sigma2(data, |a, b, c, d| okv(V::Obj(vec![vb(a), vn(b), vb(c), vb(d)]))).unwrap_or_else(err),
        "TBEData2Decrypt" => case::verif_dec_tbe2(data, |a, b, c, d| okv(V::Obj(vec![vb(a), ob(b), vb(c), vb(d)]))).unwrap_or_else(err),
        "Sigma3Decrypt" => case::verif_dec_sigma3(data, |a, b, c| okv(V::Obj(vec![vb(a), ob(b), vb(c)]))).unwrap_or_else(err),
        "Sigma2ResumeMsg" => case::verif_dec_sigma2_resume(data, |a, b, c, s| okv(V::Obj(vec![vb(a), vb(b), vn(c), vo(s, sp_v)]))).unwrap_or_else(err),
        "AclEntry" => AclEntry::from_tlv(&e)
            .map(|v| {
                let subj = v.subjects().into_option().map(|xs| V::Arr(xs.iter().map(|x| vn(*x)).collect())).unwrap_or(V::Null);
                let targ = v.targets().into_option().map(|xs| V::Arr(xs.iter().map(target_v).collect())).unwrap_or(V::Null);
                okv(V::Obj(vec![
                    V::Num(privilege_n(v.verif_privilege())),
                    V::Num(match v.auth_mode() {
                        AuthMode::Pase => 1,
                        AuthMode::Case => 2,
                        AuthMode::Group => 3,
                    }),
                    subj,
                    targ,
                    vo(v.auxiliary_type(), |a| vn(a as u8)),
                    vo(v.fab_idx, |f| vn(f.get())),
                ]))
            })
            .unwrap_or_else(err),
        "DSTOffsetEntry" => DSTOffsetEntry::from_tlv(&e)
            .map(|v| okv(V::Obj(vec![vi(v.offset), vn(v.valid_starting), vo(v.valid_until, vn)])))
            .unwrap_or_else(err),
        "TimeZoneOwned" => rs_matter::dm::clusters::time_sync::verif_tlv::dec_time_zone_owned(data, |a, b, n| {
            okv(V::Obj(vec![vi(a), vn(b), vo(n, |s| vb(s.as_bytes()))]))
        })
        .unwrap_or_else(err),
        "NeighborTable" => NeighborTable::from_tlv(&e)
            .map(|v| {
                okv(V::Obj(vec![
                    vn(v.ext_address),
                    vn(v.age),
                    vn(v.rloc16),
                    vn(v.link_frame_counter),
                    vn(v.mle_frame_counter),
                    vn(v.lqi),
                    vo(v.average_rssi, vi),
                    vo(v.last_rssi, vi),
                    vn(v.frame_error_rate),
                    vn(v.message_error_rate),
                    V::Bool(v.rx_on_when_idle),
                    V::Bool(v.full_thread_device),
                    V::Bool(v.full_network_data),
                    V::Bool(v.is_child),
                ]))
            })
            .unwrap_or_else(err),
        _ => "BADNAME".into(),
    }
}

pub fn op(name: &str, op: &str) -> String {
    let mut it = op.split_whitespace();
    let verb = it.next().unwrap_or("");
    let s: Vec<&str> = it.collect();
    if name.starts_with('@') {
        // derive shapes (c16_derive_shapes.rs)
        return match verb {
            "enc" => match parse(&s) {
                Ok(v) => shapes::enc(name, &v).unwrap_or_else(|e| e),
                Err(e) => e,
            },
            "dec" => shapes::dec(name, &unhex(s.first().copied().unwrap_or("-"))),
            // `pdec <hex of the enc op> <hex>`: permuted fields / unknown extra fields
            "pdec" => shapes::dec(name, &unhex(s.get(1).copied().unwrap_or("-"))),
            // is this shape meant to be a well-formed declaration (pairwise different tags)?
            "wf" => if shapes::ILL_FORMED.contains(&name) { "F".into() } else { "T".into() },
            _ => "BADOP".into(),
        };
    }
    match verb {
        "enc" => match parse(&s) {
            Ok(v) => enc_real(name, &v).unwrap_or_else(|e| e),
            Err(e) => e,
        },
        "dec" => dec_real(name, &unhex(s.first().copied().unwrap_or("-"))),
        "reenc" => {
            let data = unhex(s.first().copied().unwrap_or("-"));
            match name {
                "Fabric" => rs_matter::fabric::Fabric::from_tlv(&TLVElement::new(&data)).map(|f| enc_any(&f)).unwrap_or_else(err),
                "AclEntry" => AclEntry::from_tlv(&TLVElement::new(&data)).map(|f| enc_any(&f)).unwrap_or_else(err),
                _ => "BADNAME".into(),
            }
        }
        _ => "BADOP".into(),
    }
}

// ---------------------------------------------------------------------------------- generator

fn gen_num(r: &mut Rng, bytes: usize, dom: &Dom, nullable: bool) -> u64 {
    let max: u64 = if bytes >= 8 { u64::MAX } else { (1u64 << (8 * bytes)) - 1 };
    // a nullable integer excludes the top value of its type
    let max = if nullable { max - 1 } else { max };
    match dom {
        Dom::OneOf(vs) => *r.pick(vs),
        Dom::Mask(m) => {
            // no flag, all flags, a subset; 1 in 12 (when the type has undeclared bits): a bit outside the
            // declared flags (`from_bits_retain`: the encoder writes it, the decoder must refuse it — no
            // round-trip claim)
            let full: u64 = if bytes >= 8 { u64::MAX } else { (1u64 << (8 * bytes)) - 1 };
            let m = *m & full;
            let mut v = match r.below(12) {
                0 => 0,
                1 | 2 => m,
                3 if m != full => {
                    let mut bit = 0u64;
                    for _ in 0..64 {
                        let b = 1u64 << r.below(8 * bytes as u64);
                        if b & !m != 0 {
                            bit = b;
                            break;
                        }
                    }
                    (r.next() & m) | bit
                }
                _ => r.next() & m,
            };
            if nullable && v == full {
                v = if m == full { full - 1 } else { m };
            }
            v
        }
        Dom::NonZero => 1 + r.below(max),
        Dom::Any => match r.below(8) {
            0 => 0,
            1 => max,
            2 => 255.min(max),
            3 => 256.min(max),
            4 => 65535.min(max),
            5 => 65536.min(max),
            6 => 4294967296u64.min(max),
            _ => {
                if max == u64::MAX {
                    r.next()
                } else {
                    r.below(max + 1)
                }
            }
        },
    }
}

/// signed integers: the bounds of every width (where the writer switches the element type), 0, ±1
fn gen_int(r: &mut Rng, bytes: usize, nz: bool, nullable: bool) -> i64 {
    let bits = 8 * bytes as u32;
    let (min, max) = if bits >= 64 { (i64::MIN, i64::MAX) } else { (-(1i64 << (bits - 1)), (1i64 << (bits - 1)) - 1) };
    const EDGES: [i64; 22] = [
        0, 1, -1, 127, 128, -128, -129, 255, 256, 32767, 32768, -32768, -32769, 65535, 2147483647, 2147483648, -2147483648, -2147483649,
        4294967295, i64::MAX, i64::MIN, i64::MIN + 1,
    ];
    let mut v = match r.below(10) {
        0 => min,
        1 => max,
        2 => min + 1,
        3..=6 => (*r.pick(&EDGES)).clamp(min, max),
        _ => {
            // a random value of a random magnitude
            let sh = r.below(bits as u64) as u32;
            let x = (r.next() >> (63 - sh.min(62))) as i64;
            (if r.chance(1, 2) { x.wrapping_neg() } else { x }).clamp(min, max)
        }
    };
    if nullable && v == min {
        v = min + 1;
    }
    if nz && v == 0 {
        v = if r.chance(1, 2) { 1 } else { -1 };
    }
    v
}

/// float bit patterns: ±0, ±∞, quiet / signalling NaNs with payloads, subnormals, the smallest normal, 1.0, random
fn gen_f32(r: &mut Rng) -> u64 {
    const P: [u32; 14] = [
        0, 0x8000_0000, 0x7f80_0000, 0xff80_0000, 0x7fc0_0000, 0x7fc0_0001, 0x7fa0_0000, 0xffc1_2345, 0x7fff_ffff, 1, 0x007f_ffff,
        0x0080_0000, 0x3f80_0000, 0x8000_0001,
    ];
    (if r.chance(2, 3) { *r.pick(&P) } else { r.next() as u32 }) as u64
}
fn gen_f64(r: &mut Rng) -> u64 {
    const P: [u64; 14] = [
        0,
        0x8000_0000_0000_0000,
        0x7ff0_0000_0000_0000,
        0xfff0_0000_0000_0000,
        0x7ff8_0000_0000_0000,
        0x7ff8_0000_0000_0001,
        0x7ff4_0000_0000_0000,
        0xfff8_1234_5678_9abc,
        0x7fff_ffff_ffff_ffff,
        1,
        0x000f_ffff_ffff_ffff,
        0x0010_0000_0000_0000,
        0x3ff0_0000_0000_0000,
        0x8000_0000_0000_0001,
    ];
    if r.chance(2, 3) {
        *r.pick(&P)
    } else {
        r.next()
    }
}

fn gen_val(r: &mut Rng, ty: &T, nullable: bool) -> V {
    match ty {
        T::U(n, d) => V::Num(gen_num(r, *n, d, nullable)),
        T::I(n, nz) => V::Int(gen_int(r, *n, *nz, nullable)),
        T::F32 => V::Num(gen_f32(r)),
        T::F64 => V::Num(gen_f64(r)),
        T::Fix(n, el) => V::Arr((0..*n).map(|_| gen_val(r, el, false)).collect()),
        T::Bool => V::Bool(r.chance(1, 2)),
        T::Oct(lo, cap) => {
            // lengths around the 1-byte / 2-byte length-field boundary, typical key / MIC sizes
            let n = match r.below(10) {
                0 => 0,
                1 => 1,
                2 => 16,
                3 => 32,
                4 => 65,
                5 => 255,
                6 => 256,
                7 => 257 + r.below(300),
                _ => r.below(70),
            } as usize;
            let n = n.max(*lo).min(cap.unwrap_or(usize::MAX));
            V::Bytes(r.bytes(n))
        }
        T::Utf8(cap) => {
            let mut b = Vec::new();
            let want = if r.chance(1, 4) { *cap } else { r.below(*cap as u64 + 1) as usize };
            while b.len() < want {
                let c: &[u8] = *r.pick(&[&b"a"[..], &b"Z"[..], &b" "[..], &[0xc3, 0xa9][..], &[0xe2, 0x82, 0xac][..], &[0xf0, 0x9f, 0x98, 0x80][..]]);
                if b.len() + c.len() > want {
                    break;
                }
                b.extend_from_slice(c);
            }
            V::Bytes(b)
        }
        T::St(fs) | T::Ls(fs) => V::Obj(
            fs.iter()
                .map(|f| {
                    if f.opt && r.chance(1, 3) {
                        V::Absent
                    } else if f.nullable && r.chance(1, 3) {
                        V::Null
                    } else {
                        gen_val(r, &f.ty, f.nullable)
                    }
                })
                .collect(),
        ),
        T::Any => {
            // a small random element (all value kinds, nesting up to 2) under the anonymous tag
            let mut budget = 6usize;
            let mut node = super::gen_node(r, 2, false, false, true, &mut budget);
            match &mut node {
                super::Node::Leaf(t, _) | super::Node::Cont(t, _, _) => *t = TLVTag::Anonymous,
            }
            V::Raw(super::write_tree(&node, &mut Vec::new()).unwrap_or_else(|_| vec![0x14]))
        }
        T::Choice(alts) => {
            let i = r.below(alts.len() as u64) as usize;
            V::Variant(i, Box::new(gen_val(r, &alts[i].1, false)))
        }
        T::Arr(cap, el) => {
            let max = cap.unwrap_or(6) as u64;
            let n = if max > 40 {
                // certificate-sized byte vectors: mostly short, sometimes full
                if r.chance(1, 12) { max } else { r.below(24) }
            } else if r.chance(1, 4) {
                max
            } else {
                r.below(max + 1)
            };
            V::Arr((0..n).map(|_| gen_val(r, el, false)).collect())
        }
    }
}

/// grow the first capacity-bounded array / string found (depth first, random skip) past its
/// capacity, or change the length of an exact-length octet string
fn overflow_one(r: &mut Rng, ty: &T, v: &mut V) -> bool {
    match (ty, v) {
        (T::Arr(Some(cap), el), V::Arr(xs)) => {
            if r.chance(1, 2) && *cap < 40 {
                while xs.len() <= *cap {
                    xs.push(gen_val(r, el, false));
                }
                return true;
            }
            for x in xs.iter_mut() {
                if overflow_one(r, el, x) {
                    return true;
                }
            }
            false
        }
        (T::Oct(lo, Some(cap)), V::Bytes(b)) => {
            if *lo > 0 && r.chance(1, 2) {
                b.truncate(lo - 1);
            } else {
                b.resize(cap + 1, 0x41);
            }
            true
        }
        (T::Utf8(cap), V::Bytes(b)) => {
            b.resize(cap + 1, 0x41);
            true
        }
        (T::Choice(alts), V::Variant(i, x)) => match alts.get(*i) {
            Some((_, ty)) => overflow_one(r, ty, x),
            None => false,
        },
        (T::St(fs), V::Obj(xs)) | (T::Ls(fs), V::Obj(xs)) => {
            let start = r.below(fs.len().max(1) as u64) as usize;
            for k in 0..fs.len() {
                let i = (start + k) % fs.len();
                if overflow_one(r, &fs[i].ty, &mut xs[i]) {
                    return true;
                }
            }
            false
        }
        _ => false,
    }
}

/// a derive-shape case: `enc`, `dec`, the fields permuted / unknown fields added (`pdec`), and a
/// truncated / mutated encoding
fn gen_shape(r: &mut Rng) -> (String, Vec<String>) {
    let name = if r.chance(1, 3) { *r.pick(shapes::NEW_NAMES) } else { *r.pick(shapes::NAMES) };
    let (ty, decl) = shapes::info(name).expect("shape");
    let v = gen_val(r, &ty, false);
    let enc_op = format!("enc {}", show(&v));
    let mut ops = vec!["wf".to_string(), enc_op.clone()];
    let o = op(name, &enc_op);
    if let Some(h) = o.strip_prefix("ok:") {
        ops.push(format!("dec {}", h));
        let b = unhex(h);
        if matches!(v, V::Obj(_)) {
            for extra in [false, true] {
                if let Some(p) = shapes::permuted(r, &b, extra) {
                    ops.push(format!("pdec {} {}", h, hex(&p)));
                }
            }
        }
        let mut m = b.clone();
        if !m.is_empty() {
            match r.below(3) {
                0 => {
                    let n = r.below(m.len() as u64) as usize;
                    m.truncate(n);
                }
                1 => {
                    let i = r.below(m.len() as u64) as usize;
                    m[i] = r.next() as u8;
                }
                _ => {
                    // a tag byte near the front moved to a neighbouring number
                    let i = r.below(m.len().min(10) as u64) as usize;
                    m[i] = m[i].wrapping_add(*r.pick(&[1u8, 2, 0xff]));
                }
            }
            ops.push(format!("dec {}", hex(&m)));
        }
        // an array field with fewer / more items than were written (`[T; N]`: padding / refusal)
        for delta in [-1, 1, -2] {
            if r.chance(1, 2) {
                if let Some(p) = shapes::resized_array(r, &b, delta) {
                    ops.push(format!("dec {}", hex(&p)));
                }
            }
        }
    }
    (format!("{} {}", name, decl), ops)
}

pub fn gen(r: &mut Rng) -> (String, Vec<String>) {
    if r.chance(2, 5) {
        return gen_shape(r);
    }
    let name = *r.pick(NAMES);
    let ty = schema(name).expect("schema");
    let v = gen_val(r, &ty, false);
    let enc_op = format!("enc {}", show(&v));
    let mut ops = vec![enc_op.clone()];
    let o = op(name, &enc_op);
    let dec = if REENC_ONLY.contains(&name) { "reenc" } else { "dec" };
    if let Some(h) = o.strip_prefix("ok:") {
        ops.push(format!("{} {}", dec, h));
        // a truncated / mutated encoding must be rejected or decoded, never panic
        let mut b = unhex(h);
        if !b.is_empty() {
            match r.below(5) {
                0 => {
                    let n = r.below(b.len() as u64) as usize;
                    b.truncate(n);
                }
                4 => {
                    // one array / string pushed beyond its capacity, or an exact-length key shortened
                    // (written by the layout writer: the derived decoder must refuse it)
                    let mut w = v.clone();
                    if overflow_one(r, &ty, &mut w) {
                        if let Some(h2) = layout_enc(name, &w, None).strip_prefix("ok:") {
                            b = unhex(h2);
                        }
                    }
                }
                1 => {
                    let i = r.below(b.len() as u64) as usize;
                    b[i] = r.next() as u8;
                }
                2 => {
                    // a control / tag byte near the front (field headers) replaced
                    let i = r.below(b.len().min(12) as u64) as usize;
                    b[i] = *r.pick(&[0x15u8, 0x16, 0x17, 0x18, 0x14, 0x24, 0x25, 0x30, 0x34, 0x35, 0x36, 0x04, 0x00]);
                }
                _ => {
                    // the same value with the fields of the outermost structure in another order
                    if let V::Obj(xs) = &v {
                        let mut p: Vec<usize> = (0..xs.len()).collect();
                        for i in (1..p.len()).rev() {
                            let j = r.below(i as u64 + 1) as usize;
                            p.swap(i, j);
                        }
                        if let Some(h2) = layout_enc(name, &v, Some(&p)).strip_prefix("ok:") {
                            b = unhex(h2);
                        }
                    }
                }
            }
            ops.push(format!("{} {}", dec, hex(&b)));
        }
    }
    (name.to_string(), ops)
}
