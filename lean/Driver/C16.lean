import Driver.Util
/-! Driver for C16: not built yet. -/
namespace Driver.C16

def run : IO UInt32 := do
  IO.eprintln "C16: driver not built yet"
  return 2

end Driver.C16
