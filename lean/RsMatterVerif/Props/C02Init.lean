import RsMatterVerif.Model.PaseInit
/-!
# C02, the initiator's side: a session only against a peer that proved knowledge of the verifier

The property speaks of "a peer whose confirmation proves knowledge of the window's passcode/verifier
for this exact transcript". On the initiator's side (`sc/pase/initiator.rs`, `Model/PaseInit.lean`)
the peer is the responder and its confirmation is `cB`:

* `initiator_session_implies_proof`: for EVERY sequence of messages the initiator is fed (in any
  order, of any kind), it completes a session only if it received a PBKDFParamResponse that echoes
  its random, carries PBKDF parameters with a legal salt length, then a Pake2 whose `cB` is the
  confirmation value of *(its own passcode, the salt and iteration count of that response)*, *(its
  request as sent, that response as received)*, *(its own share, the share of that Pake2)*, then the
  StatusReport `SessionEstablishmentSuccess`;
* `initiator_detects_any_modification`: if that `cB` was computed by an honest responder from ITS
  view of the handshake, the two views coincide: the responder holds the verifier of the initiator's
  passcode for the announced salt / iteration count, it saw the request the initiator sent, the
  initiator received the response it sent, and both shares arrived unmodified - any single in-flight
  change of PBKDFParamRequest, PBKDFParamResponse, `pA` or `pB` ends the handshake without a session
  (`modified_response_never`, `modified_share_never`, `wrong_verifier_never`, `junk_cb_never`).
-/
namespace C02Init
open PaseInit

/-- the PBKDFParamResponse `r` is one the initiator goes on with -/
def GoodResp (s0 : St) (r : Resp) : Prop :=
  r.random = s0.rnd ∧ r.hasParams = true ∧ minSaltLen ≤ r.saltLen ∧ r.saltLen ≤ maxSaltLen

/-- the confirmation value the initiator demands after response `r`, for peer share `pB` -/
def expected (s0 : St) (r : Resp) (pB : Nat) : ConfB :=
  { v := { passcode := s0.passcode, salt := r.salt, iterations := r.iterations },
    ctx := { req := s0.req, resp := r.payload }, pA := s0.pA, pB := pB }

/-- invariant along a run: `seen` = the messages fed so far -/
def Inv (s0 : St) (seen : List Msg) (s : St) : Prop :=
  s.passcode = s0.passcode ∧ s.rnd = s0.rnd ∧ s.req = s0.req ∧ s.pA = s0.pA ∧
  match s.stage with
  | .waitResp => True
  | .waitPake2 exp => ∃ r, Msg.resp r ∈ seen ∧ GoodResp s0 r ∧ exp = expected s0 r 0
  | .waitStatus c => ∃ r pB, Msg.resp r ∈ seen ∧ GoodResp s0 r ∧ c = expected s0 r pB ∧ Msg.pake2 pB (.mac c) ∈ seen
  | .established c => ∃ r pB, Msg.resp r ∈ seen ∧ GoodResp s0 r ∧ c = expected s0 r pB ∧
      Msg.pake2 pB (.mac c) ∈ seen ∧ Msg.status true ∈ seen
  | .failed => True

theorem inv_mono {s0 : St} {seen : List Msg} {s : St} (m : Msg) (h : Inv s0 seen s) : Inv s0 (seen ++ [m]) s := by
  obtain ⟨h1, h2, h3, h4, h5⟩ := h
  refine ⟨h1, h2, h3, h4, ?_⟩
  cases hs : s.stage with
  | waitResp => trivial
  | failed => trivial
  | waitPake2 exp =>
    rw [hs] at h5
    obtain ⟨r, hr, hg, he⟩ := h5
    exact ⟨r, List.mem_append_left _ hr, hg, he⟩
  | waitStatus c =>
    rw [hs] at h5
    obtain ⟨r, pB, hr, hg, he, hp⟩ := h5
    exact ⟨r, pB, List.mem_append_left _ hr, hg, he, List.mem_append_left _ hp⟩
  | established c =>
    rw [hs] at h5
    obtain ⟨r, pB, hr, hg, he, hp, hst⟩ := h5
    exact ⟨r, pB, List.mem_append_left _ hr, hg, he, List.mem_append_left _ hp, List.mem_append_left _ hst⟩

theorem step_inv (s0 : St) (seen : List Msg) (s : St) (m : Msg) (h : Inv s0 seen s) :
    Inv s0 (seen ++ [m]) (step s m).1 := by
  have hm := inv_mono m h
  obtain ⟨h1, h2, h3, h4, h5⟩ := h
  have last : m ∈ seen ++ [m] := List.mem_append_right _ List.mem_cons_self
  unfold step
  cases hs : s.stage with
  | waitResp =>
    simp only
    cases m with
    | resp r =>
      simp only
      by_cases hr : (r.random != s.rnd) = true
      · simp only [hr, ↓reduceIte]; exact ⟨h1, h2, h3, h4, trivial⟩
      · by_cases hp : (!r.hasParams) = true
        · simp only [hr, hp, ↓reduceIte]; exact ⟨h1, h2, h3, h4, trivial⟩
        · by_cases hl : (decide (r.saltLen < minSaltLen) || decide (r.saltLen > maxSaltLen)) = true
          · simp only [hr, hp, hl, ↓reduceIte]; exact ⟨h1, h2, h3, h4, trivial⟩
          · simp only [hr, hp, hl, ↓reduceIte]
            refine ⟨h1, h2, h3, h4, r, last, ?_, ?_⟩
            · refine ⟨?_, by simpa using hp, ?_, ?_⟩
              · have : r.random = s.rnd := by simpa using hr
                rw [this, h2]
              · have := hl; simp only [Bool.or_eq_true, decide_eq_true_eq, not_or, Nat.not_lt] at this; exact this.1
              · have := hl; simp only [Bool.or_eq_true, decide_eq_true_eq, not_or, Nat.not_lt] at this; exact this.2
            · simp only [expected, h1, h3, h4]
    | respMalformed => exact ⟨h1, h2, h3, h4, trivial⟩
    | pake2 pB cb => exact ⟨h1, h2, h3, h4, trivial⟩
    | pake2Malformed => exact ⟨h1, h2, h3, h4, trivial⟩
    | status b => exact ⟨h1, h2, h3, h4, trivial⟩
    | statusMalformed => exact ⟨h1, h2, h3, h4, trivial⟩
    | otherOpcode => exact ⟨h1, h2, h3, h4, trivial⟩
  | waitPake2 exp =>
    rw [hs] at h5
    obtain ⟨r, hr, hg, he⟩ := h5
    simp only
    cases m with
    | pake2 pB cb =>
      simp only
      by_cases hc : cb = .mac { exp with pB := pB }
      · simp only [hc, ↓reduceIte]
        refine ⟨h1, h2, h3, h4, r, pB, List.mem_append_left _ hr, hg, ?_, ?_⟩
        · rw [he]; rfl
        · rw [← hc]; exact last
      · simp only [hc, ↓reduceIte]; exact ⟨h1, h2, h3, h4, trivial⟩
    | resp r' => exact ⟨h1, h2, h3, h4, trivial⟩
    | respMalformed => exact ⟨h1, h2, h3, h4, trivial⟩
    | pake2Malformed => exact ⟨h1, h2, h3, h4, trivial⟩
    | status b => exact ⟨h1, h2, h3, h4, trivial⟩
    | statusMalformed => exact ⟨h1, h2, h3, h4, trivial⟩
    | otherOpcode => exact ⟨h1, h2, h3, h4, trivial⟩
  | waitStatus c =>
    rw [hs] at h5
    obtain ⟨r, pB, hr, hg, he, hp⟩ := h5
    simp only
    cases m with
    | status b =>
      cases b with
      | true =>
        exact ⟨h1, h2, h3, h4, r, pB, List.mem_append_left _ hr, hg, he, List.mem_append_left _ hp, last⟩
      | false => exact ⟨h1, h2, h3, h4, trivial⟩
    | resp r' => exact ⟨h1, h2, h3, h4, trivial⟩
    | respMalformed => exact ⟨h1, h2, h3, h4, trivial⟩
    | pake2 pB' cb => exact ⟨h1, h2, h3, h4, trivial⟩
    | pake2Malformed => exact ⟨h1, h2, h3, h4, trivial⟩
    | statusMalformed => exact ⟨h1, h2, h3, h4, trivial⟩
    | otherOpcode => exact ⟨h1, h2, h3, h4, trivial⟩
  | established c =>
    simp only
    exact hm
  | failed =>
    simp only
    exact hm

theorem run_inv (s0 : St) (ms : List Msg) : ∀ (seen : List Msg) (s : St), Inv s0 seen s →
    Inv s0 (seen ++ ms) (run s ms) := by
  induction ms with
  | nil => intro seen s h; simpa [run] using h
  | cons m ms ih =>
    intro seen s h
    have := ih (seen ++ [m]) (step s m).1 (step_inv s0 seen s m h)
    simpa [run, List.append_assoc] using this

/-- **Initiator session ⇒ the peer proved knowledge of the verifier for this transcript.** For every
sequence of messages whatsoever, the initiator (fresh: its PBKDFParamRequest sent) reaches
`complete_session` only if among them are: a PBKDFParamResponse `r` that echoes its random and
carries PBKDF parameters with a salt of 16..32 bytes; a Pake2 whose `cB` is the confirmation value for
the verifier class *(the initiator's passcode, `r`'s salt, `r`'s iteration count)*, the transcript
*(the request as sent, `r` as received - byte for byte)*, the initiator's own share and that Pake2's
share; and the StatusReport `SessionEstablishmentSuccess`. -/
theorem initiator_session_implies_proof (s0 : St) (hs0 : s0.stage = .waitResp) (ms : List Msg) (c : ConfB)
    (h : (run s0 ms).stage = .established c) :
    ∃ r pB, Msg.resp r ∈ ms ∧ GoodResp s0 r ∧ c = expected s0 r pB ∧ Msg.pake2 pB (.mac c) ∈ ms ∧
      Msg.status true ∈ ms := by
  have h0 : Inv s0 [] s0 := ⟨rfl, rfl, rfl, rfl, by rw [hs0]; trivial⟩
  have := run_inv s0 ms [] s0 h0
  obtain ⟨_, _, _, _, h5⟩ := this
  rw [h] at h5
  simpa using h5

/-- **Every in-flight modification is detected**: when the `cB` the initiator accepted was computed
by an honest responder from its own view `rv` of the handshake, the views coincide - the responder
holds the verifier of the initiator's passcode for the salt / iteration count the initiator was told,
saw the request as sent, its response arrived as sent, and both shares arrived unmodified. -/
theorem initiator_detects_any_modification (s0 : St) (hs0 : s0.stage = .waitResp) (ms : List Msg) (c : ConfB)
    (h : (run s0 ms).stage = .established c) (rv : RespView) (hcb : rv.cb = .mac c) :
    ∃ r, Msg.resp r ∈ ms ∧ rv.vR = { passcode := s0.passcode, salt := r.salt, iterations := r.iterations } ∧
      rv.reqSeen = s0.req ∧ rv.respSent = r.payload ∧ rv.pASeen = s0.pA ∧ Msg.pake2 rv.pB (.mac c) ∈ ms := by
  obtain ⟨r, pB, hr, _, hc, hp, _⟩ := initiator_session_implies_proof s0 hs0 ms c h
  unfold RespView.cb at hcb
  injection hcb with hcb
  rw [hc] at hcb
  simp only [expected, ConfB.mk.injEq, Ctx.mk.injEq] at hcb
  obtain ⟨hv, ⟨hreq, hresp⟩, hpa, hpb⟩ := hcb
  exact ⟨r, hr, hv, hreq, hresp, hpa, by rw [hpb]; exact hp⟩

/-- a responder that does not hold the verifier of the initiator's passcode (for whatever salt and
iteration count it announces) - every `cB` it can compute is for another passcode - never gets a session -/
theorem wrong_verifier_never (s0 : St) (hs0 : s0.stage = .waitResp) (ms : List Msg)
    (hall : ∀ pB c, Msg.pake2 pB (.mac c) ∈ ms → c.v.passcode ≠ s0.passcode) :
    ∀ c, (run s0 ms).stage ≠ .established c := by
  intro c h
  obtain ⟨r, pB, _, _, hc, hp, _⟩ := initiator_session_implies_proof s0 hs0 ms c h
  apply hall pB c hp
  rw [hc]; rfl

/-- a PBKDFParamResponse that was modified on its way (the responder's `cB` covers the response it
SENT, the initiator received another payload) never leads to a session -/
theorem modified_response_never (s0 : St) (hs0 : s0.stage = .waitResp) (ms : List Msg) (sent : Nat)
    (hresp : ∀ r, Msg.resp r ∈ ms → r.payload ≠ sent)
    (hall : ∀ pB c, Msg.pake2 pB (.mac c) ∈ ms → c.ctx.resp = sent) :
    ∀ c, (run s0 ms).stage ≠ .established c := by
  intro c h
  obtain ⟨r, pB, hr, _, hc, hp, _⟩ := initiator_session_implies_proof s0 hs0 ms c h
  have := hall pB c hp
  rw [hc] at this
  exact hresp r hr this

/-- a share modified on its way (the responder's `cB` covers the `pA` it received / the `pB` it sent) never -/
theorem modified_share_never (s0 : St) (hs0 : s0.stage = .waitResp) (ms : List Msg)
    (hall : ∀ pB c, Msg.pake2 pB (.mac c) ∈ ms → c.pA ≠ s0.pA ∨ c.pB ≠ pB) :
    ∀ c, (run s0 ms).stage ≠ .established c := by
  intro c h
  obtain ⟨r, pB, _, _, hc, hp, _⟩ := initiator_session_implies_proof s0 hs0 ms c h
  rcases hall pB c hp with h' | h'
  · apply h'; rw [hc]; rfl
  · apply h'; rw [hc]; rfl

/-- bytes that are no confirmation value at all (bit flips, zeros) never -/
theorem junk_cb_never (s0 : St) (hs0 : s0.stage = .waitResp) (ms : List Msg)
    (hall : ∀ pB cb, Msg.pake2 pB cb ∈ ms → ∃ n, cb = .junk n) :
    ∀ c, (run s0 ms).stage ≠ .established c := by
  intro c h
  obtain ⟨_, pB, _, _, _, hp, _⟩ := initiator_session_implies_proof s0 hs0 ms c h
  obtain ⟨n, hn⟩ := hall pB _ hp
  cases hn

/-- without the StatusReport `SessionEstablishmentSuccess` no session -/
theorem no_success_report_never (s0 : St) (hs0 : s0.stage = .waitResp) (ms : List Msg)
    (hall : Msg.status true ∉ ms) : ∀ c, (run s0 ms).stage ≠ .established c := by
  intro c h
  obtain ⟨_, _, _, _, _, _, hst⟩ := initiator_session_implies_proof s0 hs0 ms c h
  exact hall hst

/-- non-vacuity: the honest run; the same with the response's salt changed on the way (the responder's
`cB` is for the salt it sent); with a wrong passcode on the initiator's side -/
example :
    let s0 : St := { passcode := 20202021, rnd := 11, req := 100, pA := 5 }
    let r : Resp := { payload := 200, random := 11, hasParams := true, salt := 7, saltLen := 32, iterations := 2000 }
    let rv : RespView := { vR := { passcode := 20202021, salt := 7, iterations := 2000 }, reqSeen := 100, respSent := 200, pASeen := 5, pB := 9 }
    (run s0 [.resp r, .pake2 9 rv.cb, .status true]).stage =
      .established { v := rv.vR, ctx := { req := 100, resp := 200 }, pA := 5, pB := 9 } ∧
    (run s0 [.resp { r with salt := 8, payload := 201 }, .pake2 9 rv.cb, .status true]).stage = .failed ∧
    (run { s0 with passcode := 1 } [.resp r, .pake2 9 rv.cb, .status true]).stage = .failed ∧
    (run s0 [.resp { r with random := 12 }, .pake2 9 rv.cb, .status true]).stage = .failed ∧
    (run s0 [.resp { r with saltLen := 15 }, .pake2 9 rv.cb, .status true]).stage = .failed := by
  decide

end C02Init
