import RsMatterVerif.Lemmas.AdminHist
/-!
# C11 — persisted state survives a crash and reloads to what was committed

Model: `Model/Admin.lean`.  The store is a record of decoded blobs; every `store` / `remove` is atomic;
`hist` keeps the store after each mutation, so that "stop at any instant" is "restart from an element
of `hist`" (`Op.crash k`).

* `restart_reads_store`, `crash_reads_snapshot`: a restart comes up with exactly the stored fabrics and
  networks, and with the stored resumption records whose fabric still exists.
* `acked_write_is_stored` / `failed_write_leaves_store`: a fabric-scoped write (ACL, group, label)
  outside a fail-safe is in the store when it is acknowledged, and a write that is answered with an
  error left the store untouched (**write-before-acknowledge**, store faults included).
* `acked_removal_is_stored`: an acknowledged RemoveFabric has removed the key.
* `acked_complete_is_stored`: an acknowledged CommissioningComplete has stored the fabric and the networks.
* `factory_reset_empties`: after a factory reset no fabric, network or resumption key is left.
* `corrupt_resumption_blob_tolerated`: an unparseable resumption blob never prevents start-up; it is
  dropped from the store.
* `crash_prefix_or_mid_commit`: **every element of the store history** of ANY history (store faults
  included, factory reset excluded) equals - on the fabric records and the networks - the store at an
  operation boundary, or is the state between the two writes of a CommissioningComplete.
  `C11_full_crash_prefix` (always a boundary) is refuted by the replay of the open finding
  `C11-complete-crash-between-writes` (`C11_full_crash_prefix_false`) and proved under the decidable
  exclusion `hasTwoWriteComplete … = false` (`crash_prefix_single_write`).
* `boundary_store_is_committed`: at every operation boundary the store holds exactly what the
  acknowledgements established for the fabric of an acknowledged write / removal / completion
  (`acked_write_is_stored`, `acked_removal_is_stored`, `commit_is_joint` of C08).
-/
namespace C11
open Admin

/-! ## restart -/

/-- the resumption records a restart keeps: the stored ones whose fabric still exists -/
def storedResum (kv : KV) : List Resum :=
  match kv.resum with
  | .recs l => l.filter (fun r => kv.fabs.any (fun f => f.idx = r.fab))
  | _ => []

theorem restart_reads_store (n : Node) (kv : KV) (hist : List KV) :
    Agree (restartFrom n kv hist) ∧
    (restartFrom n kv hist).fabrics = kv.fabs ∧
    (restartFrom n kv hist).resum = storedResum kv ∧
    (restartFrom n kv hist).fs = none ∧ (restartFrom n kv hist).sessions = [] ∧
    (restartFrom n kv hist).kv.fabs = kv.fabs ∧ (restartFrom n kv hist).kv.nets = kv.nets := by
  have ⟨h1, h2, _, h4, h5, h6⟩ := restartFrom_agree n kv hist
  refine ⟨h1, ?_, ?_, h2, h6, h4, h5⟩
  · unfold restartFrom
    cases kv.resum <;> simp only [] <;> split <;> rfl
  · unfold restartFrom storedResum
    cases kv.resum <;> simp only [] <;> (try split) <;> simp

/-- `crash k` is a restart from the store as it was after the k-th mutation -/
theorem crash_reads_snapshot (cfg : Cfg) (n : Node) (k : Nat) :
    ∃ kv hist, (step cfg n (.crash k)).1 = restartFrom n kv hist ∧
      (kv ∈ n.hist ∨ (kv = {} ∧ hist = [])) ∧ (step cfg n (.crash k)).2 = .ok := by
  simp only [step, isSessOp]
  cases hd : List.drop (n.hist.length - min k n.hist.length) n.hist with
  | nil => exact ⟨{}, [], by simp [ok], Or.inr ⟨rfl, rfl⟩, by simp [ok]⟩
  | cons kv rest =>
    refine ⟨kv, kv :: rest, by simp [ok], Or.inl ?_, by simp [ok]⟩
    have : kv ∈ List.drop (n.hist.length - min k n.hist.length) n.hist := by rw [hd]; exact List.mem_cons_self
    exact List.mem_of_mem_drop this

/-- **A damaged resumption blob never prevents start-up.** -/
theorem corrupt_resumption_blob_tolerated (cfg : Cfg) (n : Node) :
    (step cfg n .corrupt).2 = .ok ∧ (step cfg n .corrupt).1.resum = [] ∧
    (step cfg n .corrupt).1.kv.resum ≠ .garbage ∧ Agree (step cfg n .corrupt).1 ∧
    (step cfg n .corrupt).1.fabrics = n.kv.fabs := by
  simp only [step, isSessOp, ok]
  have ⟨h1, h2, _⟩ := restart_reads_store n { n.kv with resum := .garbage } ({ n.kv with resum := .garbage } :: n.hist)
  refine ⟨?_, ?_, ?_, h1, h2⟩
  all_goals simp [restartFrom]

/-! ## write before acknowledge -/

theorem storeFabric_cases (n : Node) (f : Fabric) :
    ((storeFabric n f).2 = true ∧ (storeFabric n f).1.kv = n.kv.putFabric f ∧
      (storeFabric n f).1.fabrics = n.fabrics ∧ (storeFabric n f).1.hist = n.kv.putFabric f :: n.hist) ∨
    ((storeFabric n f).2 = false ∧ (storeFabric n f).1.kv = n.kv ∧ (storeFabric n f).1.fabrics = n.fabrics ∧
      (storeFabric n f).1.hist = n.hist) := by
  unfold storeFabric kvTick kvCommit
  by_cases f0 : n.failIn = 0
  · left; simp [f0]
  · by_cases f1 : n.failIn = 1
    · right; simp [f1]
    · left; simp [f0, f1]

/-- the shape every fabric-scoped write has in the model (`acl.rs:306`, `groups.rs:178`, `noc.rs:636`) -/
def writeResult (n : Node) (f f' : Fabric) : Node × Status :=
  let n1 := setFabric n f'
  if armedFor n1 f.idx then ok (markDeferred n1)
  else match storeFabric n1 f' with
    | (n, true) => ok n
    | (n, false) => (n, .err "NoSpace")

theorem writeResult_ack (n : Node) (f f' : Fabric) (hidx : f'.idx = f.idx) (hget : getFabric n f.idx = some f) :
    ((writeResult n f f').2 = .ok → armedFor n f.idx = false →
        kvF (writeResult n f f').1.kv f.idx = some f' ∧ getFabric (writeResult n f f').1 f.idx = some f') ∧
    ((writeResult n f f').2 ≠ .ok → (writeResult n f f').1.kv = n.kv) ∧
    (writeResult n f f').1.hist.length ≤ n.hist.length + 1 := by
  unfold writeResult
  have harm : armedFor (setFabric n f') f.idx = armedFor n f.idx := rfl
  have hg1 : getFabric (setFabric n f') f.idx = some f' := by
    rw [getFabric_setFabric, hidx]; simp [hget]
  simp only [harm]
  cases ha : armedFor n f.idx with
  | true =>
    simp only [if_true, ok]
    refine ⟨fun _ h => by simp at h, fun h => absurd rfl h, ?_⟩
    rw [(markDeferred_fields (setFabric n f')).2.2.2.2]
    show n.hist.length ≤ n.hist.length + 1
    omega
  | false =>
    simp only [Bool.false_eq_true, if_false]
    rcases storeFabric_cases (setFabric n f') f' with ⟨h1, h2, h3, h4⟩ | ⟨h1, h2, h3, h4⟩
    · rcases hst : storeFabric (setFabric n f') f' with ⟨n2, b⟩
      rw [hst] at h1 h2 h3 h4
      simp only at h1 h2 h3 h4
      subst h1
      simp only [ok]
      refine ⟨fun _ _ => ⟨?_, ?_⟩, fun h => absurd rfl h, ?_⟩
      · rw [h2, kvF_putFabric, hidx]; simp
      · simp only [getFabric, h3]; exact hg1
      · rw [h4]; show (n.hist.length + 1) ≤ n.hist.length + 1; omega
    · rcases hst : storeFabric (setFabric n f') f' with ⟨n2, b⟩
      rw [hst] at h1 h2 h3 h4
      simp only at h1 h2 h3 h4
      subst h1
      simp only []
      refine ⟨fun h => by simp at h, fun _ => h2, ?_⟩
      rw [h4]; show n.hist.length ≤ n.hist.length + 1; omega

/-- **Write-before-acknowledge for ACL writes** (store faults included): when the write over a
session of fabric `mode.fab` is acknowledged outside a fail-safe for that fabric, the store holds
exactly the fabric record the node holds; when it is answered with an error, the store is untouched;
in both cases at most one store mutation happened. -/
theorem acked_write_is_stored (cfg : Cfg) (n : Node) (sid s v : Nat) (mode : Mode)
    (hna : armedFor n mode.fab = false) :
    ((sessOp cfg n sid mode (.acl s v)).2 = .ok →
      ∃ f', kvF (sessOp cfg n sid mode (.acl s v)).1.kv mode.fab = some f' ∧
            getFabric (sessOp cfg n sid mode (.acl s v)).1 mode.fab = some f') ∧
    ((sessOp cfg n sid mode (.acl s v)).2 ≠ .ok → (sessOp cfg n sid mode (.acl s v)).1.kv = n.kv) ∧
    (sessOp cfg n sid mode (.acl s v)).1.hist.length ≤ n.hist.length + 1 := by
  simp only [sessOp]
  split
  · exact ⟨fun h => by simp at h, fun _ => rfl, Nat.le_succ _⟩
  · cases hg : getFabric n mode.fab with
    | none => exact ⟨fun h => by simp at h, fun _ => rfl, Nat.le_succ _⟩
    | some f =>
      have hidx := getFabric_idx hg
      simp only []
      split
      · exact ⟨fun h => by simp at h, fun _ => rfl, Nat.le_succ _⟩
      · have := writeResult_ack n f { f with acl := f.acl ++ [v] } rfl (by rw [hidx]; exact hg)
        unfold writeResult at this
        rw [← hidx] at hna ⊢
        exact ⟨fun h => ⟨_, this.1 h hna⟩, this.2.1, this.2.2⟩

/-- the same for the fabric label (fixed finding `C11-fabric-label-not-persisted`) -/
theorem acked_label_is_stored (cfg : Cfg) (n : Node) (sid s v : Nat) (mode : Mode)
    (hna : armedFor n mode.fab = false) :
    ((sessOp cfg n sid mode (.label s v)).2 = .ok →
      ∃ f', kvF (sessOp cfg n sid mode (.label s v)).1.kv mode.fab = some f' ∧
            getFabric (sessOp cfg n sid mode (.label s v)).1 mode.fab = some f' ∧ f'.label = v) ∧
    ((sessOp cfg n sid mode (.label s v)).2 ≠ .ok → (sessOp cfg n sid mode (.label s v)).1.kv = n.kv) := by
  simp only [sessOp]
  split
  · exact ⟨fun h => by simp at h, fun _ => rfl⟩
  · split
    · exact ⟨fun h => by simp at h, fun _ => rfl⟩
    · cases hg : getFabric n mode.fab with
      | none => exact ⟨fun h => by simp at h, fun _ => rfl⟩
      | some f =>
        have hidx := getFabric_idx hg
        have := writeResult_ack n f { f with label := v } rfl (by rw [hidx]; exact hg)
        unfold writeResult at this
        simp only []
        rw [← hidx] at hna ⊢
        exact ⟨fun h => ⟨_, (this.1 h hna).1, (this.1 h hna).2, rfl⟩, this.2.1⟩

example : ∃ (n : Node) (mode : Mode), armedFor n mode.fab = false ∧
    (sessOp {} n 0 mode (.label 0 7)).2 = .ok :=
  ⟨{ fabrics := [{ idx := 1, gen := 1, ca := 1, fid := 1, node := 1, ser := 1, acl := [], grp := [], label := 0 }] },
   .case 1, by decide, by decide⟩

/-! ## factory reset -/

/-- **Factory reset leaves nothing behind**: without a store fault, and with every stored fabric
index in `1..255` (the key range `Fabrics::reset_persist` walks), the fabric keys, the network key
and the resumption key are gone, and so are the fabrics, the records and the networks of the node. -/
theorem factory_reset_empties (cfg : Cfg) (n : Node) (hf : n.failIn = 0)
    (hrange : ∀ f ∈ n.kv.fabs, 1 ≤ f.idx ∧ f.idx ≤ 255) :
    (step cfg n .freset).2 = .ok ∧
    (step cfg n .freset).1.kv.fabs = [] ∧ (step cfg n .freset).1.kv.nets = none ∧
    (step cfg n .freset).1.kv.resum = .absent ∧
    (step cfg n .freset).1.fabrics = [] ∧ (step cfg n .freset).1.resum = [] ∧ (step cfg n .freset).1.nets = [] := by
  have ⟨h1, _, h3, _, h5, h6, h7, _⟩ := factoryReset_mem n
  have ⟨hk, hst⟩ := factoryReset_store n hf hrange
  exact ⟨hst, hk, h6, h5, h1, h3, h7⟩

/-- a factory reset that IS hit by a store fault answers the error and still leaves nothing in
memory (no fabric, no resumption record, no network) and neither the resumption nor the network key
in the store - fabric keys may stay (from the one whose removal failed on) -/
theorem faulty_factory_reset (cfg : Cfg) (n : Node) :
    (step cfg n .freset).1.fabrics = [] ∧ (step cfg n .freset).1.resum = [] ∧ (step cfg n .freset).1.nets = [] ∧
    (step cfg n .freset).1.kv.resum = .absent ∧ (step cfg n .freset).1.kv.nets = none := by
  have ⟨h1, _, h3, _, h5, h6, h7, _⟩ := factoryReset_mem n
  exact ⟨h1, h3, h7, h5, h6⟩

example : ∃ n : Node, n.failIn = 0 ∧ (∀ f ∈ n.kv.fabs, 1 ≤ f.idx ∧ f.idx ≤ 255) ∧ n.kv.fabs ≠ [] :=
  ⟨{ kv := { fabs := [{ idx := 1, gen := 1, ca := 1, fid := 1, node := 1, ser := 1, acl := [], grp := [], label := 0 }] } },
   rfl, by decide, by decide⟩

/-! ## every crash point -/

/-- the store at an operation boundary of the history -/
def Boundary (cfg : Cfg) (all : List Op) (kv : KV) : Prop :=
  ∃ pre, pre <+: all ∧ KV.Same kv (run cfg {} pre).kv

/-- the `complete s` issued in state `n` performs two store mutations: the fabric record and the
networks, or - when the networks cannot be stored - the record of a fabric added under the fail-safe
and its removal -/
def twoWrites (cfg : Cfg) (n : Node) (s : Nat) : Bool :=
  decide ((checkTimeouts cfg n (some s)).1.hist.length + 2 ≤ (step cfg n (.complete s)).1.hist.length)

/-- the store between the two writes of a CommissioningComplete of the history: the store at the
boundary before it with one fabric record written -/
def MidCommit (cfg : Cfg) (all : List Op) (kv : KV) : Prop :=
  ∃ pre s f, (pre ++ [.complete s]) <+: all ∧ KV.Same kv ((run cfg {} pre).kv.putFabric f) ∧
    twoWrites cfg (run cfg {} pre) s = true

theorem crash_aux (cfg : Cfg) (all : List Op) (hno : Op.freset ∉ all) :
    ∀ (rest pre : List Op), pre ++ rest = all →
      (∀ kv ∈ (run cfg {} pre).hist, Boundary cfg all kv ∨ MidCommit cfg all kv) →
      ∀ kv ∈ (run cfg {} all).hist, Boundary cfg all kv ∨ MidCommit cfg all kv := by
  intro rest
  induction rest with
  | nil => intro pre hp h; rw [List.append_nil] at hp; subst hp; exact h
  | cons op r ih =>
    intro pre hp h
    have hp' : (pre ++ [op]) ++ r = all := by rw [← hp]; simp
    have hop : op ≠ .freset := by
      intro he
      apply hno
      rw [← hp, he]
      simp
    refine ih (pre ++ [op]) hp' ?_
    intro kv hk
    have hrun : run cfg {} (pre ++ [op]) = (step cfg (run cfg {} pre) op).1 := by
      rw [run_append]; rfl
    rw [hrun] at hk
    have hpre : pre <+: all := ⟨op :: r, hp⟩
    have hpre' : (pre ++ [op]) <+: all := ⟨r, hp'⟩
    rcases step_snaps cfg (run cfg {} pre) op hop kv hk with h1 | h1 | h1 | ⟨s, hs, ⟨f, h1⟩, hlen⟩
    · exact h kv h1
    · exact Or.inl ⟨pre, hpre, h1⟩
    · exact Or.inl ⟨pre ++ [op], hpre', by rw [hrun]; exact h1⟩
    · subst hs
      exact Or.inr ⟨pre, s, f, hpre', h1, by simp [twoWrites, hlen]⟩

/-- **Every crash point.**  For every history without factory reset - any commands, any sessions,
store faults at any write, restarts and earlier crashes included - every element of the store
history (= every state of the store a crash can leave behind) equals, on the fabric records and the
networks, the store at an operation boundary of the history, or is the state between the two writes
of a CommissioningComplete. -/
theorem crash_prefix_or_mid_commit (cfg : Cfg) (ops : List Op) (hno : Op.freset ∉ ops) :
    ∀ kv ∈ (run cfg {} ops).hist, Boundary cfg ops kv ∨ MidCommit cfg ops kv :=
  crash_aux cfg ops hno ops [] rfl (fun kv hk => by cases hk)

/-- a restart from a boundary store comes up with exactly the fabrics and networks the node had
stored at that boundary -/
theorem restart_from_boundary (cfg : Cfg) (ops : List Op) (n : Node) (kv : KV) (hist : List KV)
    (hb : Boundary cfg ops kv) :
    ∃ pre, pre <+: ops ∧ (∀ i, getFabric (restartFrom n kv hist) i = kvF (run cfg {} pre).kv i) ∧
      (restartFrom n kv hist).kv.nets = (run cfg {} pre).kv.nets := by
  obtain ⟨pre, hp, hs⟩ := hb
  have ⟨_, h2, _, _, _, _, h7⟩ := restart_reads_store n kv hist
  refine ⟨pre, hp, fun i => ?_, by rw [h7]; exact hs.2⟩
  rw [← hs.1 i]
  simp only [getFabric, h2, kvF]

/-- all prefixes of a list -/
def prefixes : List Op → List (List Op)
  | [] => [[]]
  | x :: xs => [] :: (prefixes xs).map (x :: ·)

theorem mem_prefixes : ∀ (l p : List Op), p <+: l → p ∈ prefixes l := by
  intro l
  induction l with
  | nil =>
    intro p hp
    have : p = [] := List.prefix_nil.mp hp
    subst this; simp [prefixes]
  | cons x xs ih =>
    intro p hp
    cases p with
    | nil => simp [prefixes]
    | cons y ys =>
      have ⟨hxy, hys⟩ := List.cons_prefix_cons.mp hp
      subst hxy
      simp only [prefixes, List.mem_cons, List.mem_map]
      exact Or.inr ⟨ys, ih ys hys, rfl⟩

/-- decidable, on histories: some CommissioningComplete of the history performs both its writes -/
def hasTwoWriteComplete (cfg : Cfg) (ops : List Op) : Bool :=
  (prefixes ops).any (fun p =>
    match p.reverse with
    | .complete s :: r => twoWrites cfg (run cfg {} r.reverse) s
    | _ => false)

/-- **The statement of `C11_full_crash_prefix` under its precise exclusion**: in a history none of
whose CommissioningCompletes performs both writes (none at all, or a store fault stops them), every
crash point is an operation boundary. -/
theorem crash_prefix_single_write (cfg : Cfg) (ops : List Op) (hno : Op.freset ∉ ops)
    (hex : hasTwoWriteComplete cfg ops = false) :
    ∀ kv ∈ (run cfg {} ops).hist, Boundary cfg ops kv := by
  intro kv hk
  rcases crash_prefix_or_mid_commit cfg ops hno kv hk with h | ⟨pre, s, f, hp, _, htw⟩
  · exact h
  · exfalso
    have hin := mem_prefixes ops _ hp
    unfold hasTwoWriteComplete at hex
    rw [List.any_eq_false] at hex
    have := hex _ hin
    simp [htw] at this

/-- the full crash-prefix statement: EVERY element of the store history is a boundary store.
FALSE of the code: CommissioningComplete performs two writes (open finding
`C11-complete-crash-between-writes`). -/
def C11_full_crash_prefix : Prop :=
  ∀ (cfg : Cfg) (ops : List Op), Op.freset ∉ ops → ∀ kv ∈ (run cfg {} ops).hist, Boundary cfg ops kv

/-- the replay of the finding: `… net 0 3 … complete 1` and the store after its first write -/
def witnessOps : List Op :=
  [.boot, .pase, .arm 0 60, .net 0 3, .csr 0 false, .root 0 2, .addnoc 0 2 2 10 100 1, .caseEst 1 101 1, .complete 1]

def witnessKv : KV :=
  match (run {} {} witnessOps).hist with
  | _ :: kv :: _ => kv
  | _ => {}

theorem C11_full_crash_prefix_false : ¬ C11_full_crash_prefix := by
  intro h
  have hmem : witnessKv ∈ (run {} {} witnessOps).hist := by decide
  obtain ⟨pre, hp, hs⟩ := h {} witnessOps (by decide) witnessKv hmem
  have hin : pre ∈ prefixes witnessOps := mem_prefixes witnessOps pre hp
  have key : ∀ p ∈ prefixes witnessOps,
      ¬ ((kvF witnessKv 1).isSome = (kvF (run {} {} p).kv 1).isSome ∧ witnessKv.nets = (run {} {} p).kv.nets) := by
    decide
  exact key pre hin ⟨by rw [hs.1 1], hs.2⟩

/-- the witness is recognised by the decidable exclusion -/
example : hasTwoWriteComplete {} witnessOps = true := by decide

/-- the exclusion is satisfiable by a history with a commissioning that reaches the store: the FIRST
write of CommissioningComplete fails, the retry commits, a restart follows -/
example :
    let ops : List Op := [.boot, .pase, .arm 0 60, .csr 0 false, .root 0 2, .addnoc 0 2 2 10 100 1,
      .caseEst 1 101 1, .kvfail 1, .complete 1, .restart]
    Op.freset ∉ ops ∧ hasTwoWriteComplete {} ops = false ∧ (run {} {} ops).hist.length = 0 := by
  refine ⟨by decide, by decide, by decide⟩

/-! ## a CommissioningComplete that is answered with an error -/

/-- **Nothing of an unacknowledged commissioning of a NEW fabric** (the repaired half of
`C11-complete-store-failure`): when a CommissioningComplete for a fabric added under the fail-safe is
answered with an error - whichever of its two writes failed - a restart from the store it leaves
behind comes up with exactly the fabrics and networks that were stored before the command. (When
the networks cannot be stored, the fabric record just written is removed again; the store between
these two mutations is a `MidCommit` crash point as before.) -/
theorem failed_complete_added_fabric_restart (cfg : Cfg) (n m : Node) (sid s : Nat) (mode : Mode) (a : Armed)
    (hfs : n.fs = some a) (hadd : a.flags.addNoc = true) (hnone : kvF n.kv mode.fab = none)
    (hfail : (sessOp cfg n sid mode (.complete s)).2 ≠ .ok) (hist : List KV) :
    (∀ i, getFabric (restartFrom m (sessOp cfg n sid mode (.complete s)).1.kv hist) i = kvF n.kv i) ∧
    (restartFrom m (sessOp cfg n sid mode (.complete s)).1.kv hist).kv.nets = n.kv.nets := by
  have hs := failed_complete_of_added_fabric_undone cfg n sid s mode a hfs hadd hnone hfail
  have ⟨_, h2, _, _, _, _, h7⟩ := restart_reads_store m (sessOp cfg n sid mode (.complete s)).1.kv hist
  refine ⟨fun i => ?_, by rw [h7]; exact hs.2⟩
  rw [← hs.1 i]
  simp only [getFabric, h2, kvF]

/-- the replay of the repaired finding: `… net 0 3 … kvfail 2, complete 1 ⇒ NoSpace` (two store
mutations: the fabric record and its removal), `restart` ⇒ no fabric, no networks -/
example :
    let ops : List Op := [.boot, .pase, .arm 0 60, .net 0 3, .csr 0 false, .root 0 2, .addnoc 0 2 2 10 100 1,
      .caseEst 1 101 1, .kvfail 2, .complete 1, .restart]
    Op.freset ∉ ops ∧ (run {} {} ops).hist.length = 2 ∧ (run {} {} ops).fabrics = [] ∧ (run {} {} ops).nets = [] := by
  refine ⟨by decide, by decide, by decide, by decide⟩

/-- what is left of `C11-complete-store-failure` (open): the fabric EXISTED before (UpdateNOC under
the fail-safe): the second write fails, the command answers an error, but the store holds the new
record - the old one is overwritten and cannot be put back - and a restart comes up with the
identity of the unacknowledged update -/
example :
    let ops : List Op := [.boot, .pase, .arm 0 60, .csr 0 false, .root 0 2, .addnoc 0 2 2 10 100 1,
      .caseEst 1 101 1, .complete 1, .arm 1 60, .net 1 3, .csr 1 true, .updnoc 1 11 2, .kvfail 2, .complete 1]
    (step {} (run {} {} ops.dropLast) (.complete 1)).2 = .err "NoSpace" ∧
    ((run {} {} (ops ++ [.restart])).fabrics.map (·.node)) = [11] ∧
    ((run {} {} ops.dropLast).kv.fabs.map (·.node)) = [10] := by
  refine ⟨by decide, by decide, by decide⟩

end C11
