/-!
# Model of `rs-matter/src/utils/storage/ringbuf.rs` — the real index arithmetic

`RingBuf<N>`: `buf: Vec<u8, N>` (length 0 until the first `push` resizes it to `N`), `start`, `end`,
`non_empty`. The storage is a memory function `Nat → Nat` (only the indices `< N` matter);
`copy_from_slice` into `buf[end .. end + len]` is a function update over that index range.
Transliterated loop by loop: `push` (chunked copy, dropping the oldest bytes on overflow), `pop`
(chunked copy out), `wrap`, `len`, `free`, `is_full`, `is_empty`, `clear`, `push_byte`, `pop_byte`.

The Rust `while` loops become recursion on a fuel argument that is large enough whenever `N > 0`
(every iteration moves at least one byte); for `N = 0` the Rust `push` of a non-empty slice loops
forever (`len = min(0 - 0, …) = 0`), the model stops when the fuel is used up.

Import-free (the driver executable links this file).
-/
namespace Btp

structure Ring where
  /-- the const generic `N` -/
  n : Nat
  /-- `buf.len() == N` (after the first push) rather than `0` -/
  alloc : Bool := false
  mem : Nat → Nat := fun _ => 0
  start : Nat := 0
  end_ : Nat := 0
  nonEmpty : Bool := false

namespace Ring

/-- `RingBuf::new()` -/
def new (n : Nat) : Ring := { n := n }

/-- `self.buf.len()` -/
def bufLen (r : Ring) : Nat := if r.alloc then r.n else 0

/-- `RingBuf::wrap` -/
def wrap (r : Ring) : Ring :=
  { r with start := if r.start = r.bufLen then 0 else r.start,
           end_ := if r.end_ = r.bufLen then 0 else r.end_ }

/-- `RingBuf::len` -/
def len (r : Ring) : Nat :=
  if !r.nonEmpty then 0
  else if r.start < r.end_ then r.end_ - r.start
  else r.bufLen + r.end_ - r.start

/-- `RingBuf::free` (`N - self.len()`) -/
def free (r : Ring) : Nat := r.n - r.len

/-- `RingBuf::is_full` -/
def isFull (r : Ring) : Bool := r.start == r.end_ && r.nonEmpty

/-- `RingBuf::is_empty` -/
def isEmpty (r : Ring) : Bool := !r.nonEmpty

/-- `RingBuf::clear` -/
def clear (r : Ring) : Ring := { r with start := 0, end_ := 0, nonEmpty := false }

/-- one iteration of the `while offset < data.len()` loop of `push`: copy the chunk `ch` (of
`len = min(buf.len() - end, data.len() - offset)` bytes) to `buf[end .. end + len]`, drop the oldest
bytes if they were overwritten, advance `end`, wrap -/
def pushChunk (r : Ring) (ch : List Nat) : Ring :=
  let len := ch.length
  let mem' : Nat → Nat := fun i => if r.end_ ≤ i ∧ i < r.end_ + len then ch.getD (i - r.end_) 0 else r.mem i
  let start' := if r.nonEmpty && decide (r.start ≥ r.end_) && decide (r.start < r.end_ + len) then r.end_ + len else r.start
  { (wrap { r with mem := mem', start := start', end_ := r.end_ + len }) with nonEmpty := true }

/-- the loop of `push` on the not yet copied part `d` of the data -/
def pushLoop : Nat → Ring → List Nat → Ring
  | 0, r, _ => r
  | fuel + 1, r, d =>
    if d.length = 0 then r
    else
      let len := min (r.bufLen - r.end_) d.length
      pushLoop fuel (r.pushChunk (d.take len)) (d.drop len)

/-- `RingBuf::push` (returns the new ring; the Rust returns `self.len()` of it) -/
def push (r : Ring) (d : List Nat) : Ring := pushLoop d.length { r with alloc := true } d

/-- `RingBuf::push_byte` -/
def pushByte (r : Ring) (b : Nat) : Ring :=
  let r0 : Ring := { r with alloc := true }
  let mem' : Nat → Nat := fun i => if i = r0.end_ then b else r0.mem i
  let start' := if r0.nonEmpty && r0.start == r0.end_ then r0.end_ + 1 else r0.start
  { (wrap { r0 with mem := mem', start := start', end_ := r0.end_ + 1 }) with nonEmpty := true }

/-- one iteration of the `while offset < out_buf.len() && self.non_empty` loop of `pop` for a
remaining demand of `want > 0` bytes: the bytes copied out and the new ring -/
def popChunk (r : Ring) (want : Nat) : Ring × List Nat :=
  let len := min ((if r.start < r.end_ then r.end_ else r.bufLen) - r.start) want
  let out := (List.range len).map (fun i => r.mem (r.start + i))
  let r1 := wrap { r with start := r.start + len }
  ({ r1 with nonEmpty := if r1.start = r1.end_ then false else r1.nonEmpty }, out)

/-- the loop of `pop`: `want` bytes still demanded, `acc` already copied -/
def popLoop : Nat → Ring → Nat → List Nat → Ring × List Nat
  | 0, r, _, acc => (r, acc)
  | fuel + 1, r, want, acc =>
    if want = 0 || !r.nonEmpty then (r, acc)
    else
      let (r', out) := r.popChunk want
      popLoop fuel r' (want - out.length) (acc ++ out)

/-- `RingBuf::pop(out_buf)` with `out_buf.len() = k`: the new ring and the bytes copied
(the Rust returns their number) -/
def pop (r : Ring) (k : Nat) : Ring × List Nat := popLoop k r k []

/-- `RingBuf::pop_byte` -/
def popByte (r : Ring) : Ring × Option Nat :=
  match r.pop 1 with
  | (r', [b]) => (r', some b)
  | (r', _) => (r', none)

end Ring

/-! ## The specification: a bounded FIFO of bytes -/

/-- push onto a byte queue of capacity `n`: the oldest bytes beyond the capacity are dropped -/
def qPush (n : Nat) (q d : List Nat) : List Nat := (q ++ d).drop ((q ++ d).length - n)

/-- pop up to `k` bytes: the rest of the queue and the bytes taken -/
def qPop (q : List Nat) (k : Nat) : List Nat × List Nat := (q.drop k, q.take k)

/-- operations of a ring buffer user -/
inductive RingOp where
  | push (d : List Nat)
  | pop (k : Nat)
  | pushByte (b : Nat)
  | popByte
  | clear

/-- what the user observes: bytes handed out, then `len`, `free`, `is_full`, `is_empty` -/
structure RingObs where
  out : List Nat
  len : Nat
  free : Nat
  full : Bool
  empty : Bool
deriving DecidableEq, Repr

def Ring.obs (r : Ring) (out : List Nat) : RingObs :=
  { out := out, len := r.len, free := r.free, full := r.isFull, empty := r.isEmpty }

def qObs (n : Nat) (q out : List Nat) : RingObs :=
  { out := out, len := q.length, free := n - q.length, full := q.length == n && n > 0, empty := q.isEmpty }

def Ring.step (r : Ring) : RingOp → Ring × RingObs
  | .push d => let r' := r.push d; (r', r'.obs [])
  | .pop k => let (r', o) := r.pop k; (r', r'.obs o)
  | .pushByte b => let r' := r.pushByte b; (r', r'.obs [])
  | .popByte =>
    match r.popByte with
    | (r', some b) => (r', r'.obs [b])
    | (r', none) => (r', r'.obs [])
  | .clear => let r' := r.clear; (r', r'.obs [])

def qStep (n : Nat) (q : List Nat) : RingOp → List Nat × RingObs
  | .push d => let q' := qPush n q d; (q', qObs n q' [])
  | .pop k => let (q', o) := qPop q k; (q', qObs n q' o)
  | .pushByte b => let q' := qPush n q [b]; (q', qObs n q' [])
  | .popByte => let (q', o) := qPop q 1; (q', qObs n q' o)
  | .clear => ([], qObs n [] [])

end Btp
