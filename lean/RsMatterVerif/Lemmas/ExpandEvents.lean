import RsMatterVerif.Lemmas.ExpandSwap
/-!
# Event paths: `validate_event_path` / `report_events` against the specification
-/
namespace C06
open Acl Expand

theorem eventsWF_table {node : Node} (h : eventsWF node = true) {e : Endpoint} (he : e ∈ node)
    {c : Cluster} (hc : c ∈ e.clusters) : (c.events.map (·.id)).Nodup := by
  unfold eventsWF at h
  simp only [List.all_eq_true, decide_eq_true_iff] at h
  exact h e he c hc

/-- readers are never group accessors (`handle` drops groupcast reads): every endpoint is reachable -/
theorem reachable_of_not_group {ctx : Ctx} (hg : ctx.accessor.authMode ≠ some AuthMode.group) (e : Endpoint) :
    reachable ctx e = true := by
  unfold reachable reachesB
  simp [hg]

/-- the access check for an existing event is the specification's `permittedEvent` -/
theorem checkEventAccess_spec {ctx : Ctx} {e : Endpoint} {c : Cluster} {l : Leaf}
    (hwf : WF ctx.fabrics) (hcan : CanonicalPrivs ctx.fabrics)
    (hl : l ∈ c.events) (hnd : (c.events.map (·.id)).Nodup) :
    checkEventAccess ctx c e.id e.deviceTypes l.id =
      if permittedEvent ctx e c l then .ok () else .error .unsupportedAccess := by
  unfold checkEventAccess permittedEvent
  simp only [find_unique hl hnd, Option.map_some, Option.getD_some]
  rw [allow_eq_grantedB _ _ hwf hcan ⟨.read, rfl⟩]

/-- **a concrete event path validates exactly when the specification has no status for it**, and
otherwise fails with the specification's status -/
theorem validateEventPath_concrete {ctx : Ctx} {node : Node} (ep cl ev : Nat)
    (hev : eventsWF node = true) (hwf : WF ctx.fabrics) (hcan : CanonicalPrivs ctx.fabrics)
    (hg : ctx.accessor.authMode ≠ some AuthMode.group) :
    validateEventPath ctx node { endpoint := some ep, cluster := some cl, leaf := some ev } =
      (match expectedEventStatus ctx node ep cl ev with
       | none => .ok ()
       | some s => .error s) := by
  unfold validateEventPath expectedEventStatus
  have hpred : (fun (e : Endpoint) => e.id == ep && reachable ctx e) = (fun e => e.id == ep) := by
    funext e; rw [reachable_of_not_group hg]; simp
  rw [hpred]
  simp only
  cases hfe : node.find? (fun e => e.id == ep) with
  | none => rfl
  | some e =>
    have he : e ∈ node := List.mem_of_find?_eq_some hfe
    simp only
    cases hfc : e.clusters.find? (fun c => c.id == cl) with
    | none => rfl
    | some c =>
      have hc : c ∈ e.clusters := List.mem_of_find?_eq_some hfc
      simp only
      have hsp : c.evs = specEvents c := rfl
      rw [hsp]
      cases hfl : (specEvents c).find? (fun l => l.id == ev) with
      | none => rfl
      | some l =>
        have hl : l ∈ c.events := by
          have := List.mem_of_find?_eq_some hfl
          unfold specEvents at this
          exact (List.mem_filter.mp this).1
        simp only
        rw [checkEventAccess_spec hwf hcan hl (eventsWF_table hev he hc)]
        cases permittedEvent ctx e c l <;> rfl

theorem matchesOpt_iff2 (w : Option Nat) (id : Nat) : (w.isNone || w == some id) = matchesOpt w id := by
  cases w <;> simp [matchesOpt]

/-- a requested path that matches an occurrence whose own path validates, validates too (it is a
prefix of the same walk) -/
theorem validate_of_match {ctx : Ctx} {node : Node} {p : Path} {o : EventOcc}
    (hv : isOkE (validateEventPath ctx node o.path) = true)
    (hm : (matchesOpt p.endpoint o.ep && matchesOpt p.cluster o.cl && matchesOpt p.leaf o.ev) = true) :
    isOkE (validateEventPath ctx node p) = true := by
  simp only [Bool.and_eq_true] at hm
  obtain ⟨⟨m1, m2⟩, m3⟩ := hm
  unfold validateEventPath EventOcc.path at hv
  unfold validateEventPath
  simp only at hv
  cases hpe : p.endpoint with
  | none => rfl
  | some ep =>
    have : ep = o.ep := by rw [hpe] at m1; simpa [matchesOpt] using m1
    rw [this]
    simp only
    cases hfe : node.find? (fun e => e.id == o.ep) with
    | none => rw [hfe] at hv; exact hv
    | some e =>
      rw [hfe] at hv
      simp only at hv ⊢
      cases hpc : p.cluster with
      | none => rfl
      | some cl =>
        have : cl = o.cl := by rw [hpc] at m2; simpa [matchesOpt] using m2
        rw [this]
        simp only
        cases hfc : e.clusters.find? (fun c => c.id == o.cl) with
        | none => rw [hfc] at hv; exact hv
        | some c =>
          rw [hfc] at hv
          simp only at hv ⊢
          cases hpl : p.leaf with
          | none => rfl
          | some ev =>
            have : ev = o.ev := by rw [hpl] at m3; simpa [matchesOpt] using m3
            rw [this]
            exact hv

theorem filterMap_congr_mem {α β : Type} {f g : α → Option β} : ∀ {l : List α},
    (∀ a ∈ l, f a = g a) → l.filterMap f = l.filterMap g
  | [], _ => rfl
  | a :: as, h => by
    have h1 := h a (by simp)
    have h2 := filterMap_congr_mem (l := as) (fun b hb => h b (List.mem_cons_of_mem _ hb))
    simp only [List.filterMap_cons, h1, h2]

theorem any_congr_mem {α : Type} {f g : α → Bool} : ∀ {l : List α},
    (∀ a ∈ l, f a = g a) → l.any f = l.any g
  | [], _ => rfl
  | a :: as, h => by
    have h1 := h a (by simp)
    have h2 := any_congr_mem (l := as) (fun b hb => h b (List.mem_cons_of_mem _ hb))
    simp only [List.any_cons, h1, h2]

theorem isOkE_match (x : Except Status Unit) : isOkE x = true ↔ x = .ok () := by
  cases x with
  | ok u => simp [isOkE]
  | error s => simp [isOkE]

/-- **`report_events` against the specification**: for every well-formed node, ACL state, non-group
reader, list of event paths and event queue, the answer is the specification's list — every
disclosed occurrence exists, is permitted (specification of C05), matches a requested path and is
not a fabric-sensitive event of another fabric; every occurrence with these properties is reported
once, in queue order; a concrete path with an absent endpoint / cluster / event or a denied event
gets exactly its status. -/
theorem reportEvents_eq_expected (ctx : Ctx) (node : Node) (ff : Bool) (paths : List Path)
    (queue : List EventOcc)
    (hev : eventsWF node = true) (hwf : WF ctx.fabrics) (hcan : CanonicalPrivs ctx.fabrics)
    (hg : ctx.accessor.authMode ≠ some AuthMode.group) :
    reportEvents ctx node ff paths queue = expectedEvents ctx node ff paths queue := by
  unfold reportEvents expectedEvents eventStatuses
  congr 1
  · -- statuses
    apply filterMap_congr_mem
    intro p _
    cases p with
    | mk e c l =>
      cases e with
      | none => simp [isWildcard]
      | some ep =>
        cases c with
        | none => simp [isWildcard]
        | some cl =>
          cases l with
          | none => simp [isWildcard]
          | some ev =>
            simp only [isWildcard, Option.isSome_some, Bool.and_self, Bool.not_true, Bool.not_false, if_true]
            rw [validateEventPath_concrete ep cl ev hev hwf hcan hg]
            cases hs : expectedEventStatus ctx node ep cl ev with
            | none => rfl
            | some s => rfl
  · -- occurrences
    congr 1
    apply List.filter_congr
    intro o _
    have hconc := validateEventPath_concrete (ctx := ctx) (node := node) o.ep o.cl o.ev hev hwf hcan hg
    have hvalid : isOkE (validateEventPath ctx node o.path) = (expectedEventStatus ctx node o.ep o.cl o.ev).isNone := by
      unfold EventOcc.path
      rw [hconc]
      cases expectedEventStatus ctx node o.ep o.cl o.ev <;> rfl
    have hfab : matchesFabric ctx o = fabricAllows ctx o := by
      unfold matchesFabric fabricAllows EventOcc.fabricOf
      cases o.fab <;> rfl
    unfold eventVisible
    rw [hvalid, hfab]
    cases hst : (expectedEventStatus ctx node o.ep o.cl o.ev).isNone with
    | false => simp
    | true =>
      have hv : isOkE (validateEventPath ctx node o.path) = true := by rw [hvalid, hst]
      have hany : paths.any (fun p => eventMatchesPath ctx node p o) =
          paths.any (fun p => matchesOpt p.endpoint o.ep && matchesOpt p.cluster o.cl && matchesOpt p.leaf o.ev) := by
        apply any_congr_mem
        intro p _
        unfold eventMatchesPath
        rw [matchesOpt_iff2, matchesOpt_iff2, matchesOpt_iff2]
        cases hm : (matchesOpt p.endpoint o.ep && matchesOpt p.cluster o.cl && matchesOpt p.leaf o.ev) with
        | false => simp
        | true => simp [validate_of_match hv hm]
      rw [hany]
      cases fabricAllows ctx o <;>
        cases paths.any (fun p => matchesOpt p.endpoint o.ep && matchesOpt p.cluster o.cl && matchesOpt p.leaf o.ev) <;> rfl

end C06
