/-! # C13 — property theorems (not built yet) -/
