import RsMatterVerif.Generated.Consts
import RsMatterVerif.Model.Codec.Buf
/-!
# Model of `transport/plain_hdr.rs` (`PlainHdr::encode` / `decode`, the setters and getters)
Flag sets are `Nat` bit masks (`bitflags`): `contains m` = all bits of `m` set.
-/
namespace Codec.PlainHdr
open Codec

def DSIZ_UNICAST : Nat := Consts.c17MsgDsizUnicast
def DSIZ_GROUPCAST : Nat := Consts.c17MsgDsizGroupcast
def SRC_ADDR_PRESENT : Nat := Consts.c17MsgSrcPresent
def DSIZ_MASK : Nat := DSIZ_UNICAST ||| DSIZ_GROUPCAST
/-- all defined `MsgFlags` bits (`from_bits` refuses anything else) -/
def MSG_FLAGS_ALL : Nat := DSIZ_MASK ||| SRC_ADDR_PRESENT
/-- all defined `SecFlags` bits: GROUP_SESSION | MSG_EXT | CONTROL_MSG | PRIVACY -/
def SEC_FLAGS_ALL : Nat :=
  Consts.c17SecGroupSession ||| Consts.c17SecMsgExt ||| Consts.c17SecControlMsg ||| Consts.c17SecPrivacy

def contains (flags m : Nat) : Bool := flags &&& m == m

structure Hdr where
  flags : Nat := 0
  sessId : Nat := 0
  secFlags : Nat := 0
  ctr : Nat := 0
  src : Nat := 0
  dst : Nat := 0
deriving DecidableEq, Repr

/-- `bitflags::from_bits(b)`: `None` if an undefined bit is set -/
def fromBits (all b : Nat) : Except Err Nat :=
  if b &&& all == b then .ok b else .error .invalid

/-- `decode(&mut self, msg)` on the remaining bytes; returns the header and the rest -/
def decode (h : Hdr) (l : List Nat) : Except Err (Hdr × List Nat) := do
  let (f, l) ← Rd.u8 l
  let flags ← fromBits MSG_FLAGS_ALL f
  let (sid, l) ← Rd.u16 l
  let (sf, l) ← Rd.u8 l
  let secFlags ← fromBits SEC_FLAGS_ALL sf
  let (ctr, l) ← Rd.u32 l
  let h := { h with flags := flags, sessId := sid, secFlags := secFlags, ctr := ctr }
  let (h, l) ← if contains flags SRC_ADDR_PRESENT then do
      let (s, l) ← Rd.u64 l
      pure ({ h with src := s }, l)
    else pure (h, l)
  if !(contains flags DSIZ_MASK) then
    if contains flags DSIZ_UNICAST then do
      let (d, l) ← Rd.u64 l
      pure ({ h with dst := d }, l)
    else if contains flags DSIZ_GROUPCAST then do
      let (d, l) ← Rd.u16 l
      pure ({ h with dst := d }, l)
    else pure (h, l)
  else pure (h, l)

/-- `encode(&self, wb)`: the bytes appended (the `WriteBuf` capacity check is `Wr.put`) -/
def encodeBytes (h : Hdr) : List Nat :=
  [h.flags % 256] ++ le16 h.sessId ++ [h.secFlags % 256] ++ le32 h.ctr
  ++ (if contains h.flags SRC_ADDR_PRESENT then le64 h.src else [])
  ++ (if !(contains h.flags DSIZ_MASK) then
        if contains h.flags DSIZ_UNICAST then le64 h.dst
        else if contains h.flags DSIZ_GROUPCAST then le16 (h.dst % 65536)
        else []
      else [])

/-- the getters: what a user of the header can observe -/
structure View where
  flags : Nat
  sessId : Nat
  secFlags : Nat
  ctr : Nat
  src : Option Nat
  dstU : Option Nat
  dstG : Option Nat
deriving DecidableEq, Repr

def view (h : Hdr) : View :=
  { flags := h.flags, sessId := h.sessId, secFlags := h.secFlags, ctr := h.ctr
    src := if contains h.flags SRC_ADDR_PRESENT then some h.src else none
    dstU := if h.flags &&& DSIZ_MASK == DSIZ_UNICAST then some h.dst else none
    dstG := if h.flags &&& DSIZ_MASK == DSIZ_GROUPCAST then some (h.dst % 65536) else none }

/-- field ranges of the Rust struct (u8/u16/u32/u64) and the `bitflags` types -/
def WF (h : Hdr) : Prop :=
  h.flags &&& MSG_FLAGS_ALL = h.flags ∧ h.secFlags &&& SEC_FLAGS_ALL = h.secFlags ∧
  h.sessId < 65536 ∧ h.ctr < 4294967296 ∧ h.src < 18446744073709551616 ∧ h.dst < 18446744073709551616
instance (h : Hdr) : Decidable (WF h) := inferInstanceAs (Decidable (_ ∧ _))

/-- what the setters guarantee in addition: absent ids are stored as 0, a group id fits 16 bits,
the two DSIZ bits are never both set -/
def Canon (h : Hdr) : Prop :=
  (contains h.flags SRC_ADDR_PRESENT = false → h.src = 0) ∧
  (h.flags &&& DSIZ_MASK = 0 → h.dst = 0) ∧
  (h.flags &&& DSIZ_MASK = DSIZ_GROUPCAST → h.dst < 65536) ∧
  h.flags &&& DSIZ_MASK ≠ DSIZ_MASK
instance (h : Hdr) : Decidable (Canon h) := inferInstanceAs (Decidable (_ ∧ _))

/-! setters (used by the harness to build headers) -/
def setSrc (h : Hdr) : Option Nat → Hdr
  | some id => { h with flags := h.flags ||| SRC_ADDR_PRESENT, src := id }
  | none => { h with flags := h.flags &&& (MSG_FLAGS_ALL - SRC_ADDR_PRESENT), src := 0 }
def setDstU (h : Hdr) : Option Nat → Hdr
  | some id => { h with flags := (h.flags ||| DSIZ_UNICAST) &&& (MSG_FLAGS_ALL - DSIZ_GROUPCAST), dst := id }
  | none => { h with flags := h.flags &&& (MSG_FLAGS_ALL - DSIZ_MASK), dst := 0 }
def setDstG (h : Hdr) : Option Nat → Hdr
  | some id => { h with flags := (h.flags ||| DSIZ_GROUPCAST) &&& (MSG_FLAGS_ALL - DSIZ_UNICAST), dst := id }
  | none => { h with flags := h.flags &&& (MSG_FLAGS_ALL - DSIZ_MASK), dst := 0 }

end Codec.PlainHdr
