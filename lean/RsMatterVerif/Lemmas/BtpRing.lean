import RsMatterVerif.Model.BtpRing
/-!
# `RingBuf`: no panic, and the index arithmetic refines a bounded FIFO of bytes

The model (`Model/BtpRing.lean`) has an explicit panic outcome at every `usize` subtraction /
addition, index, slice range and `copy_from_slice` of `ringbuf.rs`. Here:

* `RingInv` is the representation invariant (`0 < N`, `2 * N ≤ 2^64`, `start, end < N`, the storage
  is either not yet allocated — empty ring at index 0 — or exactly `N` bytes long, `start = end`
  when empty); `inv_new` establishes it for `Ring.new n`, every operation preserves it.
* Under `RingInv` **no operation panics or hangs**, for any data / any pop length a Rust slice can
  have (`< 2^64`): `pushIter_ok`, `pushLoop_spec`, `push_spec`, `popIter_ok`, `popLoop_spec`,
  `pop_spec`, `pushByte_spec`, `popByte_spec`, `len_ok`, `free_ok`, `obs_spec`; run level:
  `reach_inv`, `ring_never_panics`.
* `contents r` reads the occupied part of the storage from `start`, wrapping at `N`; every
  operation acts on `contents` as the corresponding operation of the byte queue (`qPush`, `qPop`):
  `step_refines`, `ring_refines_queue`.
* `N = 0`: `zero_cap_*`.
* The buffer calls of the BTP receive window (`accept_incoming`, `fetch_message`, `reset`) as whole
  runs on the checked ring = the same on the byte list of the session model, no panic:
  `acceptBuf_refines`, `fetchBuf_refines`, `bufStep_refines`, `bufRun_refines`.
-/
namespace Btp

theorem usub_ok {a b : Nat} (h : b ≤ a) (w : String) : usub a b w = .ok (a - b) := by
  simp only [usub, h, if_true]

theorem uadd_ok {a b : Nat} (h : a + b < USIZE) (w : String) : uadd a b w = .ok (a + b) := by
  simp only [uadd, h, if_true]

theorem checkRange_ok {a b len : Nat} (h1 : a ≤ b) (h2 : b ≤ len) (w : String) : checkRange a b len w = .ok () := by
  simp only [checkRange, h1, h2, and_self, if_true]

theorem slice_ok {s : List Nat} {a b : Nat} (h1 : a ≤ b) (h2 : b ≤ s.length) (w : String) :
    slice s a b w = .ok ((s.drop a).take (b - a)) := by
  simp only [slice, h1, h2, and_self, if_true]

theorem copyInto_ok {dst src : List Nat} {a b : Nat} (h1 : a ≤ b) (h2 : b ≤ dst.length)
    (h3 : src.length = b - a) (w : String) :
    copyInto dst a b src w = .ok (dst.take a ++ src ++ dst.drop b) := by
  simp only [copyInto, h1, h2, and_self, not_true_eq_false, if_false, h3, ne_eq]

theorem setIdx_ok {buf : List Nat} {i : Nat} (h : i < buf.length) (v : Nat) (w : String) :
    setIdx buf i v w = .ok (buf.set i v) := by
  simp only [setIdx, h, if_true]

namespace Ring

def lenN (r : Ring) : Nat :=
  if r.nonEmpty = false then 0 else if r.start < r.end_ then r.end_ - r.start else r.n + r.end_ - r.start

def idx (r : Ring) (i : Nat) : Nat := if r.start + i < r.n then r.start + i else r.start + i - r.n

def contents (r : Ring) : List Nat := (List.range r.lenN).map (fun i => r.buf.getD (r.idx i) 0)

structure RingInv (r : Ring) : Prop where
  pos : 0 < r.n
  small : 2 * r.n ≤ USIZE
  lt : r.start < r.n ∧ r.end_ < r.n
  shape : r.buf.length = r.n ∨ (r.buf = [] ∧ r.start = 0 ∧ r.end_ = 0 ∧ r.nonEmpty = false)
  empty : r.nonEmpty = false → r.start = r.end_

def chunkT (r : Ring) (ch : List Nat) : Ring :=
  { n := r.n,
    buf := r.buf.take r.end_ ++ ch ++ r.buf.drop (r.end_ + ch.length),
    start := if r.nonEmpty = true ∧ r.end_ ≤ r.start ∧ r.start < r.end_ + ch.length then
        (if r.end_ + ch.length = r.n then 0 else r.end_ + ch.length) else r.start,
    end_ := if r.end_ + ch.length = r.n then 0 else r.end_ + ch.length,
    nonEmpty := true }

theorem start_closed (ne : Bool) (s e k n : Nat) (hs : s < n) :
    (if (if (ne && decide (s ≥ e) && decide (s < e + k)) = true then e + k else s) = n then 0
     else (if (ne && decide (s ≥ e) && decide (s < e + k)) = true then e + k else s)) =
    (if ne = true ∧ e ≤ s ∧ s < e + k then (if e + k = n then 0 else e + k) else s) := by
  by_cases hc : ne = true ∧ e ≤ s ∧ s < e + k
  · have : (ne && decide (s ≥ e) && decide (s < e + k)) = true := by
      simp [hc.1, hc.2.1, hc.2.2]
    simp only [this, if_true, if_pos hc]
  · have : (ne && decide (s ≥ e) && decide (s < e + k)) = false := by
      cases ne
      · simp
      · simp only [true_and] at hc
        simp only [Bool.true_and, Bool.and_eq_false_iff, decide_eq_false_iff_not]
        omega
    have h3 : s ≠ n := by omega
    simp only [this, Bool.false_eq_true, if_false, h3, if_neg hc]

theorem pushIter_ok {r : Ring} (hi : RingInv r) (hb : r.buf.length = r.n) {d : List Nat} {offset : Nat}
    (ho : offset < d.length) (hd : d.length < USIZE) :
    r.pushIter d offset =
      .ok (r.chunkT ((d.drop offset).take (min (r.n - r.end_) (d.length - offset))),
           offset + min (r.n - r.end_) (d.length - offset)) := by
  obtain ⟨hs, he⟩ := hi.lt
  have hsm := hi.small
  obtain ⟨K, hK⟩ : ∃ K, K = min (r.n - r.end_) (d.length - offset) := ⟨_, rfl⟩
  have hl : ((d.drop offset).take K).length = K := by
    simp only [List.length_take, List.length_drop]; omega
  unfold pushIter
  simp only [hb, usub_ok (Nat.le_of_lt he), usub_ok (Nat.le_of_lt ho), bind, Except.bind, ← hK]
  have hKn : r.end_ + K ≤ r.n := by omega
  have hKd : offset + K ≤ d.length := by omega
  simp only [uadd_ok (a := r.end_) (b := K) (by omega), uadd_ok (a := offset) (b := K) (by omega),
    slice_ok (s := d) (a := offset) (b := offset + K) (by omega) hKd, Nat.add_sub_cancel_left,
    copyInto_ok (dst := r.buf) (src := (d.drop offset).take K) (a := r.end_) (b := r.end_ + K) (by omega)
      (by omega) (by omega)]
  have hbl : (List.take r.end_ r.buf ++ List.take K (List.drop offset d) ++ List.drop (r.end_ + K) r.buf).length = r.n := by
    simp only [List.length_append, List.length_take, List.length_drop, hb]; omega
  simp only [wrap, chunkT, hl, hbl, start_closed r.nonEmpty r.start r.end_ K r.n hs]


theorem inv_new (n : Nat) (h : 0 < n) (hs : 2 * n ≤ USIZE) : RingInv (Ring.new n) :=
  { pos := h, small := hs, lt := ⟨h, h⟩, shape := Or.inr ⟨rfl, rfl, rfl, rfl⟩, empty := (fun _ => rfl) }

@[simp] theorem contents_length (r : Ring) : r.contents.length = r.lenN := by simp [contents]

theorem lenN_le {r : Ring} (h : RingInv r) : r.lenN ≤ r.n := by
  unfold lenN
  obtain ⟨hs, he⟩ := h.lt
  split
  · omega
  · split <;> omega

theorem lenN_empty {r : Ring} (h : r.nonEmpty = false) : r.lenN = 0 := by
  unfold lenN; simp [h]

/-- a non-empty ring has its storage allocated -/
theorem buf_length_of_nonEmpty {r : Ring} (hi : RingInv r) (hne : r.nonEmpty = true) : r.buf.length = r.n := by
  rcases hi.shape with h | ⟨_, _, _, h⟩
  · exact h
  · rw [hne] at h; cases h

/-- **`len()` does not panic** and returns the number of bytes in the ring -/
theorem len_ok {r : Ring} (hi : RingInv r) : r.len = .ok r.lenN := by
  obtain ⟨hs, he⟩ := hi.lt
  have hsm := hi.small
  unfold len lenN
  cases hne : r.nonEmpty
  · simp
  · have hb := buf_length_of_nonEmpty hi hne
    simp only [Bool.not_true, Bool.false_eq_true, if_false, Bool.true_eq_false]
    split
    · exact usub_ok (by omega) _
    · simp only [hb, uadd_ok (a := r.n) (b := r.end_) (by omega), bind, Except.bind]
      exact usub_ok (by omega) _

/-- **`free()` does not panic** (`N - len()` cannot underflow) -/
theorem free_ok {r : Ring} (hi : RingInv r) : r.free = .ok (r.n - r.lenN) := by
  unfold free
  simp only [len_ok hi, bind, Except.bind]
  exact usub_ok (lenN_le hi) _

theorem getElem_contents (r : Ring) (i : Nat) (h : i < r.contents.length) :
    r.contents[i] = r.buf.getD (r.idx i) 0 := by
  simp [contents]

/-- reading the storage after `buf[e .. e + ch.len()].copy_from_slice(ch)` -/
theorem getD_splice (buf ch : List Nat) (e i : Nat) (h : e + ch.length ≤ buf.length) :
    (buf.take e ++ ch ++ buf.drop (e + ch.length)).getD i 0 =
      if e ≤ i ∧ i < e + ch.length then ch.getD (i - e) 0 else buf.getD i 0 := by
  have hte : (buf.take e).length = e := by simp only [List.length_take]; omega
  simp only [List.getD_eq_getElem?_getD, List.append_assoc]
  by_cases h1 : i < e
  · rw [List.getElem?_append_left (by omega), List.getElem?_take_of_lt h1]
    have : ¬ (e ≤ i ∧ i < e + ch.length) := by omega
    simp only [this, if_false]
  · rw [List.getElem?_append_right (by omega), hte]
    by_cases h2 : i < e + ch.length
    · rw [List.getElem?_append_left (by omega)]
      have : e ≤ i ∧ i < e + ch.length := by omega
      simp only [this, and_self, if_true]
    · rw [List.getElem?_append_right (by omega), List.getElem?_drop]
      have : ¬ (e ≤ i ∧ i < e + ch.length) := by omega
      simp only [this, if_false]
      congr 2
      omega

theorem chunk_key (n s e k S E L L' : Nat) (ne : Bool)
    (hs : s < n) (he : e < n) (h1 : 1 ≤ k) (h2 : k ≤ n - e) (hemp : ne = false → s = e)
    (f5 : E = if e + k = n then 0 else e + k)
    (f6 : S = if ne = true ∧ e ≤ s ∧ s < e + k then (if e + k = n then 0 else e + k) else s)
    (hlen : L = if ne = false then 0 else if s < e then e - s else n + e - s)
    (hlen' : L' = if S < E then E - S else n + E - S) :
    S < n ∧ E < n ∧ L' = min n (L + k) := by
  cases ne
  · have := hemp rfl
    simp only [Bool.false_eq_true, false_and, if_false, if_true] at f6 hlen
    split at f5 <;> split at hlen' <;> omega
  · simp only [Bool.true_eq_false, if_false, true_and] at f6 hlen
    split at f5 <;> split at f6 <;> split at hlen' <;> split at hlen <;> omega

theorem chunk_arith (n s e k S L i p : Nat) (ne : Bool)
    (hs : s < n) (he : e < n) (h1 : 1 ≤ k) (h2 : k ≤ n - e) (hemp : ne = false → s = e)
    (f6 : S = if ne = true ∧ e ≤ s ∧ s < e + k then (if e + k = n then 0 else e + k) else s)
    (hlen : L = if ne = false then 0 else if s < e then e - s else n + e - s)
    (hi : i < min n (L + k))
    (hpc : (S + i < n ∧ p = S + i) ∨ (n ≤ S + i ∧ p = S + i - n)) :
    (e ≤ p ∧ p < e + k → ¬ (L + k - n + i < L) ∧ p - e = L + k - n + i - L ∧ L + k - n + i - L < k) ∧
    (¬ (e ≤ p ∧ p < e + k) → L + k - n + i < L ∧
      ((s + (L + k - n + i) < n ∧ s + (L + k - n + i) = p) ∨
       (n ≤ s + (L + k - n + i) ∧ s + (L + k - n + i) - n = p))) := by
  cases ne
  · have := hemp rfl
    simp only [Bool.false_eq_true, false_and, if_false, if_true] at f6 hlen
    omega
  · simp only [Bool.true_eq_false, if_false, true_and] at f6 hlen
    split at f6 <;> (try split at f6) <;> split at hlen <;> omega

theorem idx_cases (r : Ring) (i : Nat) :
    (r.start + i < r.n ∧ r.idx i = r.start + i) ∨ (r.n ≤ r.start + i ∧ r.idx i = r.start + i - r.n) := by
  unfold idx; split
  · left; exact ⟨by assumption, rfl⟩
  · right; exact ⟨by omega, rfl⟩

/-- one chunk copied in (`1 ≤ len ≤ N - end`): invariant kept, contents = `qPush` -/
theorem chunkT_spec {r : Ring} (hi : RingInv r) (hb : r.buf.length = r.n) {ch : List Nat}
    (h1 : 1 ≤ ch.length) (h2 : ch.length ≤ r.n - r.end_) :
    RingInv (r.chunkT ch) ∧ (r.chunkT ch).buf.length = r.n ∧ (r.chunkT ch).n = r.n ∧
    (r.chunkT ch).contents = qPush r.n r.contents ch := by
  obtain ⟨hs, he⟩ := hi.lt
  have f1 : (r.chunkT ch).n = r.n := rfl
  have f3 : (r.chunkT ch).nonEmpty = true := rfl
  have f4 : (r.chunkT ch).buf = r.buf.take r.end_ ++ ch ++ r.buf.drop (r.end_ + ch.length) := rfl
  have f5 : (r.chunkT ch).end_ = (if r.end_ + ch.length = r.n then 0 else r.end_ + ch.length) := rfl
  have f6 : (r.chunkT ch).start =
      (if r.nonEmpty = true ∧ r.end_ ≤ r.start ∧ r.start < r.end_ + ch.length then
        (if r.end_ + ch.length = r.n then 0 else r.end_ + ch.length) else r.start) := rfl
  have fb : (r.chunkT ch).buf.length = r.n := by
    rw [f4]; simp only [List.length_append, List.length_take, List.length_drop, hb]; omega
  have hlen : r.lenN = if r.nonEmpty = false then 0 else if r.start < r.end_ then r.end_ - r.start
      else r.n + r.end_ - r.start := rfl
  have hlen' : (r.chunkT ch).lenN = if (r.chunkT ch).start < (r.chunkT ch).end_
      then (r.chunkT ch).end_ - (r.chunkT ch).start else r.n + (r.chunkT ch).end_ - (r.chunkT ch).start := by
    unfold lenN; rw [f3, f1]; simp only [Bool.true_eq_false, if_false]
  have key := chunk_key r.n r.start r.end_ ch.length _ _ _ _ r.nonEmpty hs he h1 h2 hi.empty f5 f6 hlen hlen'
  obtain ⟨kS, kE, kL⟩ := key
  have hinv : RingInv (r.chunkT ch) :=
    { pos := hi.pos, small := hi.small, lt := ⟨kS, kE⟩, shape := Or.inl fb,
      empty := (fun h => by rw [f3] at h; cases h) }
  refine ⟨hinv, fb, f1, ?_⟩
  apply List.ext_getElem
  · simp only [contents_length, qPush, List.length_drop, List.length_append]; omega
  · intro i hi1 hi2
    simp only [contents_length] at hi1
    rw [getElem_contents]
    simp only [qPush, List.getElem_drop, List.getElem_append, contents_length, List.length_append]
    rw [f4, getD_splice _ _ _ _ (by omega)]
    have hpc := idx_cases (r.chunkT ch) i
    rw [f1] at hpc
    have arith := chunk_arith r.n r.start r.end_ ch.length _ _ i _ r.nonEmpty hs he h1 h2 hi.empty f6 hlen
      (by omega) hpc
    split
    · rename_i hin
      obtain ⟨a1, a2, a3⟩ := arith.1 hin
      rw [dif_neg a1, List.getD_eq_getElem?_getD, List.getElem?_eq_getElem (by omega)]
      simp only [Option.getD_some, a2]
    · rename_i hout
      obtain ⟨a1, a2⟩ := arith.2 hout
      rw [dif_pos a1, getElem_contents]
      congr 1
      rcases idx_cases r (r.lenN + ch.length - r.n + i) with ⟨b1, b2⟩ | ⟨b1, b2⟩ <;> rw [b2] <;> omega

theorem qPush_nil {n : Nat} {q : List Nat} (h : q.length ≤ n) : qPush n q [] = q := by
  have : q.length - n = 0 := by omega
  simp [qPush, this]

theorem qPush_qPush (n : Nat) (c a b : List Nat) : qPush n (qPush n c a) b = qPush n c (a ++ b) := by
  unfold qPush
  have hx : (c ++ a).length - n ≤ (c ++ a).length := Nat.sub_le _ _
  rw [← List.drop_append_of_le_length hx, List.drop_drop]
  congr 1
  · simp only [List.length_append, List.length_drop]; omega
  · simp


/-- **the loop of `push` (overflow included) never panics, never runs out of fuel, and is `qPush`** -/
theorem pushLoop_spec : ∀ (fuel : Nat) {r : Ring} {d : List Nat} {offset : Nat}, RingInv r → r.buf.length = r.n →
    d.length < USIZE → offset ≤ d.length → d.length - offset ≤ fuel →
    ∃ r2, pushLoop fuel r d offset = .ok r2 ∧ RingInv r2 ∧ r2.buf.length = r2.n ∧ r2.n = r.n ∧
      r2.contents = qPush r.n r.contents (d.drop offset) := by
  intro fuel
  induction fuel with
  | zero =>
    intro r d offset hi hb hd ho hf
    have h0 : ¬ offset < d.length := by omega
    have hnil : d.drop offset = [] := List.drop_eq_nil_of_le (by omega)
    refine ⟨r, by simp only [pushLoop, h0, if_false], hi, hb, rfl, ?_⟩
    rw [hnil]; exact (qPush_nil (by rw [contents_length]; exact lenN_le hi)).symm
  | succ fuel ih =>
    intro r d offset hi hb hd ho hf
    by_cases h0 : offset < d.length
    · obtain ⟨_, he⟩ := hi.lt
      obtain ⟨K, hK⟩ : ∃ K, K = min (r.n - r.end_) (d.length - offset) := ⟨_, rfl⟩
      have hl : ((d.drop offset).take K).length = K := by
        simp only [List.length_take, List.length_drop]; omega
      obtain ⟨c1, c2, c3, c4⟩ := chunkT_spec hi hb (ch := (d.drop offset).take K)
        (by rw [hl]; omega) (by rw [hl]; omega)
      obtain ⟨r2, i1, i2, i3, i4, i5⟩ := ih (r := r.chunkT ((d.drop offset).take K)) (d := d)
        (offset := offset + K) c1 (by rw [c2, c3]) hd (by omega) (by omega)
      refine ⟨r2, ?_, i2, i3, i4.trans c3, ?_⟩
      · simp only [pushLoop, h0, if_true, pushIter_ok hi hb h0 hd, ← hK]
        exact i1
      · rw [i5, c3, c4, qPush_qPush]
        congr 1
        rw [← List.drop_drop, List.take_append_drop]
    · have hnil : d.drop offset = [] := List.drop_eq_nil_of_le (by omega)
      refine ⟨r, by simp only [pushLoop, h0, if_false], hi, hb, rfl, ?_⟩
      rw [hnil]; exact (qPush_nil (by rw [contents_length]; exact lenN_le hi)).symm

/-- `resize_default(N)`: allocates the storage of a fresh ring, nothing else changes -/
theorem resize_spec {r : Ring} (hi : RingInv r) :
    RingInv r.resize ∧ r.resize.buf.length = r.n ∧ r.resize.n = r.n ∧ r.resize.start = r.start ∧
    r.resize.end_ = r.end_ ∧ r.resize.nonEmpty = r.nonEmpty ∧ r.resize.contents = r.contents := by
  have hp := hi.pos
  rcases hi.shape with h | ⟨h1, h2, h3, h4⟩
  · have : r.resize = r := by
      unfold resize
      have hnl : ¬ r.buf.length < r.n := by omega
      have ht : r.buf.take r.n = r.buf := by rw [← h, List.take_length]
      simp only [hnl, if_false, ht]
    rw [this]
    exact ⟨hi, h, rfl, rfl, rfl, rfl, rfl⟩
  · have hbl : r.resize.buf.length = r.n := by
      unfold resize; simp [h1, hp]
    refine ⟨{ pos := hi.pos, small := hi.small, lt := hi.lt, shape := Or.inl hbl, empty := hi.empty },
      hbl, rfl, rfl, rfl, rfl, ?_⟩
    have e1 : r.resize.lenN = 0 := lenN_empty h4
    have e2 : r.lenN = 0 := lenN_empty h4
    unfold contents
    rw [e1, e2]
    rfl

/-- **`push` never panics** (any data a slice can hold, overflow of the ring included) and is `qPush`;
the value returned is the new `len()` -/
theorem push_spec {r : Ring} (hi : RingInv r) (d : List Nat) (hd : d.length < USIZE) :
    ∃ r2, r.push d = .ok (r2, r2.lenN) ∧ RingInv r2 ∧ r2.n = r.n ∧ r2.contents = qPush r.n r.contents d := by
  obtain ⟨a1, a2, a3, _, _, _, a7⟩ := resize_spec hi
  obtain ⟨r2, p1, p2, _, p4, p5⟩ := pushLoop_spec (d.length + 1) (r := r.resize) (d := d) (offset := 0) a1
    (by rw [a2, a3]) hd (Nat.zero_le _) (by omega)
  refine ⟨r2, ?_, p2, p4.trans a3, ?_⟩
  · simp only [push, p1, len_ok p2]
  · rw [p5, a3, a7]; rfl

theorem pop_key (n s e want K S' L L' : Nat) (ne' : Bool) (hs : s < n) (he : e < n) (hw : 1 ≤ want)
    (hL : L = if s < e then e - s else n + e - s)
    (hK : K = min ((if s < e then e else n) - s) want)
    (hS : S' = if s + K = n then 0 else s + K)
    (hne : ne' = if S' = e then false else true)
    (hL' : L' = if ne' = false then 0 else if S' < e then e - S' else n + e - S') :
    1 ≤ K ∧ K ≤ want ∧ K ≤ L ∧ S' < n ∧ L' = L - K ∧ (ne' = false → S' = e) ∧ s + K ≤ n := by
  by_cases hse : s < e
  · simp only [hse, if_true] at hL hK
    by_cases hw : s + K = n
    · omega
    · simp only [hw, if_false] at hS
      by_cases hSe : S' = e
      · simp only [hSe, if_true] at hne
        simp only [hne, if_true] at hL'
        refine ⟨by omega, by omega, by omega, by omega, by omega, fun _ => hSe, by omega⟩
      · simp only [hSe, if_false] at hne
        simp only [hne, Bool.true_eq_false, if_false] at hL'
        refine ⟨by omega, by omega, by omega, by omega, ?_, (fun h => by rw [hne] at h; cases h), by omega⟩
        split at hL' <;> omega
  · simp only [hse, if_false] at hL hK
    by_cases hw : s + K = n
    · simp only [hw, if_true] at hS
      by_cases hSe : S' = e
      · simp only [hSe, if_true] at hne
        simp only [hne, if_true] at hL'
        refine ⟨by omega, by omega, by omega, by omega, by omega, fun _ => hSe, by omega⟩
      · simp only [hSe, if_false] at hne
        simp only [hne, Bool.true_eq_false, if_false] at hL'
        refine ⟨by omega, by omega, by omega, by omega, ?_, (fun h => by rw [hne] at h; cases h), by omega⟩
        split at hL' <;> omega
    · simp only [hw, if_false] at hS
      by_cases hSe : S' = e
      · omega
      · simp only [hSe, if_false] at hne
        simp only [hne, Bool.true_eq_false, if_false] at hL'
        refine ⟨by omega, by omega, by omega, by omega, ?_, (fun h => by rw [hne] at h; cases h), by omega⟩
        split at hL' <;> omega

theorem pop_idx (n s e want K S' L i : Nat) (hs : s < n) (he : e < n) (hw : 1 ≤ want)
    (hL : L = if s < e then e - s else n + e - s)
    (hK : K = min ((if s < e then e else n) - s) want)
    (hS : S' = if s + K = n then 0 else s + K) (hi : i < L - K) :
    (if S' + i < n then S' + i else S' + i - n) = (if s + (K + i) < n then s + (K + i) else s + (K + i) - n) := by
  by_cases hse : s < e
  · simp only [hse, if_true] at hL hK
    split at hS <;> split <;> split <;> omega
  · simp only [hse, if_false] at hL hK
    split at hS <;> split <;> split <;> omega


/-- the ring after one iteration of the `pop` loop that copied `K` bytes out -/
def popT (r : Ring) (K : Nat) : Ring :=
  { r with start := if r.start + K = r.n then 0 else r.start + K,
           nonEmpty := if (if r.start + K = r.n then 0 else r.start + K) = r.end_ then false else true }

/-- one iteration of the `pop` loop on a non-empty ring **does not panic** -/
theorem popIter_ok {r : Ring} (hi : RingInv r) (hne : r.nonEmpty = true) {k offset : Nat}
    (ho : offset < k) (hk : k < USIZE) :
    r.popIter k offset =
      .ok (r.popT (min ((if r.start < r.end_ then r.end_ else r.n) - r.start) (k - offset)),
           (r.buf.drop r.start).take (min ((if r.start < r.end_ then r.end_ else r.n) - r.start) (k - offset)),
           offset + min ((if r.start < r.end_ then r.end_ else r.n) - r.start) (k - offset)) := by
  obtain ⟨hs, he⟩ := hi.lt
  have hsm := hi.small
  have hb := buf_length_of_nonEmpty hi hne
  obtain ⟨K, hK⟩ : ∃ K, K = min ((if r.start < r.end_ then r.end_ else r.n) - r.start) (k - offset) := ⟨_, rfl⟩
  have hle : r.start ≤ (if r.start < r.end_ then r.end_ else r.n) := by split <;> omega
  have hKn : r.start + K ≤ r.n := by
    have : (if r.start < r.end_ then r.end_ else r.n) ≤ r.n := by split <;> omega
    omega
  have hl : ((r.buf.drop r.start).take K).length = K := by
    simp only [List.length_take, List.length_drop, hb]; omega
  have e1 : (if r.end_ = r.n then 0 else r.end_) = r.end_ := by
    have : r.end_ ≠ r.n := by omega
    simp only [this, if_false]
  unfold popIter
  simp only [hb, usub_ok hle, usub_ok (Nat.le_of_lt ho), bind, Except.bind, ← hK,
    uadd_ok (a := offset) (b := K) (by omega), checkRange_ok (a := offset) (b := offset + K) (len := k) (by omega) (by omega),
    uadd_ok (a := r.start) (b := K) (by omega),
    slice_ok (s := r.buf) (a := r.start) (b := r.start + K) (by omega) (by omega), Nat.add_sub_cancel_left, hl,
    ne_eq, not_true_eq_false, if_false, wrap, popT, e1, hne]

theorem popT_spec {r : Ring} (hi : RingInv r) (hne : r.nonEmpty = true) {want : Nat} (hw : 1 ≤ want)
    {K : Nat} (hK : K = min ((if r.start < r.end_ then r.end_ else r.n) - r.start) want) :
    RingInv (r.popT K) ∧ (r.popT K).n = r.n ∧ 1 ≤ K ∧ K ≤ want ∧
    (r.buf.drop r.start).take K = r.contents.take K ∧
    (r.popT K).contents = r.contents.drop K := by
  obtain ⟨hs, he⟩ := hi.lt
  have hb := buf_length_of_nonEmpty hi hne
  have hlen : r.lenN = if r.start < r.end_ then r.end_ - r.start else r.n + r.end_ - r.start := by
    unfold lenN; simp only [hne, Bool.true_eq_false, if_false]
  obtain ⟨S', hS⟩ : ∃ S', S' = if r.start + K = r.n then 0 else r.start + K := ⟨_, rfl⟩
  obtain ⟨ne', hne'⟩ : ∃ ne' : Bool, ne' = if S' = r.end_ then false else true := ⟨_, rfl⟩
  have hr' : r.popT K = { r with start := S', nonEmpty := ne' } := by
    simp only [popT, ← hS, hne']
  have hl' : ({ r with start := S', nonEmpty := ne' } : Ring).lenN =
      if ne' = false then 0 else if S' < r.end_ then r.end_ - S' else r.n + r.end_ - S' := rfl
  obtain ⟨k1, k2, k3, k4, k5, k6, k7⟩ := pop_key r.n r.start r.end_ want K S' r.lenN _ ne' hs he hw hlen hK hS hne' hl'
  rw [hr']
  refine ⟨?_, rfl, k1, k2, ?_, ?_⟩
  · exact { pos := hi.pos, small := hi.small, lt := ⟨k4, he⟩, shape := Or.inl hb, empty := k6 }
  · apply List.ext_getElem
    · simp only [List.length_take, List.length_drop, contents_length, hb]; omega
    · intro i h1 h2
      have hiK : i < K := by
        have := h1
        simp only [List.length_take, List.length_drop, hb] at this
        omega
      simp only [List.getElem_take, List.getElem_drop, getElem_contents]
      have hidx : r.idx i = r.start + i := by
        rcases idx_cases r i with ⟨_, b⟩ | ⟨b1, _⟩
        · exact b
        · omega
      rw [hidx, List.getD_eq_getElem?_getD, List.getElem?_eq_getElem (by omega)]
      rfl
  · apply List.ext_getElem
    · simp only [contents_length, List.length_drop]; omega
    · intro i h1 h2
      simp only [contents_length] at h1
      simp only [List.getElem_drop, getElem_contents]
      congr 1
      exact pop_idx r.n r.start r.end_ want K S' r.lenN i hs he hw hlen hK hS (by omega)

/-- **the loop of `pop` never panics, never runs out of fuel, and hands out the first
`out_buf.len() - offset` bytes (or all of them)** -/
theorem popLoop_spec : ∀ (fuel : Nat) {r : Ring} {k offset : Nat} {acc : List Nat}, RingInv r → k < USIZE →
    offset ≤ k → k - offset ≤ fuel →
    ∃ r2 out, popLoop fuel r k offset acc = .ok (r2, out) ∧ RingInv r2 ∧ r2.n = r.n ∧
      out = acc ++ r.contents.take (k - offset) ∧ r2.contents = r.contents.drop (k - offset) := by
  intro fuel
  induction fuel with
  | zero =>
    intro r k offset acc hi hk ho hf
    have h0 : ¬ offset < k := by omega
    have hz : k - offset = 0 := by omega
    refine ⟨r, acc, by simp [popLoop, h0], hi, rfl, by simp [hz], by simp [hz]⟩
  | succ fuel ih =>
    intro r k offset acc hi hk ho hf
    by_cases hc : (decide (offset < k) && r.nonEmpty) = true
    · simp only [Bool.and_eq_true, decide_eq_true_eq] at hc
      obtain ⟨h0, hne⟩ := hc
      obtain ⟨K, hK⟩ : ∃ K, K = min ((if r.start < r.end_ then r.end_ else r.n) - r.start) (k - offset) := ⟨_, rfl⟩
      obtain ⟨c1, c2, c3, c4, c5, c6⟩ := popT_spec hi hne (want := k - offset) (by omega) hK
      obtain ⟨r2, out, i1, i2, i3, i4, i5⟩ := ih (r := r.popT K) (k := k) (offset := offset + K)
        (acc := acc ++ (r.buf.drop r.start).take K) c1 hk (by omega) (by omega)
      refine ⟨r2, out, ?_, i2, i3.trans c2, ?_, ?_⟩
      · simp only [popLoop, h0, hne, decide_true, Bool.and_self, if_true, popIter_ok hi hne h0 hk, ← hK]
        exact i1
      · rw [i4, c6, c5, List.append_assoc]
        congr 1
        have e : k - offset = K + (k - (offset + K)) := by omega
        conv => rhs; rw [e, List.take_add]
      · rw [i5, c6, List.drop_drop]; congr 1; omega
    · have hc2 : (decide (offset < k) && r.nonEmpty) = false := by simpa using hc
      refine ⟨r, acc, by simp only [popLoop, hc2, Bool.false_eq_true, if_false], hi, rfl, ?_, ?_⟩
      · simp only [Bool.and_eq_false_iff, decide_eq_false_iff_not] at hc2
        rcases hc2 with h0 | h0
        · have hz : k - offset = 0 := by omega
          simp [hz]
        · have : r.contents = [] := by
            apply List.eq_nil_of_length_eq_zero; rw [contents_length]; exact lenN_empty h0
          simp [this]
      · simp only [Bool.and_eq_false_iff, decide_eq_false_iff_not] at hc2
        rcases hc2 with h0 | h0
        · have hz : k - offset = 0 := by omega
          simp [hz]
        · have : r.contents = [] := by
            apply List.eq_nil_of_length_eq_zero; rw [contents_length]; exact lenN_empty h0
          simp [this]

/-- **`pop` never panics** (any `out_buf` length, more than available included) -/
theorem pop_spec {r : Ring} (hi : RingInv r) (k : Nat) (hk : k < USIZE) :
    ∃ r2, r.pop k = .ok (r2, r.contents.take k) ∧ RingInv r2 ∧ r2.n = r.n ∧ r2.contents = r.contents.drop k := by
  obtain ⟨r2, out, a, b, c, d, e⟩ := popLoop_spec (k + 1) (r := r) (k := k) (offset := 0) (acc := []) hi hk
    (Nat.zero_le _) (by omega)
  simp only [Nat.sub_zero, List.nil_append] at d e
  exact ⟨r2, by rw [pop, a, d], b, c, e⟩

theorem one_lt_usize {r : Ring} (hi : RingInv r) : 1 < USIZE := by
  have := hi.pos; have := hi.small; omega

/-- **`pop_byte` never panics** -/
theorem popByte_spec {r : Ring} (hi : RingInv r) :
    ∃ r2, r.popByte = .ok (r2, r.contents.head?) ∧ RingInv r2 ∧ r2.n = r.n ∧ r2.contents = r.contents.drop 1 := by
  obtain ⟨r2, a, b, c, d⟩ := pop_spec hi 1 (one_lt_usize hi)
  refine ⟨r2, ?_, b, c, d⟩
  unfold popByte
  rw [a]
  cases hq : r.contents with
  | nil => rfl
  | cons x t => cases t <;> rfl

/-- **`push_byte` never panics** and is `qPush` of one byte -/
theorem pushByte_spec {r : Ring} (hi : RingInv r) (b : Nat) :
    ∃ r2, r.pushByte b = .ok (r2, r2.lenN) ∧ RingInv r2 ∧ r2.n = r.n ∧ r2.contents = qPush r.n r.contents [b] := by
  obtain ⟨a1, a2, a3, a4, a5, a6, a7⟩ := resize_spec hi
  obtain ⟨hs, he⟩ := a1.lt
  have hsm := a1.small
  rw [a3] at hs he hsm
  obtain ⟨c1, c2, c3, c4⟩ := chunkT_spec a1 (by rw [a2, a3]) (ch := [b]) (by simp)
    (by simp only [List.length_singleton, a3]; omega)
  refine ⟨r.resize.chunkT [b], ?_, c1, c3.trans a3, by rw [c4, a3, a7]⟩
  have hset : r.resize.buf.set r.resize.end_ b =
      r.resize.buf.take r.resize.end_ ++ [b] ++ r.resize.buf.drop (r.resize.end_ + 1) := by
    rw [List.set_eq_take_append_cons_drop, if_pos (by rw [a2]; exact he)]
    simp
  have hbl : (r.resize.buf.take r.resize.end_ ++ [b] ++ r.resize.buf.drop (r.resize.end_ + 1)).length = r.n := by
    simp only [List.length_append, List.length_take, List.length_drop, List.length_singleton, a2]; omega
  have hst : (if (r.resize.nonEmpty && r.resize.start == r.resize.end_) = true
        then uadd r.resize.end_ 1 "push_byte: end + 1" else Except.ok r.resize.start) =
      .ok (if (r.resize.nonEmpty && decide (r.resize.start ≥ r.resize.end_) &&
            decide (r.resize.start < r.resize.end_ + 1)) = true then r.resize.end_ + 1 else r.resize.start) := by
    have hc : (r.resize.nonEmpty && r.resize.start == r.resize.end_) =
        (r.resize.nonEmpty && decide (r.resize.start ≥ r.resize.end_) && decide (r.resize.start < r.resize.end_ + 1)) := by
      cases r.resize.nonEmpty
      · simp
      · simp only [Bool.true_and]
        by_cases h : r.resize.start = r.resize.end_
        · rw [h]; simp
        · have : (r.resize.start == r.resize.end_) = false := by simpa using h
          rw [this]
          by_cases h2 : r.resize.start ≥ r.resize.end_
          · have : ¬ (r.resize.start < r.resize.end_ + 1) := by omega
            simp [this]
          · simp [h2]
    rw [hc]
    split
    · exact uadd_ok (by omega) _
    · rfl
  have hlen := len_ok c1
  unfold pushByte
  dsimp only
  simp only [setIdx_ok (buf := r.resize.buf) (i := r.resize.end_) (by rw [a2]; exact he), hset]
  rw [hst]
  simp only [uadd_ok (a := r.resize.end_) (b := 1) (by omega), wrap, hbl,
    start_closed r.resize.nonEmpty r.resize.start r.resize.end_ 1 r.n hs]
  simp only [chunkT, List.length_singleton, a3] at hlen ⊢
  simp only [hlen]

theorem clear_spec {r : Ring} (hi : RingInv r) : RingInv r.clear ∧ r.clear.n = r.n ∧ r.clear.contents = [] := by
  refine ⟨{ pos := hi.pos, small := hi.small, lt := ⟨hi.pos, hi.pos⟩, shape := ?_, empty := (fun _ => rfl) }, rfl, ?_⟩
  · rcases hi.shape with h | ⟨h, _⟩
    · exact Or.inl h
    · exact Or.inr ⟨h, rfl, rfl, rfl⟩
  · apply List.eq_nil_of_length_eq_zero
    rw [contents_length]; exact lenN_empty rfl

theorem isFull_spec {r : Ring} (hi : RingInv r) : r.isFull = (r.lenN == r.n && decide (r.n > 0)) := by
  obtain ⟨hs, he⟩ := hi.lt
  have hp := hi.pos
  unfold isFull lenN
  cases hne : r.nonEmpty
  · have : (0 == r.n) = false := by simp; omega
    simp [this]
  · simp only [Bool.and_true, Bool.true_eq_false, if_false, hp, decide_true]
    by_cases h : r.start = r.end_
    · simp [h]
    · have h1 : (r.start == r.end_) = false := by simpa using h
      rw [h1]
      symm
      simp only [beq_eq_false_iff_ne, ne_eq]
      split <;> omega

theorem isEmpty_spec {r : Ring} (hi : RingInv r) : r.isEmpty = r.contents.isEmpty := by
  obtain ⟨hs, he⟩ := hi.lt
  unfold isEmpty
  cases hne : r.nonEmpty
  · have : r.contents = [] := by
      apply List.eq_nil_of_length_eq_zero; rw [contents_length]; exact lenN_empty hne
    simp [this]
  · have hl : r.lenN = if r.start < r.end_ then r.end_ - r.start else r.n + r.end_ - r.start := by
      unfold lenN; simp only [hne, Bool.true_eq_false, if_false]
    have : r.contents ≠ [] := by
      intro h0
      have : r.contents.length = 0 := by rw [h0]; rfl
      rw [contents_length] at this
      split at hl <;> omega
    simp [this]

/-- **the observers never panic**: `len` / `free` / `is_full` / `is_empty` say what the contents say -/
theorem obs_spec {r : Ring} (hi : RingInv r) (out : List Nat) : r.obs out = .ok (qObs r.n r.contents out) := by
  unfold obs
  simp only [len_ok hi, free_ok hi, bind, Except.bind]
  unfold qObs
  rw [isFull_spec hi, isEmpty_spec hi, contents_length]

/-- the representation relation between the ring buffer and the byte queue -/
def Rep (n : Nat) (r : Ring) (q : List Nat) : Prop := RingInv r ∧ r.n = n ∧ r.contents = q

theorem rep_new (n : Nat) (h : 0 < n) (hs : 2 * n ≤ USIZE) : Rep n (Ring.new n) [] := by
  refine ⟨inv_new n h hs, rfl, ?_⟩
  apply List.eq_nil_of_length_eq_zero
  rw [contents_length]; exact lenN_empty rfl

end Ring

/-- what the Rust type system guarantees about the arguments: a slice (`data: &[u8]`,
`out_buf: &mut [u8]`) has at most `isize::MAX < 2^64` elements. Not a restriction on the caller. -/
def RingOp.Wf : RingOp → Prop
  | .push d => d.length < USIZE
  | .pop k => k < USIZE
  | _ => True

namespace Ring

/-- the ring and the bytes handed out, on the queue side -/
theorem apply_refines {n : Nat} {r : Ring} {q : List Nat} (h : Rep n r q) (op : RingOp) (hw : op.Wf) :
    ∃ r2, r.apply op = .ok (r2, (qStep n q op).2.out) ∧ Rep n r2 (qStep n q op).1 := by
  obtain ⟨hi, hn, hq⟩ := h
  subst hn hq
  cases op with
  | push d =>
    obtain ⟨r2, a, b, c, e⟩ := push_spec hi d hw
    exact ⟨r2, by simp only [Ring.apply, a, bind, Except.bind]; rfl, b, c, e⟩
  | pop k =>
    obtain ⟨r2, a, b, c, e⟩ := pop_spec hi k hw
    exact ⟨r2, by simp only [Ring.apply, a]; rfl, b, c, e⟩
  | pushByte x =>
    obtain ⟨r2, a, b, c, e⟩ := pushByte_spec hi x
    exact ⟨r2, by simp only [Ring.apply, a, bind, Except.bind]; rfl, b, c, e⟩
  | popByte =>
    obtain ⟨r2, a, b, c, e⟩ := popByte_spec hi
    refine ⟨r2, ?_, b, c, e⟩
    simp only [Ring.apply, a, bind, Except.bind, qStep, qPop, qObs]
    cases r.contents <;> rfl
  | clear =>
    obtain ⟨a, b, c⟩ := clear_spec hi
    exact ⟨r.clear, rfl, a, b, c⟩

/-- **Refinement, one operation — and no panic**: if the ring represents the queue `q`, then any
operation of `ringbuf.rs` (followed by the observers) returns normally, the ring then represents the
queue after the corresponding queue operation, and the user observes the same bytes / `len` /
`free` / `is_full` / `is_empty`. -/
theorem step_refines {n : Nat} {r : Ring} {q : List Nat} (h : Rep n r q) (op : RingOp) (hw : op.Wf) :
    ∃ r2, r.step op = .ok (r2, (qStep n q op).2) ∧ Rep n r2 (qStep n q op).1 := by
  obtain ⟨r2, a, b⟩ := apply_refines h op hw
  refine ⟨r2, ?_, b⟩
  obtain ⟨bi, bn, bq⟩ := b
  simp only [Ring.step, a, bind, Except.bind, obs_spec bi, bn, bq]
  cases op <;> rfl

/-- **`RingBuf<N>` refines the bounded byte FIFO and never panics**: for every capacity
`0 < N ≤ 2^63` and every sequence of `push` (any length, overflow included) / `pop` / `push_byte` /
`pop_byte` / `clear`, a ring buffer that starts empty returns normally from every call, hands out
exactly the bytes, and reports exactly the `len`, `free`, `is_full`, `is_empty`, of the byte queue —
whatever the positions of `start` / `end` and however often they wrap. -/
theorem ring_refines_queue (n : Nat) (hn : 0 < n) (hs : 2 * n ≤ USIZE) (ops : List RingOp)
    (hw : ∀ op ∈ ops, op.Wf) : Ring.run (Ring.new n) ops = .ok (Ring.qRun n [] ops) := by
  suffices h : ∀ (ops : List RingOp) (r : Ring) (q : List Nat), (∀ op ∈ ops, op.Wf) → Rep n r q →
      Ring.run r ops = .ok (Ring.qRun n q ops) from h ops _ _ hw (rep_new n hn hs)
  intro ops
  induction ops with
  | nil => intro r q _ _; rfl
  | cons op ops ih =>
    intro r q hw h
    obtain ⟨r2, h1, h2⟩ := step_refines h op (hw op (List.mem_cons_self))
    simp only [Ring.run, Ring.qRun, h1, ih r2 _ (fun o ho => hw o (List.mem_cons_of_mem _ ho)) h2]

/-- the rings a user can reach from `RingBuf::<N>::new()` with the public operations -/
inductive Reach (n : Nat) : Ring → Prop where
  | new : Reach n (Ring.new n)
  | step {r r2 : Ring} {o : RingObs} (op : RingOp) : Reach n r → op.Wf → r.step op = .ok (r2, o) → Reach n r2

/-- every reachable ring satisfies the representation invariant -/
theorem reach_inv {n : Nat} (hn : 0 < n) (hs : 2 * n ≤ USIZE) {r : Ring} (h : Reach n r) :
    RingInv r ∧ r.n = n := by
  induction h with
  | new => exact ⟨inv_new n hn hs, rfl⟩
  | step op _ hw hst ih =>
    obtain ⟨r3, a, b, c, _⟩ := step_refines (n := n) (q := _) ⟨ih.1, ih.2, rfl⟩ op hw
    rw [a] at hst
    cases hst
    exact ⟨b, c⟩

/-- **No panic, ever**: on every ring reachable from `RingBuf::<N>::new()` (`0 < N ≤ 2^63`), every
public operation — with any data, any output buffer length — and every observer returns normally
(no arithmetic overflow, no index / slice range panic, no `copy_from_slice` length mismatch, no
endless loop). -/
theorem ring_never_panics {n : Nat} (hn : 0 < n) (hs : 2 * n ≤ USIZE) {r : Ring} (h : Reach n r) :
    (∀ d, d.length < USIZE → ∃ r2 l, r.push d = .ok (r2, l)) ∧
    (∀ k, k < USIZE → ∃ r2 out, r.pop k = .ok (r2, out)) ∧
    (∀ b, ∃ r2 l, r.pushByte b = .ok (r2, l)) ∧
    (∃ r2 o, r.popByte = .ok (r2, o)) ∧
    (∃ l, r.len = .ok l) ∧ (∃ f, r.free = .ok f) ∧
    (∀ op, op.Wf → ∃ r2 o, r.step op = .ok (r2, o)) := by
  obtain ⟨hi, hrn⟩ := reach_inv hn hs h
  refine ⟨?_, ?_, ?_, ?_, ⟨_, len_ok hi⟩, ⟨_, free_ok hi⟩, ?_⟩
  · intro d hd; obtain ⟨r2, a, _⟩ := push_spec hi d hd; exact ⟨r2, _, a⟩
  · intro k hk; obtain ⟨r2, a, _⟩ := pop_spec hi k hk; exact ⟨r2, _, a⟩
  · intro b; obtain ⟨r2, a, _⟩ := pushByte_spec hi b; exact ⟨r2, _, a⟩
  · obtain ⟨r2, a, _⟩ := popByte_spec hi; exact ⟨r2, _, a⟩
  · intro op hw
    obtain ⟨r2, a, _⟩ := step_refines (n := n) ⟨hi, hrn, rfl⟩ op hw
    exact ⟨r2, _, a⟩

/-! ## `N = 0`

`RingBuf<0>` is accepted by the compiler. `len`, `free`, `is_full`, `is_empty`, `clear`, `pop`,
`pop_byte` and `push(&[])` work (the ring is always empty, `free() = 0`); `push_byte` panics on
`self.buf[self.end]` (index 0 of an empty `Vec`); `push` of a non-empty slice neither panics nor
returns: each iteration of its loop copies `min(0 - 0, …) = 0` bytes and leaves `offset` at 0.
`RingInv` therefore demands `0 < N`. BTP instantiates `RingBuf<MAX_MESSAGE_SIZE>` with the
constant `MAX_MESSAGE_SIZE = 2 * MAX_RX_PACKET_SIZE = 3166` (session.rs:184/191, no const generic
on the session), so `N = 0` cannot occur there. -/

/-- `N = 0`: one iteration of the `push` loop makes no progress (`offset` stays 0) and reaches a
fixed point — the Rust loop `while offset < data.len()` spins forever -/
theorem zero_cap_pushIter (ne : Bool) (d : List Nat) :
    ({ n := 0, nonEmpty := ne } : Ring).pushIter d 0 = .ok ({ n := 0, nonEmpty := true }, 0) := by
  have h0 : (0 : Nat) + 0 < USIZE := by unfold USIZE; omega
  simp [pushIter, usub, uadd, slice, copyInto, wrap, h0, bind, Except.bind]

theorem zero_cap_pushLoop (fuel : Nat) (ne : Bool) (d : List Nat) (hd : 0 < d.length) :
    pushLoop fuel ({ n := 0, nonEmpty := ne } : Ring) d 0 = .error .hang := by
  induction fuel generalizing ne with
  | zero => simp only [pushLoop, hd, if_true]
  | succ fuel ih => simp only [pushLoop, hd, if_true, zero_cap_pushIter, ih]

/-- `N = 0`: `push` of a non-empty slice does not terminate (and does not panic) -/
theorem zero_cap_push_hangs (d : List Nat) (hd : d ≠ []) : (Ring.new 0).push d = .error .hang := by
  have : 0 < d.length := List.length_pos_iff.mpr hd
  have hr : (Ring.new 0).resize = ({ n := 0, nonEmpty := false } : Ring) := rfl
  simp only [push, hr, zero_cap_pushLoop _ _ d this]

/-- `N = 0`: `push_byte` panics (index out of bounds) -/
theorem zero_cap_pushByte_panics (b : Nat) :
    (Ring.new 0).pushByte b = .error (.panic "push_byte: buf[end]") := rfl

/-- `N = 0`: everything else works on the (always empty) ring -/
theorem zero_cap_rest (k : Nat) :
    (Ring.new 0).len = .ok 0 ∧ (Ring.new 0).free = .ok 0 ∧ (Ring.new 0).isFull = false ∧
    (Ring.new 0).isEmpty = true ∧ (Ring.new 0).pop k = .ok (Ring.new 0, []) ∧
    (Ring.new 0).popByte = .ok (Ring.new 0, none) ∧ (Ring.new 0).push [] = .ok (Ring.new 0, 0) ∧
    (Ring.new 0).clear = Ring.new 0 := by
  refine ⟨rfl, rfl, rfl, rfl, ?_, rfl, rfl, rfl⟩
  simp [pop, popLoop, Ring.new]

end Ring

/-! ## The buffer calls of the BTP receive window on the checked ring -/

/-- slice lengths `< 2^64` (guaranteed by the Rust type system) -/
def BufOp.Wf : BufOp → Prop
  | .accept pfx payload => (pfx.getD []).length < USIZE ∧ payload.length < USIZE
  | .fetch cap => cap < USIZE
  | .reset => True

namespace Ring

theorem rep_length_le {n : Nat} {r : Ring} {q : List Nat} (h : Rep n r q) : q.length ≤ n := by
  obtain ⟨hi, hn, hq⟩ := h
  rw [← hq, ← hn, contents_length]; exact lenN_le hi

theorem drain_refines {n : Nat} : ∀ (m : Nat) {r : Ring} {q : List Nat}, Rep n r q → m ≤ q.length →
    ∃ r2, drain m r = .ok (some r2) ∧ Rep n r2 (q.drop m) := by
  intro m
  induction m with
  | zero => intro r q h _; exact ⟨r, rfl, h⟩
  | succ m ih =>
    intro r q h hm
    obtain ⟨hi, hn, hq⟩ := h
    obtain ⟨r2, a, b, c, d⟩ := popByte_spec hi
    cases q with
    | nil => simp at hm
    | cons x t =>
      rw [hq] at a d
      obtain ⟨r3, e, f⟩ := ih (r := r2) (q := t) ⟨b, c.trans hn, d⟩ (by simpa using hm)
      exact ⟨r3, by simp only [drain, a, List.head?_cons]; exact e, by simpa using f⟩

theorem acceptBuf_refines {n : Nat} {r : Ring} {q : List Nat} (h : Rep n r q) (pfx : Option (List Nat))
    (payload : List Nat) (hp : (pfx.getD []).length < USIZE) (hd : payload.length < USIZE) :
    (n - q.length < (pfx.getD []).length + payload.length → r.acceptBuf pfx payload = .ok none) ∧
    (¬ n - q.length < (pfx.getD []).length + payload.length →
      ∃ r2, r.acceptBuf pfx payload = .ok (some r2) ∧ Rep n r2 (qPush n (qPush n q (pfx.getD [])) payload)) := by
  have hle := rep_length_le h
  obtain ⟨hi, hn, hq⟩ := h
  have hf : r.free = .ok (n - q.length) := by rw [free_ok hi, hn, ← hq, contents_length]
  constructor
  · intro hlt
    simp only [acceptBuf, hf, hlt, if_true]
  · intro hge
    cases pfx with
    | none =>
      obtain ⟨r2, a, b, c, d⟩ := push_spec hi payload hd
      refine ⟨r2, ?_, b, c.trans hn, ?_⟩
      · simp only [acceptBuf, hf, hge, if_false, pushPfx, a]
      · rw [d, hn, hq]; simp only [Option.getD_none]; rw [qPush_nil hle]
    | some p =>
      obtain ⟨r1, a1, b1, c1, d1⟩ := push_spec hi p hp
      obtain ⟨r2, a, b, c, d⟩ := push_spec b1 payload hd
      refine ⟨r2, ?_, b, (c.trans c1).trans hn, ?_⟩
      · simp only [acceptBuf, hf, hge, if_false, pushPfx, a1, a]
      · rw [d, d1, c1, hn, hq]; rfl

theorem fetchBuf_refines {n : Nat} {r : Ring} {lo hi : Nat} {rest : List Nat} (h : Rep n r (lo :: hi :: rest))
    (cap : Nat) (hc : cap < USIZE) (hl : lo + 256 * hi ≤ rest.length) :
    ∃ r4, r.fetchBuf cap = .ok (some (r4, rest.take (min (lo + 256 * hi) cap))) ∧
      Rep n r4 (rest.drop (lo + 256 * hi)) := by
  obtain ⟨hi0, hn, hq⟩ := h
  obtain ⟨r1, a1, b1, c1, d1⟩ := popByte_spec hi0
  rw [hq] at a1 d1
  obtain ⟨r2, a2, b2, c2, d2⟩ := popByte_spec b1
  rw [d1] at a2 d2
  simp only [List.drop_succ_cons, List.drop_zero, List.head?_cons] at a1 a2 d1 d2
  obtain ⟨r3, a3, b3, c3, d3⟩ := pop_spec b2 (min (lo + 256 * hi) cap) (by omega)
  rw [d2] at a3 d3
  obtain ⟨r4, a4, b4⟩ := drain_refines (n := n) (lo + 256 * hi - min (lo + 256 * hi) cap) (r := r3)
    (q := rest.drop (min (lo + 256 * hi) cap)) ⟨b3, ((c3.trans c2).trans c1).trans hn, d3⟩
    (by simp only [List.length_drop]; omega)
  refine ⟨r4, ?_, ?_⟩
  · have hlen : (rest.take (min (lo + 256 * hi) cap)).length = min (lo + 256 * hi) cap := by
      simp only [List.length_take]; omega
    simp only [fetchBuf, a1, a2, a3, hlen, ne_eq, not_true_eq_false, if_false, a4]
  · rw [List.drop_drop] at b4
    have : min (lo + 256 * hi) cap + (lo + 256 * hi - min (lo + 256 * hi) cap) = lo + 256 * hi := by omega
    rw [this] at b4
    exact b4

/-- one buffer operation of the receive window: if the session model's byte list can do it, the
checked ring does the same without panicking -/
theorem bufStep_refines {n : Nat} {r : Ring} {q : List Nat} (h : Rep n r q) (op : BufOp) (hw : op.Wf)
    {q2 : List Nat} {o : BufOut} (hq : qBufStep n q op = some (q2, o)) :
    ∃ r2, r.bufStep op = .ok (some (r2, o)) ∧ Rep n r2 q2 := by
  cases op with
  | accept pfx payload =>
    obtain ⟨x, y⟩ := acceptBuf_refines h pfx payload hw.1 hw.2
    simp only [qBufStep] at hq
    split at hq
    · rename_i hlt
      cases hq
      exact ⟨r, by simp only [bufStep, x hlt], h⟩
    · rename_i hge
      cases hq
      obtain ⟨r2, a, b⟩ := y hge
      exact ⟨r2, by simp only [bufStep, a], b⟩
  | fetch cap =>
    simp only [qBufStep] at hq
    split at hq
    · rename_i lo hi rest
      split at hq
      · rename_i hl
        cases hq
        obtain ⟨r4, a, b⟩ := fetchBuf_refines h cap hw hl
        exact ⟨r4, by simp only [bufStep, a], b⟩
      · cases hq
    · cases hq
  | reset =>
    cases hq
    obtain ⟨hi, hn, _⟩ := h
    obtain ⟨a, b, c⟩ := clear_spec hi
    exact ⟨r.clear, rfl, a, b.trans hn, c⟩

/-- **The receive window's buffer, run over the real ring**: for every sequence of the buffer calls
`RecvWindow` makes (`accept_incoming`: `free()` test, `push` of the length prefix, `push` of the
payload; `fetch_message`: `pop_byte` ×2, `pop`, `pop_byte`…; `reset`: `clear`), whenever the byte
list of the session model (`Model/Btp.lean`) can run it (no `fetch` on an incomplete message), the
checked `RingBuf<N>` started from `new()` never panics and gives the same answers. -/
theorem bufRun_refines (n : Nat) (hn : 0 < n) (hs : 2 * n ≤ USIZE) (ops : List BufOp) (hw : ∀ op ∈ ops, op.Wf)
    (outs : List BufOut) (hq : qBufRun n [] ops = some outs) :
    bufRun (Ring.new n) ops = .ok (some outs) := by
  suffices h : ∀ (ops : List BufOp) (r : Ring) (q : List Nat) (outs : List BufOut), (∀ op ∈ ops, op.Wf) →
      Rep n r q → qBufRun n q ops = some outs → bufRun r ops = .ok (some outs) from
    h ops _ _ outs hw (rep_new n hn hs) hq
  intro ops
  induction ops with
  | nil => intro r q outs _ _ h; simp only [qBufRun] at h; cases h; rfl
  | cons op ops ih =>
    intro r q outs hw h hrun
    simp only [qBufRun] at hrun
    split at hrun
    · cases hrun
    · rename_i q2 o hstep
      split at hrun
      · cases hrun
      · rename_i os hrest
        cases hrun
        obtain ⟨r2, a, b⟩ := bufStep_refines h op (hw op List.mem_cons_self) hstep
        simp only [bufRun, a, ih r2 q2 os (fun x hx => hw x (List.mem_cons_of_mem _ hx)) b hrest]

end Ring
end Btp
